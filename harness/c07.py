"""C07  Gate fusion and light-cone reduction preserve the meaning of a circuit.

Static part (Coq, built once): Base/Trace.v (trace equivalence `~`, sound checker), C07/Model.v
(executable model of to_fused / Circuit.fuse / FusedGate.fuse / from_fused / light_cone),
C07/Proofs.v + C07/Props.v (theorems about the model, universally quantified).

Per run (this file):
  * structural correspondence: the real `Circuit.fuse(max_qubits=k)` and `Circuit.light_cone(*S)`
    are executed on random and adversarial circuits; the output queue (fused groups with their
    members by gate identity, other gates, in order), the complete internal node state at the
    end of fusion (qubit sets, members, marks, both neighbour dictionaries) and the light-cone
    circuit + qubit map are compared with the model evaluated inside Coq (vm_compute);
  * per-instance certificate: for EVERY implementation output the proved-sound checker
    `trace_equiv_b` is evaluated in Coq on (flattened implementation output, original circuit),
    which is a kernel-checked proof that this output is a legal commutation of the input;
  * histories: in about half of the cases the parameters of some gates (angles, Unitary matrices) are replaced after
    the circuit was built (gate.parameters = ..., Circuit.set_parameters) and before fuse / light_cone; the gates
    of the light-cone circuit must carry the CURRENT parameters and matrices, the fused circuit must consist of
    the very gate objects of the input, and the exact executions run on the updated values;
  * added after round 4 (harness/c07_occ.py; gates identified by queue POSITION): the same object at several positions
    (plain / parametrised gate, Unitary, FusedGate from an earlier real fuse and its members, CallbackGate, collapsing M),
    measurements with every option (basis Z/X/Y/mixed, collapse, register names, p0/p1, density matrices) under
    fuse(1..3) and light_cone, and histories fuse -> execute -> update through source / gate / fused / shallow copy ->
    execute, re-fuse, add gates -- each execution compared with freshly built circuits; Coq side: C07/Occ.v,
    C07/PropsOcc.v (occurrences are positions; every occurrence is emitted once; faithful model of the re-added basis
    rotations of light_cone and its refutation);
  * semantic cross-check ("test"): original and fused circuit are executed by the real numpy
    backend on Gaussian-integer data (exact), light-cone circuits on signed-permutation unitaries
    with integer product states, reduced density matrices compared as integers.
"""
STATIC = ["C07/Props", "C07/PropsOcc"]
import itertools
import json
import random
from concurrent.futures import ThreadPoolExecutor

import numpy as np

from lib import vcore

HEADER = """From Coq Require Import List Bool Arith.
Import ListNotations.
From QV Require Import Base.Trace C07.Model.
Notation G := mkGate.
Notation O := KOrd.
Notation M := KMeas.
Notation Sp := KSpec.
"""

# ------------------------------------------------------------------ gate table
# name -> (number of extra controls, number of targets, constructor(targets) )
def _table():
    from qibo import gates as g
    U = lambda k: (lambda *q: g.Unitary(np.eye(2 ** k, dtype=complex)[::-1].copy(), *q))
    return {
        "H": (0, 1, g.H), "X": (0, 1, g.X), "Y": (0, 1, g.Y), "Z": (0, 1, g.Z), "S": (0, 1, g.S), "T": (0, 1, g.T),
        "RX": (0, 1, lambda q: g.RX(q, 0.25)), "RZ": (0, 1, lambda q: g.RZ(q, 0.5)),
        "U3": (0, 1, lambda q: g.U3(q, 0.1, 0.2, 0.3)), "U1q": (0, 1, U(1)),
        "CNOT": (0, 2, g.CNOT), "CZ": (0, 2, g.CZ), "SWAP": (0, 2, g.SWAP), "iSWAP": (0, 2, g.iSWAP),
        "CRX": (0, 2, lambda a, b: g.CRX(a, b, 0.3)), "fSim": (0, 2, lambda a, b: g.fSim(a, b, 0.1, 0.2)),
        "RXX": (0, 2, lambda a, b: g.RXX(a, b, 0.7)), "U2q": (0, 2, U(2)),
        "Hc1": (1, 1, g.H), "RYc1": (1, 1, lambda q: g.RY(q, 0.4)), "U1qc1": (1, 1, U(1)),
        "TOFFOLI": (0, 3, g.TOFFOLI), "CCZ": (0, 3, g.CCZ), "U3q": (0, 3, U(3)),
        "Xc2": (2, 1, g.X), "RYc2": (2, 1, lambda q: g.RY(q, 0.6)), "SWAPc1": (1, 2, g.SWAP), "U2qc1": (1, 2, U(2)),
        "CNOTc1": (1, 2, g.CNOT),
    }


TABLE = None
BY_ARITY = None


def table():
    global TABLE, BY_ARITY
    if TABLE is None:
        TABLE = _table()
        BY_ARITY = {1: [], 2: [], 3: []}
        for nm, (nc, nt, _) in TABLE.items():
            BY_ARITY[nc + nt].append(nm)
    return TABLE


def int_matrix(dim, rng):
    """sparse-ish Gaussian-integer matrix (not unitary: the statement is an operator equality)"""
    vals = [0, 0, 0, 1, -1, 1j, -1j, 1, 1 + 1j]
    m = np.array([[rng.choice(vals) for _ in range(dim)] for _ in range(dim)], dtype=complex)
    for i in range(dim):
        if m[i, i] == 0:
            m[i, i] = 1
    return m


def monomial_matrix(dim, rng):
    """exactly unitary integer matrix: permutation with phases in {1,-1,i,-i}"""
    perm = list(range(dim))
    rng.shuffle(perm)
    m = np.zeros((dim, dim), dtype=complex)
    for i, j in enumerate(perm):
        m[i, j] = rng.choice([1, -1, 1j, -1j])
    return m


def make_gate(desc, mode, rng):
    """desc = {"kind": "ord"|"M"|"cb"|"fin", "name": str, "q": [ints (controls first, then targets)]};
    kind "fin" = FusedGate used as an input gate, with "members": [ord descs] and q = its qubits"""
    from qibo import gates, callbacks
    kind, q = desc["kind"], list(desc["q"])
    if kind == "M":
        kw = {}
        if desc.get("basis") is not None:        # a name or a list of names (one per measured qubit)
            b = desc["basis"]
            kw["basis"] = getattr(gates, b) if isinstance(b, str) else [getattr(gates, x) for x in b]
        for key in ("p0", "p1"):
            if desc.get(key) is not None:
                v = desc[key]
                kw[key] = {int(a): float(p) for a, p in v.items()} if isinstance(v, dict) else v
        return gates.M(*q, collapse=bool(desc.get("collapse", False)), register_name=desc.get("reg"), **kw)
    if kind == "cb":
        return gates.CallbackGate(callbacks.Norm())
    if kind == "ch":
        # a noise channel: an ordinary (non-special, non-measurement) letter for fusion
        if len(q) == 1:
            return gates.PauliNoiseChannel(q[0], [("X", 0.125), ("Z", 0.25)])
        return gates.DepolarizingChannel(tuple(q), 0.25)
    if kind == "fin":
        # a FusedGate given as INPUT (e.g. the output of an earlier fuse)
        fg = gates.FusedGate(*q)
        for m in desc["members"]:
            fg.append(make_gate(m, mode, rng))
        return fg
    nc, nt, ctor = table()[desc["name"]]
    controls, targets = q[:nc], q[nc:]
    if mode == "named":
        g = ctor(*targets)
        g._desc = desc
    else:
        mat = int_matrix(2 ** nt, rng) if mode == "int" else monomial_matrix(2 ** nt, rng)
        g = gates.Unitary(mat, *targets, check_unitary=False)
    if controls:
        g = g.controlled_by(*controls)
    g._desc = desc
    return g


def build(n, descs, mode="named", seed=0):
    from qibo import Circuit
    rng = random.Random(seed)
    c = Circuit(n)
    for i, d in enumerate(descs):
        g = make_gate(d, mode, rng)
        g._vid = i
        g._desc = d
        c.add(g)
    assert len(c.queue) == len(descs)
    apply_updates(c, descs, mode, seed)
    return c


def new_params(g, mode, seed, i, k):
    """variant k of the parameters of gate g (None if g has no parameters)"""
    from qibo.gates.abstract import ParametrizedGate
    if not isinstance(g, ParametrizedGate):
        return None
    if type(g).__name__ == "Unitary":
        dim = 2 ** len(g.target_qubits)
        r = random.Random(seed * 7919 + i * 31 + k)
        if mode == "int":
            return int_matrix(dim, r)
        if mode == "perm":
            return monomial_matrix(dim, r)
        return np.roll(np.eye(dim, dtype=complex), k, axis=0) * (1j ** k)
    ps = tuple(float(x) + 0.5 * k for x in g.parameters)
    return ps[0] if len(ps) == 1 else ps


def apply_updates(c, descs, mode, seed):
    """the parameter-update history of a case: gates whose desc carries "upd" = {"k", "how"} get new
    parameters AFTER the circuit was built, through the gate setter or Circuit.set_parameters"""
    by_dict = {}
    for i, d in enumerate(descs):
        u = d.get("upd")
        if not u:
            continue
        g = c.queue[i]
        newp = new_params(g, mode, seed, i, u["k"])
        if newp is None:
            continue
        if u["how"] == "setter":
            g.parameters = newp
        else:
            by_dict[g] = newp
    if by_dict:
        c.set_parameters(by_dict)


def add_updates(rng, descs):
    """with probability 1/2 mark about half of the ordinary gates for a parameter update after construction"""
    if rng.random() < 0.5:
        return descs
    how = rng.choice(["setter", "set_parameters"])
    out = []
    for d in descs:
        if d["kind"] == "ord" and rng.random() < 0.5:
            d = dict(d)
            d["upd"] = {"k": rng.randint(1, 3), "how": how}
        out.append(d)
    return out


def params_equal(a, b):
    if len(a) != len(b):
        return False
    return all(np.array_equal(np.asarray(x), np.asarray(y)) for x, y in zip(a, b))


def kind_of(g):
    from qibo import gates
    if isinstance(g, gates.M):
        return "M"
    if isinstance(g, gates.SpecialGate):
        return "Sp"
    return "O"


def nl(xs):
    return "[" + ";".join(str(int(x)) for x in xs) + "]"


def coq_circuit(c):
    return "[" + "; ".join(f"G {g._vid} {nl(g.qubits)} {kind_of(g)}" for g in c.queue) + "]"


# ------------------------------------------------------------------ generators
def rand_gate(rng, n, p_m=0.08, p_cb=0.04, arity_w=(5, 5, 2)):
    table()
    r = rng.random()
    if r < p_m:
        k = rng.choice([1, 1, 2, 3])
        k = min(k, n)
        return {"kind": "M", "name": "M", "q": rng.sample(range(n), k), "collapse": rng.random() < 0.3}
    if r < p_m + p_cb:
        return {"kind": "cb", "name": "CallbackGate", "q": []}
    ar = rng.choices([1, 2, 3], weights=arity_w)[0]
    ar = min(ar, n)
    nm = rng.choice(BY_ARITY[ar])
    return {"kind": "ord", "name": nm, "q": rng.sample(range(n), ar)}


def og(name, *q):
    return {"kind": "ord", "name": name, "q": list(q)}


def gen_random(rng, nmax=6, lmax=12, **kw):
    n = rng.randint(1, nmax)
    return n, [rand_gate(rng, n, **kw) for _ in range(rng.randint(0, lmax))]


def gen_blocker(rng):
    """two fusion partners on (a,b) with non-commuting gates on overlapping qubits in between,
    surrounded by random gates"""
    table()
    n = rng.randint(3, 6)
    qs = rng.sample(range(n), 3)
    a, b, x = qs
    pre = [rand_gate(rng, n, p_m=0.03, p_cb=0.01) for _ in range(rng.randint(0, 3))]
    mid = []
    for _ in range(rng.randint(1, 3)):
        t = rng.random()
        if t < 0.4:
            mid.append(og(rng.choice(BY_ARITY[2]), *rng.sample([rng.choice([a, b]), x], 2)))
        elif t < 0.6:
            mid.append(og(rng.choice(BY_ARITY[1]), rng.choice([a, b, x])))
        elif t < 0.75 and n >= 4:
            y = rng.choice([q for q in range(n) if q not in qs])
            mid.append(og(rng.choice(BY_ARITY[2]), *rng.sample([x, y], 2)))
        elif t < 0.85:
            mid.append({"kind": "M", "name": "M", "q": [rng.choice([a, b, x])], "collapse": False})
        else:
            mid.append(og(rng.choice(BY_ARITY[3]), *rng.sample(qs, 3)))
    post = [rand_gate(rng, n, p_m=0.03, p_cb=0.01) for _ in range(rng.randint(0, 3))]
    first = og(rng.choice(BY_ARITY[2]), *rng.sample([a, b], 2))
    second = og(rng.choice(BY_ARITY[2]), *rng.sample([a, b], 2))
    return n, pre + [first] + mid + [second] + post


def gen_dense(rng):
    """many one- and two-qubit gates on few qubits (deep neighbour chains, many merges)"""
    n = rng.randint(2, 5)
    return n, [rand_gate(rng, n, p_m=0.04, p_cb=0.02, arity_w=(4, 6, 1)) for _ in range(rng.randint(6, 12))]


def gen_layers(rng):
    """brickwork: layer of 1q gates, layer of 2q gates on a random matching, repeated"""
    table()
    n = rng.randint(2, 6)
    out = []
    for _ in range(rng.randint(1, 3)):
        for q in range(n):
            if rng.random() < 0.7:
                out.append(og(rng.choice(BY_ARITY[1]), q))
        perm = list(range(n))
        rng.shuffle(perm)
        for i in range(0, n - 1, 2):
            if rng.random() < 0.8:
                out.append(og(rng.choice(BY_ARITY[2]), perm[i], perm[i + 1]))
    if rng.random() < 0.5:
        out.append({"kind": "M", "name": "M", "q": rng.sample(range(n), rng.randint(1, n)), "collapse": False})
    return n, out[:14]


def canon(d):
    if d["kind"] == "fin":
        return (d["name"], d["q"], [canon(m) for m in d["members"]])
    return (d["name"], d["q"], sorted(d["upd"].items())) if d.get("upd") else (d["name"], d["q"])


def show(d):
    if d["kind"] == "fin":
        return "Fused[" + ",".join(show(m) for m in d["members"]) + "]"
    return f"{d['name']}{tuple(d['q'])}" + ("*" if d.get("upd") else "")


def gen_refuse(rng):
    """the output of a real Circuit.fuse(k1) used as the input circuit (re-fusing, usually with another width)"""
    from qibo import gates
    while True:
        n, descs = rng.choice([gen_random, gen_blocker, gen_dense, gen_layers])(rng)
        descs = [d for d in descs if d["kind"] != "fin"]
        if n >= 2 and len(descs) >= 3 and valid(n, descs):
            break
    c = build(n, descs)
    f = c.fuse(max_qubits=rng.randint(1, min(n, 3)))
    out = []
    for g in f.queue:
        if isinstance(g, gates.FusedGate):
            out.append({"kind": "fin", "name": "FusedGate", "q": [int(x) for x in g.qubits], "members": [m._desc for m in g.gates]})
        else:
            out.append(g._desc)
    if rng.random() < 0.5:      # a few more plain gates around the fused ones
        for _ in range(rng.randint(1, 3)):
            out.insert(rng.randint(0, len(out)), rand_gate(rng, n, p_m=0.05, p_cb=0.02))
    return n, out


def gen_fused_inputs(rng):
    """random circuit with hand-made FusedGate inputs (1-3 ordinary members on <= 3 qubits)"""
    table()
    n = rng.randint(2, 6)
    out = []
    for _ in range(rng.randint(2, 10)):
        if rng.random() < 0.3:
            qs = rng.sample(range(n), rng.randint(1, min(3, n)))
            members = []
            for _ in range(rng.randint(1, 3)):
                ar = rng.randint(1, len(qs))
                members.append(og(rng.choice(BY_ARITY[ar]), *rng.sample(qs, ar)))
            out.append({"kind": "fin", "name": "FusedGate", "q": sorted(qs), "members": members})
        else:
            out.append(rand_gate(rng, n, p_m=0.06, p_cb=0.03))
    return n, out


def gen_nonunitary(rng):
    """unitaries interleaved with many non-unitary items: M (collapsing or not), noise channels, callbacks"""
    n = rng.randint(2, 6)
    out = []
    for _ in range(rng.randint(4, 12)):
        r = rng.random()
        if r < 0.2:
            out.append({"kind": "ch", "name": "Channel", "q": rng.sample(range(n), rng.choice([1, 1, 2]))})
        elif r < 0.35:
            out.append({"kind": "M", "name": "M", "q": rng.sample(range(n), rng.randint(1, min(2, n))),
                        "collapse": rng.random() < 0.5})
        elif r < 0.4:
            out.append({"kind": "cb", "name": "CallbackGate", "q": []})
        else:
            out.append(rand_gate(rng, n, p_m=0.0, p_cb=0.0, arity_w=(5, 5, 1)))
    return n, out


def gen_wide(rng):
    """registers of 9..12 qubits with most gates on the highest ids (>= 7), few qubits in play so that groups form
    (Python set iteration of small ints is increasing only below 8)"""
    table()
    n = rng.randint(9, 12)
    hot = rng.sample(range(6, n), min(rng.randint(2, 4), n - 6))
    if rng.random() < 0.3:
        hot.append(rng.randrange(0, 6))
    out = []
    for _ in range(rng.randint(2, 8)):
        r = rng.random()
        if r < 0.06:
            out.append({"kind": "M", "name": "M", "q": [rng.choice(hot)], "collapse": False})
            continue
        ar = min(rng.choices([1, 2, 3], weights=(5, 6, 1))[0], len(hot))
        out.append(og(rng.choice(BY_ARITY[ar]), *rng.sample(hot, ar)))
    return n, out


def gen_case(rng, i, channels=True):
    if i % 10 == 6:
        return gen_wide(rng)
    if channels and i % 20 == 7:
        return gen_nonunitary(rng)
    if i % 10 == 8:
        return gen_refuse(rng)
    if i % 10 == 9:
        return gen_fused_inputs(rng)
    t = i % 8
    if t in (0, 1, 2):
        return gen_random(rng)
    if t in (3, 4):
        return gen_blocker(rng)
    if t == 5:
        return gen_dense(rng)
    if t == 6:
        return gen_layers(rng)
    return gen_random(rng, p_m=0.2, p_cb=0.12)


def valid(n, descs):
    """drop descriptions the circuit constructor rejects (e.g. a qubit measured twice)"""
    try:
        build(n, descs)
        return True
    except Exception:
        return False


# ------------------------------------------------------------------ observing the implementation
def observe_fuse(c, k):
    """run the real Circuit.fuse; returns (fused circuit, output signature, node signatures)"""
    from qibo.models import circuit as cm
    from qibo import gates
    captured = {}
    orig = cm._Queue.from_fused

    def wrapped(self):
        captured["nodes"] = list(self)
        return orig(self)
    cm._Queue.from_fused = wrapped
    try:
        fused = c.fuse(max_qubits=k)
    finally:
        cm._Queue.from_fused = orig
    orig_ids = {id(g) for g in c.queue}
    out = []
    for g in fused.queue:
        if isinstance(g, gates.FusedGate) and id(g) not in orig_ids:
            out.append((True, list(g.target_qubits), [getattr(m, "_vid", 999) for m in g.gates]))
        else:
            out.append((False, [], [getattr(g, "_vid", 999)]))
    nodes = captured["nodes"]
    pos = {id(nd): i for i, nd in enumerate(nodes)}
    n = c.nqubits
    sigs = []
    for nd in nodes:
        assert all(0 <= q < n for q in list(nd.left_neighbors) + list(nd.right_neighbors))
        sigs.append((sorted(nd.qubit_set), [getattr(m, "_vid", 999) for m in nd.gates], bool(nd.marked),
                     [pos[id(nd.left_neighbors[q])] if q in nd.left_neighbors else None for q in range(n)],
                     [pos[id(nd.right_neighbors[q])] if q in nd.right_neighbors else None for q in range(n)]))
    return fused, out, sigs


def coq_opt(x):
    return "None" if x is None else f"Some {x}"


def coq_sig(s):
    return f"({'true' if s[0] else 'false'}, {nl(s[1])}, {nl(s[2])})"


def coq_node_sig(s):
    return (f"({nl(s[0])}, {nl(s[1])}, {'true' if s[2] else 'false'}, "
            f"[{';'.join(coq_opt(x) for x in s[3])}], [{';'.join(coq_opt(x) for x in s[4])}])")


def _gate_classes():
    from qibo.gates import abstract
    seen, todo = [], [abstract.Gate]
    while todo:
        k = todo.pop()
        if k not in seen:
            seen.append(k)
            todo += k.__subclasses__()
    return seen


class tag_on_qubits:
    """while active, every gate returned by some on_qubits carries the _vid of the gate it was made from"""

    def __enter__(self):
        self.saved = []
        for k in _gate_classes():
            if "on_qubits" in k.__dict__:
                orig = k.__dict__["on_qubits"]

                def w(self_, qmap, _o=orig):
                    g = _o(self_, qmap)
                    if g is not None and hasattr(self_, "_vid"):
                        g._vid = self_._vid
                    return g
                self.saved.append((k, orig))
                setattr(k, "on_qubits", w)
        return self

    def __exit__(self, *a):
        for k, orig in self.saved:
            setattr(k, "on_qubits", orig)


def observe_light_cone(c, S):
    with tag_on_qubits():
        lc, qmap = c.light_cone(*S)
    return lc, qmap


# ------------------------------------------------------------------ exact execution (tests)
LIMIT = 2 ** 50


def exact_state(c, psi):
    out = c(initial_state=psi.copy()).state()
    out = np.asarray(out)
    assert np.all(np.abs(out.real) < LIMIT) and np.all(np.abs(out.imag) < LIMIT)
    assert np.all(out.real == np.round(out.real)) and np.all(out.imag == np.round(out.imag))
    return out


def exec_fuse_check(n, descs, k, seed):
    """original vs fused circuit on Gaussian-integer gates and state; returns None if equal, else a dict"""
    rng = random.Random(seed)
    if any(d["kind"] == "ch" for d in descs):
        return "skip"          # a fused group containing a channel has no matrix (execution refuses)
    c = build(n, descs, "int", seed)
    if c.repeated_execution:
        return "skip"
    psi = np.array([complex(rng.randint(-2, 2), rng.randint(-2, 2)) for _ in range(2 ** n)])
    f = c.fuse(max_qubits=k)
    try:
        a = exact_state(c, psi)
    except Exception:
        return "skip"          # the original circuit is not executable at all (not a fusion matter)
    try:
        b = exact_state(f, psi)
    except Exception as e:
        return {"original": [str(x) for x in a], "fused_raises": repr(e)}
    if np.array_equal(a, b):
        return None
    return {"original": [str(x) for x in a], "fused": [str(x) for x in b]}


def reduced_dm(psi, n, S):
    """exact reduced density matrix on the sorted qubit list S of an integer state vector"""
    S = sorted(S)
    t = psi.reshape((2,) * n) if n else psi.reshape(())
    rest = [q for q in range(n) if q not in S]
    t = np.transpose(t, S + rest).reshape(2 ** len(S), 2 ** len(rest))
    return t @ t.conj().T


def exec_lc_check(n, descs, S, seed):
    """reduced state on S of the full circuit vs the light-cone circuit (signed-permutation
    unitaries, integer product input state); exact integers, norms accounted for"""
    rng = random.Random(seed)
    c = build(n, descs, "perm", seed)
    lc, qmap = c.light_cone(*S)
    loc = [np.array([complex(rng.randint(-2, 2), rng.randint(-2, 2)), complex(rng.randint(1, 2), rng.randint(-1, 1))])
           for _ in range(n)]
    def prod(qs):
        v = np.array([1 + 0j])
        for q in qs:
            v = np.kron(v, loc[q])
        return v
    full = exact_state(c, prod(range(n)))
    cone = sorted(qmap)
    red = exact_state(lc, prod(cone)) if cone else np.array([1 + 0j])
    scale = 1
    for q in range(n):
        if q not in qmap:
            scale *= int(round((abs(loc[q]) ** 2).sum()))
    A = reduced_dm(full, n, sorted(S))
    B = reduced_dm(red, len(cone), [qmap[q] for q in sorted(S)]) * scale
    assert np.all(np.abs(A) < LIMIT) and np.all(np.abs(B) < LIMIT)
    if np.array_equal(A, B):
        return None
    return {"full": A.tolist().__repr__(), "light_cone": B.tolist().__repr__()}


# ------------------------------------------------------------------ the checks
def fuse_cases(run, rng, count):
    cases = []
    i = 0
    while len(cases) < count:
        n, descs = gen_case(rng, i)
        i += 1
        descs = add_updates(rng, descs)
        if not valid(n, descs):
            continue
        kmax = n + (1 if rng.random() < 0.1 else 0)
        k = rng.randint(1, kmax) if rng.random() > 0.02 else 0
        if n >= 9 and rng.random() < 0.8:
            k = rng.randint(2, 4)
        cases.append((n, descs, k))
    return cases


def python_side_fuse_checks(c, fused, out, k):
    """property-level facts checked directly on the implementation output; returns list of problems"""
    from qibo import gates
    bad = []
    flat = [v for s in out for v in s[2]]
    if sorted(flat) != list(range(len(c.queue))):
        bad.append("gates lost or duplicated")
        return bad
    for s in out:
        if s[0]:
            if len(s[1]) > k:
                bad.append(f"fused group on {len(s[1])} qubits > max_qubits={k}")
            for v in s[2]:
                g = c.queue[v]
                if kind_of(g) != "O":
                    bad.append("measurement/special gate inside a fused group")
                if not set(g.qubits) <= set(s[1]):
                    bad.append("member acts outside the group's qubits")
    non_ord = [g._vid for g in c.queue if kind_of(g) != "O"]
    non_ord_out = [v for s in out for v in s[2] if kind_of(c.queue[v]) != "O"]
    if non_ord != non_ord_out or any(s[0] for s in out if kind_of(c.queue[s[2][0]]) != "O"):
        bad.append("measurements / special gates reordered or grouped")
    if fused.measurements is not c.measurements and list(map(id, fused.measurements)) != list(map(id, c.measurements)):
        bad.append("measurement list changed")
    for g in fused.queue:
        if isinstance(g, gates.FusedGate) and not any(g is h for h in c.queue):   # groups made by this fuse
            # proved of the model (Props.fuse_width / ProofsFuse.fuse_groups_sorted_range): the qubit list of a
            # group is strictly increasing, in range, and is the union of its members' qubits; the backend
            # builds the group's matrix in sorted order and contracts it on target_qubits, so they must agree
            union = sorted(set().union(*[set(m.qubits) for m in g.gates])) if g.gates else []
            if not (list(g.target_qubits) == sorted(g.qubit_set) == union == list(g.qubits) == list(g.init_args)):
                bad.append(f"FusedGate with target_qubits={tuple(g.target_qubits)} qubit_set={sorted(g.qubit_set)} "
                           f"members' qubits={union}: target_qubits is not the sorted union of the members' qubits")
            if any(not 0 <= q < c.nqubits for q in g.target_qubits):
                bad.append("FusedGate qubit out of range")
        if isinstance(g, gates.M) and not any(g is h for h in c.queue):
            bad.append("measurement gate replaced")
        members = g.gates if (isinstance(g, gates.FusedGate) and not any(g is h for h in c.queue)) else [g]
        for m in members:
            v = getattr(m, "_vid", None)
            if v is None or v >= len(c.queue) or m is not c.queue[v]:
                bad.append("a gate of the fused circuit is not the (current) gate object of the input circuit")
    return bad


def run_fuse(run, rng, count, shard=400, n_exec=100):
    cases = fuse_cases(run, rng, count)
    files = []
    n_raised = 0
    for s0 in range(0, len(cases), shard):
        header = HEADER
        items = []
        meta = []
        for j, (n, descs, k) in enumerate(cases[s0:s0 + shard]):
            idx = s0 + j
            c = build(n, descs)
            try:
                fused, out, sigs = observe_fuse(c, k)
            except Exception as e:
                n_raised += 1
                run.case({"fuse": [n, k, [canon(d) for d in descs]]}, nontrivial=False)
                run.find(f"fuse:raises:{case_key(n, descs, k)}", f"Circuit.fuse raised {e!r} on a valid circuit",
                         {"mechanism": "fuse", "nqubits": n, "max_qubits": k, "descs": descs, "error": repr(e)})
                continue
            bad = python_side_fuse_checks(c, fused, out, k)
            header += f"Definition c{idx} : list gate := {coq_circuit(c)}.\n"
            header += f"Definition o{idx} : list sigT := [{'; '.join(coq_sig(s) for s in out)}].\n"
            header += f"Definition s{idx} : list nodesigT := [{'; '.join(coq_node_sig(s) for s in sigs)}].\n"
            items.append((f"{idx}:out", f"list_eqb sig_eqb (map item_sig (fuse_model {n} c{idx} {k})) o{idx}"))
            items.append((f"{idx}:nodes", f"list_eqb node_sig_eqb (map (node_sig {n}) (fuse_loop {k} (to_fused {n} c{idx}))) s{idx}"))
            items.append((f"{idx}:cert", f"gtrace_equivn_b {n} (flat_map (sig_gates c{idx}) o{idx}) c{idx}"))
            meta.append((idx, n, descs, k, out, bad))
            groups = [s for s in out if s[0]]
            run.case({"fuse": [n, k, [canon(d) for d in descs]]},
                     nontrivial=len(descs) >= 3 and len(groups) >= 1)
            if groups and len(descs) >= 4 and sum(1 for x in run.samples if x.get("mechanism") == "fuse") < 3:
                run.sample({"mechanism": "fuse", "nqubits": n, "max_qubits": k,
                            "circuit": [show(d) for d in descs],
                            "fused_queue": [(s[1], s[2]) if s[0] else s[2][0] for s in out]})
        files.append((f"C07_fuse_{s0 // shard}.v", header, items, meta))
    results = coq_parallel(run, files)
    n_cert = n_struct = 0
    for (name, header, items, meta), res in zip(files, results):
        if res is None:
            run.oblige(f"correspondence file {name} compiles", False, "correspondence")
            run.find(f"coq:{name}", f"generated file {name} does not compile", {"file": name}, concrete=False)
            continue
        for (idx, n, descs, k, out, bad) in meta:
            rep = {"mechanism": "fuse", "nqubits": n, "max_qubits": k, "descs": descs}
            cert, so, sn = res[f"{idx}:cert"], res[f"{idx}:out"], res[f"{idx}:nodes"]
            n_cert += cert
            n_struct += so and sn
            if not cert or bad:
                # the implementation output is not a legal commutation of the input: try to confirm by execution
                diff = None
                try:
                    for s in range(5):
                        d1 = exec_fuse_check(n, descs, k, s)
                        diff = diff or (None if d1 == "skip" else d1)
                except Exception as e:  # collapse measurements etc.
                    diff = diff or {"exec_error": repr(e)}
                run.find(f"fuse:case:{case_key(n, descs, k)}",
                         "Circuit.fuse output is not trace-equivalent to the input / violates a fusion invariant: "
                         + "; ".join(bad or ["trace_equiv_b = false"]), {**rep, "exec_diff": diff}, concrete=True)
            elif not (so and sn):
                run.find(f"fuse-model-mismatch:{case_key(n, descs, k)}",
                         "model and implementation of Circuit.fuse disagree structurally "
                         f"(output equal: {so}, node state equal: {sn}) although the output is certified equivalent",
                         rep, concrete=False)
    run.oblige("fuse: every implementation output certified by trace_equiv_b (kernel-checked per instance)",
               n_cert == len(cases) and not n_raised, "certificate")
    run.oblige("fuse: model output and final node state equal the implementation's on every case",
               n_struct == len(cases) and not n_raised, "correspondence")
    run.notes["fuse_cases"] = len(cases)
    run.notes["fuse_certified"] = n_cert
    # exact execution cross-check on a subset
    n_ok = n_run = 0
    for (n, descs, k) in cases:
        if n_run >= n_exec:
            break
        if any(d["kind"] == "M" and d.get("collapse") for d in descs) or not descs:
            continue
        try:
            diff = exec_fuse_check(n, descs, k, run.seed + n_run)
        except Exception as e:
            diff = {"exec_error": repr(e)}
        if diff == "skip":
            continue
        n_run += 1
        if diff is None:
            n_ok += 1
        else:
            run.find(f"fuse:exec:{case_key(n, descs, k)}", "fused circuit gives a different final state (exact integer run)",
                     {"mechanism": "fuse-exec", "nqubits": n, "max_qubits": k, "descs": descs, "seed": run.seed + n_run, **diff})
    run.notes["fuse_exact_executions"] = n_run
    run.oblige("fuse: exact Gaussian-integer execution original == fused (test subset)", n_ok == n_run, "test")


def case_key(n, descs, *rest):
    import hashlib
    return hashlib.sha1(json.dumps([n, descs, rest], sort_keys=True).encode()).hexdigest()[:12]


def coq_parallel(run, files):
    def job(f):
        name, header, items, _ = f
        res, _out = run.coq_bools(name, header, items, timeout=1200)
        return res
    with ThreadPoolExecutor(max_workers=8) as ex:
        return list(ex.map(job, files))


def lc_cases(rng, count):
    cases = []
    i = 0
    while len(cases) < count:
        n, descs = gen_case(rng, i, channels=False)   # Channel.on_qubits is not implemented (documented refusal)
        i += 1
        descs = add_updates(rng, descs)
        if not valid(n, descs):
            continue
        m = rng.choice([0, 1, 1, 1, 2, 2, 3]) if rng.random() < 0.9 else rng.randint(0, n)
        S = rng.sample(range(n), min(m, n))
        cases.append((n, descs, S))
    return cases


def python_side_lc_checks(c, lc, qmap, S):
    """property-level facts checked directly on the implementation output of light_cone"""
    bad = []
    cone = sorted(qmap)
    if qmap != {q: i for i, q in enumerate(cone)}:
        bad.append("qubit_map is not the order-preserving enumeration of the cone")
    if lc.nqubits != len(cone):
        bad.append("nqubits of the light-cone circuit differs from the cone size")
    if not set(S) <= set(cone):
        bad.append("requested qubits not in the cone")
    for g in lc.queue:
        orig = c.queue[g._vid]
        if type(g) is not type(orig):
            bad.append("gate class changed")
        elif not params_equal(g.parameters, orig.parameters):
            bad.append(f"gate {g._vid} ({type(g).__name__}) of the light-cone circuit does not carry the CURRENT "
                       "parameters of the original gate")
        elif kind_of(orig) == "O" and not np.array_equal(np.asarray(g.matrix()), np.asarray(orig.matrix())):
            bad.append(f"gate {g._vid} ({type(g).__name__}) of the light-cone circuit has a different matrix")
    return bad


def run_light_cone(run, rng, count, shard=400, n_exec=60):
    cases = lc_cases(rng, count)
    files = []
    n_raised = 0
    for s0 in range(0, len(cases), shard):
        header = HEADER
        items, meta = [], []
        for j, (n, descs, S) in enumerate(cases[s0:s0 + shard]):
            idx = s0 + j
            c = build(n, descs)
            has_fin = any(d["kind"] == "fin" for d in descs)
            try:
                lc, qmap = observe_light_cone(c, S)
            except NotImplementedError as e:
                if not has_fin:
                    raise
                # documented refusal: SpecialGate.on_qubits; must happen exactly when the model keeps a fused gate
                header += f"Definition c{idx} : list gate := {coq_circuit(c)}.\n"
                items.append((f"{idx}:refuse", f"lc_refuses c{idx} {nl(S)}"))
                meta.append((idx, n, descs, S, [], "refusal"))
                run.case({"light_cone": [n, S, [canon(d) for d in descs]]}, nontrivial=False)
                continue
            except Exception as e:
                n_raised += 1
                run.case({"light_cone": [n, S, [canon(d) for d in descs]]}, nontrivial=False)
                run.find(f"light_cone:raises:{case_key(n, descs, S)}", f"Circuit.light_cone raised {e!r} on a valid circuit",
                         {"mechanism": "light_cone", "nqubits": n, "qubits": S, "descs": descs, "error": repr(e)})
                continue
            if any(not isinstance(q, (int, np.integer)) for g in lc.queue for q in g.qubits) or \
                    any(not hasattr(g, "_vid") for g in lc.queue):
                n_raised += 1
                run.case({"light_cone": [n, S, [canon(d) for d in descs]]}, nontrivial=False)
                run.find(f"light_cone:malformed:{case_key(n, descs, S)}",
                         "Circuit.light_cone returned a gate acting on a qubit that is not in the qubit map",
                         {"mechanism": "light_cone", "nqubits": n, "qubits": S, "descs": descs})
                continue
            bad = python_side_lc_checks(c, lc, qmap, S)
            cone = sorted(qmap)
            kept = [(g._vid, list(g.qubits)) for g in lc.queue]
            header += f"Definition c{idx} : list gate := {coq_circuit(c)}.\n"
            header += f"Definition k{idx} : list (nat * option (list nat)) := [{'; '.join(f'({v}, Some {nl(qs)})' for v, qs in kept)}].\n"
            items.append((f"{idx}:out", f"lc_out_eqb (light_cone_model c{idx} {nl(S)}) ({len(cone)}, {nl(cone)}, k{idx})"))
            items.append((f"{idx}:cert", f"lc_cert_b c{idx} {nl(S)} {nl(cone)} (map fst k{idx})"))
            if has_fin:
                items.append((f"{idx}:norefuse", f"negb (lc_refuses c{idx} {nl(S)})"))
            meta.append((idx, n, descs, S, bad, "fin" if has_fin else "normal"))
            run.case({"light_cone": [n, S, [canon(d) for d in descs]]},
                     nontrivial=0 < len(kept) < len(descs))
            if 0 < len(kept) < len(descs) and sum(1 for x in run.samples if x.get("mechanism") == "light_cone") < 2:
                run.sample({"mechanism": "light_cone", "nqubits": n, "qubits": S,
                            "circuit": [show(d) for d in descs],
                            "kept": kept, "qubit_map": {str(a): b for a, b in qmap.items()}})
        files.append((f"C07_lc_{s0 // shard}.v", header, items, meta))
    results = coq_parallel(run, files)
    n_cert = n_struct = n_refusals = 0
    for (name, header, items, meta), res in zip(files, results):
        if res is None:
            run.oblige(f"correspondence file {name} compiles", False, "correspondence")
            run.find(f"coq:{name}", f"generated file {name} does not compile", {"file": name}, concrete=False)
            continue
        for (idx, n, descs, S, bad, mode) in meta:
            rep = {"mechanism": "light_cone", "nqubits": n, "qubits": S, "descs": descs}
            if mode == "refusal":
                n_refusals += 1
                if res[f"{idx}:refuse"]:
                    n_cert += 1
                    n_struct += 1
                else:
                    run.find(f"light_cone:raises:{case_key(n, descs, S)}",
                             "Circuit.light_cone raised NotImplementedError although no FusedGate lies in the light cone",
                             rep, concrete=True)
                continue
            if mode == "fin" and not res[f"{idx}:norefuse"]:
                bad = bad + ["a FusedGate lies in the light cone but light_cone did not refuse"]
            cert, so = res[f"{idx}:cert"], res[f"{idx}:out"]
            n_cert += cert
            n_struct += so
            if not cert or bad:
                run.find(f"light_cone:case:{case_key(n, descs, S)}",
                         "Circuit.light_cone output is not (kept ++ dropped) ~ circuit with dropped gates off the "
                         "requested qubits: " + "; ".join(bad or ["certificate = false"]), rep, concrete=True)
            elif not so:
                run.find(f"light-cone-model-mismatch:{case_key(n, descs, S)}",
                         "model and implementation of Circuit.light_cone disagree although the output is certified", rep,
                         concrete=False)
    run.oblige("light_cone: every implementation output certified (c ~ kept ++ dropped, dropped off S, kept inside cone)",
               n_cert == len(cases) and not n_raised, "certificate")
    run.oblige("light_cone: model output equals the implementation's on every case",
               n_struct == len(cases) and not n_raised, "correspondence")
    run.notes["light_cone_cases"] = len(cases)
    run.notes["light_cone_agreed_refusals_fused_gate_in_cone"] = n_refusals
    n_ok = n_run = 0
    for (n, descs, S) in cases:
        if n_run >= n_exec:
            break
        if any(d["kind"] != "ord" for d in descs) or not descs:
            continue
        n_run += 1
        try:
            diff = exec_lc_check(n, descs, S, run.seed + n_run)
        except Exception as e:
            diff = {"exec_error": repr(e)}
        if diff is None:
            n_ok += 1
        else:
            run.find(f"light_cone:exec:{case_key(n, descs, S)}", "reduced state of the light-cone circuit differs (exact integer run)",
                     {"mechanism": "light_cone-exec", "nqubits": n, "qubits": S, "descs": descs, "seed": run.seed + n_run, **diff})
    run.notes["light_cone_exact_executions"] = n_run
    run.oblige("light_cone: exact reduced density matrix full == light-cone circuit (test subset)", n_ok == n_run, "test")


def refuse_check(run):
    """fusing a circuit that already contains FusedGate objects (the output of fuse)"""
    descs = [og("H", 0), og("CNOT", 0, 1), og("H", 2), og("CNOT", 1, 2), og("X", 1)]
    c = build(3, descs, "int", 1)
    f = c.fuse(max_qubits=2)
    ff = f.fuse(max_qubits=2)
    from qibo import gates
    n_in = sum(isinstance(g, gates.FusedGate) for g in f.queue)
    members = sum(len(g.gates) if isinstance(g, gates.FusedGate) else 1 for g in ff.queue)
    psi = np.arange(1, 9).astype(complex)
    same = np.array_equal(exact_state(c, psi), exact_state(ff, psi))
    run.case({"refuse": descs})
    run.oblige("re-fusing a fused circuit keeps every gate and the final state (regression of the repaired defect)",
               members == len(descs) and same, "test")
    if members != len(descs) or not same:
        run.find("refuse:fused-gate-dropped",
                 f"Circuit.fuse applied to a fused circuit drops its FusedGate objects: {n_in} fused gates in, "
                 f"{len(ff.queue)} gates out, final state differs",
                 {"mechanism": "refuse", "nqubits": 3, "descs": descs, "max_qubits": 2})


def static_obligations(run):
    run.notes["print_assumptions"] = {}
    for th in ("C07/Props", "C07/PropsOcc"):
        ths = vcore.props_theorems(th + ".v")
        ok, pa = vcore.static_assumptions(th)
        for t in ths:
            run.oblige(f"{th}.{t}", ok and t in pa, "theorem")
            if ok and t in pa and not pa[t].startswith("Closed"):
                run.axioms.add(f"{t}: {pa[t]}")
            if t.endswith("_partial"):
                run.not_proved.append(f"{t} is a partial result (see comment in {th}.v)")
            if t.endswith("_refuted"):
                run.refuted.append(f"{th}.{t[:-8]} (the faithful model of the real code violates it; witness in the theorem)")
        run.notes["print_assumptions"].update(pa)
    run.not_proved += [
        "light cone: dropped non-unitary operations (collapsing measurements, channels) are outside the matrix-level "
        "theorem; the abstract light_cone_reduced_state covers them given its premise",
        "light cone: that the reduced initial state Tr_{not cone}|0..0><0..0| is |0..0><0..0| on the cone (the theorem is "
        "stated for every initial matrix rho with the reduced initial state on the right-hand side)",
        "fusion: the real NumpyBackend.matrix_fused (scipy sparse, dtypes) vs C01's model of it is C01's correspondence; "
        "here fused_execution_equals_original / fused_group_matrix use C01's model, and the exact-execution test runs "
        "the real one"]


def main(run):
    rng = random.Random(run.seed)
    run.trusted += ["Coq 8.16.1 kernel, vm_compute",
                    "abstraction of a gate to (identity, gate.qubits, kind in {ordinary, M, special}) done by this harness",
                    "Base/Sem.v, SemPtrace.v, SemProps.v and C01/Spec.v (matrix semantics: gate_op, circ_op, sandwich, reduced; "
                    "gate_op_disjoint_commute and ptrace_ignores_outside are proved there, closed) used by C07/InstMat.v",
                    "harness/c07.py observation code (wraps _Queue.from_fused and Gate.on_qubits at run time)",
                    "harness/c07_occ.py: matching of output occurrences of one object to input positions in order of appearance "
                    "(occurrences of one object are equal dependent letters: any other matching gives the same operator)"]
    run.assumptions += ["noise channels are ordinary letters for fusion (the implementation may absorb them into a group, whose "
                        "execution then refuses); they take part in the structural comparison and the certificate, not in "
                        "the execution test nor in the light-cone stream (Channel.on_qubits is not implemented)",
                        "a FusedGate in the input circuit is an opaque special letter (its own matrix = product of its members is "
                        "matrix_fused, exercised by the exact-execution test)",
                        "fuse_equiv_matrices / light_cone_reduced_state_matrices: every letter stands for a well-formed matrix "
                        "gate acting inside the letter's support (mvalid); exact arithmetic over a commutative semiring"]
    static_obligations(run)
    quick = run.tier == "quick"
    run_fuse(run, rng, 520 if quick else 5200, n_exec=100 if quick else 1000)
    run_light_cone(run, rng, 200 if quick else 2000, n_exec=60 if quick else 600)
    refuse_check(run)
    from harness import c07_occ
    c07_occ.run_fuse2(run, random.Random(run.seed * 1000003 + 1))
    c07_occ.run_lc2(run, random.Random(run.seed * 1000003 + 2))
    c07_occ.run_hist(run, random.Random(run.seed * 1000003 + 3))
    if not quick:
        rc, out = vcore.sh("timeout 1500 coqchk -o -silent -Q theories QV QV.C07.Props", timeout=1600, cwd=vcore.COQ)
        run.checker_cmds.append("coqchk -o -silent -Q theories QV QV.C07.Props")
        run.oblige("coqchk re-checks the compiled cone of C07/Props (no axioms)", rc == 0 and "Axioms: <none>" in out, "kernel-recheck")
    return run.finish(level="proof", rule=(
        "wide registers (9-12 qubits, gates on the highest ids, exact execution included), "
        "random (n<=6, len<=12, arities 1-3, controlled gates, M incl. collapse, CallbackGate), circuits with many "
        "non-unitary items (noise channels, collapsing and plain measurements, callbacks; fuse stream), circuits containing "
        "FusedGate inputs (outputs of a real fuse re-fused with another width; hand-made fused inputs), histories "
        "(about half of the cases update the parameters of ~half of the ordinary gates, incl. Unitary matrices, after "
        "construction via the gate setter or Circuit.set_parameters BEFORE fuse / light_cone; outputs must carry the "
        "current values: parameter and matrix equality per gate, exact execution), adversarial "
        "(non-commuting gates between fusion partners), dense and brickwork circuits; max_qubits 0..n+1; light-cone "
        "subsets of size 0..3; a fuse case is non-trivial if the circuit has >=3 gates and at least one fused group is "
        "formed, a light-cone case if some but not all gates are kept; distinct by (n, k or S, gate list); "
        "c07_occ streams: deterministic corpus first, then random -- occ: base generators + 1-4 repeated occurrences of "
        "objects (ord/cb/FusedGate from a real fuse/its members/collapsing M), n<=6; meas: n<=5, 2-9 items, M with basis "
        "X/Y/Z/mixed lists, collapse, register names, p0/p1 float/list/dict, mid-circuit and final, 15% density-matrix "
        "circuits, fuse(1..3) and light_cone subsets biased to measured qubits; hist: n=2..4, 4-9 parametrised gates "
        "(integer Unitary or float rotations), 3-7 operations from {exec fused/source, update via source list/dict, gate "
        "setter, fused list, shallow copy list, refuse, fuse again, add to source, add to fused, unitary}; a fuse2 case is "
        "non-trivial if a group is formed and the circuit has a repeated object / a basis rotation / a collapse, a "
        "history if it contains an update"))


def replay(run, data):
    static_obligations(run)
    r = data["replay"]
    mech = r.get("mechanism")
    if mech == "refuse":
        refuse_check(run)
    elif mech in ("fuse2", "lc2", "hist"):
        from harness import c07_occ
        c07_occ.replay_case(run, data)
    elif mech in ("fuse", "fuse-exec"):
        n, descs, k = r["nqubits"], r["descs"], r["max_qubits"]
        run.case({"fuse": [n, k, descs]})
        diff, bad, cert = None, [], True
        try:
            for s in range(8):
                try:
                    d1 = exec_fuse_check(n, descs, k, r.get("seed", s) if s == 0 else s)
                except RuntimeError:
                    d1 = None
                diff = diff or (None if d1 == "skip" else d1)
            c = build(n, descs)
            fused, out, sigs = observe_fuse(c, k)
            bad = python_side_fuse_checks(c, fused, out, k)
            hdr = HEADER + f"Definition c0 : list gate := {coq_circuit(c)}.\nDefinition o0 : list sigT := [{'; '.join(coq_sig(s) for s in out)}].\n"
            res, _ = run.coq_bools("C07_replay.v", hdr, [("cert", f"gtrace_equivn_b {n} (flat_map (sig_gates c0) o0) c0")])
            cert = bool(res and res["cert"])
        except Exception as e:
            bad.append(f"raised {e!r}")
        if diff or bad or not cert:
            run.find(data["key"], data["what"], {**r, "exec_diff": diff, "bad": bad, "certificate": cert})
    elif mech in ("light_cone", "light_cone-exec"):
        n, descs, S = r["nqubits"], r["descs"], r["qubits"]
        run.case({"light_cone": [n, S, descs]})
        diff, bad, cert = None, [], True
        try:
            if all(d["kind"] == "ord" for d in descs):
                for s in range(8):
                    diff = diff or exec_lc_check(n, descs, S, s)
            c = build(n, descs)
            lc, qmap = observe_light_cone(c, S)
            bad += python_side_lc_checks(c, lc, qmap, S)
            cone = sorted(qmap)
            kept = [g._vid for g in lc.queue]
            hdr = HEADER + f"Definition c0 : list gate := {coq_circuit(c)}.\n"
            res, _ = run.coq_bools("C07_replay.v", hdr, [("cert", f"lc_cert_b c0 {nl(S)} {nl(cone)} {nl(kept)}")])
            cert = bool(res and res["cert"])
        except Exception as e:
            bad.append(f"raised {e!r}")
        if diff or bad or not cert:
            run.find(data["key"], data["what"], {**r, "exec_diff": diff, "bad": bad, "certificate": cert})
    return run.finish(rule="replay of one recorded case")
