"""C20 helper streams of round 5 (imported lazily by harness/c20.py).

family D (rarely used public options), `qft_options` / `option_matrix`:
  * QFT(n, accelerators=...) -- the DISTRIBUTED layout (_DistributedQFT): for n = 1..12 and every accelerator dictionary of a
    small corpus (1, 2, 3, 4, 8 devices, written with one or several keys) the call either refuses (ValueError /
    NotImplementedError; always when nglobal > ceil(n/2)) or returns a circuit whose gate list is EXACTLY the Coq model
    C20/ModelDist.qft_dist n (vm_compute), whose operator is the DFT (numeric 1e-9 for n <= 7; machine-checked TrigMat
    obligation on the symbolically traced REAL gate list for n = 3, 4 (5 thorough)); with_swaps=False + accelerators must
    refuse; Circuit kwargs (density_matrix, wire_names) are passed through and do not change the gate list.
    Static: C20/PropsDist.v (bounded: qft_dist n agrees with the plain ladder -- the DFT for all n by Props.qft_ok -- on
    every basis state for n <= 9; same gate census for n <= 40).
  * hamming_weight_encoder: full_hwp x optimize_controls x phase_correction x real/complex data x sizes (full product);
    comp_basis_encoder: the same bit string as int+nqubits / str / list of int / list of str / tuple;
    entangling_layer: entangling_gate as name and as gate class; every data encoder with Circuit kwargs.
  * self-check: every parameter in the signatures of models/qft.py and models/encodings.py public constructors is listed in
    COVERED_OPTIONS (a new option makes the obligation `constructor_options_all_covered` fail).

family F (input representation invariance), `representation_matrix`: the same data vector handed to EVERY data encoder as
  float64 / float32 / int64 / int32 / int8 / complex128 / complex64 (zero imaginary parts, and genuinely complex where
  documented), as a strided view, a reversed view, a row of a Fortran-ordered matrix, a read-only array, a list / tuple:
  ndarray representations must load data/||data|| (1e-10; 5e-6 for 32-bit floats: the data are exactly representable, only
  the angle arithmetic is single precision); containers may be refused but never load something else.
"""
import inspect
import itertools
import math
import warnings

import numpy as np

TOL = 1e-10
TOL32 = 5e-6

ACCS = [{"/GPU:0": 1}, {"/GPU:0": 2}, {"/GPU:0": 1, "/GPU:1": 1}, {"/GPU:0": 3}, {"/GPU:0": 4}, {"/GPU:0": 2, "/GPU:1": 2},
        {"/GPU:0": 1, "/GPU:1": 1, "/GPU:2": 1, "/GPU:3": 1}, {"/GPU:0": 8}, {"/GPU:0": 4, "/GPU:1": 4}]

COVERED_OPTIONS = {
    "QFT": {"nqubits", "with_swaps", "accelerators", "kwargs"},
    "comp_basis_encoder": {"basis_element", "nqubits", "kwargs"},
    "phase_encoder": {"data", "rotation", "kwargs"},
    "binary_encoder": {"data", "parametrization", "kwargs"},
    "unary_encoder": {"data", "architecture", "kwargs"},
    "unary_encoder_random_gaussian": {"nqubits", "architecture", "seed", "kwargs"},
    "hamming_weight_encoder": {"data", "nqubits", "weight", "full_hwp", "optimize_controls", "phase_correction",
                               "initial_string", "kwargs"},
    "entangling_layer": {"nqubits", "architecture", "entangling_gate", "closed_boundary", "kwargs"},
    "ghz_state": {"nqubits", "kwargs"},
}


def _quiet(fn, *a, **k):
    with warnings.catch_warnings():
        warnings.simplefilter("ignore")
        return fn(*a, **k)


def dft(n):
    N = 2 ** n
    return np.array([[np.exp(2j * np.pi * x * y / N) for y in range(N)] for x in range(N)]) / np.sqrt(N)


def ndevices(acc):
    return sum(acc.values())


def acc_tag(acc):
    return "+".join(f"{k.strip('/').replace(':', '')}x{v}" for k, v in acc.items())


def canon(c):
    out = []
    for g in c.queue:
        out.append([type(g).__name__, [int(q) for q in g.control_qubits], [int(q) for q in g.target_qubits],
                    [float(p) if np.isreal(p) else str(p) for p in np.ravel(np.asarray(g.parameters, dtype=object))]])
    return out


# ------------------------------------------------------------------ QFT options
def distributed_case(n, acc):
    """-> None (refused) or dict(canon=qft-canonical gate list, dev=max |U - DFT| or None)"""
    from qibo.models import QFT
    from harness import c20
    try:
        c = _quiet(QFT, n, accelerators=dict(acc))
    except (ValueError, NotImplementedError):
        return None
    out = {"canon": c20.qft_canon(c), "circuit": c, "dev": None}
    if n <= 7:
        out["dev"] = float(np.abs(np.asarray(c.unitary()) - dft(n)).max())
    return out


def qft_options(run, rng, thorough=False):
    from qibo.models import QFT
    from harness import c20
    from lib import qtrace
    stats = {"accepted": 0, "refused": 0}
    exprs, reals = [], []
    for n in range(1, 13):
        first = None
        for acc in ACCS:
            nd = ndevices(acc)
            run.case(["qft_distributed", n, acc])
            r = distributed_case(n, acc)
            pow2 = nd >= 2 and (nd & (nd - 1)) == 0
            nglobal = int(math.log2(nd)) if pow2 else None
            if r is None:
                stats["refused"] += 1
                continue
            stats["accepted"] += 1
            if not pow2 or nglobal > (n + 1) // 2:
                run.find(f"qft:distributed:accepts:{n}:{acc_tag(acc)}", "QFT(n, accelerators=...) accepted a device dictionary the code documents as "
                         "refused (device count not a power of two >= 2, or more global qubits than ceil(n/2))", {"n": n, "accelerators": acc})
            if r["dev"] is not None and not (r["dev"] <= 1e-9):
                run.find(f"qft:dft:distributed:{n}:{acc_tag(acc)}", f"QFT({n}, accelerators={acc}).unitary() is not the DFT matrix "
                         f"(max |U - F| = {r['dev']:.3e}, tolerance 1e-9)", {"n": n, "accelerators": acc, "max_abs_diff": r["dev"]})
            if first is None:
                first = (acc, r["canon"])
                exprs.append(f"map qcode (qft_dist {n})")
                reals.append((n, acc, r["canon"]))
            elif r["canon"] != first[1]:
                run.find(f"qft:distributed:device-dependent:{n}:{acc_tag(acc)}", "the gate list of the distributed QFT depends on the accelerator dictionary",
                         {"n": n, "accelerators": acc, "other": first[0]})
            # the global qubits are the LAST nglobal wires, as the layout assumes
            c = r["circuit"]
            if hasattr(c, "nglobal") and (c.nglobal != nglobal or c.nqubits != n):
                run.find(f"qft:distributed:nglobal:{n}:{acc_tag(acc)}", f"nglobal = {c.nglobal}, expected log2(#devices) = {nglobal}", {"n": n, "accelerators": acc})
        # documented refusals / pass-through of Circuit kwargs
        for acc in ACCS[1:3]:
            try:
                _quiet(QFT, n, with_swaps=False, accelerators=dict(acc))
                run.find(f"qft:distributed:noswaps-accepted:{n}", "QFT(n, with_swaps=False, accelerators=...) must raise NotImplementedError (documented)",
                         {"n": n, "accelerators": acc})
            except (NotImplementedError, ValueError):
                pass
        if n <= 6:
            for sw in (True, False):
                names = [f"w{(3 * i + 1) % n}" for i in range(n)] if math.gcd(3, n) == 1 else [f"w{i}" for i in reversed(range(n))]
                base = c20.qft_canon(QFT(n, with_swaps=sw))
                for kw in ({"density_matrix": True}, {"wire_names": names}, {"density_matrix": True, "wire_names": names}):
                    run.case(["qft_kwargs", n, sw, kw])
                    c = QFT(n, with_swaps=sw, **kw)
                    ok = c20.qft_canon(c) == base and bool(c.density_matrix) == bool(kw.get("density_matrix", False)) and \
                        list(c.wire_names) == list(kw.get("wire_names", range(n)))
                    if ok and kw.get("density_matrix") and n <= 4:
                        rho = np.asarray(c().state())
                        col = c20_dft_column(n, sw)
                        ok = rho.shape == (2 ** n, 2 ** n) and np.abs(rho - np.outer(col, col.conj())).max() <= TOL
                    if not ok:
                        run.find(f"qft:kwargs:{n}:{sw}:{'+'.join(sorted(kw))}", "Circuit kwargs passed through QFT change the circuit / are not applied", {"n": n, "with_swaps": sw, "kwargs": kw})
    run.oblige("distributed_qft_accepted_nonvacuous", stats["accepted"] >= 50, "coverage")
    vals = run.coq_eval("C20_qft_dist.v", c20.HEADER.replace("C20.Model.", "C20.Model C20.ModelDist."), exprs)
    run.oblige("model_qft_dist_structure", vals is not None, "correspondence")
    if vals is None:
        run.find("coq:C20_qft_dist", "generated file does not compile", {}, concrete=False)
    else:
        for (n, acc, real), v in zip(reals, vals):
            if c20.tolist(c20.parse_coq(v)) != real:
                # concrete: the numeric DFT comparison (n <= 7) judges the operator; the structural difference is reported as such
                run.find(f"corr:qft:distributed:structure:{n}", "gate list of QFT(n, accelerators=...) differs from the model qft_dist n "
                         "(SWAP(i1, n-1-i1) first for i1 >= ceil(n/2), H and CU1(i2, i1eff, pi/2^(i2-i1)) on the effective wire)",
                         {"n": n, "accelerators": acc, "real": real[:40]}, concrete=False)
    # machine-checked bounded instances on the traced REAL gate lists
    terms = []
    with qtrace.patched():
        qtrace.fresh_sym_backend()
        qtrace.setup_vars(0)
        for n in (3, 4, 5) if thorough else (3, 4):
            acc = {"/GPU:0": 2}
            name = f"qft_distributed_is_dft_n{n}"
            try:
                gs = list(_quiet(QFT, n, accelerators=acc).queue)
                terms.append((name, f"mcheck_eq {qtrace.circ_coq(gs, n)} {c20.dft_literal(n, True)}", n, acc))
            except Exception as e:  # noqa
                run.oblige(name, False, "untranslatable")
                run.find(f"trace:qft:distributed:{n}", f"symbolic tracing of the distributed QFT failed: {type(e).__name__}: {e}", {}, concrete=False)
    if terms:
        res, out = run.coq_bools("C20_qft_dist_triage.v", qtrace.COQ_HEADER, [(t[0], t[1]) for t in terms], timeout=1200)
        if res is None:
            run.find("coq:C20_qft_dist_triage", "generated distributed-QFT obligations do not compile", {"log": out[-800:]}, concrete=False)
        else:
            for t in terms:
                if res[t[0]]:
                    run.oblige(t[0] + " (bounded instance)", True, "bounded-instance")
                else:
                    r = distributed_case(t[2], t[3])
                    if r and r["dev"] is not None and r["dev"] > 1e-9:
                        run.refuted.append(t[0])        # the concrete finding qft:dft:distributed:n:* is reported above
                    else:
                        run.oblige(t[0], False, "bounded-instance")
                        run.find(f"unproved:qft:distributed:{t[2]}", "distributed QFT instance obligation no longer checks", {"n": t[2]}, concrete=False)
    return stats


def c20_dft_column(n, with_swaps):
    """QFT|0...0> = uniform superposition in both variants"""
    return np.full(2 ** n, 1 / np.sqrt(2 ** n), dtype=complex)


# ------------------------------------------------------------------ signatures
def option_coverage(run):
    from qibo.models import QFT
    from qibo.models import encodings as E
    missing = {}
    for name, want in COVERED_OPTIONS.items():
        fn = QFT if name == "QFT" else getattr(E, name, None)
        if fn is None:
            missing[name] = "constructor not found"
            continue
        have = set(inspect.signature(fn).parameters)
        if have - want:
            missing[name] = sorted(have - want)
    public = [n for n, f in vars(E).items() if inspect.isfunction(f) and f.__module__ == E.__name__ and not n.startswith("_")]
    extra = sorted(set(public) - set(COVERED_OPTIONS))
    run.oblige("constructor_options_all_covered", not missing and not extra, "coverage")
    if missing or extra:
        run.find("coverage:options", f"constructor options / constructors not exercised by the option streams: {missing} {extra}", {}, concrete=False)


# ------------------------------------------------------------------ representations (family F)
def base_vectors(rng, d):
    """values are multiples of 1/8 with |v| <= 4: exactly representable in float32 / float16 and, doubled, in int8"""
    def draw(lo=1):
        return rng.choice([-1, 1]) * rng.randint(lo, 16) / 8
    dense = [draw() for _ in range(d)]
    sparse = [0.0] * d
    for _ in range(max(1, d // 3)):
        sparse[rng.randrange(d)] = draw()
    ints = [float(rng.choice([-3, -2, -1, 1, 2, 3])) for _ in range(d)]
    ints2 = [3.0, 1.0, 2.0, 2.0, 1.0, 3.0, 2.0, 1.0, 1.0, 2.0, 3.0, 1.0, 2.0, 2.0, 1.0, 3.0][:d] if d <= 16 else ints
    pos = [abs(x) for x in dense]
    return {"dense": dense, "sparse": sparse, "ints": ints, "ints_pos": ints2, "pos": pos}


REAL_REPS = ("float64", "float32", "float16x", "int64", "int32", "int8", "uint8", "complex128_zero", "complex64_zero",
             "strided", "reversed_view", "fortran_row", "readonly", "list", "tuple", "list_int", "float64_0d_items")
COMPLEX_REPS = ("complex128", "complex64", "strided", "reversed_view", "fortran_row", "readonly", "list")


def represent(v, rep, phases=None):
    """-> (object handed to the encoder, canonical complex128 values it denotes, is_ndarray, single_precision)"""
    a = np.array(v, dtype=float)
    if phases is not None:
        # phases k*pi/4 keep cos/sin * multiples of 1/8 away from single-precision exactness: complex64 gets the wide tolerance
        a = a * np.exp(1j * np.array(phases))
    integral = phases is None and bool(np.all(a * 2 == np.round(a * 2)))
    if rep in ("float64", "complex128"):
        x = a.copy()
    elif rep == "float32":
        x = a.astype(np.float32)
    elif rep == "float16x":
        x = a.astype(np.float16).astype(np.float32)      # float16 itself is not a sensible working precision
    elif rep in ("int64", "int32", "int8", "uint8"):
        if not integral:
            return None
        b = np.round(a * 2)
        if rep == "uint8" and (b < 0).any():
            return None
        x = b.astype(getattr(np, rep))
    elif rep == "complex128_zero":
        x = a.astype(complex)
    elif rep in ("complex64_zero", "complex64"):
        x = a.astype(np.complex64)
    elif rep == "strided":
        big = np.zeros(2 * len(a) + 1, dtype=a.dtype)
        big[1::2] = a
        big[0::2] = 77.0
        x = big[1::2]
    elif rep == "reversed_view":
        x = a[::-1].copy()[::-1]
    elif rep == "fortran_row":
        m = np.asfortranarray(np.vstack([a, a * 0 + 5.0, a * 0 - 3.0]))
        x = m[0, :]
    elif rep == "readonly":
        x = a.copy()
        x.setflags(write=False)
    elif rep == "list":
        x = [complex(t) for t in a] if phases is not None else [float(t) for t in a]
    elif rep == "tuple":
        x = tuple(float(t) for t in a)
    elif rep == "list_int":
        if not integral:
            return None
        x = [int(t) for t in np.round(a * 2)]
    elif rep == "float64_0d_items":
        x = np.array([np.float64(t) for t in a])
    else:
        raise ValueError(rep)
    den = np.asarray(x).astype(complex)
    if not np.any(den):
        return None
    single = rep in ("float32", "float16x", "complex64_zero", "complex64")
    return x, den, isinstance(x, np.ndarray), single


def weight_k_indices(n, k):
    return [i for i in range(2 ** n) if bin(i).count("1") == k]


ENCODERS = [
    ("binary", {"parametrization": "hyperspherical"}, (2, 4, 8), True),
    ("binary", {"parametrization": "hopf"}, (2, 4, 8), False),
    ("hw", {"n": 4, "k": 2}, (6,), True),
    ("hw", {"n": 5, "k": 2, "optimize_controls": False}, (10,), True),
    ("hw", {"n": 4, "k": 1}, (4,), True),
    ("unary", {"architecture": "tree"}, (2, 4, 8), False),
    ("unary", {"architecture": "diagonal"}, (2, 3, 5), False),
]


def call_encoder(enc, args, x, extra=None):
    from qibo.models.encodings import binary_encoder, hamming_weight_encoder, unary_encoder
    extra = extra or {}
    if enc == "binary":
        return binary_encoder(x, parametrization=args["parametrization"], **extra), None
    if enc == "hw":
        kw = {k: v for k, v in args.items() if k not in ("n", "k")}
        return hamming_weight_encoder(x, args["n"], args["k"], **kw, **extra), weight_k_indices(args["n"], args["k"])
    return unary_encoder(x, args["architecture"], **extra), [2 ** i for i in range(len(x))]


def load_error(enc, args, x, den, tol):
    """None if encoder(x)|0> = den/||den||, else a description (raises are reported as such)"""
    snap = np.array(x, copy=True) if isinstance(x, np.ndarray) else None
    try:
        c, idx = _quiet(call_encoder, enc, args, x)
        s = np.asarray(_quiet(c).state())
    except Exception as e:  # noqa
        return f"raises {type(e).__name__}: {str(e)[:90]}"
    if snap is not None and not (np.array_equal(snap, np.asarray(x)) and snap.dtype == np.asarray(x).dtype):
        return "the data argument was modified"
    tgt = den / np.linalg.norm(den)
    if idx is not None:
        if np.abs(np.delete(s, idx)).max() > tol:
            return "amplitude outside the documented basis states"
        s = s[idx]
    if np.isnan(s).any() or np.abs(s - tgt).max() > tol:
        return f"amplitudes differ from data/||data|| (max {float(np.nanmax(np.abs(s - tgt))):.2e}, tolerance {tol:g})"
    return None


def tag_of(enc, args):
    return f"{enc}-" + (args.get("parametrization") or args.get("architecture") or f"{args['n']}_{args['k']}")


def one_representation(run, enc, args, v, rep, phases, pattern, stats, cplx_ok=True):
    r = represent(v, rep, phases)
    if r is None:
        return
    x, den, is_nd, single = r
    desc = {"encoder": enc, "args": args, "rep": rep, "pattern": pattern, "values": [float(t) for t in v],
            "phases": None if phases is None else [float(p) for p in phases]}
    run.case(["representation", desc])
    stats[f"{enc}:{rep}"] = stats.get(f"{enc}:{rep}", 0) + 1
    why = load_error(enc, args, x, den, TOL32 if single else TOL)
    if why is None:
        return
    if why.startswith("raises") and (not is_nd or (not cplx_ok and "complex" in rep)):
        # a list / tuple may be refused (the encoders document ndarray), and so may a complex dtype by the real-valued
        # constructions (unary encoders, hopf parametrisation); loading something else silently is a finding
        stats["refused"] = stats.get("refused", 0) + 1
        return
    run.find(f"repr:{tag_of(enc, args)}:{rep}:{pattern}:{len(v)}",
             f"{enc} encoder {args} on the {pattern} vector {list(v)}" + ("" if phases is None else " (complex phases)") + f" given as {rep}: {why}", desc)


def representation_matrix(run, rng):
    stats = {}
    for enc, args, sizes, cplx in ENCODERS:
        for d in sizes:
            for pattern, v in base_vectors(rng, d).items():
                for rep in REAL_REPS:
                    one_representation(run, enc, args, v, rep, None, pattern, stats, cplx_ok=cplx)
                if cplx and pattern in ("dense", "sparse"):
                    ph = [rng.choice([0.3, 1.1, 2.0, -0.7, 2.9, -2.2]) for _ in range(d)]
                    for rep in COMPLEX_REPS:
                        one_representation(run, enc, args, v, rep, ph, pattern + "_cplx", stats)
    # phase_encoder: one rotation(q, data[q]) per qubit in every representation
    from qibo.models.encodings import phase_encoder
    for d in (1, 3, 4):
        v = base_vectors(rng, d)["dense"]
        for rep in REAL_REPS:
            r = represent(v, rep)
            if r is None or "complex" in rep:
                continue
            x, den, is_nd, single = r
            for rot in ("RX", "RY", "RZ"):
                run.case(["representation", "phase", rot, rep, v])
                try:
                    c = _quiet(phase_encoder, x, rotation=rot)
                    okp = [[type(g).__name__, int(g.qubits[0]), float(g.parameters[0])] for g in c.queue] == \
                        [[rot, q, float(den[q].real)] for q in range(d)]
                except Exception:  # noqa
                    okp = not is_nd
                if not okp:
                    run.find(f"repr:phase:{rot}:{rep}:{d}", f"phase_encoder on {rep} data does not build one {rot}(q, data[q]) per qubit",
                             {"encoder": "phase", "rotation": rot, "rep": rep, "values": [float(t) for t in v]})
    return stats


# ------------------------------------------------------------------ option products (family D)
def option_matrix(run, rng):
    from qibo import gates
    from qibo.models.encodings import comp_basis_encoder, entangling_layer, ghz_state, hamming_weight_encoder
    stats = {"hw_option_cases": 0, "kwargs_cases": 0}
    # hamming_weight_encoder: full product of the boolean options x data kinds
    for (n, k) in ((3, 1), (4, 2), (5, 2), (5, 3), (4, 3)):
        idx = weight_k_indices(n, k)
        d = len(idx)
        vecs = base_vectors(rng, d)
        for pattern in ("dense", "sparse", "ints"):
            for cplx in (False, True):
                v = np.array(vecs[pattern], dtype=float)
                if not v.any():
                    v[0] = 1.0
                data = v * np.exp(1j * np.array([rng.choice([0.3, 1.1, 2.0, -0.7, 2.9]) for _ in range(d)])) if cplx else v
                for full, opt, pc, istr in itertools.product((False, True), (False, True), (True, False), (None, "default")):
                    kw = {"full_hwp": full, "optimize_controls": opt, "phase_correction": pc}
                    if istr:
                        kw["initial_string"] = np.array([1] * k + [0] * (n - k))
                    desc = {"n": n, "k": k, "pattern": pattern, "complex": cplx, "options": {a: b for a, b in kw.items() if a != "initial_string"},
                            "initial_string": istr, "re": [float(t) for t in data.real], "im": [float(t) for t in np.imag(data)]}
                    run.case(["hw_options", desc])
                    stats["hw_option_cases"] += 1
                    why = hw_option_error(data, n, k, kw, idx)
                    if why:
                        run.find(f"options:hw:{n}_{k}:full{int(full)}:opt{int(opt)}:pc{int(pc)}:{'c' if cplx else 'r'}:{pattern}:{'istr' if istr else 'noistr'}",
                                 f"hamming_weight_encoder(data, {n}, {k}, {desc['options']}, initial_string={istr}) on {pattern} "
                                 f"{'complex' if cplx else 'real'} data: {why}", desc)
    # comp_basis_encoder: one bit string in every accepted form
    for _ in range(12):
        n = rng.randint(1, 7)
        bits = [rng.randint(0, 1) for _ in range(n)]
        want = [["X", [], [q], []] for q in range(n) if bits[q]]
        s = "".join(map(str, bits))
        forms = {"int+n": ((int(s, 2),), {"nqubits": n}), "str": ((s,), {}), "str+n": ((s,), {"nqubits": n}), "list_int": ((list(bits),), {}),
                 "list_str": (([str(b) for b in bits],), {}), "tuple": ((tuple(bits),), {}), "tuple_str+n": ((tuple(str(b) for b in bits),), {"nqubits": n})}
        for nm, (a, kw) in forms.items():
            run.case(["comp_basis_forms", bits, nm])
            try:
                c = comp_basis_encoder(*a, **kw)
                ok = canon(c) == want and c.nqubits == n
            except Exception:  # noqa
                ok = False
            if not ok:
                run.find(f"options:comp_basis:{nm}:{n}", f"comp_basis_encoder({a[0]!r}, {kw}) is not X on the qubits whose bit is 1 ({s})",
                         {"bits": bits, "form": nm})
    # entangling_layer: the gate as a name and as a class
    for arch in ("diagonal", "even_layer", "odd_layer", "shifted", "next_nearest", "pyramid", "v", "x"):
        for n in (4, 6):
            for closed in (False, True):
                for gname in ("CNOT", "CZ", "SWAP", "RBS", "RZZ", "GIVENS"):
                    run.case(["entangling_gate_forms", arch, n, closed, gname])
                    try:
                        a = canon(_quiet(entangling_layer, n, arch, gname, closed))
                        b = canon(_quiet(entangling_layer, n, arch, getattr(gates, gname), closed))
                        ok = a == b and all(g[0] == gname for g in a)
                    except Exception:  # noqa
                        ok = False
                    if not ok:
                        run.find(f"options:entangling_layer:{arch}:{n}:{closed}:{gname}", "entangling_layer(entangling_gate=<name>) and "
                                 "(entangling_gate=<gate class>) differ", {"architecture": arch, "n": n, "closed_boundary": closed, "gate": gname})
    # Circuit kwargs through every data encoder / ghz: same gate list, flag applied, rho = |psi><psi|
    for enc, args, sizes, _ in ENCODERS:
        d = sizes[-1] if sizes[-1] <= 8 else sizes[0]
        v = np.array(base_vectors(rng, d)["dense"])
        base, _ = _quiet(call_encoder, enc, args, v)
        psi = np.asarray(base().state())
        for kw in ({"density_matrix": True}, {"wire_names": [f"q{(i + 1) % base.nqubits}" for i in range(base.nqubits)]}):
            run.case(["encoder_kwargs", enc, args, sorted(kw)])
            stats["kwargs_cases"] += 1
            try:
                c, _ = _quiet(call_encoder, enc, args, v, extra=kw)
                ok = canon(c) == canon(base) and bool(c.density_matrix) == bool(kw.get("density_matrix", False)) and \
                    list(c.wire_names) == list(kw.get("wire_names", range(base.nqubits)))
                if ok and kw.get("density_matrix"):
                    ok = np.abs(np.asarray(c().state()) - np.outer(psi, psi.conj())).max() <= TOL
            except Exception as e:  # noqa
                ok = False
            if not ok:
                run.find(f"options:kwargs:{tag_of(enc, args)}:{'+'.join(sorted(kw))}", "Circuit kwargs passed through the encoder change the circuit / are not applied",
                         {"encoder": enc, "args": args, "kwargs": {k_: (v_ if isinstance(v_, bool) else list(v_)) for k_, v_ in kw.items()}, "values": [float(t) for t in v]})
    for n in (2, 3, 5):
        c = ghz_state(n, density_matrix=True)
        run.case(["encoder_kwargs", "ghz", n])
        if canon(c) != canon(ghz_state(n)) or not c.density_matrix:
            run.find(f"options:kwargs:ghz:{n}", "ghz_state(n, density_matrix=True) differs from ghz_state(n)", {"n": n})
    return stats


def hw_option_error(data, n, k, kw, idx):
    from qibo.models.encodings import hamming_weight_encoder
    try:
        c = _quiet(hamming_weight_encoder, np.array(data), n, k, **kw)
        if kw.get("full_hwp"):
            # the circuit is Hamming-weight preserving: it starts from the first weight-k string (ones on the LAST k qubits)
            if any(type(g).__name__ == "X" for g in c.queue):
                return "full_hwp=True still contains X gates"
            init = np.zeros(2 ** n, dtype=complex)
            init[2 ** k - 1] = 1
            s = np.asarray(_quiet(c, initial_state=init).state())
        else:
            s = np.asarray(_quiet(c).state())
    except Exception as e:  # noqa
        return f"raises {type(e).__name__}: {str(e)[:90]}"
    tgt = np.asarray(data, dtype=complex) / np.linalg.norm(data)
    if np.isnan(s).any() or np.abs(np.delete(s, idx)).max() > TOL:
        return "amplitude outside the weight-k basis states / NaN"
    a = s[idx]
    if np.iscomplexobj(data) and not kw.get("phase_correction", True):
        # without the final phase correction only the moduli (and the phases up to the missing correction) are promised
        if np.abs(np.abs(a) - np.abs(tgt)).max() > TOL:
            return f"|amplitudes| differ from |data|/||data|| (max {float(np.abs(np.abs(a) - np.abs(tgt)).max()):.2e})"
        return None
    if np.abs(a - tgt).max() > TOL:
        return f"amplitudes differ from data/||data|| (max {float(np.abs(a - tgt).max()):.2e})"
    return None


# ------------------------------------------------------------------ replay
def replay(run, key, what, rp):
    if key.startswith("qft:dft:distributed") or key.startswith("qft:distributed") or key.startswith("corr:qft:distributed"):
        n, acc = rp["n"], rp["accelerators"]
        r = distributed_case(n, acc)
        run.case(["qft_distributed", n, acc])
        if r is not None and r["dev"] is not None and r["dev"] > 1e-9:
            run.find(key, f"QFT({n}, accelerators={acc}).unitary() is not the DFT matrix (max |U - F| = {r['dev']:.3e})", rp)
        elif key.startswith("qft:distributed:accepts") and r is not None:
            run.find(key, what, rp)
        return True
    if key.startswith("repr:") and rp.get("encoder") in ("binary", "hw", "unary"):
        r = represent(rp["values"], rp["rep"], rp.get("phases"))
        run.case(["representation", rp])
        if r is not None:
            x, den, is_nd, single = r
            why = load_error(rp["encoder"], rp["args"], x, den, TOL32 if single else TOL)
            cplx_ok = rp["encoder"] == "hw" or rp["args"].get("parametrization") == "hyperspherical"
            if why and not (why.startswith("raises") and (not is_nd or (not cplx_ok and "complex" in rp["rep"]))):
                run.find(key, what + " | " + why, rp)
        return True
    if key.startswith("options:hw:"):
        data = np.array(rp["re"]) + (1j * np.array(rp["im"]) if rp["complex"] else 0)
        kw = dict(rp["options"])
        if rp.get("initial_string"):
            kw["initial_string"] = np.array([1] * rp["k"] + [0] * (rp["n"] - rp["k"]))
        run.case(["hw_options", rp])
        why = hw_option_error(data if rp["complex"] else np.real(data), rp["n"], rp["k"], kw, weight_k_indices(rp["n"], rp["k"]))
        if why:
            run.find(key, what + " | " + why, rp)
        return True
    if key.startswith("qft:kwargs"):
        import random
        qft_options(run, random.Random(0))
        return True
    if key.startswith("options:") or key.startswith("repr:phase"):
        import random
        option_matrix(run, random.Random(0))
        return True
    return False
