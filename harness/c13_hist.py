"""C13 -- history / snapshot / non-mutation / aliasing / option-crossing / text-variation streams.

Model statement behind every stream (closed Coq counterpart: coq/theories/C13/History.v, PropsHistory.v):
an export is a function of the CURRENT abstract state of the exported object only (no dependence on the
history that produced the state, on caches that queries filled, or on shots cached on measurement gates
shared with other executions); the exported value is a snapshot (later updates of the source do not
change what it imports to); export does not change the source, import does not change the exported value;
two imports of one value are independent objects.

Streams (all cases are JSON specs -> replayable):
  hist_circuit  one circuit object driven through a history (execute / sample / set_parameters / gate.parameters=
                / set_parameters through an aliasing copy, fused, inverted, deep-copied circuit / add / wire_names /
                intermediate exports) -> raw, json, qasm export compared with the export of a circuit built from
                scratch in the final state (texts/dicts equal, imports equal), every intermediate export still
                imports to the state at export time, source/dict non-mutation, independence of two imports;
  hist_gate     the same at gate level (Gate.raw / to_json / from_dict / M.load) for every class x controls 0..3 x
                trainable x updated parameters;
  opt           option crossings compared DIRECTLY (import == original, including trainable / get_parameters /
                wire_names / density_matrix / measurement options), the same gate object twice / in two circuits;
  hist_result   results of one circuit executed several times (execute / samples / frequencies / probabilities /
                apply_bitflips / set_parameters / execute / dump / load): the loaded object against the dumped one
                at dump time and against the load of a from-scratch single execution; to_dict before/after accessors;
                load twice; payload / source non-mutation;
  text          hand-written OpenQASM: reformatting (comments, whitespace, newlines, CRLF, one line) is meaning
                preserving; parameter expressions (pi, scientific notation, negative / zero) against python arithmetic in
                every argument position, several qregs, custom gates with 0..3 parameters.
"""
import copy
import hashlib
import json
import math
import os
import random
import shutil
import tempfile
import warnings

import numpy as np

PI = math.pi


def B():
    from harness import c13
    return c13


# =====================================================================================
# exact structural snapshots
# =====================================================================================
def canon(x, depth=0):
    from qibo.gates.abstract import Gate
    if depth > 12:
        return ("deep",)
    if isinstance(x, np.ndarray):
        return ("arr", str(x.dtype), list(x.shape), hashlib.sha1(np.ascontiguousarray(x).tobytes()).hexdigest()[:16])
    if isinstance(x, dict):
        return ("dict", sorted(([repr(k), canon(v, depth + 1)] for k, v in x.items()), key=lambda kv: kv[0]))
    if isinstance(x, list):
        return ("list", [canon(v, depth + 1) for v in x])
    if isinstance(x, tuple):
        return ("tuple", [canon(v, depth + 1) for v in x])
    if isinstance(x, (bool, np.bool_)):
        return ("b", bool(x))
    if isinstance(x, (int, np.integer)):
        return ("i", int(x))
    if isinstance(x, (float, np.floating)):
        return ("f", float(x).hex())
    if isinstance(x, complex):
        return ("c", float(x.real).hex(), float(x.imag).hex())
    if x is None:
        return ("none",)
    if isinstance(x, str):
        return ("s", x)
    if isinstance(x, type):
        return ("cls", x.__name__)
    if isinstance(x, Gate):
        return ("gate", gate_state(x, depth + 1))
    return ("obj", type(x).__name__)


def gate_state(g, depth=0):
    """deep state of a gate object (everything an export could read or wrongly write)"""
    nm = type(g).__name__
    st = {"cls": nm, "init_args": canon(list(g.init_args), depth + 1), "init_kwargs": canon(dict(g.init_kwargs), depth + 1),
          "targets": list(g._target_qubits), "controls": list(g._control_qubits),
          "params": canon(tuple(g.parameters), depth + 1), "trainable": bool(getattr(g, "trainable", True)),
          "is_controlled_by": bool(g.is_controlled_by), "name": g.name}
    if nm == "M":
        res = g.result
        st.update(register_name=g.register_name, collapse=bool(g.collapse), basis=[b.__name__ for b in g.basis_gates],
                  bitflip=canon(B().bitflip_view(g)), samples=canon(getattr(res, "_samples", None)),
                  freqs=canon(dict(res._frequencies) if getattr(res, "_frequencies", None) is not None else None))
    if nm == "FusedGate":
        st["inner"] = [gate_state(x, depth + 1) for x in g.gates]
    return st


def circuit_state(c):
    return {"n": c.nqubits, "dm": bool(c.density_matrix), "wires": canon(list(c.wire_names)),
            "queue": [gate_state(g) for g in c.queue], "ids": [id(g) for g in c.queue],
            "registers": [[k, list(v)] for k, v in c.measurement_tuples.items()],
            "nparam_gates": len(c.parametrized_gates), "ntrainable": len(c.trainable_gates)}


def xgate(g):
    """equivalence view of one gate for dictionary imports: the operator view of c13.gview plus trainable"""
    v = list(B().gview(g))
    v.append(("trainable", bool(getattr(g, "trainable", True))) if g.parameters else ("trainable", None))
    return json.loads(json.dumps(v, default=str))


def xview(c):
    """equivalence view of a circuit for dictionary imports (what `equivalent object` means for Circuit.from_dict)"""
    return {"n": c.nqubits, "dm": bool(c.density_matrix), "wires": [str(w) for w in c.wire_names],
            "queue": [xgate(g) for g in c.queue],
            "registers": [[k, list(v)] for k, v in c.measurement_tuples.items()],
            "get_parameters": canon(c.get_parameters())}


def strip_results(d):
    """a circuit dictionary without the shots cached on measurement gates (state of M.result, not of the circuit)"""
    d = dict(d)
    d["queue"] = [{k: v for k, v in g.items() if k != "measurement_result"} for g in d["queue"]]
    d.pop("qibo_version", None)
    return d


def diff_keys(a, b):
    if isinstance(a, dict) and isinstance(b, dict):
        out = [k for k in sorted(set(a) | set(b)) if a.get(k) != b.get(k)]
        if out == ["queue"] and len(a["queue"]) == len(b["queue"]):
            idx = [i for i, (x, y) in enumerate(zip(a["queue"], b["queue"])) if x != y]
            return [f"queue[{i}]: {json.dumps(a['queue'][i], default=str)[:150]} != {json.dumps(b['queue'][i], default=str)[:150]}" for i in idx[:2]]
        return out
    return ["value"]


def find_once(run, key, what, replay):
    """one finding per key and run (the first, i.e. usually the smallest deterministic, input)"""
    seen = run.__dict__.setdefault("_c13_hist_seen", set())
    if key in seen:
        return
    seen.add(key)
    run.find(key, what, replay)


def quiet():
    w = warnings.catch_warnings()
    w.__enter__()
    warnings.simplefilter("ignore")
    return w


# =====================================================================================
# building gates / circuits from specs (with shared gate objects and matrix updates)
# =====================================================================================
def mk_gate(spec):
    s = {k: v for k, v in spec.items() if k not in ("uupdate", "same")}
    g = B().make_gate(s)
    if spec.get("uupdate") is not None:
        k = len(g.target_qubits)
        if type(g).__name__ == "GeneralizedfSim":
            g.parameters = (B().sample_matrix(1, spec["uupdate"]), 0.40625)
        else:
            g.parameters = B().sample_matrix(k, spec["uupdate"])
    return g


def mk_circuit(spec):
    from qibo import Circuit
    c = Circuit(spec["n"], density_matrix=bool(spec.get("dm", False)), wire_names=spec.get("wires"))
    objs = []
    for gs in spec["adds"]:
        g = objs[gs["same"]] if "same" in gs else mk_gate(gs)
        objs.append(g)
        c.add(g)
    return c


VALS = [0.8125, -0.40625, 0.0, PI, 1e-3, 3, -0.0, 1e-300, PI / 2, 2.5, -7, 0.203125, 1e16, 0.1 + 0.2]


def nparams_of(gs):
    if "same" in gs or gs["cls"] in ("M", "FusedGate"):
        return 0
    g = mk_gate(gs)
    ps = g.parameters
    if not ps or isinstance(ps[0], np.ndarray):
        return 0
    return len(ps)


def fresh_gate_spec(gs, vals):
    """spec of a gate built from scratch with parameter values `vals` (constructor path when the
    constructor order is the parameter order, otherwise one assignment after construction)"""
    P = B().pspec
    cand = dict(gs, p=[P(v) for v in vals])
    cand.pop("update", None)
    try:
        g = mk_gate(cand)
        if canon(tuple(g.parameters)) == canon(tuple(vals)):
            return cand
    except Exception:
        pass
    return dict(gs, update=[P(v) for v in vals])


class Track:
    """the harness's own account of the circuit state along a history (independent of qibo's)"""

    def __init__(self, spec):
        self.adds = [dict(a) for a in spec["adds"]]
        self.n, self.dm, self.wires = spec["n"], bool(spec.get("dm", False)), spec.get("wires")
        self.cur = {}          # add index (of the object) -> current parameter values

    def obj(self, i):
        return self.adds[i]["same"] if "same" in self.adds[i] else i

    def trainable(self, i):
        return self.adds[self.obj(i)].get("trainable", True)

    def set_flat(self, vals):
        it = iter(vals)
        for i in range(len(self.adds)):
            k = nparams_of(self.adds[self.obj(i)])
            if k and self.trainable(i):
                self.cur[self.obj(i)] = [next(it) for _ in range(k)]

    def nflat(self):
        return sum(nparams_of(self.adds[self.obj(i)]) for i in range(len(self.adds)) if self.trainable(i))

    def fresh_spec(self):
        adds = []
        for i, a in enumerate(self.adds):
            if "same" in a:
                adds.append(dict(a))
            elif i in self.cur:
                adds.append(fresh_gate_spec(a, self.cur[i]))
            else:
                adds.append(dict(a))
        out = {"n": self.n, "dm": self.dm, "adds": adds}
        if self.wires is not None:
            out["wires"] = list(self.wires)
        return out


# =====================================================================================
# stream hist_circuit
# =====================================================================================
def export(c, via):
    if via == "raw":
        return c.raw
    if via == "json":
        return json.dumps(c.raw)
    return c.to_qasm()


def import_(out, via):
    from qibo import Circuit
    w = quiet()
    try:
        if via == "raw":
            return Circuit.from_dict(out)
        if via == "json":
            return Circuit.from_dict(json.loads(out))
        return Circuit.from_qasm(out)
    finally:
        w.__exit__(None, None, None)


def iview(c, via):
    if via == "qasm":
        v = B().cview(c, True)
        return json.loads(json.dumps(v, default=str))
    return xview(c)


def out_canon(out, via):
    if via == "raw":
        return canon(strip_results(out))
    if via == "json":
        return canon(strip_results(json.loads(out)))
    return out


def try_export(c, via):
    try:
        return "ok", export(c, via)
    except Exception as e:
        return "raises:" + type(e).__name__, None


def try_import(out, via):
    try:
        return "ok", import_(out, via)
    except Exception as e:
        return "import_rejects:" + type(e).__name__, None


def shares_gates(a, c):
    ids = {id(g) for g in c.queue if g.parameters}
    for g in a.queue:
        if id(g) in ids:
            return True
        if type(g).__name__ == "FusedGate" and any(id(x) in ids for x in g.gates):
            return True
    return False


def hist_circuit_outcome(spec):
    """run one history; returns list of (tag, via, detail) failures (empty = ok) or None if the spec cannot be built"""
    import qibo
    qibo.set_backend("numpy")
    fails = []
    try:
        c = mk_circuit(spec)
    except Exception:
        return None
    tr = Track(spec)
    snaps = []
    last = None
    for oi, op in enumerate(spec["ops"]):
        np.random.seed(4000 + oi)
        kind = op[0]
        try:
            if kind == "exec":
                last = c(nshots=op[1])
            elif kind == "sample":
                if last is not None and c.measurements:
                    last.samples()
                    last.frequencies()
            elif kind == "setp":
                if len(op[1]) != tr.nflat():
                    return None
                c.set_parameters(list(op[1]))
                tr.set_flat(op[1])
            elif kind == "gset":
                i, vals = op[1], op[2]
                g = c.queue[i]
                g.parameters = tuple(vals) if len(vals) != 1 else vals[0]
                tr.cur[tr.obj(i)] = list(vals)
            elif kind == "alias":
                how, vals = op[1], op[2]
                a = {"copy": lambda: c.copy(), "deepcopy": lambda: c.copy(deep=True), "fuse": lambda: c.fuse(),
                     "invert": lambda: c.invert(), "stdcopy": lambda: copy.copy(c)}[how]()
                shared = shares_gates(a, c)
                if len(vals) != tr.nflat():
                    return None
                a.set_parameters(list(vals))
                if shared and how in ("copy", "fuse", "stdcopy"):
                    tr.set_flat(vals)
                elif shared:
                    fails.append(("alias_shares_gates", how, f"c.{how}() shares gate objects with c"))
            elif kind == "add":
                g = mk_gate(op[1])
                c.add(g)
                tr.adds.append(dict(op[1]))
            elif kind == "wires":
                c.wire_names = None if op[1] is None else list(op[1])
                tr.wires = None if op[1] is None else list(op[1])
            elif kind == "export":
                s0 = circuit_state(c)
                for via in ("raw", "json", "qasm"):
                    st, out = try_export(c, via)
                    if circuit_state(c) != s0:
                        fails.append(("source_mutated_by_export", via, "; ".join(map(str, diff_keys(s0, circuit_state(c))))[:300]))
                        s0 = circuit_state(c)
                    snaps.append({"via": via, "status": st, "out": out, "canon": None if out is None else out_canon(out, via),
                                  "fresh": tr.fresh_spec(), "at": oi})
        except Exception as e:
            return None if not fails else fails
    # ---- final export against the from-scratch circuit
    fspec = tr.fresh_spec()
    try:
        f = mk_circuit(fspec)
    except Exception:
        return None
    for via in ("raw", "json", "qasm"):
        s0 = circuit_state(c)
        sh, oh = try_export(c, via)
        if circuit_state(c) != s0:
            fails.append(("source_mutated_by_export", via, "; ".join(map(str, diff_keys(s0, circuit_state(c))))[:300]))
        sf, of = try_export(f, via)
        if sh != sf:
            fails.append(("export_differs_from_fresh", via, f"export after the history: {sh}; export of the circuit built from scratch: {sf}"))
            continue
        if sh != "ok":
            continue
        if out_canon(oh, via) != out_canon(of, via):
            a, b = (strip_results(oh if via == "raw" else json.loads(oh)), strip_results(of if via == "raw" else json.loads(of))) if via != "qasm" else (None, None)
            det = "; ".join(map(str, diff_keys(a, b)))[:400] if a is not None else "texts differ: " + " | ".join(l for l in oh.split("\n") if l not in of.split("\n"))[:300]
            fails.append(("export_differs_from_fresh", via, det))
        before = canon(oh) if via == "raw" else oh
        ih, ch = try_import(oh, via)
        if via == "raw" and canon(oh) != before:
            fails.append(("dict_mutated_by_import", via, "Circuit.from_dict changed the dictionary it was given"))
        if_, cf = try_import(of, via)
        if ih != if_:
            fails.append(("import_differs_from_fresh", via, f"{ih} vs {if_}"))
        elif ih == "ok" and iview(ch, via) != iview(cf, via):
            fails.append(("import_differs_from_fresh", via, "; ".join(map(str, diff_keys(iview(ch, via), iview(cf, via))))[:400]))
        # ---- two imports of one value are independent of each other, of the value and of the source
        if ih == "ok" and via == "raw":
            c2 = import_(oh, via)
            ids = [{id(g) for g in x.queue} for x in (c, ch, c2)]
            if ids[0] & ids[1] or ids[1] & ids[2]:
                fails.append(("imports_share_state", via, "imported circuits share gate objects (with each other or with the source)"))
            for g1, g2, gd, gsrc in zip(ch.queue, c2.queue, oh["queue"], c.queue):
                if g1.init_kwargs is g2.init_kwargs or g1.init_kwargs is gd["init_kwargs"] or g1.init_kwargs is gsrc.init_kwargs \
                        or g1.init_args is g2.init_args or g1.init_args is gd["init_args"]:
                    fails.append(("imports_share_state", via, f"init_args / init_kwargs object of {type(g1).__name__} is shared"))
                    break
            v2, sd, ss = xview(c2), canon(oh), circuit_state(c)
            flat = [p for ps in ch.get_parameters() for p in ps]
            k = len(flat)
            try:
                if k and not any(isinstance(p, np.ndarray) for p in flat):
                    ch.set_parameters([0.015625 * (j + 1) for j in range(k)])
                from qibo import gates as G
                ch.add(G.X(0))
            except Exception:
                pass
            if xview(c2) != v2 or canon(oh) != sd or circuit_state(c) != ss:
                fails.append(("imports_share_state", via, "updating one imported circuit changed "
                              + ("another import" if xview(c2) != v2 else "the exported dictionary" if canon(oh) != sd else "the source circuit")))
    # ---- every intermediate export still imports to the state at export time
    for sn in snaps:
        via = sn["via"]
        if sn["status"] != "ok":
            continue
        if out_canon(sn["out"], via) != sn["canon"]:
            fails.append(("snapshot_changed", via, f"the value exported at op {sn['at']} changed when the source was used afterwards"))
        try:
            fs = mk_circuit(sn["fresh"])
            so, oo = try_export(fs, via)
        except Exception:
            continue
        if so != "ok":
            continue
        i1, c1 = try_import(sn["out"], via)
        i2, c2 = try_import(oo, via)
        if i1 != i2:
            fails.append(("snapshot_import", via, f"export made at op {sn['at']}: {i1} vs {i2}"))
        elif i1 == "ok" and iview(c1, via) != iview(c2, via):
            fails.append(("snapshot_import", via, f"export made at op {sn['at']} imports to the state after later updates: "
                          + "; ".join(map(str, diff_keys(iview(c1, via), iview(c2, via))))[:300]))
    return fails


def shrink_ops(spec, fails_fn, tag_via):
    cur = dict(spec)
    changed = True
    while changed:
        changed = False
        for i in range(len(cur["ops"])):
            cand = dict(cur, ops=cur["ops"][:i] + cur["ops"][i + 1:])
            r = fails_fn(cand)
            if r and any((t, v) == tag_via for t, v, _ in r):
                cur, changed = cand, True
                break
    return cur


PARAM_POOL = None


def param_pool():
    """parametrized classes with numeric parameters that can be built, updated and exported"""
    global PARAM_POOL
    if PARAM_POOL is None:
        b = B()
        out = []
        for name in sorted(b.namespace()):
            if name in b.ABSTRACT or name in ("M", "FusedGate", "Unitary", "GeneralizedfSim", "Align", "CallbackGate", "MS") or "Channel" in name:
                continue
            try:
                g, _ = b.build(name, b.placement(b.arity(name)), [0.25, 0.5, 0.125])
                if g.parameters and not isinstance(g.parameters[0], np.ndarray):
                    out.append(name)
            except Exception:
                pass
        PARAM_POOL = out
    return PARAM_POOL


def vals_for(rng, k, special=False):
    pool = VALS if special or rng.random() < 0.5 else VALS[:6]
    return [rng.choice(pool) for _ in range(k)]


def random_param_circuit(rng, labelled_only=False):
    b = B()
    n = rng.randint(2, 4)
    pool = param_pool()
    if labelled_only:
        lab = set(b.labelled_classes())
        pool = [p for p in pool if p in lab]
    fixed = ["H", "CNOT", "X", "CZ", "SWAP", "TOFFOLI", "S"]
    adds = []
    for _ in range(rng.randint(2, 5)):
        name = rng.choice(pool) if rng.random() < 0.7 else rng.choice(fixed)
        k = b.arity(name)
        if k > n:
            continue
        qs = rng.sample(range(n), k)
        gs = {"cls": name, "q": qs, "p": [b.pspec(v) for v in vals_for(rng, 4)]}
        r = rng.random()
        if r < 0.2 and len(qs) < n and not labelled_only:
            gs["ctrl"] = [q for q in range(n) if q not in qs][:rng.randint(1, 2)]
        if rng.random() < 0.2 and name in pool:
            gs["trainable"] = False
        try:
            mk_gate(gs)
        except Exception:
            continue
        adds.append(gs)
    if adds and rng.random() < 0.25:
        j = rng.randrange(len(adds))
        if "same" not in adds[j] and nparams_of(adds[j]):
            adds.append({"same": j})
    if rng.random() < 0.7:
        qs = rng.sample(range(n), rng.randint(1, n))
        adds.append({"cls": "M", "q": qs, "kw": {"register_name": rng.choice(["a", "out", "m0"])}})
    spec = {"n": n, "dm": rng.random() < 0.2, "adds": adds}
    if rng.random() < 0.25:
        spec["wires"] = [f"w{i}" for i in range(n)]
    return spec


def random_ops(rng, spec):
    tr = Track(spec)
    nflat = tr.nflat()
    pidx = [i for i, a in enumerate(spec["adds"]) if nparams_of(spec["adds"][tr.obj(i)])]
    ops = []
    has_m = any(a.get("cls") == "M" for a in spec["adds"])
    for _ in range(rng.randint(2, 6)):
        r = rng.random()
        if r < 0.15:
            ops.append(["exec", rng.randint(1, 8)])
            if has_m and rng.random() < 0.7:
                ops.append(["sample"])
        elif r < 0.35 and nflat:
            ops.append(["setp", vals_for(rng, nflat)])
        elif r < 0.55 and pidx:
            i = rng.choice(pidx)
            ops.append(["gset", i, vals_for(rng, nparams_of(spec["adds"][tr.obj(i)]))])
        elif r < 0.75 and nflat:
            ops.append(["alias", rng.choice(["copy", "fuse", "invert", "deepcopy", "stdcopy"]), vals_for(rng, nflat)])
        elif r < 0.9:
            ops.append(["export"])
        elif r < 0.95:
            ops.append(["wires", rng.choice([None, [f"x{i}" for i in range(spec["n"])]])])
        else:
            ops.append(["exec", 2])
    if not any(o[0] in ("setp", "gset", "alias") for o in ops) and pidx:
        i = pidx[0]
        ops.insert(rng.randint(0, len(ops)), ["gset", i, vals_for(rng, nparams_of(spec["adds"][tr.obj(i)]), True)])
    return ops


def fixed_hist_circuits():
    b = B()
    P = b.pspec
    out = []
    base = {"n": 3, "adds": [{"cls": "RX", "q": [0], "p": [P(0.1)]}, {"cls": "CNOT", "q": [0, 2]},
                             {"cls": "U3", "q": [1], "p": [P(0.3), P(1.1), P(-0.4)]},
                             {"cls": "CRY", "q": [2, 1], "p": [P(0.7)]},
                             {"cls": "M", "q": [2, 0], "kw": {"register_name": "a"}}]}
    five = [0.8125, -0.40625, 0.0, PI, 1e-3]
    out.append(dict(base, ops=[["export"], ["setp", five], ["export"], ["setp", [3, -0.0, 1e-300, 2.5, PI / 2]]]))
    out.append(dict(base, ops=[["exec", 5], ["sample"], ["setp", five], ["exec", 4]]))
    out.append(dict(base, ops=[["export"], ["gset", 0, [PI]], ["export"], ["gset", 2, [0.0, 1e-3, 3]], ["gset", 0, [0.0]]]))
    for how in ("copy", "fuse", "invert", "deepcopy", "stdcopy"):
        out.append(dict(base, ops=[["export"], ["alias", how, five], ["export"]]))
        out.append(dict(base, ops=[["exec", 3], ["alias", how, five], ["gset", 3, [1e-3]]]))
    out.append(dict(base, ops=[["export"], ["add", {"cls": "RZ", "q": [1], "p": [P(0.25)]}], ["setp", five + [0.5]], ["export"],
                               ["add", {"cls": "H", "q": [1]}]]))
    out.append(dict(base, wires=["a", "b", "c"], ops=[["export"], ["wires", ["x", "y", "z"]], ["export"], ["wires", None]]))
    out.append(dict(base, ops=[["wires", ["x", "y", "z"]], ["export"], ["wires", None], ["setp", five]]))
    # the same gate object twice (and updated through either occurrence)
    twice = {"n": 2, "adds": [{"cls": "RX", "q": [0], "p": [P(0.1)]}, {"cls": "H", "q": [1]}, {"same": 0},
                              {"cls": "RY", "q": [1], "p": [P(0.2)], "trainable": False}, {"cls": "M", "q": [1, 0], "kw": {"register_name": "a"}}]}
    out.append(dict(twice, ops=[["export"], ["gset", 2, [0.8125]], ["export"]]))
    out.append(dict(twice, ops=[["gset", 0, [PI]], ["exec", 3], ["gset", 3, [1e-3]]]))
    out.append(dict(twice, ops=[["export"], ["setp", [0.5, 0.25]], ["export"]]))
    # non-trainable and controlled_by-form gates under updates
    ctl = {"n": 4, "adds": [{"cls": "RX", "q": [3], "p": [P(0.5)], "ctrl": [1, 0]}, {"cls": "RY", "q": [0], "p": [P(0.2)], "trainable": False},
                            {"cls": "U2", "q": [2], "p": [P(0.2), P(0.4)], "ctrl": [0]}, {"cls": "fSim", "q": [1, 3], "p": [P(0.1), P(0.9)]},
                            {"cls": "RZ", "q": [1], "p": [P(0.3)], "ctrl": [0, 2, 3]}]}
    out.append(dict(ctl, ops=[["export"], ["setp", [0.8125, -0.40625, 0.0, PI, 1e-3, 3]], ["export"], ["gset", 1, [2.5]], ["gset", 4, [-0.0]]]))
    out.append(dict(ctl, dm=True, ops=[["alias", "copy", [0.8125, -0.40625, 0.0, PI, 1e-3, 3]], ["export"], ["alias", "fuse", [1, 2, 3, 4, 5, 6]]]))
    # matrix-valued parameters updated after construction (through the gate, through the circuit)
    uni = {"n": 2, "adds": [{"cls": "H", "q": [0]}, {"cls": "Unitary", "q": [1]}, {"cls": "Unitary", "q": [1, 0]}]}
    out.append(dict(uni, ops=[["export"], ["usetp", [1, 2]]], tag="Unitary"))
    out.append(dict(uni, ops=[["ugset", 1, 3]], tag="Unitary"))
    return out


def hist_circuit_outcome_u(spec):
    """histories with matrix-valued parameter updates (Unitary): separate, simpler interpreter"""
    import qibo
    qibo.set_backend("numpy")
    b = B()
    fails = []
    c = mk_circuit(spec)
    fadds = [dict(a) for a in spec["adds"]]
    uidx = [i for i, a in enumerate(spec["adds"]) if a["cls"] == "Unitary"]
    snaps = []
    for oi, op in enumerate(spec["ops"]):
        if op[0] == "export":
            snaps.append((c.raw, canon(strip_results(c.raw)), {"n": spec["n"], "adds": [dict(a) for a in fadds]}))
        elif op[0] == "usetp":
            c.set_parameters([b.sample_matrix(len(spec["adds"][i]["q"]), s) for i, s in zip(uidx, op[1])])
            for i, s in zip(uidx, op[1]):
                fadds[i] = dict(spec["adds"][i], uupdate=s)
        elif op[0] == "ugset":
            c.queue[op[1]].parameters = b.sample_matrix(len(spec["adds"][op[1]]["q"]), op[2])
            fadds[op[1]] = dict(spec["adds"][op[1]], uupdate=op[2])
    # from-scratch circuit: Unitary constructed directly with the final matrix
    from qibo import Circuit, gates
    f = Circuit(spec["n"])
    for a in fadds:
        if a["cls"] == "Unitary" and a.get("uupdate") is not None:
            f.add(gates.Unitary(b.sample_matrix(len(a["q"]), a["uupdate"]), *a["q"]))
        else:
            f.add(mk_gate({k: v for k, v in a.items() if k != "uupdate"}))
    ch, cf = import_(c.raw, "raw"), import_(f.raw, "raw")
    if xview(ch) != xview(cf):
        fails.append(("import_differs_from_fresh", "raw", "; ".join(map(str, diff_keys(xview(ch), xview(cf))))[:300]))
    if xview(ch) != xview(c):
        fails.append(("import_differs_from_source", "raw", "; ".join(map(str, diff_keys(xview(ch), xview(c))))[:300]))
    for out, cn, fs in snaps:
        if canon(strip_results(out)) != cn:
            fails.append(("snapshot_changed", "raw", "exported dictionary changed after a later parameter update"))
    return fails


def hist_key(tag, via, spec):
    kinds = "+".join(o[0] if o[0] != "alias" else f"alias.{o[1]}" for o in spec["ops"]) or "none"
    return f"hist:circuit:{tag}:{via}:{kinds}" + (":" + spec["tag"] if spec.get("tag") else "")


def run_hist_circuit_spec(run, spec, stats):
    fn = hist_circuit_outcome_u if spec.get("tag") == "Unitary" else hist_circuit_outcome
    fails = fn(spec)
    if fails is None:
        stats["unbuildable"] = stats.get("unbuildable", 0) + 1
        return
    run.case(["hist_circuit", spec])
    stats["ok" if not fails else "failing"] = stats.get("ok" if not fails else "failing", 0) + 1
    seen = set()
    for tag, via, det in fails:
        if (tag, via) in seen:
            continue
        seen.add((tag, via))
        small = spec if spec.get("tag") else shrink_ops(spec, fn, (tag, via))
        r2 = fn(small) or []
        det2 = next((d for t, v, d in r2 if (t, v) == (tag, via)), det)
        find_once(run, hist_key(tag, via, small), f"circuit export after a history ({via}): {tag}: {det2}",
                 {"suite": "hist_circuit", "spec": small, "tag": tag, "via": via, "detail": det2})


def suite_hist_circuit(run, rng, T):
    stats = {}
    specs = list(fixed_hist_circuits())
    N = 160 if run.tier == "thorough" else 45
    for i in range(N):
        s = random_param_circuit(rng, labelled_only=(i % 3 == 0))
        s["ops"] = random_ops(rng, s)
        specs.append(s)
    for i, spec in enumerate(specs):
        run_hist_circuit_spec(run, spec, stats)
        if i in (0, 5):
            run.sample({"suite": "hist_circuit", "spec": spec})
    T["hist_circuit_stats"] = stats
    run.oblige("circuit export histories were executed (export is a function of the current state; snapshots; non-mutation; independent imports)",
               stats.get("ok", 0) + stats.get("failing", 0) >= 30, "coverage")


# =====================================================================================
# stream hist_gate  +  opt (direct comparison of option crossings)
# =====================================================================================
def gate_export(g, via):
    if via == "raw":
        return g.raw
    return g.to_json()


def gate_import(out, via):
    from qibo.gates.abstract import Gate
    w = quiet()
    try:
        if via == "raw":
            return Gate.from_dict(out)
        if via == "load":
            return B().qg().M.load(out)
        return Gate.from_dict(json.loads(out))
    finally:
        w.__exit__(None, None, None)


def gate_hist_outcome(spec):
    """spec: gate spec + "new": values assigned after the first export (None: no parameters)"""
    fails = []
    try:
        g = mk_gate(spec)
    except Exception:
        return None
    new = spec.get("new")
    vias = ("raw", "json") + (("load",) if spec["cls"] == "M" else ())
    first = {}
    for via in vias:
        s0 = gate_state(g)
        try:
            out = gate_export(g, "json" if via == "load" else via)
        except Exception as e:
            first[via] = None
            continue
        if gate_state(g) != s0:
            fails.append(("source_mutated_by_export", via, "; ".join(map(str, diff_keys(s0, gate_state(g))))[:300]))
        first[via] = (out, canon(out), xgate(g))
    if new is not None:
        g.parameters = tuple(new) if len(new) != 1 else new[0]
        fspec = fresh_gate_spec({k: v for k, v in spec.items() if k != "new"}, new)
    else:
        fspec = {k: v for k, v in spec.items() if k != "new"}
    try:
        f = mk_gate(fspec)
    except Exception:
        return None
    for via in vias:
        ev = "json" if via == "load" else via
        try:
            oh = gate_export(g, ev)
        except Exception as e:
            oh = None
        try:
            of = gate_export(f, ev)
        except Exception:
            of = None
        if (oh is None) != (of is None):
            fails.append(("export_differs_from_fresh", via, "one export raises, the other does not"))
            continue
        if oh is not None:
            if canon(oh) != canon(of):
                fails.append(("export_differs_from_fresh", via, f"{str(oh)[:160]} != {str(of)[:160]}"))
            before = canon(oh)
            try:
                gh = gate_import(oh, via)
            except Exception as e:
                gh = "rejects:" + type(e).__name__
            if canon(oh) != before:
                fails.append(("dict_mutated_by_import", via, "Gate.from_dict changed the dictionary it was given"))
            try:
                gf = gate_import(of, via)
            except Exception as e:
                gf = "rejects:" + type(e).__name__
            if isinstance(gh, str) or isinstance(gf, str):
                if (gh if isinstance(gh, str) else "ok") != (gf if isinstance(gf, str) else "ok"):
                    fails.append(("import_differs_from_fresh", via, f"{gh} vs {gf}"))
            else:
                if xgate(gh) != xgate(gf):
                    fails.append(("import_differs_from_fresh", via, f"{xgate(gh)} != {xgate(gf)}"[:300]))
                # direct comparison: the import against the exported object itself
                a, bb = xgate(gh), xgate(g)
                if a != bb:
                    only_tr = a[:-1] == bb[:-1]
                    fails.append(("trainable_dropped" if only_tr else "import_differs_from_source", via, f"{a} != {bb}"[:300]))
                if via == "raw":
                    g2 = gate_import(oh, via)
                    if g2 is gh or g2.init_kwargs is gh.init_kwargs or g2.init_args is gh.init_args or gh.init_kwargs is g.init_kwargs \
                            or gh.init_kwargs is oh["init_kwargs"]:
                        fails.append(("imports_share_state", via, "two imports of one dictionary share objects"))
                    if new is not None and spec["cls"] != "M":
                        v2, sd, ss = xgate(g2), canon(oh), gate_state(g)
                        try:
                            gh.parameters = tuple(0.015625 * (j + 1) for j in range(len(new))) if len(new) != 1 else 0.015625
                        except Exception:
                            pass
                        if xgate(g2) != v2 or canon(oh) != sd or gate_state(g) != ss:
                            fails.append(("imports_share_state", via, "updating one imported gate changed another import / the dictionary / the source"))
        # the first export (before the update) still imports to the old state
        if first.get(via) is not None:
            out0, c0, v0 = first[via]
            if canon(out0) != c0:
                fails.append(("snapshot_changed", via, "the dictionary exported before the update changed with the update"))
            try:
                g0 = gate_import(out0, via)
                a = xgate(g0)
                if a[:-1] != v0[:-1]:
                    fails.append(("snapshot_import", via, f"{a} != {v0}"[:300]))
            except Exception:
                pass
    return fails


KNOWN_DIRECT = ("Align", "FusedGate")      # classes whose plain raw round trip is a filed finding (raw:differs:Align, ...FusedGate)


def gate_hist_specs(tier, rng):
    b = B()
    P = b.pspec
    out = []
    names = [n for n in sorted(b.namespace()) if n not in b.ABSTRACT and n not in ("M", "FusedGate", "CallbackGate") and "Channel" not in n
             and n not in KNOWN_DIRECT]
    for ni, name in enumerate(names):
        k = b.arity(name)
        base = {"cls": name, "q": b.placement(k, ni), "p": [P(v) for v in (0.25, 0.5, 0.125, 0.375)]}
        try:
            g = mk_gate(base)
        except Exception:
            continue
        matrix = bool(g.parameters) and any(isinstance(p, np.ndarray) for p in g.parameters)
        npar = 0 if matrix else len(g.parameters)
        free = [q for q in range(8) if q not in base["q"]]
        combos = [(0, None), (1, False), (2, None), (3, False), (1, None), (2, False)] if tier == "thorough" else \
            [(0, None), (1 + ni % 3, False), (1 + (ni + 1) % 3, None), (0, False)]
        for ci, (nc, tr) in enumerate(combos):
            s = dict(base)
            if nc:
                s["ctrl"] = free[:nc][::-1]
                try:
                    mk_gate(s)
                except Exception:      # classes that are controlled by construction reject controlled_by
                    s.pop("ctrl")
                    if ci not in (0, 3):
                        continue
            if tr is not None and (npar or matrix):
                s["trainable"] = tr
            elif tr is not None:
                continue
            if npar:
                s["new"] = [VALS[(ni + ci + j) % len(VALS)] for j in range(npar)]
                if name == "MS":
                    s["new"] = s["new"][:2] + [0.203125]
            if matrix and ci % 2 == 1:
                s["uupdate"] = 2 + ci
            out.append(s)
    M = lambda q, **kw: {"cls": "M", "q": list(q), "kw": kw}
    out += [M([2, 0]), M([1], register_name="a"), M([3, 1, 2], register_name="Reg_X", collapse=True),
            M([2, 0], register_name="r", collapse=True), M([2, 0], basis=["Z", "Z"], p0=[0.125, 0.25], p1=0.375),
            M([2, 0], p0=[0.125, 0.25], p1=[0.5, 0.0625], register_name="n"), M([0, 1, 2, 3, 4, 5], register_name="all", p1=0.0),
            M([1], basis="cls:Y", collapse=True, register_name="yc"), M([2, 0], basis=["cls:X", "cls:Y"], p0=0.0625)]
    return out


def gate_hist_key(tag, via, spec):
    opts = []
    if spec.get("ctrl"):
        opts.append(f"ctrl{len(spec['ctrl'])}")
    if spec.get("trainable") is False:
        opts.append("nontrainable")
    if spec.get("new") is not None:
        opts.append("updated")
    if spec.get("uupdate") is not None:
        opts.append("matrix_updated")
    return f"hist:gate:{tag}:{via}:{spec['cls']}" + ("." + ".".join(opts) if opts else "")


def suite_hist_gate(run, rng, T):
    stats = {}
    for i, spec in enumerate(gate_hist_specs(run.tier, rng)):
        fails = gate_hist_outcome(spec)
        if fails is None:
            stats["unbuildable"] = stats.get("unbuildable", 0) + 1
            continue
        run.case(["hist_gate", spec])
        stats["ok" if not fails else "failing"] = stats.get("ok" if not fails else "failing", 0) + 1
        seen = set()
        for tag, via, det in fails:
            if (tag, via) in seen:
                continue
            seen.add((tag, via))
            if tag == "trainable_dropped":
                key = f"trainable_dropped:gate_{'json' if via != 'raw' else 'raw'}:{spec['cls']}"
            else:
                key = gate_hist_key(tag, via, spec)
            find_once(run, key, f"gate export ({via}) of {spec['cls']}: {tag}: {det}",
                     {"suite": "hist_gate", "spec": spec, "tag": tag, "via": via, "detail": det})
    T["hist_gate_stats"] = stats
    run.oblige("gate export histories were executed for every serialisable class x controls x trainable x updated parameters",
               stats.get("ok", 0) + stats.get("failing", 0) >= 100, "coverage")


# ------------------------------------------------------------------ opt: circuits, direct comparison
def opt_circuit_specs(tier, rng):
    b = B()
    P = b.pspec
    out = []
    M = lambda q, **kw: {"cls": "M", "q": list(q), "kw": kw}
    names = [n for n in sorted(b.namespace()) if n not in b.ABSTRACT and n not in ("M", "FusedGate", "CallbackGate", "GeneralizedfSim")
             and "Channel" not in n and n not in KNOWN_DIRECT]
    mopts = [dict(register_name="a"), dict(register_name="b", collapse=True), dict(register_name="c", p0=0.125),
             dict(register_name="d", p0=[0.125, 0.25], p1=0.375), dict(register_name="e", p1=[0.5, 0.0625]),
             dict(register_name="Big_1", collapse=True), dict(register_name="f", basis=["Z", "Z"])]
    for ni, name in enumerate(names):
        k = b.arity(name)
        n = 6
        base = {"cls": name, "q": b.placement(k, ni), "p": [P(v) for v in VALS[ni % 5:ni % 5 + 4]]}
        if name == "MS":
            base["p"] = [P(0.25), P(0.5), P(0.125)]
        try:
            g = mk_gate(base)
        except Exception:
            continue
        npar = len(g.parameters) if g.parameters and not isinstance(g.parameters[0], np.ndarray) else 0
        free = [q for q in range(n) if q not in base["q"]]
        g1 = dict(base, ctrl=free[:1 + ni % 3][::-1])
        try:
            mk_gate(g1)
        except Exception:
            g1 = dict(base)
        g2 = dict(base)
        if npar:
            g1["trainable"] = False if ni % 2 == 0 else True
            g2["trainable"] = False if ni % 2 == 1 else True
            g2["update"] = [P(VALS[(ni + j) % len(VALS)]) for j in range(npar)] if name != "MS" else [P(0.5), P(0.25), P(0.203125)]
        mq = [q for q in free[::-1][:2]] or [0]
        adds = [g1, {"cls": "H", "q": [base["q"][0]]}, M(mq[:1], register_name="mid", **({"collapse": True} if ni % 4 == 0 else {})),
                g2, M(mq, **mopts[ni % len(mopts)]), M([base["q"][0]], register_name="z9")]
        spec = {"n": n, "dm": ni % 3 == 0, "adds": adds}
        if ni % 2 == 0:
            spec["wires"] = [f"w{j}" for j in range(n)] if ni % 4 == 0 else ["q5", "q4", "q3", "q2", "q1", "q0"]
        out.append(spec)
    # the same gate object at two positions / a gate object also used in another circuit of another size
    out.append({"n": 3, "adds": [{"cls": "CRX", "q": [2, 0], "p": [P(0.3)]}, {"cls": "H", "q": [1]}, {"same": 0}, {"cls": "X", "q": [1], "ctrl": [0, 2]}, {"same": 3}]})
    out.append({"n": 2, "adds": [{"cls": "U3", "q": [1], "p": [P(0.1), P(0.2), P(0.3)], "trainable": False}, {"same": 0}, {"same": 0}]})
    return out


def opt_circuit_outcome(spec, via):
    from qibo import Circuit
    try:
        c = mk_circuit(spec)
        if spec.get("also_in"):
            other = Circuit(spec["also_in"])
            for g in c.queue:
                if type(g).__name__ != "M" and max(g.qubits) < spec["also_in"]:
                    other.add(g)
    except Exception as e:
        return None
    s0 = circuit_state(c)
    try:
        d = c.raw
        if via == "json":
            d = json.loads(json.dumps(d))
    except Exception as e:
        return []
    fails = []
    if circuit_state(c) != s0:
        fails.append(("source_mutated_by_export", "; ".join(map(str, diff_keys(s0, circuit_state(c))))[:300]))
    before = canon(d)
    w = quiet()
    try:
        c2 = Circuit.from_dict(d)
    except Exception as e:
        w.__exit__(None, None, None)
        return fails + [("import_rejects", f"{type(e).__name__}: {str(e)[:120]}")]
    w.__exit__(None, None, None)
    if canon(d) != before:
        fails.append(("dict_mutated_by_import", "Circuit.from_dict changed its argument"))
    a, bb = xview(c), xview(c2)
    if a != bb:
        qa = [g[:-1] for g in a["queue"]]
        qb = [g[:-1] for g in bb["queue"]]
        rest_a = {k: v for k, v in a.items() if k not in ("queue", "get_parameters")}
        rest_b = {k: v for k, v in bb.items() if k not in ("queue", "get_parameters")}
        if qa == qb and rest_a == rest_b:
            cls = sorted({ga[0] for ga, gb in zip(a["queue"], bb["queue"]) if ga != gb})
            fails.append(("trainable_dropped", f"classes {cls}: get_parameters() of the import has {len(c2.get_parameters())} entries, the original {len(c.get_parameters())}"))
        else:
            fails.append(("differs", "; ".join(map(str, diff_keys(a, bb)))[:400]))
    return fails


def suite_opt(run, rng, T):
    stats = {}
    specs = opt_circuit_specs(run.tier, rng)
    for i, spec in enumerate(specs):
        for via in ("raw", "json"):
            fails = opt_circuit_outcome(spec, via)
            if fails is None:
                stats["unbuildable"] = stats.get("unbuildable", 0) + 1
                continue
            run.case(["opt", via, spec])
            stats["ok" if not fails else "failing"] = stats.get("ok" if not fails else "failing", 0) + 1
            for tag, det in fails:
                main = next((a["cls"] for a in spec["adds"] if "cls" in a and a["cls"] not in ("M", "H")), "none")
                key = f"trainable_dropped:circuit_{via}:{main}" if tag == "trainable_dropped" else f"opt:circuit_{via}:{tag}:{main}"
                find_once(run, key, f"Circuit.raw -> from_dict ({via}) with crossed options: {tag}: {det}",
                         {"suite": "opt", "spec": spec, "via": via, "tag": tag, "detail": det})
    # ---- QASM export of controlled_by-form gates: every labelled class x 1..3 controls -> refusal or a faithful round trip
    b = B()
    qstats = {}
    for ni, name in enumerate(b.labelled_classes()):
        k = b.arity(name)
        for nc in (1, 2, 3):
            base = {"cls": name, "q": b.placement(k, ni), "p": [b.pspec(v) for v in (0.25, 0.5, 0.125, 0.375)]}
            free = [q for q in range(7) if q not in base["q"]]
            spec = {"n": 7, "adds": [dict(base, ctrl=free[:nc][::-1]), {"cls": "H", "q": [free[-1]]}]}
            try:
                mk_circuit(spec)
            except Exception:
                continue
            cat, detail, _ = b.qasm_outcome(spec)
            qstats[cat] = qstats.get(cat, 0) + 1
            run.case(["opt_qasm_ctrl", spec])
            if cat in ("import_rejects", "differs"):
                find_once(run, f"opt:qasm_controlled_by:{cat}:{name}.ctrl{nc}",
                          f"to_qasm() of {name}.controlled_by({nc} controls) is neither refused nor read back as the same gate: {detail}",
                          {"suite": "qasm", "spec": spec, "category": cat, "detail": detail})
    stats["qasm_controlled_by"] = qstats
    T["opt_stats"] = stats


# =====================================================================================
# stream hist_result
# =====================================================================================
def result_state(r):
    from qibo.result import QuantumState, MeasurementOutcomes
    st = {"type": type(r).__name__}
    if isinstance(r, QuantumState):
        st["state"] = canon(np.asarray(r._state))
    if isinstance(r, MeasurementOutcomes):
        st.update(samples=canon(r._samples), freqs=canon(dict(r._frequencies) if r._frequencies is not None else None),
                  probs=canon(None if r._probs is None else np.asarray(r._probs)), nshots=r.nshots,
                  repeated=canon(dict(r._repeated_execution_frequencies) if r._repeated_execution_frequencies is not None else None),
                  gates=[gate_state(m) for m in r.measurements])
    return st


def final_view(r, seed):
    """observable content of a (loaded) result; sampling that the accessors may have to do is seeded"""
    from qibo.result import QuantumState, MeasurementOutcomes
    v = {"type": type(r).__name__}
    if isinstance(r, QuantumState):
        v["state"] = canon(np.asarray(r.state()))
    if isinstance(r, MeasurementOutcomes):
        np.random.seed(seed)
        v["registers"] = [[m.register_name, list(m.target_qubits)] for m in r.measurements]
        v["nshots"] = r.nshots
        v["samples"] = canon(np.asarray(r.samples()))
        v["frequencies"] = sorted(dict(r.frequencies()).items())
        v["reg_frequencies"] = sorted((str(k), sorted(dict(f).items())) for k, f in r.frequencies(registers=True).items())
        v["reg_samples"] = sorted((str(k), canon(np.asarray(s))) for k, s in r.samples(registers=True).items())
        try:
            v["probabilities"] = canon(np.asarray(r.probabilities()))
        except Exception as e:
            v["probabilities"] = "raises:" + type(e).__name__
    return v


def dump_load(r, via, tmp, name="r.npy", between=None):
    """export, optionally keep using the source objects (`between`), then import under a fixed seed"""
    from qibo import result as R
    fn = os.path.join(tmp, name)
    w = quiet()
    try:
        if via == "dict":
            p = r.to_dict()
            p = dict(p)
            p.pop("dtype", None)
            if between is not None:
                between()
            np.random.seed(9001)
            return type(r).from_dict(p)
        r.dump(fn)
        if between is not None:
            between()
        np.random.seed(9001)
        if via == "load":
            return type(r).load(fn)
        return R.load_result(fn)
    finally:
        w.__exit__(None, None, None)


def apply_result_op(op, results, c, track_calls, oi):
    kind = op[0]
    if kind in ("samples", "freq", "probs", "regsamples", "bitflips", "regfreq"):
        i = op[1]
        if i >= len(results):
            return
        r = results[i]
        if kind == "samples":
            r.samples()
        elif kind == "freq":
            r.frequencies()
        elif kind == "regfreq":
            r.frequencies(registers=True)
        elif kind == "probs":
            r.probabilities()
        elif kind == "regsamples":
            r.samples(registers=True)
        elif kind == "bitflips":
            s = canon(np.asarray(r.samples()))
            r.apply_bitflips(op[2])
            if canon(np.asarray(r._samples)) != s:
                raise AssertionError("apply_bitflips changed the stored samples")
        track_calls.setdefault(i, []).append((oi, op))


def hist_result_outcome(spec):
    """returns list of (tag, detail) failures, [] if fine, None if not buildable"""
    import qibo
    from qibo.result import MeasurementOutcomes, QuantumState
    qibo.set_backend("numpy")
    tmp = tempfile.mkdtemp(prefix="c13h_")
    fails = []
    try:
        try:
            c = mk_circuit(spec["circuit"])
        except Exception:
            return None
        tr = Track(spec["circuit"])
        results, info, calls = [], [], {}
        for oi, op in enumerate(spec["ops"]):
            np.random.seed(7000 + oi)
            try:
                if op[0] == "exec":
                    results.append(c(nshots=op[1]))
                    info.append({"oi": oi, "nshots": op[1], "fresh": tr.fresh_spec()})
                elif op[0] == "setp":
                    if len(op[1]) != tr.nflat():
                        return None
                    c.set_parameters(list(op[1]))
                    tr.set_flat(op[1])
                else:
                    apply_result_op(op, results, c, calls, oi)
            except AssertionError as e:
                fails.append(("accessor_mutates", str(e)))
            except Exception:
                return None
        di, via = spec["dump"], spec["via"]
        if di >= len(results):
            return None
        r = results[di]
        # ---- (B) dump does not change the dumped result nor the other results; to_dict is a snapshot
        s_all = [result_state(x) for x in results]
        dump_view = result_state(r)
        p_before = r.to_dict() if hasattr(r, "to_dict") else None
        p_canon = canon(p_before)
        own_samples = None if r._samples is None else np.array(r._samples)
        own_freq = None if r._samples is None else sorted(dict(r.frequencies()).items())
        own_regs = [[m.register_name, list(m.target_qubits)] for m in r.measurements] if isinstance(r, MeasurementOutcomes) else None
        noisy = isinstance(r, MeasurementOutcomes) and any(m.has_bitflip_noise() for m in r.measurements)
        own_probs = canon(np.asarray(r.probabilities())) if isinstance(r, QuantumState) and isinstance(r, MeasurementOutcomes) and not noisy else None
        s_all = [result_state(x) for x in results]

        def between():
            # dump -> the source circuit is executed and sampled again, other results are queried -> load
            if spec.get("post", True):
                np.random.seed(9100)
                extra = c(nshots=3)
                if isinstance(extra, MeasurementOutcomes):
                    extra.samples()
                for x in results:
                    if x is not r and isinstance(x, MeasurementOutcomes):
                        x.frequencies()

        w = quiet()
        try:
            loaded = dump_load(r, via, tmp, between=None)
            if [result_state(x) for x in results] != s_all:
                k = [i for i, x in enumerate(results) if result_state(x) != s_all[i]]
                fails.append(("source_mutated_by_dump", f"dumping result {di} changed the stored fields of result(s) {k}"))
            loaded = dump_load(r, via, tmp, between=between)
        except Exception as e:
            return fails + [("import_rejects", f"{type(e).__name__}: {str(e)[:120]}")]
        finally:
            w.__exit__(None, None, None)
        # ---- (1) against the dumped object at dump time
        lv = final_view(loaded, 9002)
        if isinstance(r, QuantumState):
            if lv.get("state") != dump_view["state"]:
                fails.append(("state_differs", "stored state of the loaded result is not the dumped one"))
        if isinstance(r, MeasurementOutcomes):
            if lv["registers"] != own_regs:
                fails.append(("registers_differ", f"{lv['registers']}"))
            if lv["nshots"] != r.nshots:
                fails.append(("nshots_differ", f"{lv['nshots']} != {r.nshots}"))
            if own_samples is not None:
                if lv["samples"] != canon(own_samples):
                    fails.append(("samples_differ", "the loaded result reports other samples than the ones stored in the dumped result"))
                elif lv["frequencies"] != own_freq:
                    fails.append(("frequencies_differ", f"{lv['frequencies']} != {own_freq}"))
            elif r._repeated_execution_frequencies is None:
                # no samples of its own: whatever the loaded object reports must be possible in the dumped distribution
                qubits = [q for m in r.measurements for q in m.target_qubits]
                if isinstance(r, QuantumState) and not noisy:
                    probs = np.asarray(QuantumState.probabilities(r, qubits)).real.ravel()
                    for bits, cnt in lv["frequencies"]:
                        if probs[int(bits, 2)] < 1e-12:
                            fails.append(("samples_outside_support", f"outcome {bits} reported {cnt} times by the loaded result has probability "
                                          f"{probs[int(bits, 2)]:.1e} in the dumped state"))
                            break
            if own_probs is not None:
                if lv["probabilities"] != own_probs:
                    fails.append(("probabilities_differ", "probabilities() of the loaded result differ from the dumped one"))
        # ---- (2) against the load of a single from-scratch execution with the same accessor calls
        try:
            f = mk_circuit(info[di]["fresh"])
            np.random.seed(7000 + info[di]["oi"])
            fr = f(nshots=info[di]["nshots"])
            for oi, op in calls.get(di, []):
                np.random.seed(7000 + oi)
                apply_result_op([op[0], 0] + list(op[2:]), [fr], f, {}, oi)
            floaded = dump_load(fr, via, tmp, "f.npy")
            fv = final_view(floaded, 9002)
            if fv != lv:
                ks = [k for k in fv if fv[k] != lv.get(k)]
                fails.append(("load_differs_from_fresh", f"fields {ks}: after the history {json.dumps({k: lv.get(k) for k in ks}, default=str)[:200]}; "
                              f"single execution {json.dumps({k: fv[k] for k in ks}, default=str)[:200]}"))
        except Exception as e:
            fails.append(("fresh_reference_failed", f"{type(e).__name__}: {e}"[:200]))
        # ---- to_dict snapshot stability / load twice / independence
        if p_before is not None:
            np.random.seed(9003)
            try:
                for x in results:
                    if isinstance(x, MeasurementOutcomes):
                        x.frequencies()
                        x.samples()
            except Exception:
                pass
            if canon(p_before) != p_canon:
                fails.append(("payload_changed", "the dictionary returned by to_dict() changed when accessors were called afterwards"))
        if via != "dict":
            from qibo import result as R
            w = quiet()
            try:
                np.random.seed(9001)
                l2 = R.load_result(os.path.join(tmp, "r.npy")) if via == "load_result" else type(r).load(os.path.join(tmp, "r.npy"))
                v2 = final_view(l2, 9002)
                if v2 != lv:
                    fails.append(("second_load_differs", f"fields {[k for k in v2 if v2[k] != lv.get(k)]}"))
                if isinstance(l2, MeasurementOutcomes):
                    ids = [{id(m) for m in x.measurements} for x in (r, loaded, l2)]
                    if ids[0] & ids[1] or ids[1] & ids[2]:
                        fails.append(("loads_share_state", "loaded results share measurement gate objects"))
            except Exception as e:
                fails.append(("second_load_rejects", f"{type(e).__name__}: {str(e)[:100]}"))
            finally:
                w.__exit__(None, None, None)
        return fails
    finally:
        shutil.rmtree(tmp, ignore_errors=True)


def result_circuits():
    P = B().pspec
    M = lambda q, **kw: {"cls": "M", "q": list(q), "kw": kw}
    out = []
    out.append({"n": 2, "adds": [{"cls": "RX", "q": [0], "p": [P(0.0)]}, {"cls": "CNOT", "q": [0, 1]}, M([1, 0], register_name="a")]})
    out.append({"n": 3, "adds": [{"cls": "RY", "q": [2], "p": [P(0.0)]}, {"cls": "RX", "q": [0], "p": [P(PI)]}, {"cls": "CNOT", "q": [2, 1]},
                                 M([2, 0], register_name="a"), M([1], register_name="b")]})
    out.append({"n": 3, "dm": True, "adds": [{"cls": "RX", "q": [1], "p": [P(PI)]}, {"cls": "U3", "q": [0], "p": [P(0.0), P(0.3), P(0.2)]},
                                             M([0, 1, 2], register_name="Big")]})
    out.append({"n": 2, "adds": [{"cls": "RX", "q": [0], "p": [P(0.7)]}, {"cls": "RY", "q": [1], "p": [P(1.1)], "trainable": False},
                                 M([1], register_name="z"), M([0], register_name="a")]})
    out.append({"n": 2, "adds": [{"cls": "RX", "q": [1], "p": [P(PI)]}, M([1, 0], register_name="n", p0=0.125)]})
    return out


BASIS_ANGLES = [0.0, PI, 0.0, PI, 0.7, 2.5]


def fixed_result_hists():
    cs = result_circuits()
    out = []
    for via in ("load_result", "load", "dict"):
        # the two histories of the reported seeded change and their neighbours
        out.append({"circuit": cs[0], "ops": [["exec", 40], ["samples", 0], ["setp", [PI]], ["exec", 40]], "dump": 1, "via": via})
        out.append({"circuit": cs[0], "ops": [["exec", 25], ["setp", [PI]], ["exec", 25], ["samples", 1]], "dump": 0, "via": via})
        out.append({"circuit": cs[0], "ops": [["exec", 12], ["freq", 0], ["setp", [PI]], ["exec", 12]], "dump": 1, "via": via})
        out.append({"circuit": cs[0], "ops": [["exec", 12], ["regsamples", 0], ["setp", [PI]], ["exec", 9], ["probs", 1]], "dump": 1, "via": via})
        out.append({"circuit": cs[1], "ops": [["exec", 10], ["samples", 0], ["setp", [PI, 0.0]], ["exec", 10], ["setp", [0.0, 0.0]], ["exec", 7]], "dump": 1, "via": via})
        out.append({"circuit": cs[1], "ops": [["exec", 10], ["exec", 6], ["samples", 1], ["freq", 0]], "dump": 0, "via": via})
        out.append({"circuit": cs[2], "ops": [["exec", 8], ["samples", 0], ["setp", [0.0, PI, 0.1, 0.2]], ["exec", 8]], "dump": 1, "via": via})
        out.append({"circuit": cs[3], "ops": [["exec", 16], ["samples", 0], ["bitflips", 0, 0.25], ["setp", [2.5]], ["exec", 16], ["regfreq", 1]], "dump": 1, "via": via})
        out.append({"circuit": cs[3], "ops": [["exec", 16], ["samples", 0], ["freq", 0]], "dump": 0, "via": via})
        out.append({"circuit": cs[4], "ops": [["exec", 16], ["samples", 0], ["setp", [0.0]], ["exec", 16]], "dump": 1, "via": via})
    return out


def random_result_hist(rng):
    cs = result_circuits()[:4]
    circ = rng.choice(cs)
    tr = Track(circ)
    k = tr.nflat()
    ops, nres = [["exec", rng.randint(3, 30)]], 1
    for _ in range(rng.randint(1, 6)):
        r = rng.random()
        if r < 0.3:
            ops.append([rng.choice(["samples", "samples", "freq", "regsamples", "probs", "regfreq"]), rng.randrange(nres)])
        elif r < 0.35:
            ops.append(["bitflips", rng.randrange(nres), 0.25])
        elif r < 0.65:
            ops.append(["setp", [rng.choice(BASIS_ANGLES) for _ in range(k)]])
        else:
            ops.append(["exec", rng.randint(3, 30)])
            nres += 1
    if nres == 1:
        ops += [["setp", [rng.choice(BASIS_ANGLES) for _ in range(k)]], ["exec", rng.randint(3, 30)]]
        nres = 2
    return {"circuit": circ, "ops": ops, "dump": rng.randrange(nres), "via": rng.choice(["load_result", "load", "dict"])}


def shrink_result(spec, tag):
    cur = dict(spec)
    changed = True
    while changed:
        changed = False
        for i in range(len(cur["ops"])):
            op = cur["ops"][i]
            nexec_before = sum(1 for o in cur["ops"][:i] if o[0] == "exec")
            cand_ops = cur["ops"][:i] + cur["ops"][i + 1:]
            cand = dict(cur, ops=cand_ops)
            if op[0] == "exec":
                # results after it are renumbered; only remove executions that no later op refers to and that are not dumped
                if cur["dump"] == nexec_before or any(o[0] not in ("exec", "setp") and o[1] == nexec_before for o in cur["ops"]):
                    continue
                cand["ops"] = [([o[0], o[1] - 1] + o[2:]) if (o[0] not in ("exec", "setp") and o[1] > nexec_before) else o for o in cand_ops]
                if cur["dump"] > nexec_before:
                    cand["dump"] = cur["dump"] - 1
            r = hist_result_outcome(cand)
            if r and any(t == tag for t, _ in r):
                cur, changed = cand, True
                break
    return cur


def run_result_spec(run, spec, stats):
    fails = hist_result_outcome(spec)
    if fails is None:
        stats["unbuildable"] = stats.get("unbuildable", 0) + 1
        return []
    run.case(["hist_result", spec])
    stats["ok" if not fails else "failing"] = stats.get("ok" if not fails else "failing", 0) + 1
    seen = set()
    for tag, det in fails:
        if tag in seen:
            continue
        seen.add(tag)
        small = shrink_result(spec, tag)
        det2 = next((d for t, d in (hist_result_outcome(small) or []) if t == tag), det)
        kinds = "+".join(o[0] for o in small["ops"])
        find_once(run, f"hist:result:{tag}:{small['via']}:{kinds}:dump{small['dump']}",
                 f"result dumped after a history on one circuit object ({small['via']}): {tag}: {det2}",
                 {"suite": "hist_result", "spec": small, "tag": tag, "detail": det2})
    return fails


def suite_hist_result(run, rng, T, extra=0):
    stats = T.setdefault("hist_result_stats", {})
    specs = list(fixed_result_hists()) if not extra else []
    N = extra or (120 if run.tier == "thorough" else 30)
    specs += [random_result_hist(rng) for _ in range(N)]
    nfail = 0
    for i, spec in enumerate(specs):
        if run_result_spec(run, spec, stats):
            nfail += 1
            if extra and nfail >= 5:
                break
        if i == 0 and not extra:
            run.sample({"suite": "hist_result", "spec": spec})
    if not extra:
        run.oblige("result dump/load histories on one circuit object were executed (loaded result is a function of the dumped result only)",
                   stats.get("ok", 0) + stats.get("failing", 0) >= 40, "coverage")
    return nfail


# ------------------------------------------------------------------ payload non-mutation / direct to_dict round trips
def suite_result_payload(run, rng, T):
    """from_dict must not change the dictionary it is given (a second import of the same dictionary must work);
    to_dict before / after samples(), frequencies(), apply_bitflips(); MeasurementOutcomes and QuantumState too"""
    import qibo
    from qibo.result import CircuitResult, MeasurementOutcomes, QuantumState
    qibo.set_backend("numpy")
    stats = {}
    for ci, circ in enumerate(result_circuits()):
        for after in ("none", "samples", "frequencies", "bitflips"):
            for kind in ("CircuitResult", "QuantumState", "MeasurementOutcomes"):
                np.random.seed(50 + ci)
                spec = {"circuit": circ, "after": after, "kind": kind}
                try:
                    if kind == "QuantumState":
                        c = mk_circuit({**circ, "adds": [a for a in circ["adds"] if a.get("cls") != "M"]})
                        r = c()
                        if after != "none":
                            continue
                    else:
                        c = mk_circuit(circ)
                        r = c(nshots=9)
                        if kind == "MeasurementOutcomes":
                            be = qibo.backends.construct_backend("numpy")
                            r = MeasurementOutcomes(r.measurements, backend=be, probabilities=np.asarray(r.probabilities([q for m in r.measurements for q in m.target_qubits])), nshots=9)
                        if after == "samples":
                            r.samples()
                        elif after == "frequencies":
                            r.frequencies()
                        elif after == "bitflips":
                            r.apply_bitflips(0.25)
                except Exception:
                    continue
                run.case(["result_payload", spec])
                p = r.to_dict()
                p.pop("dtype", None)
                before = canon(p)
                w = quiet()
                try:
                    np.random.seed(60)
                    l1 = type(r).from_dict(p)
                    v1 = final_view(l1, 61)
                    mutated = canon(p) != before
                    lost = sorted(set(dict(before[1]).keys()) - {repr(k) for k in p}) if mutated else []
                    if mutated:
                        stats["payload_mutated"] = stats.get("payload_mutated", 0) + 1
                        try:
                            np.random.seed(60)
                            l2 = type(r).from_dict(p)
                            second = "ok" if final_view(l2, 61) == v1 else "differs"
                        except Exception as e:
                            second = f"raises {type(e).__name__}: {e}"
                        find_once(run, f"result:from_dict_mutates_payload:{kind}" + (".sampled" if r.to_dict().get("samples") is not None else ""),
                                 f"{kind}.from_dict removes {lost} from the dictionary it is given; importing the same dictionary again: {second}",
                                 {"suite": "result_payload", "spec": spec, "lost": lost, "second_import": second})
                    else:
                        stats["payload_intact"] = stats.get("payload_intact", 0) + 1
                except Exception as e:
                    stats["import_raises"] = stats.get("import_raises", 0) + 1
                finally:
                    w.__exit__(None, None, None)
    T["result_payload_stats"] = stats


def result_payload_replay(rp):
    import qibo
    from qibo.result import MeasurementOutcomes
    qibo.set_backend("numpy")
    spec = rp["spec"]
    circ, kind, after = spec["circuit"], spec["kind"], spec["after"]
    np.random.seed(50)
    if kind == "QuantumState":
        r = mk_circuit({**circ, "adds": [a for a in circ["adds"] if a.get("cls") != "M"]})()
    else:
        r = mk_circuit(circ)(nshots=9)
        if kind == "MeasurementOutcomes":
            be = qibo.backends.construct_backend("numpy")
            r = MeasurementOutcomes(r.measurements, backend=be, probabilities=np.asarray(r.probabilities([q for m in r.measurements for q in m.target_qubits])), nshots=9)
        if after == "samples":
            r.samples()
        elif after == "frequencies":
            r.frequencies()
        elif after == "bitflips":
            r.apply_bitflips(0.25)
    p = r.to_dict()
    p.pop("dtype", None)
    before = canon(p)
    w = quiet()
    try:
        type(r).from_dict(p)
    finally:
        w.__exit__(None, None, None)
    return canon(p) != before, "dictionary changed by from_dict" if canon(p) != before else "dictionary intact"


# =====================================================================================
# stream text: hand-written OpenQASM, reformatting and expressions
# =====================================================================================
EXPRS = [("pi", PI), ("-pi", -PI), ("pi/2", PI / 2), ("-pi/4", -PI / 4), ("2*pi/3", 2 * PI / 3), ("3*pi", 3 * PI), ("1e-3", 1e-3),
         ("1E-3", 1e-3), ("2.5e+2", 2.5e+2), ("-1.5e-7", -1.5e-7), ("0", 0), ("0.0", 0.0), ("-0.0", -0.0), (".5", .5), ("5.", 5.),
         ("1/3", 1 / 3), ("pi*2", PI * 2), ("pi/2/2", PI / 2 / 2), ("-(pi/2)", -(PI / 2)), ("pi+1", PI + 1), ("1-pi", 1 - PI), ("1e300", 1e300),
         ("3", 3), ("-3", -3), ("pi*pi", PI * PI), ("2*-1", -2), ("1e0", 1.0), ("- 1", -1), ("0.1234567890123456", 0.1234567890123456),
         ("-1e-300", -1e-300), ("7*pi/8", 7 * PI / 8)]


def reformat(text, how, rng):
    lines = text.split("\n")
    head, body = lines[:2], lines[2:]
    if how == "oneline":
        return "\n".join(head) + "\n" + " ".join(body)
    if how == "crlf":
        return text.replace("\n", "\r\n")
    if how == "comments":
        out = ["// leading comment"] + head
        for l in body:
            out.append("// gate x q[0]; creg zz[3];")
            out.append(l + " // trailing rx(1) q[0];")
        return "\n".join(out) + "\n/* block\n comment */\n"
    if how == "blank":
        return "\n\n".join(head + body) + "\n\n\n"
    if how == "indent":
        return "\n".join(head) + "\n" + "\n".join(("\t" if i % 2 else "    ") + l + "   " for i, l in enumerate(body))
    if how == "spaced":
        import re
        out = []
        for l in body:
            l = re.sub(r"\s*,\s*", " , ", l)
            l = re.sub(r"\s*->\s*", "  ->  ", l)
            l = re.sub(r"\(\s*", "( ", l)
            l = re.sub(r"\s*\)", " )", l)
            l = re.sub(r";", " ;", l)
            out.append(l)
        return "\n".join(head) + "\n" + "\n".join(out)
    if how == "split":
        return "\n".join(head) + "\n" + "\n".join(l.replace(",", ",\n  ").replace("{", "{\n").replace("}", "\n}") for l in body)
    return text


def text_programs(rng, tier):
    H2 = 'OPENQASM 2.0;\ninclude "qelib1.inc";\n'
    out = []
    out.append(("regs", H2 + "qreg a[2];\nqreg b[3];\ncreg c[2];\ncreg d[1];\ncx a[1],b[2];\nu3(0.1,-pi/4,1e-3) b[0];\nrx(-0.0) a[0];\n"
                "measure b[1] -> c[1];\nmeasure a[0] -> c[0];\nmeasure b[2] -> d[0];"))
    out.append(("custom0123", H2 + "qreg q[3];\ngate g0 a,b { h a; cx a,b; }\ngate g1(t) a { rx(t) a; }\ngate g2(t,s) a,b { u2(s,t) a; cx b,a; g1(t) b; }\n"
                "gate g3(x,y,z) a,b,c { u3(x,y,z) c; g2(z,x) a,b; g0 c,a; }\ng0 q[2],q[0];\ng1(pi/2) q[1];\ng2(-pi/4,1e-3) q[0],q[2];\ng3(0,0.0,3) q[1],q[2],q[0];"))
    out.append(("mid", H2 + "qreg q[3];\ncreg m[1];\ncreg c[2];\nh q[0];\nmeasure q[0] -> m[0];\nrx(2*pi/3) q[1];\nmeasure q[2] -> c[1];\nmeasure q[1] -> c[0];"))
    exs = EXPRS if tier == "thorough" else EXPRS
    for i in range(0, len(exs), 3):
        tri = [exs[(i + j) % len(exs)] for j in range(3)]
        out.append((f"expr{i}", H2 + "qreg a[1];\nqreg b[2];\n" + f"u3({tri[0][0]},{tri[1][0]},{tri[2][0]}) b[1];\n"
                    + f"rz({tri[1][0]}) a[0];\ncu1({tri[2][0]}) b[0],a[0];\ngate w(t,s) x,y {{ rx(t) x; crz(s) y,x; }}\nw({tri[0][0]},{tri[2][0]}) b[1],a[0];"))
    return out


def text_view(c):
    b = B()
    q = []
    for g in c.queue:
        if type(g).__name__ == "FusedGate":
            q.append(["FusedGate", list(g.qubits), [json.loads(json.dumps(b.gview(x), default=str)) for x in g.gates]])
        else:
            q.append(json.loads(json.dumps(b.gview(g), default=str)))
    return {"n": c.nqubits, "queue": q, "registers": [[k, list(v)] for k, v in c.measurement_tuples.items()]}


def text_outcome(label, text, how, seed=0):
    from qibo import Circuit
    w = quiet()
    try:
        try:
            c0 = Circuit.from_qasm(text)
        except Exception as e:
            return "base_rejected", f"{type(e).__name__}: {str(e)[:100]}"
        t2 = reformat(text, how, random.Random(seed))
        try:
            c1 = Circuit.from_qasm(t2)
        except Exception as e:
            return "reformatted_rejected", f"{type(e).__name__}: {str(e)[:100]}"
        if text_view(c0) != text_view(c1):
            return "reformatted_differs", "; ".join(map(str, diff_keys(text_view(c0), text_view(c1))))[:300]
        # importer options: accelerators=None is the default, density_matrix=True only sets the flag
        c2 = Circuit.from_qasm(t2, accelerators=None, density_matrix=True)
        if not c2.density_matrix or c0.density_matrix or text_view(c2) != text_view(c0):
            return "options_differ", "from_qasm(text, accelerators=None, density_matrix=True) is not the same circuit with the flag set"
        return "ok", ""
    finally:
        w.__exit__(None, None, None)


def expr_outcome(i):
    """u3(e0,e1,e2) b[1]; rz(e1) a[0]; cu1(e2) b[0],a[0]; custom gate call: every value against python arithmetic"""
    from qibo import Circuit
    H2 = 'OPENQASM 2.0;\ninclude "qelib1.inc";\n'
    tri = [EXPRS[(i + j) % len(EXPRS)] for j in range(3)]
    text = (H2 + "qreg a[1];\nqreg b[2];\n" + f"u3({tri[0][0]},{tri[1][0]},{tri[2][0]}) b[1];\n" + f"rz({tri[1][0]}) a[0];\ncu1({tri[2][0]}) b[0],a[0];\n"
            + f"gate w(t,s) x,y {{ rx(t) x; crz(s) y,x; }}\nw({tri[0][0]},{tri[2][0]}) b[1],a[0];")
    w = quiet()
    try:
        c = Circuit.from_qasm(text)
    except Exception as e:
        return "rejected", f"{type(e).__name__}: {str(e)[:100]}", text
    finally:
        w.__exit__(None, None, None)
    want = [("U3", (2,), [tri[0][1], tri[1][1], tri[2][1]]), ("RZ", (0,), [tri[1][1]]), ("CU1", (1, 0), [tri[2][1]])]
    got = [(type(g).__name__, tuple(g.qubits), list(g.parameters)) for g in c.queue[:3]]
    fz = lambda v: (float(v).hex())
    for (wn, wq, wp), (gn, gq, gp) in zip(want, got):
        if wn != gn or wq != gq:
            return "layout_differs", f"{wn} on {wq} (qreg a[1]; qreg b[2]) read as {gn} on {gq}", text
        if [fz(x) for x in wp] != [fz(x) if isinstance(x, (int, float, np.floating, np.integer)) else repr(x) for x in gp]:
            return "differs", f"{wn}{wq}({wp}) read as {gn}{gq}({gp})", text
    f = c.queue[3]
    inner = [(type(g).__name__, tuple(g.qubits), [fz(x) if isinstance(x, (int, float, np.floating, np.integer)) else repr(x) for x in g.parameters]) for g in getattr(f, "gates", [])]
    wi = [("RX", (2,), [fz(tri[0][1])]), ("CRZ", (0, 2), [fz(tri[2][1])])]
    if inner != wi:
        return "differs", f"custom gate call read as {inner}, expected {wi}", text
    return "ok", "", text


def suite_text(run, rng, T):
    stats = {}
    hows = ["oneline", "crlf", "comments", "blank", "indent", "spaced", "split"]
    for label, text in text_programs(rng, run.tier):
        for how in hows:
            cat, det = text_outcome(label, text, how)
            stats[cat] = stats.get(cat, 0) + 1
            run.case(["text", label, how, text])
            if cat not in ("ok",):
                run.find(f"qasm:text:{cat}:{how}" + (":" + label if cat == "base_rejected" else ""),
                         f"OpenQASM program {label} re-formatted ({how}): {cat}: {det}",
                         {"suite": "text", "label": label, "text": text, "how": how, "category": cat, "detail": det})
    for i in range(len(EXPRS)):
        cat, det, text = expr_outcome(i)
        stats["expr_" + cat] = stats.get("expr_" + cat, 0) + 1
        run.case(["text_expr", i])
        if cat != "ok":
            find_once(run, "qasm:text:register_layout_differs" if cat == "layout_differs" else f"qasm:text:expression_{cat}:{EXPRS[i][0]}",
                     f"hand-written program with two qregs and parameter expressions is read differently from its OpenQASM meaning: {det}",
                     {"suite": "text_expr", "index": i, "text": text, "detail": det})
    T["text_stats"] = stats


# =====================================================================================
# entry points
# =====================================================================================
SERIALISERS = {
    "covered": ["Circuit.raw / Circuit.from_dict (also through json.dumps/loads)", "Circuit.to_qasm / Circuit.from_qasm",
                "Gate.raw / Gate.to_json / Gate.from_dict (every class of qibo.gates)", "gates.M.raw / M.to_json / M.load (incl. measurement_result samples)",
                "MeasurementResult.raw (qibo/measurements.py, through M.raw)",
                "QuantumState / MeasurementOutcomes / CircuitResult .to_dict / .from_dict / .dump / .load", "qibo.result.load_result"],
    "not_present": ["qibo.quantum_info.clifford.Clifford has no to_dict/from_dict/dump/load in this tree (only from_circuit / to_circuit / copy: not serialisers)"],
    "not_serialisers": ["IBMQNoiseModel.from_dict (noise.py): builds a noise model from calibration parameters, there is no matching export",
                        "backends.MetaBackend.load / construct_backend: backend factory"],
}


def run_streams(run, T):
    rng = random.Random(run.seed * 104729 + 13)
    suite_hist_circuit(run, rng, T)
    suite_hist_gate(run, rng, T)
    suite_opt(run, rng, T)
    suite_hist_result(run, rng, T)
    suite_result_payload(run, rng, T)
    suite_text(run, rng, T)
    T["public_serialisers"] = SERIALISERS


def replay_case(rp):
    """returns (reproduces, detail)"""
    suite = rp.get("suite")
    if suite == "hist_circuit":
        fn = hist_circuit_outcome_u if rp["spec"].get("tag") == "Unitary" else hist_circuit_outcome
        r = fn(rp["spec"]) or []
        hit = [d for t, v, d in r if (t, v) == (rp["tag"], rp["via"])]
        return bool(hit), hit[0] if hit else "ok"
    if suite == "hist_gate":
        r = gate_hist_outcome(rp["spec"]) or []
        hit = [d for t, v, d in r if (t, v) == (rp["tag"], rp["via"])]
        return bool(hit), hit[0] if hit else "ok"
    if suite == "opt":
        r = opt_circuit_outcome(rp["spec"], rp["via"]) or []
        hit = [d for t, d in r if t == rp["tag"]]
        return bool(hit), hit[0] if hit else "ok"
    if suite == "hist_result":
        r = hist_result_outcome(rp["spec"]) or []
        hit = [d for t, d in r if t == rp["tag"]]
        return bool(hit), hit[0] if hit else "ok"
    if suite == "result_payload":
        return result_payload_replay(rp)
    if suite == "text":
        cat, det = text_outcome(rp["label"], rp["text"], rp["how"])
        return cat != "ok", det
    if suite == "text_expr":
        cat, det, _ = expr_outcome(rp["index"])
        return cat != "ok", det
    return None, "unknown suite"
