"""C16  Time evolution reaches exp(-iHt).

Static part (coq/theories/C16): model of TermGroup.from_terms / HamiltonianTerm.merge / the
symmetric Trotter step structure, of nsteps = int(round((T - t0)/dt)) in binary64 (Coq primitive floats),
of the Runge-Kutta steps over a commutative ring, and the theorems of Props.v.
Correspondence part (this file):
  * grouping / merging / Trotter gate list: random term sets with overlapping, nested and
    non-ascending supports and Gaussian-integer matrices through the real TermGroup /
    SymbolicHamiltonian.circuit; groups, merged matrices and the (term, dt/2) sequence are compared
    exactly inside Coq, and the merged matrix is compared with the sum of the embedded members;
  * commuting Pauli families: per instance  forall dt, circuit(dt) = prod_t exp(-i dt c_t P_t)  by the
    TrigNF reflexive checker (bounded: the listed families), group structure taken from the real code;
  * nsteps: thousands of float triples through the real StateEvolution.execute (the solver is
    replaced by a step counter) against the PrimFloat model, bit-exact via float.hex();
  * Runge-Kutta: the real RungeKutta4/45.__call__ are executed on exact polynomial objects and compared
    with the model on a 7x7 grid of rational points (decides equality of the step polynomials);
  * Runge-Kutta with a TIME-DEPENDENT Hamiltonian: a spy callable H(t) returns a fresh commuting indeterminate
    per distinct evaluation time; the evaluation times must be the tableau nodes and the step polynomial in the
    independent stage Hamiltonians must equal rk4_step_t / rk45_step_t (grid deciding polynomial equality);
  * histories: AdiabaticEvolution (exp, rk4, Trotter) and StateEvolution objects executed 2-3 times with different
    final times; schedule arguments t/T, interpolated Hamiltonians and evaluation times per run, exactly;
  * tolerance *tests* (labelled): Trotter error order, exp-solver final state, RK convergence order;
  * harness/c16_sched.py: adiabatic schedules leaving [0, 1] (non-monotone, > 1, < 0, constant pieces, s(t, p) with
    set_parameters, total_time != 1) on dense and symbolic adiabatic Hamiltonians with every solver: H(t) at every
    queried time and the Trotter coefficients against (1 - s) H0 + s H1 (schedule evaluated in Coq, exact), final
    states against the same method from scratch; histories on one adiabatic Hamiltonian object (state machine
    ad_run); scalar multiples of Hamiltonians with cached spectrum.
"""
import os as _os
STATIC = ["C16/Props", "C16/PropsSeries", "C16/PropsSched", "C16/History", "Base/TrigMat"]
import itertools
import math
import random
import re
from fractions import Fraction

import numpy as np

from lib import vcore
from harness.c15 import (zi, zint, cmat, znats, zlist, Inexact, Unsupported, ast_sympy, ast_str, Batch,
                         rand_num, PNAME)

HEADER = """From Coq Require Import ZArith List Bool Floats QArith.
From QV Require Import Base.Mat Base.Zi C15.MatDefs C15.Model C16.Model.
Import ListNotations.
Local Open Scope Z_scope.
"""


def judge(run, B, res, mech):
    for label, term, meta, expect, on_false in B.items:
        if label in res and not res[label]:
            if on_false is not None:
                on_false(run, label, meta)
            else:
                run.find(f"{mech}:{meta.get('case', label)}", f"{meta.get('what', label)} differs", {"mechanism": mech, **meta})


# ------------------------------------------------------------------ grouping / merging
def rand_int_matrix(rng, k, cplx=True):
    N = 2 ** k
    return np.array([[complex(rng.randrange(-3, 4), rng.randrange(-2, 3) if cplx else 0) for _ in range(N)] for _ in range(N)])


def rand_termset(rng, n):
    """targets in arbitrary (non-ascending) order, overlapping and nested supports"""
    terms = []
    for _ in range(rng.randrange(1, 7)):
        k = rng.randrange(1, min(n, 3) + 1)
        if terms and rng.random() < 0.5:       # nested in / equal to an earlier support (any order)
            base = list(rng.choice(terms)[0])
            k = rng.randrange(1, len(base) + 1)
            qs = rng.sample(base, k)
        else:
            qs = rng.sample(range(n), k)
        terms.append((tuple(qs), rand_int_matrix(rng, len(qs))))
    return terms


def terms_coq(terms):
    return "[" + ";".join(f"zterm [{';'.join(str(q) for q in qs)}] {cmat(M)}" for qs, M in terms) + "]"


def run_grouping(run, rng):
    from qibo.hamiltonians.terms import HamiltonianTerm, TermGroup
    B = Batch(run, "C16_groups")
    count = 60 if run.tier == "quick" else 600
    for k in range(count):
        n = rng.choice([2, 3, 3, 4])
        ts = rand_termset(rng, n)
        objs = [HamiltonianTerm(M.copy(), *qs) for qs, M in ts]
        groups = TermGroup.from_terms(objs)
        idx = {id(o): j for j, o in enumerate(objs)}
        gi = [[idx[id(t)] for t in g] for g in groups]
        desc = {"nqubits": n, "terms": [list(qs) for qs, _ in ts], "groups": gi}
        run.case(["grouping", [(list(qs), M.tolist()) for qs, M in ts]], nontrivial=len(ts) > 1)
        if k < 3:
            run.sample({"kind": "TermGroup.from_terms", **desc})
        T = terms_coq(ts)
        G = "[" + ";".join(terms_coq([ts[j] for j in g]) for g in gi) + "]"
        B.add(f"g{k}:groups", f"groups_eqb (from_terms {T}) {G}", {**desc, "case": f"from_terms:{desc['terms']}", "what": "TermGroup.from_terms vs model"})
        merged = []
        for g in groups:
            m = g.term
            merged.append((tuple(m.target_qubits), np.asarray(m.matrix)))
        Mg = "[" + ";".join(f"Some (zterm [{';'.join(str(q) for q in qs)}] {cmat(M)})" for qs, M in merged) + "]"
        B.add(f"g{k}:merge", f"list_eqb ohterm_eqb (map (fun g => to_term g []) (from_terms {T})) {Mg}",
              {**desc, "case": f"to_term:{desc['terms']}", "what": "TermGroup.term (merge) vs model"})
        B.add(f"g{k}:merge_spec",
              f"forallb (fun g => match to_term g [] with Some m => meqb (hterm_full {n}%nat m) (group_full {n}%nat g) | None => false end) (from_terms {T})",
              {**desc, "case": f"merge_sum:{desc['terms']}", "what": "embedded merged matrix vs sum of embedded member matrices"})
        # coefficients (adiabatic to_term): two parent Hamiltonians
        ha, hb = object(), object()
        owners = [rng.choice([ha, hb, None]) for _ in objs]
        for o, w in zip(objs, owners):
            o.hamiltonian = w
        ca, cb = rng.randrange(-3, 4), rng.randrange(-3, 4)
        cm = []
        for g in groups:
            m = g.to_term({ha: ca, hb: cb})
            cm.append((tuple(m.target_qubits), np.asarray(m.matrix)))
        cs = "[" + ";".join("[" + ";".join({id(ha): f"Some ({ca},0)", id(hb): f"Some ({cb},0)"}.get(id(owners[j]), "None") for j in g) + "]" for g in gi) + "]"
        Mc = "[" + ";".join(f"Some (zterm [{';'.join(str(q) for q in qs)}] {cmat(M)})" for qs, M in cm) + "]"
        B.add(f"g{k}:merge_coef", f"list_eqb ohterm_eqb (map (fun gc => to_term (fst gc) (snd gc)) (combine (from_terms {T}) {cs})) {Mc}",
              {**desc, "case": f"to_term_coef:{desc['terms']}", "what": "TermGroup.to_term(coefficients) vs model"})
    # malformed: merging a term whose targets are not a subset
    a = HamiltonianTerm(rand_int_matrix(rng, 2), 0, 1)
    b = HamiltonianTerm(rand_int_matrix(rng, 1), 2)
    try:
        a.merge(b)
        refused = False
    except ValueError:
        refused = True
    run.case(["merge-malformed"], nontrivial=False)
    B.add("gbad:merge_reject", f"match merge (zterm [0;1] {cmat(a.matrix)}) (zterm [2] {cmat(b.matrix)}) with None => true | _ => false end",
          {"case": "merge:non-subset", "what": "model refuses the merge the implementation refuses"})
    if not refused:
        run.find("merge_accepts:non-subset", "HamiltonianTerm.merge accepted a non-subset term", {})
    judge(run, B, flush(B), "grouping")


def flush(B):
    """Batch.flush with this module's header"""
    res = {}
    for k in range(0, len(B.items), 400):
        chunk = B.items[k:k + 400]
        r, out = B.run.coq_bools(f"{B.name}_{k // 400}.v", HEADER, [(l, t) for l, t, _, _, _ in chunk], timeout=900)
        if r is None:
            B.run.find(f"coq:{B.name}_{k // 400}", "generated correspondence file does not compile", {"log": out[-1500:]}, concrete=False)
            continue
        res.update(r)
    return res


# ------------------------------------------------------------------ Trotter circuit structure
def rand_pauli_form(rng, n, commuting=False):
    terms = []
    for _ in range(rng.randrange(2, 6)):
        k = rng.randrange(1, min(n, 3) + 1)
        qs = rng.sample(range(n), k)
        f = ("N", rng.choice([-2, -1, 1, 2, 3]), 0)
        for q in qs:
            f = ("M", f, ("S", "Z" if commuting else rng.choice("XYZ"), q))
        terms.append(f)
    out = terms[0]
    for t in terms[1:]:
        out = ("A", out, t)
    return out


def run_circuit_structure(run, rng):
    from qibo.hamiltonians import SymbolicHamiltonian
    from qibo.hamiltonians import terms as T
    B = Batch(run, "C16_circuit")
    count = 25 if run.tier == "quick" else 250
    rec = []
    orig = T.HamiltonianTerm.expgate

    def spy(self, x):
        rec.append((tuple(self.target_qubits), np.asarray(self.matrix).copy(), x))
        return orig(self, x)

    T.HamiltonianTerm.expgate = spy
    try:
        for k in range(count):
            n = rng.choice([2, 3, 3, 4])
            ast = rand_pauli_form(rng, n)
            dt = rng.choice([0.1, 0.25, 0.3, 1e-2, 0.7])
            h = SymbolicHamiltonian(ast_sympy(ast), nqubits=n)
            ts = [(tuple(t.target_qubits), np.asarray(t.matrix)) for t in h.terms]
            del rec[:]
            c = h.circuit(dt)
            seq = list(rec)
            desc = {"form": ast_str(ast), "nqubits": n, "dt": dt, "supports": [list(q) for q, _ in ts]}
            run.case(["circuit", desc["form"], n], nontrivial=len(ts) > 1)
            if k < 2:
                run.sample({"kind": "SymbolicHamiltonian.circuit", **desc, "gate_targets": [list(g.target_qubits) for g in c.queue]})
            ok_py = (all(x == dt / 2.0 for _, _, x in seq) and [tuple(g.target_qubits) for g in c.queue] == [q for q, _, _ in seq]
                     and len(c.queue) == len(seq))
            if not ok_py:
                run.find(f"circuit_gates:{desc['form']}", "circuit(dt) gates are not one expgate(dt/2) per recorded merged term", desc)
            S = "Some [" + ";".join(f"zterm [{';'.join(str(q) for q in qs)}] {cmat(M)}" for qs, M, _ in seq) + "]"
            B.add(f"c{k}:sequence",
                  f"match circuit_terms {terms_coq(ts)}, {S} with Some a, Some b => list_eqb hterm_eqb a b | _, _ => false end",
                  {**desc, "case": f"circuit:{desc['form']}", "what": "sequence of merged terms exponentiated by circuit(dt) vs model (groups forward then backward)"})
    finally:
        T.HamiltonianTerm.expgate = orig
    judge(run, B, flush(B), "circuit")


# ------------------------------------------------------------------ commuting families: exactness by TrigNF
PAULI = {"I": np.eye(2), "X": np.array([[0, 1], [1, 0]]), "Y": np.array([[0, -1j], [1j, 0]]), "Z": np.array([[1, 0], [0, -1]])}


def qlit(fr):
    fr = Fraction(fr)
    return f"({fr.numerator} # {fr.denominator})"


def entry_expr(z):
    z = complex(z)
    if z.imag == 0:
        return f"(EQ {qlit(int(z.real))})"
    if z.real == 0:
        return f"(EMul EI (EQ {qlit(int(z.imag))}))"
    raise ValueError(z)


def expP(coef, P, scale):
    """MLit of cos(coef*scale*dt) I - i sin(coef*scale*dt) P   (dt = variable 0)"""
    A = f"(acomb (0 # 1) [({qlit(Fraction(coef) * Fraction(scale))}, avar 0)])"
    N = P.shape[0]
    rows = []
    for i in range(N):
        row = []
        for j in range(N):
            c = f"(EMul (ECos {A}) (EQ {qlit(1 if i == j else 0)}))"
            s = f"(EMul (ENeg EI) (EMul (ESin {A}) {entry_expr(P[i, j])}))"
            row.append(f"(EAdd {c} {s})")
        rows.append("[" + ";".join(row) + "]")
    return "(MLit [" + ";".join(rows) + "])"


COMMUTING = [   # (name, n, [(coef, {qubit: pauli})])
    ("ZZ_chain_2", 2, [(1, {0: "Z", 1: "Z"})]),
    ("ZZ_chain_3", 3, [(1, {0: "Z", 1: "Z"}), (2, {1: "Z", 2: "Z"})]),
    ("ZZ_ring_3", 3, [(-1, {0: "Z", 1: "Z"}), (-1, {1: "Z", 2: "Z"}), (-1, {0: "Z", 2: "Z"})]),
    ("ZZ_nested_2", 2, [(1, {0: "Z", 1: "Z"}), (3, {0: "Z"}), (-2, {1: "Z"})]),
    ("ZZZ_nested_3", 3, [(1, {0: "Z", 1: "Z", 2: "Z"}), (2, {0: "Z", 2: "Z"}), (-1, {1: "Z"})]),
    ("XX_YY_ZZ_2", 2, [(1, {0: "X", 1: "X"}), (1, {0: "Y", 1: "Y"}), (2, {0: "Z", 1: "Z"})]),
    ("XX_ZZ_field_3", 3, [(1, {0: "X", 1: "X"}), (-2, {0: "Z", 1: "Z"}), (1, {2: "Y"})]),
]


def run_commuting(run, rng):
    from qibo.hamiltonians import SymbolicHamiltonian
    from qibo.hamiltonians.terms import TermGroup
    from qibo import symbols
    from lib import qtrace
    import scipy.linalg
    thms, items = [], []
    for name, n, fam in COMMUTING:
        form = sum(c * math.prod(getattr(symbols, p)(q) for q, p in sorted(d.items())) for c, d in fam)
        h = SymbolicHamiltonian(form, nqubits=n)
        groups = TermGroup.from_terms(h.terms)
        # all pairs commute? (exact integer check on the real matrices)
        full = []
        for t in h.terms:
            fm = np.eye(1)
            for q in range(n):
                fm = np.kron(fm, PAULI[{f.target_qubit: f.name[0] for f in t.factors}.get(q, "I")])
            full.append(complex(t.coefficient) * fm)
        assert all(np.array_equal(a @ b, b @ a) for a in full for b in full), name

        def term_P(t):
            m = np.eye(1)
            for q in t.target_qubits:
                m = np.kron(m, PAULI[{f.target_qubit: f.name[0] for f in t.factors}[q]])
            return m
        gates = []
        for g in list(groups) + list(groups)[::-1]:
            gt = list(g[0].target_qubits)
            prod = None
            for t in g:
                pos = [gt.index(q) for q in t.target_qubits]
                e = f"(MEmbed {len(gt)}%nat {qtrace.nat_list(pos)} {expP(int(t.coefficient.real), term_P(t), Fraction(1, 2))})"
                prod = e if prod is None else f"(MMul {e} {prod})"
            gates.append(f"([], {qtrace.nat_list(gt)}, {prod})")
        rhs = [f"([], {qtrace.nat_list(t.target_qubits)}, {expP(int(t.coefficient.real), term_P(t), 1)})" for t in h.terms]
        stmt = f"mcheck_eq (mcirc {n}%nat [{';'.join(gates)}]) (mcirc {n}%nat [{';'.join(rhs)}]) = true"
        thms.append((f"trotter_commuting_exact_{name}", stmt, "vm_compute; reflexivity."))
        items.append((name, n, h, [[str(f.name) for f in t.factors] for t in h.terms], [[list(t.target_qubits) for t in g] for g in groups]))
        run.case(["commuting", name])
        # tolerance test on the real circuit
        dt = rng.choice([0.37, 0.11, 1.3])
        U = h.circuit(dt).unitary()
        E = scipy.linalg.expm(-1j * dt * np.asarray(h.matrix))
        d = float(np.abs(U - E).max())
        run.notes.setdefault("tests", []).append({"test": f"circuit({dt}).unitary() vs expm, commuting family {name}", "max_abs_err": d, "tolerance": 1e-10})
        if d > 1e-10:
            run.find(f"trotter_commuting:{name}", "Trotter circuit of a commuting family differs from exp(-iH dt) (tolerance test)", {"family": name, "dt": dt, "err": d})
    ok, out = run.coq_theorems("C16_commuting.v", qtrace.COQ_HEADER, thms, timeout=1200)
    if not ok:
        # triage individually
        for (nm, stmt, pr), it in zip(thms, items):
            ok1, _ = run.coq_theorems(f"C16_commuting_{nm}.v", qtrace.COQ_HEADER, [(nm, stmt, pr)], timeout=600)
            run.oblige(nm + " (bounded instance, all dt)", ok1, "TrigNF instance")
            if not ok1:
                run.find(f"unproved:{nm}", "commuting-family exactness instance no longer checks", {"family": it[0]}, concrete=False)
    else:
        for nm, _, _ in thms:
            run.oblige(nm + " (bounded instance, all dt)", True, "TrigNF instance")
    run.notes["commuting_families"] = [{"name": a, "n": b, "terms": d, "groups": e} for a, b, _, d, e in items]
    # second-order test for a non-commuting Hamiltonian: error ratio ~ 8 when dt is halved
    form = symbols.X(0) * symbols.X(1) + 2 * symbols.Z(0) + symbols.Y(1) * symbols.Z(2) - symbols.Z(1)
    h = SymbolicHamiltonian(form, nqubits=3)
    errs = []
    for dt in (0.04, 0.02, 0.01):
        errs.append(float(np.abs(h.circuit(dt).unitary() - scipy.linalg.expm(-1j * dt * np.asarray(h.matrix))).max()))
    ratios = [errs[0] / errs[1], errs[1] / errs[2]]
    run.notes["tests"].append({"test": "Trotter local error O(dt^3): err(dt)/err(dt/2) for a non-commuting H", "errors": errs, "ratios": ratios, "expected": 8.0})
    if not all(6.0 < r < 10.0 for r in ratios):
        run.find("trotter_order:noncommuting", "local error of circuit(dt) does not scale like dt^3 (tolerance test)", {"errors": errs, "ratios": ratios})


# ------------------------------------------------------------------ nsteps (binary64, bit exact)
def fme(x):
    """Coq term of the float x through its exact mantissa / exponent"""
    m, e = math.frexp(x)
    mi = int(m * 2 ** 53)
    zz = lambda v: str(v) if v >= 0 else f"({v})"
    return f"(fme {zz(mi)} {zz(e - 53)})"


class StepCounter:
    def __init__(self, dt):
        self.dt, self.t, self.n = dt, 0, 0

    def __call__(self, state):
        self.n += 1
        return state


def real_nsteps(ev, t0, T, dt):
    ev.solver = StepCounter(dt)
    ev.execute(T, start_time=t0, initial_state=np.array([1.0 + 0j, 0.0]))
    return ev.solver.n


def gen_triples(run, rng):
    quick = run.tier == "quick"
    out = [(0.0, 0.3, 0.1, (0, 3, 1, 1)), (0.0, 1.0, 0.1, (0, 10, 1, 1)), (0.0, 2.0, 1e-2, (0, 200, 1, 2)), (0.1, 0.4, 0.1, (1, 4, 1, 1))]
    # decimal grids: (T - t0) = m * dt exactly as decimals
    for _ in range(700 if quick else 7000):
        k = rng.choice([1, 1, 2, 2, 3])
        c = rng.randrange(1, 10 ** k if rng.random() < 0.7 else 40)
        m = rng.randrange(1, 60)
        a = 0 if rng.random() < 0.6 else rng.randrange(0, 50)
        b = a + m * c
        out.append((a / 10 ** k, b / 10 ** k, c / 10 ** k, (a, b, c, k)))
    # arbitrary floats
    for _ in range(300 if quick else 3000):
        t0 = rng.choice([0.0, rng.uniform(0, 2)])
        T = t0 + rng.uniform(0, 5)
        dt = rng.choice([rng.uniform(1e-3, 1.0), 2.0 ** -rng.randrange(1, 8)])
        out.append((t0, T, dt, None))
    return out


def run_nsteps(run, rng):
    from qibo import hamiltonians, models
    ev = models.StateEvolution(hamiltonians.Hamiltonian(1, np.diag([1.0, -1.0]).astype(complex)), dt=0.1)
    triples = gen_triples(run, rng)
    items, metas = [], []
    bad_decimal = []
    for j, (t0, T, dt, decn) in enumerate(triples):
        n = real_nsteps(ev, t0, T, dt)
        run.case(["nsteps", t0.hex() if isinstance(t0, float) else t0, T.hex(), dt.hex()], nontrivial=(n > 0))
        term = f"ozeqb (nsteps {fme(t0)} {fme(T)} {fme(dt)}) (Some {zint(n)})"
        if decn is not None:
            a, b, c, k = decn
            # the floats are the correctly rounded decimal literals; the model's `dec` must produce the same bits
            term += (f" && PrimFloat.eqb (dec {k}%nat {a}) {fme(t0)} && PrimFloat.eqb (dec {k}%nat {b}) {fme(T)}"
                     f" && PrimFloat.eqb (dec {k}%nat {c}) {fme(dt)}")
            m = (b - a) // c
            if n != m:
                bad_decimal.append({"t0": t0, "T": T, "dt": dt, "steps_run": n, "steps_expected": m})
        items.append((f"n{j}", term))
        items.append((f"p{j}", f"ozeqb (nsteps_prefix {fme(t0)} {fme(T)} {fme(dt)}) (Some {zint(n)})"))
        metas.append({"t0": t0, "T": T, "dt": dt, "steps": n})
        metas.append(None)
    run.sample({"kind": "nsteps", "t0": 0.0, "T": 0.3, "dt": 0.1, "steps_run_by_StateEvolution": real_nsteps(ev, 0.0, 0.3, 0.1)})
    allres = {}
    for k in range(0, len(items), 1000):
        res, out = run.coq_bools(f"C16_nsteps_{k // 1000}.v", HEADER, items[k:k + 1000], timeout=900)
        if res is None:
            run.find(f"coq:C16_nsteps_{k // 1000}", "generated file does not compile", {"log": out[-1500:]}, concrete=False)
            continue
        allres.update(res)
    code_ok = [lab for lab, _ in items if lab.startswith("n") and allres.get(lab) is True]
    code_bad = [lab for lab, _ in items if lab.startswith("n") and allres.get(lab) is False]
    if code_bad and all(allres.get("p" + lab[1:]) for lab in code_bad + code_ok):
        # every triple agrees with the HISTORICAL truncation model: the repair of execute() was lost.
        # The concrete failing inputs are the decimal-grid triples reported below.
        run.notes["implementation_follows_historical_model"] = {"nsteps_prefix (truncation)": len(code_bad) + len(code_ok)}
        if not bad_decimal:
            run.find("nsteps_model:truncation", "StateEvolution.execute follows the truncation model again, no decimal-grid witness in this run", {}, concrete=False)
    else:
        for (lab, _), meta in zip(items, metas):
            if lab in code_bad:
                run.find(f"nsteps_model:{meta['t0']!r}:{meta['T']!r}:{meta['dt']!r}", "PrimFloat model of int(round((T - t0)/dt)) disagrees with StateEvolution.execute", {"mechanism": "nsteps", **meta}, concrete=False)
    run.notes["nsteps_decimal_grid_truncated"] = {"count": len(bad_decimal), "of": sum(1 for t in triples if t[3] is not None), "examples": bad_decimal[:5]}
    # the property: T - t0 a multiple of dt  =>  that many steps.  Replay a truncated triple on the real evolution.
    for w in bad_decimal[:40]:
        key = f"nsteps_truncation:T={w['T']!r},dt={w['dt']!r},t0={w['t0']!r}"
        rp = replay_missing_step(w["t0"], w["T"], w["dt"], w["steps_expected"])
        run.find(key, f"StateEvolution.execute runs {w['steps_run']} steps instead of {w['steps_expected']} (the quotient (T - t0)/dt is truncated instead of rounded)", {"mechanism": "nsteps", **w, **rp})


def replay_missing_step(t0, T, dt, m):
    """real StateEvolution on a diagonal H (exp solver exact to rounding): the final state is exp(-iH(m-1)dt) psi"""
    from qibo import hamiltonians, models
    H = hamiltonians.Hamiltonian(1, np.diag([1.0, -1.0]).astype(complex))
    psi0 = np.array([1, 1], dtype=complex) / np.sqrt(2)
    out = models.StateEvolution(H, dt=dt)(final_time=T, start_time=t0, initial_state=psi0.copy())
    exact = np.exp(-1j * np.array([1, -1]) * (m * dt)) * psi0
    short = np.exp(-1j * np.array([1, -1]) * ((m - 1) * dt)) * psi0
    return {"final_state_err_vs_exp(-iH(T-t0))": float(np.abs(out - exact).max()), "err_vs_one_step_less": float(np.abs(out - short).max()), "tolerance": 1e-9}


# ------------------------------------------------------------------ Runge-Kutta: exact polynomials through the real code
NV = 12     # variables: 0 dt, 1 H (constant case), 2 psi, 3 t0, 4.. one per distinct evaluation time of H(t)


class P:
    """exact polynomials in NV variables with Gaussian-rational coefficients; floats must be integral"""
    backend = None

    def __init__(self, d=None):
        self.d = {k: v for k, v in (d or {}).items() if v != (0, 0)}

    @staticmethod
    def const(c):
        if isinstance(c, P):
            return c
        if isinstance(c, complex):
            re_, im_ = c.real, c.imag
        else:
            re_, im_ = c, 0
        def fr(x):
            if isinstance(x, float):
                if x != int(x):
                    raise Inexact(f"non-integral float literal {x}")
                x = int(x)
            return Fraction(x)
        return P({(0,) * NV: (fr(re_), fr(im_))})

    @staticmethod
    def var(i):
        k = [0] * NV
        k[i] = 1
        return P({tuple(k): (Fraction(1), Fraction(0))})

    def __add__(self, o):
        o = P.const(o)
        d = dict(self.d)
        for k, (a, b) in o.d.items():
            x, y = d.get(k, (0, 0))
            d[k] = (x + a, y + b)
        return P(d)
    __radd__ = __add__

    def __neg__(self):
        return P({k: (-a, -b) for k, (a, b) in self.d.items()})

    def __sub__(self, o):
        return self + (-P.const(o))

    def __rsub__(self, o):
        return P.const(o) + (-self)

    def __mul__(self, o):
        o = P.const(o)
        d = {}
        for k1, (a, b) in self.d.items():
            for k2, (c, e) in o.d.items():
                k = tuple(x + y for x, y in zip(k1, k2))
                x, y = d.get(k, (0, 0))
                d[k] = (x + a * c - b * e, y + a * e + b * c)
        return P(d)
    __rmul__ = __mul__

    def __truediv__(self, o):
        o = P.const(o)
        (k, (a, b)), = o.d.items()
        assert k == (0,) * NV and b == 0
        return self * P({(0,) * NV: (1 / a, Fraction(0))})

    def __matmul__(self, o):
        return self * o

    def eval(self, dt, H, psi=1):
        return self.evalv({0: dt, 1: H, 2: psi})

    def evalv(self, vals):
        """vals: {variable index: Fraction}; unlisted variables must not occur"""
        re_ = im_ = Fraction(0)
        for k, (a, b) in self.d.items():
            m = Fraction(1)
            for i, e in enumerate(k):
                if e:
                    m *= vals[i] ** e
            re_ += a * m
            im_ += b * m
        return re_, im_

    def key(self):
        return tuple(sorted(self.d.items()))

    def __eq__(self, o):
        return self.d == P.const(o).d


def real_rk_poly(cls):
    """run the real solver step with exact polynomial objects: returns the step polynomial"""
    from qibo import solvers
    Hs = P.var(1)
    s = getattr(solvers, cls)(P.var(0), lambda t: Hs)      # BaseSolver.__init__ reads hamiltonian(0).backend
    return s(P.var(2))


def taylor_poly(order):
    x = P.const(-1j) * P.var(0) * P.var(1)
    tot, term = P.const(1), P.const(1)
    for j in range(1, order + 1):
        term = term * x / j
        tot = tot + term
    return tot * P.var(2)


def run_rk(run, rng):
    grid_dt = [Fraction(1, 2), Fraction(1, 3), Fraction(2, 3), Fraction(3, 4), Fraction(1, 5), Fraction(5, 7), Fraction(-1, 2)]
    grid_H = [Fraction(1), Fraction(2), Fraction(-1), Fraction(3), Fraction(1, 2), Fraction(-3, 2), Fraction(5, 3)]
    items = []
    for cls, model in (("RungeKutta4", "rk4_step"), ("RungeKutta45", "rk45_step")):
        try:
            poly = real_rk_poly(cls)
        except Inexact as e:
            run.find(f"rk_trace:{cls}", f"cannot execute {cls}.__call__ exactly: {e}", {}, concrete=False)
            continue
        degs = sorted(poly.d)
        run.notes.setdefault("rk_step_polynomials", {})[cls] = {str(k): [str(a), str(b)] for k, (a, b) in sorted(poly.d.items())}
        for dt in grid_dt:
            for Hv in grid_H:
                re_, im_ = poly.eval(dt, Hv)
                run.case(["rk", cls, str(dt), str(Hv)])
                items.append((f"{cls}:{dt}:{Hv}",
                              f"gq_eqb ({model} gq_ring (gq_of {qlit(Hv)}) (gq_of {qlit(dt)}) (gq_of (1 # 1))) ({qlit(re_)}, {qlit(im_)})"))
                items.append((f"prefix:{cls}:{dt}:{Hv}",
                              f"gq_eqb ({model}_prefix gq_ring (gq_of {qlit(Hv)}) (gq_of {qlit(dt)}) (gq_of (1 # 1))) ({qlit(re_)}, {qlit(im_)})"))
        order = 4 if cls == "RungeKutta4" else 5
        # the property: the step agrees with exp(-i dt H) psi up to its stated order
        tay = taylor_poly(order)
        diff = poly - tay
        low = {k: v for k, v in diff.d.items() if k[0] <= order}
        if low:
            k0 = min(low)
            run.find(f"rk_order:{cls}",
                     f"{cls}.__call__: one step for constant H differs from the Taylor series of exp(-i dt H) psi at order dt^{k0[0]} (below the stated order of the method)",
                     {"mechanism": "rk", "solver": cls, "first_wrong_monomial": f"dt^{k0[0]} H^{k0[1]} psi",
                      "coefficient_is": [str(x) for x in poly.d.get(k0, (0, 0))], "coefficient_should_be": [str(x) for x in tay.d.get(k0, (0, 0))],
                      **rk_convergence_test(cls)})
    run.sample({"kind": "Runge-Kutta step polynomial of the real code (coefficients of dt^a H^b psi)", "RungeKutta4": run.notes.get("rk_step_polynomials", {}).get("RungeKutta4")})
    hdr = HEADER.replace("Local Open Scope Z_scope.", "Local Open Scope Q_scope.")
    res, out = run.coq_bools("C16_rk.v", hdr, items, timeout=900)
    if res is None:
        run.find("coq:C16_rk", "generated file does not compile", {"log": out[-1500:]}, concrete=False)
        return
    for cls in ("RungeKutta4", "RungeKutta45"):
        labs = [lab for lab, _ in items if lab.startswith(cls + ":")]
        if not labs or all(res[lab] for lab in labs):
            continue
        if all(res["prefix:" + lab] for lab in labs):
            # the step equals the HISTORICAL model (stages without -i): reported concretely as rk_order:<class> above
            run.notes.setdefault("implementation_follows_historical_model", {})[cls] = "stages evaluated with H s instead of -i H s"
            continue
        for lab in labs:
            if not res[lab]:
                run.find(f"rk_model:{lab}", "Runge-Kutta step of the real code differs from the model at a rational point", {"point": lab}, concrete=False)


# ---- time-dependent Hamiltonians: a spy callable H(t) returns a fresh commuting indeterminate per distinct time
def real_rk_timedep(cls):
    """returns (step polynomial, [evaluation times as polynomials in t0, dt], {time key: variable index})"""
    from qibo import solvers
    seen, times = {}, []

    def spy(t):
        tp = P.const(t)
        times.append(tp)
        k = tp.key()
        if k not in seen:
            seen[k] = 4 + len(seen)
        return P.var(seen[k])
    s = getattr(solvers, cls)(P.var(0), spy)        # __init__ evaluates H(0) twice (backend, t = 0)
    del times[:]
    seen.clear()
    s.t = P.var(3)                                  # solver.t = start_time: evaluates H(t0)
    out = s(P.var(2))
    return out, times, seen


def time_fraction(tp):
    """t0 + f*dt  ->  f (a Fraction); None if the time is not of that shape"""
    d = dict(tp.d)
    k0 = tuple(1 if i == 3 else 0 for i in range(NV))
    kd = tuple(1 if i == 0 else 0 for i in range(NV))
    if d.pop(k0, None) != (Fraction(1), Fraction(0)):
        return None
    f = d.pop(kd, (Fraction(0), Fraction(0)))
    if d or f[1] != 0:
        return None
    return f[0]


def run_rk_timedep(run, rng):
    hdr = HEADER.replace("Local Open Scope Z_scope.", "Local Open Scope Q_scope.")
    items, meta = [], {}
    dts = [Fraction(1, 2), Fraction(-1, 3), Fraction(2, 3), Fraction(3, 4), Fraction(1, 5), Fraction(5, 7), Fraction(-3, 2)]
    for cls, model, nodes_name, nstage in (("RungeKutta4", "rk4_step_t", "rk4_nodes", 3), ("RungeKutta45", "rk45_step_t", "rk45_nodes", 6)):
        try:
            poly, times, seen = real_rk_timedep(cls)
        except Inexact as e:
            run.find(f"rk_trace_t:{cls}", f"cannot execute {cls}.__call__ exactly with a time-dependent Hamiltonian: {e}", {}, concrete=False)
            continue
        fr = [time_fraction(t) for t in times]
        run.notes.setdefault("rk_evaluation_times", {})[cls] = [str(f) for f in fr]
        # evaluation times: H(t0) from the setter, the stage times in the order of the code, H(t0 + dt) from `self.t += self.dt`
        stage = fr[1:-1]
        ok_shape = (None not in fr) and fr[0] == 0 and fr[-1] == 1 and len(stage) == nstage - 1
        if not ok_shape:
            run.find(f"rk_times:{cls}", f"{cls}.__call__ evaluates H(t) at unexpected times {[str(f) for f in fr]}", {"solver": cls, "times": [str(f) for f in fr]})
            continue
        lit = "[" + ";".join(f"({f.numerator},{f.denominator})%Z" for f in stage) + "]"
        items.append((f"times:{cls}", f"list_eqb (fun a b : Z * Z => Z.eqb (fst a) (fst b) && Z.eqb (snd a) (snd b)) {nodes_name} {lit}"))
        meta[f"times:{cls}"] = {"solver": cls, "stage_time_fractions": [str(f) for f in stage]}
        # variable of stage i = the indeterminate returned at its evaluation time
        key_of = lambda f: (P.var(3) + P.const(f) * P.var(0)).key()
        var_stage = [seen[key_of(Fraction(0))]] + [seen[key_of(f)] for f in stage]
        degs = {}
        for k in poly.d:
            for i, e in enumerate(k):
                degs[i] = max(degs.get(i, 0), e)
        run.notes.setdefault("rk_timedep_degrees", {})[cls] = {str(i): e for i, e in degs.items() if e}
        hvals = [Fraction(1), Fraction(-2), Fraction(3, 2), Fraction(5), Fraction(-1, 3)]
        import itertools as it
        grids = [hvals[: degs.get(v, 0) + 1] for v in var_stage]
        for hs in it.product(*grids):
            for dt in dts[: degs.get(0, 0) + 1]:
                vals = {0: dt, 2: Fraction(1), 3: Fraction(0)}
                vals.update({v: h for v, h in zip(var_stage, hs)})
                for v in seen.values():
                    vals.setdefault(v, Fraction(0))
                re_, im_ = poly.evalv(vals)
                lab = f"t:{cls}:{','.join(map(str, hs))}:{dt}"
                run.case(["rk-timedep", cls, [str(h) for h in hs], str(dt)])
                args = " ".join(f"(gq_of {qlit(h)})" for h in hs)
                items.append((lab, f"gq_eqb ({model} gq_ring {args} (gq_of {qlit(dt)}) (gq_of (1 # 1))) ({qlit(re_)}, {qlit(im_)})"))
                meta[lab] = {"solver": cls, "stage_hamiltonians": [str(h) for h in hs], "dt": str(dt), "psi": "1", "real_result": [str(re_), str(im_)]}
    run.sample({"kind": "RK with a time-dependent Hamiltonian: evaluation times (fractions of dt after t0)", **run.notes.get("rk_evaluation_times", {})})
    bad = {}
    for k in range(0, len(items), 500):
        res, out = run.coq_bools(f"C16_rkt_{k // 500}.v", hdr, items[k:k + 500], timeout=900)
        if res is None:
            run.find(f"coq:C16_rkt_{k // 500}", "generated file does not compile", {"log": out[-1500:]}, concrete=False)
            continue
        for lab, _ in items[k:k + 500]:
            if not res[lab]:
                bad.setdefault(meta[lab]["solver"], []).append(lab)
    for cls, labs in bad.items():
        tl = [l for l in labs if l.startswith("times:")]
        if tl:
            run.find(f"rk_times:{cls}", f"{cls}.__call__ evaluates the stage Hamiltonians at other times than the tableau nodes", {"mechanism": "rk-timedep", **meta[tl[0]]})
        pl = [l for l in labs if l.startswith("t:")]
        if pl:
            run.find(f"rk_stage:{cls}", f"{cls}.__call__ with a time-dependent Hamiltonian: one step with independent stage Hamiltonians differs from the model "
                                        f"(a stage uses the Hamiltonian of another time) at {len(pl)} of the grid points",
                     {"mechanism": "rk-timedep", **meta[pl[0]], **rk_timedep_convergence(cls)})


def rk_timedep_convergence(cls):
    """tolerance test on the real StateEvolution with H(t) = (1 + t) Z + X/2: global error ratio when dt is halved"""
    from qibo import hamiltonians, models
    import scipy.integrate
    Z_, X_ = np.diag([1.0, -1.0]).astype(complex), np.array([[0, 1], [1, 0]], dtype=complex)
    Hm = lambda t: (1 + t) * Z_ + 0.5 * X_
    ham = lambda t: hamiltonians.Hamiltonian(1, Hm(t))
    psi0 = np.array([1, 1], dtype=complex) / np.sqrt(2)
    ref = scipy.integrate.solve_ivp(lambda t, y: -1j * Hm(t) @ y, (0, 1.0), psi0, rtol=1e-13, atol=1e-13).y[:, -1]
    errs = []
    for dt in (0.125, 0.0625, 0.03125):
        out = models.StateEvolution(ham, dt=dt, solver={"RungeKutta4": "rk4", "RungeKutta45": "rk45"}[cls])(final_time=1.0, initial_state=psi0.copy())
        errs.append(float(np.abs(out - ref).max()))
    return {"timedep_global_errors_dt_0.125_0.0625_0.03125": errs, "ratios": [errs[0] / errs[1], errs[1] / errs[2]],
            "ratio_expected_for_stated_order": 16 if cls == "RungeKutta4" else 32}


def rk_convergence_test(cls):
    """tolerance test on the real StateEvolution: global error at T=1 when dt is halved"""
    from qibo import hamiltonians, models
    H = hamiltonians.Hamiltonian(1, np.array([[1, 0], [0, -1]], dtype=complex))
    psi0 = np.array([1, 1], dtype=complex) / np.sqrt(2)
    exact = np.exp(-1j * np.array([1, -1]) * 1.0) * psi0
    errs = []
    for dt in (0.125, 0.0625, 0.03125):
        out = models.StateEvolution(H, dt=dt, solver={"RungeKutta4": "rk4", "RungeKutta45": "rk45"}[cls])(final_time=1.0, initial_state=psi0.copy())
        errs.append(float(np.abs(out - exact).max()))
    return {"global_errors_dt_0.125_0.0625_0.03125": errs, "ratios": [errs[0] / errs[1], errs[1] / errs[2]],
            "ratio_expected_for_stated_order": 16 if cls == "RungeKutta4" else 32}


# ------------------------------------------------------------------ one Hamiltonian object, several circuit(dt[, t]) calls
def embed_np(M, targets, n):
    """numpy reference of Base/Mat.embed: the matrix M on the qubits `targets` (in that order) of n qubits"""
    k = len(targets)
    M = np.asarray(M, dtype=complex).reshape((2,) * (2 * k))
    rest = [q for q in range(n) if q not in targets]
    full = np.zeros((2,) * (2 * n), dtype=complex)
    # build by tensoring M with identities and permuting axes
    T = np.tensordot(M, np.eye(2 ** len(rest)).reshape((2,) * (2 * len(rest))), axes=0) if rest else M
    order_out = list(targets) + rest
    row_axes = list(range(k)) + list(range(2 * k, 2 * k + len(rest)))
    col_axes = list(range(k, 2 * k)) + list(range(2 * k + len(rest), 2 * k + 2 * len(rest)))
    T = np.transpose(T, row_axes + col_axes)          # (rows of targets, rows of rest, cols of targets, cols of rest)
    perm = [order_out.index(q) for q in range(n)]
    T = np.transpose(T, perm + [n + p_ for p_ in perm])
    return T.reshape(2 ** n, 2 ** n)


def run_circuit_histories(run, rng):
    """ONE SymbolicHamiltonian / SymbolicAdiabaticHamiltonian object asked for Trotter steps several times (same t with
    different dt, same dt with different t, repeats): every call is compared with the model -- the (merged term, dt/2)
    sequence handed to expgate exactly (spy), and the unitary of the RETURNED circuit with the product of the
    exponentials of the model's merged groups for THIS call's dt and t (tolerance test)."""
    import scipy.linalg
    from qibo import hamiltonians
    from qibo.hamiltonians import adiabatic as AD, terms as T
    from qibo.symbols import X, Y, Z
    items, meta = [], {}
    rec = []
    orig = T.HamiltonianTerm.expgate

    def spy(self, x):
        rec.append((tuple(self.target_qubits), np.asarray(self.matrix).copy(), x))
        return orig(self, x)

    def reference_unitary(groups, weight, n, x):
        """groups: list of lists of terms; weight(term) -> scalar; product over groups forward then backward of exp(-i x G)"""
        Gs = [sum(weight(t) * embed_np(np.asarray(t.matrix), list(t.target_qubits), n) for t in g) for g in groups]
        U = np.eye(2 ** n, dtype=complex)
        for G in Gs + Gs[::-1]:
            U = scipy.linalg.expm(-1j * x * G) @ U
        return U

    T.HamiltonianTerm.expgate = spy
    try:
        count = 4 if run.tier == "quick" else 24
        for k in range(count):
            n = rng.choice([2, 3])
            adiabatic = k % 2 == 0
            mk = lambda: rand_pauli_form(rng, n)
            if adiabatic:
                h0 = hamiltonians.SymbolicHamiltonian(ast_sympy(mk()), nqubits=n)
                h1 = hamiltonians.SymbolicHamiltonian(ast_sympy(mk()), nqubits=n)
                if h0.nqubits != h1.nqubits:
                    continue
                ham = AD.SymbolicAdiabaticHamiltonian(h0, h1)
                power = rng.choice([1, 2])
                ham.schedule = (lambda p_: (lambda x: x ** p_))(power)
                ham.total_time = 2.0
                ts = [rng.choice([0.0, 0.5, 1.0, 1.5, 2.0]) for _ in range(2)]
                dts = [rng.choice([0.1, 0.05, 0.25, 0.3]) for _ in range(2)]
                # same t / different dt, same dt / different t, and a repeat
                calls = [(dts[0], ts[0]), (dts[1], ts[0]), (dts[1], ts[1]), (dts[0], ts[1]), (dts[0], ts[0]), (dts[0] / 2, ts[0])]
            else:
                ham = hamiltonians.SymbolicHamiltonian(ast_sympy(mk()), nqubits=n)
                dts = [rng.choice([0.1, 0.05, 0.25, 0.3]) for _ in range(2)]
                calls = [(dts[0], None), (dts[1], None), (dts[0], None), (dts[0] / 2, None)]
            for j, (dt, t) in enumerate(calls):
                del rec[:]
                circ = ham.circuit(dt, t=t) if adiabatic else ham.circuit(dt)
                seq = list(rec)
                if adiabatic:
                    sv = (Fraction(t) / Fraction(2)) ** power if t != 0 else Fraction(0)
                    wt = lambda term, _s=sv: float(1 - _s) if term.hamiltonian is h0 else float(_s)
                    groups = [list(g) for g in ham.groups]
                    den = sv.denominator
                    pres = [(tuple(tm.target_qubits), (den - sv.numerator if owner is h0 else sv.numerator) * np.asarray(tm.matrix))
                            for owner, gs in ((h0, ham.groups0), (h1, ham.groups1)) for g in gs for tm in g]
                else:
                    wt = lambda term: 1.0
                    groups = [list(g) for g in T.TermGroup.from_terms(ham.terms)]
                    del rec[:]
                    den = 1
                    pres = [(tuple(tm.target_qubits), np.asarray(tm.matrix)) for tm in ham.terms]
                desc = {"mechanism": "circuit-history", "object": "SymbolicAdiabaticHamiltonian" if adiabatic else "SymbolicHamiltonian",
                        "call_index": j, "calls_dt_t": calls, "dt": dt, "t": t, "nqubits": n}
                run.case(["circuit-history", k, j, dt, t], nontrivial=True)
                if k < 2 and j == 1:
                    run.sample({"kind": "several circuit(dt, t) calls on one object", **desc})
                # (a) tolerance test on the RETURNED circuit: must be the step for THIS dt and t
                U = circ.unitary()
                Uref = reference_unitary(groups, wt, n, dt / 2.0)
                err = float(np.abs(U - Uref).max())
                if err > 1e-9:
                    run.find(f"circuit_history:{desc['object']}:call{j}:dt={dt}:t={t}",
                             f"{desc['object']}.circuit called several times on one object: the circuit returned by call {j} (dt={dt}, t={t}) is not the "
                             f"Trotter step for these arguments (max |U - U_ref| = {err:.3e}; earlier calls: {calls[:j]})", {**desc, "max_abs_err": err})
                # (b) exact: the (merged term, x) sequence handed to expgate by this call vs the model
                okx = all(x == dt / 2.0 for _, _, x in seq) and len(seq) == 2 * len(groups)
                try:
                    S = "Some [" + ";".join(f"zterm [{';'.join(str(q) for q in qs)}] {cmat(den * M)}" for qs, M, _ in seq) + "]"
                    lab = f"ch{k}:{j}"
                    items.append((lab, f"{'true' if okx else 'false'} && match circuit_terms {terms_coq(pres)}, {S} with Some a, Some b => list_eqb hterm_eqb a b | _, _ => false end"))
                    meta[lab] = {**desc, "expgate_calls": len(seq), "expected_calls": 2 * len(groups), "x_values": sorted({x for _, _, x in seq})}
                except Inexact as e:
                    run.find(f"circuit_history:{desc['object']}:call{j}:dt={dt}:t={t}", f"merged term of call {j} is not den * (model term): {e}", desc)
    finally:
        T.HamiltonianTerm.expgate = orig
    res = {}
    for k0 in range(0, len(items), 200):
        r, out = run.coq_bools(f"C16_circuit_hist_{k0 // 200}.v", HEADER, items[k0:k0 + 200], timeout=900)
        if r is None:
            run.find(f"coq:C16_circuit_hist_{k0 // 200}", "generated file does not compile", {"log": out[-1500:]}, concrete=False)
        else:
            res.update(r)
    for lab, _ in items:
        if lab in res and not res[lab]:
            m = meta[lab]
            run.find(f"circuit_history_terms:{m['object']}:call{m['call_index']}:dt={m['dt']}:t={m['t']}",
                     f"{m['object']}.circuit call {m['call_index']} on a re-used object did not exponentiate the model's merged terms with x = dt/2 "
                     f"({m['expgate_calls']} expgate calls, expected {m['expected_calls']}; x values {m['x_values']})", m)


# ------------------------------------------------------------------ Hamiltonian.exp before / after the spectrum was computed
def rand_hermitian(rng, n, cplx):
    N = 2 ** n
    A = np.array([[complex(rng.randrange(-3, 4), rng.randrange(-3, 4) if cplx else 0) for _ in range(N)] for _ in range(N)])
    return (A + A.conj().T) / 2.0 * 2.0 / 2.0


def run_exp_histories(run, rng):
    """Hamiltonian.exp(a) against scipy's expm of the same matrix, for real AND complex Hermitian matrices, on a fresh
    object and again after eigenvalues()/eigenvectors()/ground_state() filled the spectrum cache (the eigendecomposition
    branch of calculate_matrix_exp); the 'exp' solver (StateEvolution, dense AdiabaticEvolution with a Y mixer and the
    default initial state = ground state of h0) likewise.  Tolerance tests (1e-10)."""
    import scipy.linalg
    from qibo import hamiltonians, models
    from qibo.symbols import X, Y, Z
    worst = {}
    count = 8 if run.tier == "quick" else 60
    for k in range(count):
        n = rng.choice([1, 2])
        cplx = k % 2 == 0
        if k % 4 == 3:
            hs = hamiltonians.SymbolicHamiltonian(rng.randrange(1, 4) * Y(0) * (Z(1) if n == 2 else 1) + rng.randrange(1, 3) * X(0) + (Y(1) if n == 2 else 0), nqubits=n)
            M = np.array(hs.matrix)
            cplx = True
        else:
            M = rand_hermitian(rng, n, cplx)
        for prep in ("fresh", "eigenvalues", "eigenvectors", "ground_state"):
            h = hamiltonians.Hamiltonian(n, M.copy())
            if prep != "fresh":
                getattr(h, prep)()
            for a in (rng.choice([0.1, 0.37, 1.0]), rng.choice([0.05, 2.0])):
                got = np.asarray(h.exp(a))
                ref = scipy.linalg.expm(-1j * a * M)
                err = float(np.abs(got - ref).max())
                key = (prep, "complex" if cplx else "real")
                worst[key] = max(worst.get(key, 0.0), err)
                run.case(["matrix_exp", k, prep, a, cplx], nontrivial=True)
                if err > 1e-10:
                    run.find(f"matrix_exp:{prep}:{'complex' if cplx else 'real'}:n={n}",
                             f"Hamiltonian.exp(a) after {prep} differs from expm(-i a H) for a {'complex' if cplx else 'real'} Hermitian H (max abs err {err:.3e})",
                             {"mechanism": "matrix_exp", "prep": prep, "a": a, "matrix": [[[float(z.real), float(z.imag)] for z in r] for r in M], "max_abs_err": err})
        # exp solver after the spectrum was computed
        h = hamiltonians.Hamiltonian(n, M.copy())
        psi0 = np.asarray(h.ground_state()).copy() if k % 2 else None
        if psi0 is None:
            h.eigenvectors()
            psi0 = np.zeros(2 ** n, dtype=complex)
            psi0[0] = 1
        dt, m = rng.choice([0.1, 0.25]), rng.randrange(1, 5)
        out = models.StateEvolution(h, dt=dt)(final_time=m * dt, initial_state=psi0.copy())
        ref = np.linalg.matrix_power(scipy.linalg.expm(-1j * dt * M), m) @ psi0
        err = float(np.abs(out - ref).max())
        worst[("evolve", "complex" if cplx else "real")] = max(worst.get(("evolve", "complex" if cplx else "real"), 0.0), err)
        run.case(["exp_evolve_after_spectrum", k, dt, m], nontrivial=True)
        if err > 1e-10:
            run.find(f"exp_evolution_after_spectrum:{'complex' if cplx else 'real'}:n={n}",
                     f"StateEvolution('exp') on a Hamiltonian whose eigenvectors were computed before: final state differs from expm-reference (max abs err {err:.3e})",
                     {"mechanism": "matrix_exp", "dt": dt, "steps": m, "matrix": [[[float(z.real), float(z.imag)] for z in r] for r in M], "max_abs_err": err})
    # dense adiabatic evolution with a Y mixer, default initial state (ground state of h0 => its spectrum is cached)
    for k in range(3 if run.tier == "quick" else 12):
        n = rng.choice([1, 2])
        H0 = np.array(hamiltonians.SymbolicHamiltonian(sum(Y(q) for q in range(n)) + (0.5 * X(0)), nqubits=n).matrix)
        H1 = rand_hermitian(rng, n, k % 2 == 0)
        h0, h1 = hamiltonians.Hamiltonian(n, H0), hamiltonians.Hamiltonian(n, H1)
        dt, T = 0.25, rng.choice([1.0, 2.0])
        ev = models.AdiabaticEvolution(h0, h1, lambda x: x, dt=dt)
        out = np.asarray(ev(final_time=T))
        psi = np.asarray(hamiltonians.Hamiltonian(n, H0).ground_state()).copy()
        # same gauge as the implementation's ground state: compare up to the phase by using the implementation's own vector
        psi = np.asarray(h0.ground_state()).copy()
        for j in range(int(round(T / dt))):
            s_ = (j * dt) / T
            psi = scipy.linalg.expm(-1j * dt * ((1 - s_) * H0 + s_ * H1)) @ psi
        err = float(np.abs(out - psi).max())
        worst[("adiabatic", "Y mixer")] = max(worst.get(("adiabatic", "Y mixer"), 0.0), err)
        run.case(["adiabatic_dense_Y", k, n, T], nontrivial=True)
        if err > 1e-9:
            run.find(f"adiabatic_exp_after_ground_state:n={n}:T={T}",
                     f"dense AdiabaticEvolution with a Y mixer and the default initial state: final state differs from the step-by-step expm reference (max abs err {err:.3e})",
                     {"mechanism": "matrix_exp", "dt": dt, "T": T, "h1": [[[float(z.real), float(z.imag)] for z in r] for r in H1], "max_abs_err": err})
    run.notes.setdefault("tests", []).append({"test": "Hamiltonian.exp / exp-solver vs scipy expm, fresh object and after the spectrum was computed, real and complex Hermitian",
                                              "max_errors": {f"{a}/{b}": v for (a, b), v in worst.items()}, "tolerance": 1e-10})


# ------------------------------------------------------------------ histories: one object, several executions
def qq(x):
    f = Fraction(x)          # exact value of the float
    return f"({f.numerator} # {f.denominator})"


def qlist(xs):
    return "[" + ";".join(qq(x) for x in xs) + "]"


def run_histories(run, rng):
    """AdiabaticEvolution / StateEvolution objects executed 2-3 times with different final times (dyadic dt, T so that
    the float arithmetic of t += dt and t / T is exact): the schedule arguments actually passed, the interpolated
    Hamiltonians actually built and the evaluation times of H(t) are compared with the model exactly."""
    from qibo import hamiltonians, models
    from qibo.hamiltonians import adiabatic as AD
    from qibo.symbols import X, Z
    hdr = HEADER.replace("Local Open Scope Z_scope.", "Local Open Scope Q_scope.")
    items, meta = [], {}
    reported = set()
    count = 6 if run.tier == "quick" else 40
    for k in range(count):
        kind = ["exp", "rk4", "trotter"][k % 3]
        dt = rng.choice([0.25, 0.5, 0.125])
        Ts = [dt * rng.choice([1, 2, 4, 8]) for _ in range(rng.choice([2, 3]))]      # T = 2^m dt: t / T is an exact float
        if len(set(Ts)) == 1:
            Ts[-1] = Ts[0] * 2
        power = rng.choice([1, 2])
        args, built = [], []

        def make_sched(pw):
            def sched(x):            # exactly one positional argument: a schedule s(t), not s(t, params)
                args.append(x)
                return x ** pw
            return sched
        sched = make_sched(power)
        if kind == "trotter":
            h0 = hamiltonians.SymbolicHamiltonian(X(0) + X(1))
            h1 = hamiltonians.SymbolicHamiltonian(Z(0) * Z(1) + 2 * Z(0))
            ev = models.AdiabaticEvolution(h0, h1, sched, dt=dt, solver="exp")
        else:
            h0 = hamiltonians.Hamiltonian(1, np.array([[0, 1], [1, 0]], dtype=complex))
            h1 = hamiltonians.Hamiltonian(1, np.array([[1, 0], [0, -3]], dtype=complex))
            ev = models.AdiabaticEvolution(h0, h1, sched, dt=dt, solver=kind)
        orig_call = AD.BaseAdiabaticHamiltonian.__call__

        def spy_call(self, t, _o=orig_call):
            r = _o(self, t)
            if hasattr(r, "matrix") and not isinstance(r, hamiltonians.SymbolicHamiltonian):
                built.append((t, np.array(r.matrix)))
            return r
        AD.BaseAdiabaticHamiltonian.__call__ = spy_call
        from qibo.hamiltonians import terms as TT
        orig_tt = TT.TermGroup.to_term
        coefs = []

        def spy_tt(self, coefficients={}, _o=orig_tt):
            if coefficients:
                c = (args[-1] if args else None, float(coefficients[h0]), float(coefficients[h1]))
                if not coefs or coefs[-1] != c:
                    coefs.append(c)
            return _o(self, coefficients)
        TT.TermGroup.to_term = spy_tt
        try:
            runs_args, runs_built, runs_coefs = [], [], []
            for T in Ts:
                del args[:], built[:], coefs[:]
                ev(final_time=T)
                runs_args.append(list(args))
                runs_built.append(list(built))
                runs_coefs.append(list(coefs))
        finally:
            AD.BaseAdiabaticHamiltonian.__call__ = orig_call
            TT.TermGroup.to_term = orig_tt
        times_fn = {"exp": "exp_eval_times", "rk4": "rk4_eval_times", "trotter": "trotter_eval_times"}[kind]
        runs_coq = "[" + ";".join(f"({qq(T)}, {times_fn} 0 {qq(T)} {qq(dt)})" for T in Ts) + "]"
        obs = "[" + ";".join(qlist(a) for a in runs_args) + "]"
        lab = f"hist{k}:{kind}"
        run.case(["history", kind, dt, Ts, power], nontrivial=True)
        if k < 3:
            run.sample({"kind": f"AdiabaticEvolution({kind}) executed {len(Ts)} times on one object", "dt": dt, "final_times": Ts,
                        "schedule_arguments_of_last_run": runs_args[-1][:8]})
        items.append((lab, f"list_eqb qlist_eqb (ad_history None {runs_coq}) {obs}"))
        meta[lab] = {"mechanism": "history", "kind": kind, "dt": dt, "final_times": Ts, "schedule_arguments_per_run": runs_args}
        # the Hamiltonians actually built vs the model  den * ((1 - s) h0 + s h1),  s = (t/T)^p = num/den  (exact, in Coq)
        if kind != "trotter":
            conj = []
            for T, bl in zip(Ts, runs_built):
                for (t, M) in bl:
                    sv = (Fraction(t) / Fraction(T)) ** power if t != 0 else Fraction(0)
                    try:
                        conj.append(f"meqb (ad_ham {sv.numerator}%Z {sv.denominator}%Z {cmat(h0.matrix)}%Z {cmat(h1.matrix)}%Z) {cmat(sv.denominator * M)}%Z")
                    except Inexact:
                        # den * M is not even integral: certainly not den * ((1 - s) h0 + s h1)
                        if f"{kind}:{dt}:{Ts}" not in reported:
                            reported.add(f"{kind}:{dt}:{Ts}")
                            run.find(f"adiabatic_interpolation:{kind}:dt={dt}:T={Ts}",
                                 "the Hamiltonian used at a queried time is not (1 - s(t/T)) h0 + s(t/T) h1 with the final time T of that execution",
                                 {"mechanism": "history", "kind": kind, "dt": dt, "final_times": Ts, "run_T": T, "t": t, "schedule": f"x**{power}", "built": M.tolist()})
                        conj.append("false")
            blab = f"built{k}:{kind}"
            items.append((blab, "(" + " && ".join(conj or ["true"]) + ")%bool"))
            meta[blab] = {"mechanism": "history", "kind": kind, "dt": dt, "final_times": Ts, "schedule": f"x**{power}",
                          "built": [[(t, M.tolist()) for t, M in bl][:4] for bl in runs_built]}
        else:
            # Trotter: the coefficients {h0: 1 - st, h1: st} handed to TermGroup.to_term by circuit(dt, t)
            conj = []
            for T, cl in zip(Ts, runs_coefs):
                for (x, a0, a1) in cl:
                    mdl = f"ad_coeffs {power}%nat {qq(x)}" if x is not None else "[1; 0]"
                    conj.append(f"qlist_eqb ({mdl}) [{qq(a0)}; {qq(a1)}]")
            blab = f"built{k}:{kind}"
            items.append((blab, "(" + " && ".join(conj or ["true"]) + ")%bool"))
            meta[blab] = {"mechanism": "history", "kind": kind, "dt": dt, "final_times": Ts, "schedule": f"x**{power}", "coefficients": [cl[:6] for cl in runs_coefs]}
    # a re-used StateEvolution with a time-dependent Hamiltonian: evaluation times of H(t) per execution
    for k in range(4 if run.tier == "quick" else 20):
        solver = ["exp", "rk4"][k % 2]
        dt = rng.choice([0.25, 0.5, 0.125])
        seen = []

        def ham(t):
            seen.append(float(t))
            return hamiltonians.Hamiltonian(1, np.diag([1.0 + float(t), -1.0]).astype(complex))
        ev = models.StateEvolution(ham, dt=dt, solver=solver)
        runs = []
        spec = []
        for _ in range(rng.choice([2, 3])):
            t0 = dt * rng.choice([0, 0, 1, 2])
            T = t0 + dt * rng.choice([1, 2, 3, 5])
            del seen[:]
            ev(final_time=T, start_time=t0, initial_state=np.array([1, 0], dtype=complex))
            runs.append(list(seen))
            spec.append((t0, T))
        fn = {"exp": "exp_eval_times", "rk4": "rk4_eval_times"}[solver]
        want = "[" + ";".join(f"{fn} {qq(t0)} {qq(T)} {qq(dt)}" for t0, T in spec) + "]"
        obs = "[" + ";".join(qlist(r) for r in runs) + "]"
        lab = f"reuse{k}:{solver}"
        run.case(["reuse", solver, dt, spec], nontrivial=True)
        items.append((lab, f"list_eqb qlist_eqb {want} {obs}"))
        meta[lab] = {"mechanism": "history", "kind": "StateEvolution:" + solver, "dt": dt, "runs_t0_T": spec, "evaluation_times_per_run": runs}
    res, out = run.coq_bools("C16_histories.v", hdr, items, timeout=900)
    if res is None:
        run.find("coq:C16_histories", "generated file does not compile", {"log": out[-1500:]}, concrete=False)
        return
    for lab, _ in items:
        if not res[lab]:
            m = meta[lab]
            if lab.startswith("built"):
                run.find(f"adiabatic_interpolation:{m['kind']}:dt={m['dt']}:T={m['final_times']}",
                         "the Hamiltonian / Trotter coefficients used at a queried time are not (1 - s(t/T)) h0 + s(t/T) h1 with the final time T of that execution", m)
            elif lab.startswith("hist"):
                run.find(f"adiabatic_total_time:{m['kind']}:dt={m['dt']}:T={m['final_times']}",
                         "AdiabaticEvolution executed several times on one object: the schedule arguments t/T of a later run do not use that run's final time", m)
            else:
                run.find(f"evolution_reuse:{m['kind']}:dt={m['dt']}:{m['runs_t0_T']}", "a re-used StateEvolution evaluates H(t) at other times than a fresh one", m)


# ------------------------------------------------------------------ execute(): operation trace and norm of the returned state
class SolverProxy:
    """records every solver step; forwards t / dt to the real solver"""

    def __init__(self, inner, trace):
        object.__setattr__(self, "_inner", inner)
        object.__setattr__(self, "_trace", trace)

    def __call__(self, state):
        self._trace.append("XStep")
        return self._inner(state)

    def __getattr__(self, name):
        return getattr(self._inner, name)

    def __setattr__(self, name, value):
        setattr(self._inner, name, value)


def run_norm(run, rng):
    """every solver x {no callbacks, [Norm], [Energy]} x a few dt: the returned state has norm 1 (exp / Trotter are
    unitary, Runge-Kutta states are normalised by execute), and the sequence of operations of execute
    (callbacks, solver steps, normalisations) is the model's execute_trace -- also WITHOUT callbacks."""
    from qibo import hamiltonians, models, callbacks
    from qibo.symbols import X, Z
    items, meta = [], {}
    dts = [0.1, 0.05, 0.25] if run.tier == "quick" else [0.1, 0.05, 0.25, 0.125, 0.2]
    worst = {}
    for solver in ("exp", "rk4", "rk45", "trotter"):
        for cbname in ("none", "Norm", "Energy"):
            for dt in dts:
                hx = rng.choice([0.5, 1.0, 2.0])
                if solver == "trotter":
                    ham = hamiltonians.SymbolicHamiltonian(-Z(0) * Z(1) - hx * X(0) - hx * X(1) + 0.5 * Z(1), nqubits=2)
                    sname = "exp"
                else:
                    ham = hamiltonians.TFIM(2, h=hx, dense=True)
                    sname = solver
                cbs = {"none": [], "Norm": [callbacks.Norm()], "Energy": [callbacks.Energy(hamiltonians.TFIM(2, h=hx, dense=True))]}[cbname]
                ev = models.StateEvolution(ham, dt=dt, solver=sname, callbacks=cbs)
                trace = []
                ev.solver = SolverProxy(ev.solver, trace)
                on, oc = ev.normalize_state, ev.calculate_callbacks
                ev.normalize_state = lambda s_, _o=on: (trace.append("XNorm"), _o(s_))[1]
                ev.calculate_callbacks = lambda s_, _o=oc: (trace.append("XCb"), _o(s_))[1]
                psi0 = np.array([complex(rng.randrange(-3, 4), rng.randrange(-3, 4)) for _ in range(4)])
                if not np.any(psi0):
                    psi0[0] = 1
                psi0 = psi0 / np.linalg.norm(psi0)
                T = 1.0
                out = np.asarray(ev(final_time=T, initial_state=psi0.copy()))
                nsteps_run = trace.count("XStep")
                err = abs(float(np.linalg.norm(out)) - 1.0)
                worst[(solver, cbname)] = max(worst.get((solver, cbname), 0.0), err)
                desc = {"mechanism": "norm", "solver": solver, "callbacks": cbname, "dt": dt, "final_time": T, "h": hx,
                        "initial_state": [[float(x.real), float(x.imag)] for x in psi0], "norm_error": err}
                run.case(["norm", solver, cbname, dt, hx], nontrivial=True)
                if err > 1e-12:
                    run.find(f"norm:{solver}:{cbname}:dt={dt}", f"StateEvolution(solver={sname!r}, callbacks={cbname}) returns a state of norm 1 {err:+.3e} (tolerance 1e-12)", desc)
                lab = f"trace:{solver}:{cbname}:{dt}"
                items.append((lab, f"list_eqb xop_eqb (execute_trace {'true' if cbs else 'false'} {nsteps_run}%nat) [{';'.join(trace)}]"))
                meta[lab] = {**desc, "trace": "".join({"XCb": "C", "XStep": "S", "XNorm": "N"}[o] for o in trace)}
    run.notes.setdefault("tests", []).append({"test": "| ||psi_T|| - 1 | of the state returned by StateEvolution, per (solver, callbacks), max over dt",
                                              "max_errors": {f"{a}/{b}": v for (a, b), v in worst.items()}, "tolerance": 1e-12})
    run.sample({"kind": "execute trace (C callbacks, S solver step, N normalize_state)", "solver": "rk4", "callbacks": "none", "dt": dts[0],
                "trace": meta[f"trace:rk4:none:{dts[0]}"]["trace"]})
    res, out = run.coq_bools("C16_execute_trace.v", HEADER, items, timeout=600)
    if res is None:
        run.find("coq:C16_execute_trace", "generated file does not compile", {"log": out[-1500:]}, concrete=False)
        return
    for lab, _ in items:
        if not res[lab]:
            m = meta[lab]
            run.find(f"execute_trace:{m['solver']}:{m['callbacks']}:dt={m['dt']}",
                     "StateEvolution.execute does not perform the operations of the model (callbacks; per step: solver, [normalise, callbacks]; final normalise): observed " + m["trace"], m)


# ------------------------------------------------------------------ exponential solver
def run_exp_solver(run, rng):
    from qibo import hamiltonians, models
    tests = []
    for _ in range(5 if run.tier == "quick" else 30):
        n = rng.choice([1, 2])
        diag = np.array([rng.randrange(-3, 4) for _ in range(2 ** n)], dtype=float)
        H = hamiltonians.Hamiltonian(n, np.diag(diag).astype(complex))
        psi0 = np.array([complex(rng.randrange(-3, 4), rng.randrange(-3, 4)) for _ in range(2 ** n)])
        if not np.any(psi0):
            psi0[0] = 1
        psi0 = psi0 / np.linalg.norm(psi0)
        dt = 2.0 ** -rng.randrange(1, 5)
        m = rng.randrange(1, 12)
        out = models.StateEvolution(H, dt=dt)(final_time=m * dt, initial_state=psi0.copy())
        want = np.exp(-1j * diag * dt) ** m * psi0
        d = float(np.abs(out - want).max())
        run.case(["exp_solver", diag.tolist(), dt, m], nontrivial=True)
        tests.append({"diag": diag.tolist(), "dt": dt, "steps": m, "err": d})
        if d > 1e-10:
            run.find(f"exp_solver:{diag.tolist()}:{dt}:{m}", "exp solver: final state is not P^m psi (tolerance test, dyadic dt)", tests[-1])
    run.notes.setdefault("tests", []).append({"test": "StateEvolution 'exp' on diagonal H, dyadic dt: final state vs (e^{-iH dt})^m psi", "max_err": max(t["err"] for t in tests), "tolerance": 1e-10})


RULE = ("random HamiltonianTerm sets (1..6 terms on 2..4 qubits, Gaussian-integer matrices, overlapping / nested / "
        "non-ascending supports) through TermGroup.from_terms, TermGroup.term and to_term(coefficients); random Pauli forms "
        "through SymbolicHamiltonian.circuit (spy on expgate); commuting Pauli families (TrigNF instances); float triples "
        "(decimal grids with (T-t0)/dt integral as decimals, and arbitrary floats) through StateEvolution.execute with a "
        "step-counting solver; the real RungeKutta4/45.__call__ on exact polynomials at a 7x7 grid of rational points. "
        "Distinct by hash of the inputs; non-trivial = more than one term / at least one step.")


def main(run):
    rng = random.Random(run.seed)
    run.trusted += ["Coq 8.16.1 kernel, vm_compute, primitive floats (PrimFloat sub/div/ldexp, Prim2SF) as the binary64 semantics",
                    "Base/Mat.v embed as the meaning of 'matrix on target qubits'", "Base/TrigNF.v, Base/TrigMat.v (proved sound) for the commuting instances",
                    "expm / calculate_matrix_exp (scipy): exp(-i a c P) = cos(ac) I - i sin(ac) P and exp(A+B)=exp(A)exp(B) for commuting A, B are taken as the definition of the group exponentials in the commuting instances",
                    "numpy reshape/transpose semantics (row-major axes = qubits) as modelled by transpose_axes, validated per case"]
    run.assumptions += ["exact arithmetic for merge / grouping / Runge-Kutta polynomials; floats only in nsteps",
                        "convergence orders as limits and the Trotter O(dt^3) bound are NOT proved (tolerance tests only)"]
    static_obligations(run)
    run_grouping(run, rng)
    run_circuit_structure(run, rng)
    run_commuting(run, rng)
    run_nsteps(run, rng)
    run_rk(run, rng)
    run_rk_timedep(run, rng)
    run_histories(run, rng)
    run_circuit_histories(run, rng)
    run_exp_histories(run, rng)
    run_norm(run, rng)
    run_exp_solver(run, rng)
    from harness import c16_sched
    c16_sched.run_schedules(run, random.Random(run.seed + 16))
    c16_sched.run_object_histories(run, random.Random(run.seed + 17))
    c16_sched.run_scalar_histories(run, random.Random(run.seed + 18))
    run.notes["historical"] = ("coq/theories/C16/History.v holds lemmas about the pre-repair code (nsteps truncation, RK stages "
                               "without -i); they are not statements about the current tree")
    run.not_proved += ["nsteps_ok for ALL float triples whose real quotient is within 1/2 of an integer (needs the IEEE-754 axioms of Coq's Floats); proved: the bounded decimal grid of nsteps_ok_bounded; beyond it bit-exact comparison per run",
                       "composition of embeddings (embedded merge_spec = sum of embedded members on n qubits): checked exactly per case (g*:merge_spec); merge = merge_spec itself is proved (merge_ok)",
                       "rk45 with a time-dependent Hamiltonian: the analogue of rk4_timedep_order is NOT proved (the ideal-membership certificate is 0.57 MB already for linear f, beyond what `ring` checks in reasonable time); covered by the exact stage-structure correspondence, rk45_taylor_ok (constant H) and a convergence test",
                       "analytic error bounds (|U_trotter - exp| <= C dt^3, global O(dt^2)): need operator norms; what IS proved: agreement of all formal-series coefficients up to dt^2 for all generators, all coefficients for commuting ones (PropsSeries.v), and the formal n-step statement",
                       "convergence of RK / Trotter solvers as limits", "adiabatic accuracy"]
    return run.finish(level="proof", rule=RULE)


def static_obligations(run):
    allres = {}
    for theory in ("C16/Props", "C16/PropsSeries", "C16/PropsSched"):
        p = theory + ".v"
        if not _os.path.exists(_os.path.join(vcore.THEORIES, p)):
            run.not_proved.append(p + " missing")
            continue
        names = vcore.props_theorems(p)
        ok, res = vcore.static_assumptions(theory)
        for nm in names:
            if nm.endswith("_refuted"):
                run.refuted.append(nm[: -len("_refuted")])
            run.oblige(nm, ok and nm in res, f"static theorem (coq/theories/{p})")
            if ok and nm in res and not res[nm].startswith("Closed"):
                for m in re.finditer(r"([A-Za-z_][\w.]*)\s*:", res[nm]):
                    if m.group(1) != "Axioms":
                        run.axioms.add(m.group(1))
        run.checker_cmds.append(f"make -C coq theories/{theory}.vo ; coqc _build/assumptions/{theory.replace('/', '_')}_pa.v")
        allres.update(res)
    run.notes["static_theorems"] = allres


def replay(run, data):
    rp = data.get("replay", {})
    key = data.get("key", "")
    if key.startswith("nsteps_truncation") or rp.get("mechanism") == "nsteps":
        from qibo import hamiltonians, models
        ev = models.StateEvolution(hamiltonians.Hamiltonian(1, np.diag([1.0, -1.0]).astype(complex)), dt=0.1)
        n = real_nsteps(ev, rp["t0"], rp["T"], rp["dt"])
        run.case(["replay-nsteps", rp["t0"], rp["T"], rp["dt"]])
        run.sample({"replayed": rp, "steps_now": n})
        if "steps_expected" in rp and n != rp["steps_expected"]:
            run.find(key, data.get("what", "step count"), {**rp, "steps_now": n, **replay_missing_step(rp["t0"], rp["T"], rp["dt"], rp["steps_expected"])})
        return run.finish(level="proof", rule="replay of one recorded case")
    if key.startswith("circuit_history"):
        run_circuit_histories(run, random.Random(run.seed))
        return run.finish(level="proof", rule="replay of the circuit-history generator (same seed)")
    if key.startswith("matrix_exp") or key.startswith("exp_evolution_after_spectrum") or key.startswith("adiabatic_exp_after"):
        run_exp_histories(run, random.Random(run.seed))
        return run.finish(level="proof", rule="replay of the exp-history generator (same seed)")
    if key.startswith("norm:") or key.startswith("execute_trace:"):
        run_norm(run, random.Random(run.seed))
        return run.finish(level="proof", rule="replay of the norm / execute-trace configurations (same seed)")
    if key.startswith("rk_stage") or key.startswith("rk_times"):
        run_rk_timedep(run, random.Random(0))
        return run.finish(level="proof", rule="replay of one recorded case")
    if key.startswith("adiabatic_total_time") or key.startswith("adiabatic_interpolation") or key.startswith("evolution_reuse"):
        run_histories(run, random.Random(run.seed))
        return run.finish(level="proof", rule="replay of the history generator (same seed)")
    if key.startswith(("adiabatic_schedule", "adiabatic_object", "scalar_multiple", "coq:C16_sched")):
        from harness import c16_sched
        fn, off = ((c16_sched.run_schedules, 16) if key.startswith(("adiabatic_schedule", "coq:C16_sched_")) else
                   (c16_sched.run_object_histories, 17) if key.startswith("adiabatic_object") else (c16_sched.run_scalar_histories, 18))
        fn(run, random.Random(run.seed + off))
        run.findings = [f for f in run.findings if f.key == key] or run.findings
        return run.finish(level="proof", rule="replay of the schedule / object-history / scalar-history generator (same seed)")
    if key.startswith("rk_order"):
        run_rk(run, random.Random(0))
        return run.finish(level="proof", rule="replay of one recorded case")
    return main(run)
