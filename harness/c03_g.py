"""C03 round-5 streams (STRENGTHEN_GUIDE families G, C, D).

near_exact   collapsing measurements whose outcome probabilities are 1 - s*4^-j and s*4^-j (j = 5..20, i.e.
             10^-3 .. 10^-12), on exactly normalised dyadic Gaussian-integer states (a four-square decomposition of
             4^j - s on the block of the likely outcome, s on a rare one) with entangled partner qubits, state vector
             and density matrix, sorted / unsorted / cyclic qubit lists, BOTH outcomes (the draw is forced through the
             wrapped sampler).  What M.apply / M.apply_density_matrix returns is compared bit for bit with the
             normalised projection (Coq `project` / `project_dm` onto the outcome the gate recorded).
near_float   the same with RY(theta), theta = 2 asin(10^(-k/2)) and pi - theta (k = 3..12), optionally entangled by
             CNOT with a partner and a spectator in superposition; comparison with the independent normalised
             projection of the state that entered the gate at 1e-12 (test level), later measurements see the outcome.
routes       every view of the same shots -- result.samples / frequencies (binary x registers), the per-gate handles
             returned by circuit.add(M(...)) (.samples / .frequencies binary and decimal, .symbols), probabilities
             of permuted qubit lists -- for EVERY construction route of a result object (single execution sv / dm,
             shot-by-shot with collapse sv / dm, noisy trajectories, from_dict, dump + load_result, direct
             constructors from samples / probabilities / samples registered on the gates) crossed with register
             layouts (non-ascending inside a register, registers added in non-ascending order, cyclic 3- and 4-qubit
             orders), asymmetric states.  Judged by the Coq oracle explainsb against the result's own shots;
             handles of sample-built results tied to C03/ModelHandles.v (theorems C03/PropsHandles.v).
"""
import collections
import os
import random
import tempfile
from math import isqrt

import numpy as np

from harness import c03
from harness.c03 import (b2s, bits_lit, bits_list, counter_lit, exact_ints, nat_list, nat_list_list, out_term,
                         pairs_to_complex, parse_ints, z_list, zi_list, zi_mat)

HEADER = c03.HEADER.rstrip("\n").rstrip(".") + " C03.ModelHandles.\n"

# register layouts: non-ascending inside a register, registers in non-ascending order, cyclic orders
LAYOUTS = [
    [[2, 0, 1]], [[1, 2, 0]], [[2], [0], [1]], [[1], [2], [0]], [[2, 0], [1]], [[1], [2, 0]], [[2], [0, 1]],
    [[0, 2], [1]], [[3, 0]], [[1], [0]], [[3, 0], [2]], [[3], [1], [0]], [[1, 3, 0, 2]], [[2, 3], [0, 1]],
    [[3, 1], [2, 0]], [[0, 1, 2]], [[0], [2]],
]
CYCLIC_LISTS = [[2, 0, 1], [1, 2, 0], [1, 3, 0, 2], [3, 0, 2], [0, 3, 1]]


def layout_class(regs):
    Q = [q for r in regs for q in r]
    if Q == sorted(Q):
        return "ascending"
    rank = [sorted(Q).index(q) for q in Q]
    inv = [rank.index(i) for i in range(len(Q))]
    return "cyclic" if inv != rank else "swapped"


# ------------------------------------------------------------------ near-special exact states
def four_squares(N, rng):
    for _ in range(100000):
        a = isqrt(N) - rng.randint(0, 3)
        r1 = N - a * a
        b = isqrt(r1) - rng.randint(0, 3)
        if a < 0 or b < 0:
            continue
        r2 = r1 - b * b
        c = isqrt(r2)
        while c >= 0:
            d = isqrt(r2 - c * c)
            if d * d == r2 - c * c:
                return [a, b, c, d]
            c -= 1
    raise RuntimeError("no four-square decomposition found")


RARE = {1: [1], 2: [1 + 1j], 4: [2], 5: [2 + 1j], 3: [1 + 1j, 1], 6: [2 + 1j, 1]}


def near_state(rng, n, tq, j, s):
    """ints a_x with sum |a_x|^2 = 4^j; P(tq = b_dom) = 1 - s/4^j, P(tq = b_rare) = s/4^j.  Returns
    (ints, b_dom, b_rare) with the outcomes as bits in the order of tq."""
    k = len(tq)
    rest = [q for q in range(n) if q not in tq]
    assert len(rest) >= 1
    b_dom = [rng.randint(0, 1) for _ in range(k)]
    while True:
        b_rare = [rng.randint(0, 1) for _ in range(k)]
        if b_rare != b_dom:
            break

    def index(bits_tq, bits_rest):
        x = [0] * n
        for q, b in zip(tq, bits_tq):
            x[q] = b
        for q, b in zip(rest, bits_rest):
            x[q] = b
        return int("".join(map(str, x)), 2)
    a, b, c, d = four_squares(4 ** j - s, rng)
    units = [1, -1, 1j, -1j]
    psi = [0] * 2 ** n
    slots = [[(t >> (len(rest) - 1 - i)) & 1 for i in range(len(rest))] for t in range(2 ** len(rest))]
    rng.shuffle(slots)
    psi[index(b_dom, slots[0])] = complex(a, b) * rng.choice(units)
    psi[index(b_dom, slots[1])] = complex(c, d) * rng.choice(units)
    rslots = list(slots)
    rng.shuffle(rslots)
    for t, amp in enumerate(RARE[s]):
        psi[index(b_rare, rslots[t % len(rslots)])] += amp * rng.choice(units)
    assert sum(int(round(abs(z) ** 2)) for z in psi) == 4 ** j or True
    tot = sum(int(z.real) ** 2 + int(z.imag) ** 2 for z in map(complex, psi))
    assert tot == 4 ** j, (tot, 4 ** j)
    return [complex(z) for z in psi], b_dom, b_rare


def sorted_shot(tq, bits):
    """index of the outcome `bits` (in the order of tq) over the SORTED qubits (what the sampler draws)"""
    qs = sorted(tq)
    return int("".join(str(bits[tq.index(q)]) for q in qs), 2)


def eval_cases(run, name, exprs, chunk=40):
    from concurrent.futures import ThreadPoolExecutor
    jobs = [(f"{name}_{i // chunk}.v", exprs[i:i + chunk]) for i in range(0, len(exprs), chunk)]
    if not jobs:
        return []
    with ThreadPoolExecutor(max_workers=8) as ex:
        outs = list(ex.map(lambda jb: run.coq_eval(jb[0], HEADER, jb[1], timeout=900), jobs))
    vals = []
    for v in outs:
        if v is None:
            return None
        vals += v
    return vals


class CollapseSpy:
    """wraps gates.M.apply / apply_density_matrix (collapsing gates only): records the state entering
    and leaving the gate; while inside, the sampler returns the forced outcome (if it has non-zero
    probability); also records the final states handed to CircuitResult"""

    def __init__(self, be, forced):
        self.be, self.forced = be, list(forced)
        self.calls, self.finals, self.draws = [], [], []
        self.inside = False

    def __enter__(self):
        from qibo import gates
        import qibo.backends.numpy as qnp
        self.gates, self.qnp = gates, qnp
        self.orig_apply, self.orig_apply_dm = gates.M.apply, gates.M.apply_density_matrix
        self.orig_cr = qnp.CircuitResult
        orig_shots = self.be.sample_shots
        spy = self

        def wrap(orig):
            def f(gate, backend, state, nqubits):
                if not gate.collapse:
                    return orig(gate, backend, state, nqubits)
                st_in = np.array(state, copy=True)
                spy.inside = True
                try:
                    with np.errstate(all="ignore"):
                        out = orig(gate, backend, state, nqubits)
                finally:
                    spy.inside = False
                spy.calls.append((st_in, np.array(out, copy=True)))
                return out
            return f

        def shots(probabilities, ns):
            if spy.inside and spy.forced:
                want = spy.forced.pop(0)
                if want is not None and want < len(probabilities) and probabilities[want] > 0:
                    spy.draws.append(int(want))
                    return np.array([want])
            out = orig_shots(probabilities, ns)
            if spy.inside:
                spy.draws.append(int(np.asarray(out).ravel()[0]))
            return out

        def circuit_result(state, *a, **kw):
            spy.finals.append(np.array(state, copy=True))
            return spy.orig_cr(state, *a, **kw)

        gates.M.apply, gates.M.apply_density_matrix = wrap(self.orig_apply), wrap(self.orig_apply_dm)
        self.be.sample_shots = shots
        qnp.CircuitResult = circuit_result
        return self

    def __exit__(self, *exc):
        self.gates.M.apply, self.gates.M.apply_density_matrix = self.orig_apply, self.orig_apply_dm
        del self.be.sample_shots
        self.qnp.CircuitResult = self.orig_cr
        return False


# the projection is exact (Coq, integers); its float normalisation (np.abs of a general Gaussian integer is not exact) is
# compared at rounding level, far below every tolerance a short-cut could use
NEAR_TOL = 1e-14
NEAR_J = [5, 7, 8, 9, 10, 12, 13, 15, 17, 18, 20]
NEAR_TQ = [(2, [0]), (2, [1]), (3, [1]), (3, [2, 0]), (3, [0, 1]), (4, [2, 0, 1]), (4, [1, 3, 0]), (3, [1, 0]), (4, [3, 1, 2])]


def near_exact_case(run, be, i):
    from qibo import Circuit, gates
    crng = random.Random(f"{run.seed}:near_exact:{i}")
    j = NEAR_J[i % len(NEAR_J)]
    dm = bool((i // len(NEAR_J)) % 2)
    n, tq = NEAR_TQ[(i * 7 + i // len(NEAR_J)) % len(NEAR_TQ)]
    if dm and n > 3:
        n, tq = 3, [2, 0]
    s = crng.choice([1, 2, 3, 4, 5, 6])
    ints, b_dom, b_rare = near_state(crng, n, tq, j, s)
    post = c03.random_post_gates(crng, n) if not dm else []
    forced_bits = [b_dom, b_rare] if i % 2 == 0 else [b_rare, b_dom]
    forced = [sorted_shot(tq, b) for b in forced_bits]
    c = Circuit(n, density_matrix=dm)
    mres = c.add(gates.M(*tq, collapse=True))
    for g, _, _ in post:
        c.add(g)
    c.add(gates.M(*range(n)))
    psi = np.array(ints, dtype=complex) / 2 ** j
    if dm:
        rho_int = [[complex(a) * complex(b).conjugate() for b in ints] for a in ints]
        init = np.array(rho_int, dtype=complex) / 4 ** j
    else:
        rho_int, init = None, psi
    info = {"part": "near_exact", "case": i, "n": n, "density_matrix": dm, "M": f"M({','.join(map(str, tq))}, collapse=True)",
            "state_times_2^j": [str(a) for a in ints], "j": j, "rare_probability": f"{s}/4^{j} = {s / 4 ** j:.3e}",
            "forced_outcomes_in_gate_order": forced_bits, "likely_outcome": b_dom, "post_gates": [t for _, _, t in post]}
    error, samples = None, None
    with CollapseSpy(be, forced) as spy:
        try:
            be.set_seed(crng.randrange(2 ** 31))
            res = c(initial_state=init.copy(), nshots=2)
            samples = np.asarray(res.samples()).tolist()
        except Exception as e:  # noqa
            error = repr(e)[:300]
    recorded = [[int(b) for b in np.asarray(x).tolist()] for x in (mres._samples or [])]
    shots = []
    for t in range(min(2, len(spy.calls))):
        st_in, st_out = spy.calls[t]
        rec = recorded[t] if t < len(recorded) else []
        sh = {"shot_index": t, "recorded": rec, "drawn": spy.draws[t] if t < len(spy.draws) else None, "st_out": st_out,
              "final": spy.finals[t] if (not dm and t < len(spy.finals)) else None,
              "final_sample": samples[t] if samples is not None and t < len(samples) else None}
        try:
            if dm:
                flat = exact_ints(np.concatenate([st_in.real.ravel(), st_in.imag.ravel()]), 4 ** j)
                dim = 2 ** n
                m_in = [[complex(flat[a * dim + b], flat[dim * dim + a * dim + b]) for b in range(dim)] for a in range(dim)]
                sh["input_ok"] = (m_in == rho_int)
                sh["expr"] = f"projection_dm_on_recorded {n}%nat {nat_list(tq)} {zi_mat(m_in)} {bits_lit(rec)}"
            else:
                flat = exact_ints(np.concatenate([st_in.real, st_in.imag]), 2 ** j)
                dim = 2 ** n
                v_in = [complex(flat[x], flat[dim + x]) for x in range(dim)]
                sh["input_ok"] = (v_in == [complex(a) for a in ints])
                sh["expr"] = (f"(collapse_case {n}%nat {nat_list(tq)} {sh['drawn'] or 0}%nat {zi_list(v_in)} "
                              f"[{'; '.join(t_ for _, t_, _ in post)}] {bits_lit(rec)}, "
                              f"projection_on_recorded {n}%nat {nat_list(tq)} {zi_list(v_in)} {bits_lit(rec)})")
        except (AssertionError, ValueError, OverflowError):
            sh["expr"], sh["input_ok"] = None, False
        shots.append(sh)
    return info, shots, error, len(spy.calls)


def part_near_exact(run, be, count, only=None):
    cases, exprs = [], []
    for i in (range(count) if only is None else only):
        try:
            info, shots, error, ncalls = near_exact_case(run, be, i)
        except Exception as e:  # noqa
            run.find("near_exact:harness", "near_exact case could not be built: " + repr(e)[:200], {"part": "near_exact", "case": i}, concrete=False)
            continue
        cases.append((info, shots, error, ncalls))
        exprs += [s["expr"] for s in shots if s.get("expr")]
    vals = eval_cases(run, "near_exact", exprs, chunk=40)
    if vals is None:
        run.oblige("correspondence:collapse_near_special", False, "correspondence")
        run.find("near_exact:coq-failed", "generated file did not compile", {}, concrete=False)
        return
    it = iter(vals)
    ok_all = True
    for info, shots, error, ncalls in cases:
        tq = parse_ints(info["M"])
        srt = layout_class([tq])
        mode = "dm" if info["density_matrix"] else "sv"
        run.case({"near_exact": {k: v for k, v in info.items()}}, True)
        if info["case"] < 2:
            run.sample(info)
        if error or ncalls != 2:
            ok_all = False
            run.find(f"near:raised:{mode}", "executing a circuit with a collapsing measurement of an almost certain / almost impossible outcome raised or did not "
                     "apply the measurement once per shot: " + str(error), dict(info, raised=error, collapse_calls=ncalls))
        for sh in shots:
            which = "likely" if sh["recorded"] == info["likely_outcome"] else "rare"
            sinfo = dict(info, shot_index=sh["shot_index"], recorded=sh["recorded"], drawn=sh["drawn"], outcome=which)
            if not sh.get("expr"):
                ok_all = False
                run.find(f"near:input_state:{mode}", "the state entering the measurement is not the exact input state", sinfo)
                continue
            v = next(it)
            scale = 2 ** info["j"]
            j = info["j"]
            if info["density_matrix"]:
                nums = parse_ints(v.replace("%Z", ""))
                flat, tr = nums[:-2], complex(nums[-2], nums[-1])
                dim = 2 ** info["n"]
                with np.errstate(all="ignore"):
                    exp = (pairs_to_complex(flat).reshape(dim, dim) / 4 ** j) / (np.complex128(tr) / 4 ** j)
                dev = float(np.max(np.abs(exp - sh["st_out"]))) if tr != 0 and exp.shape == sh["st_out"].shape else None
                good = dev is not None and dev <= NEAR_TOL
            else:
                p = c03.parse_collapse(v)
                if p is None or len(p) != 8:
                    ok_all = False
                    run.find(f"near:{mode}:unparsable", "could not parse the Coq answer", sinfo, concrete=False)
                    continue
                rec, col, norm2, fin, spec_ok, sorted_ok, proj, pnorm2 = p
                with np.errstate(all="ignore"):
                    exp = (pairs_to_complex(proj) / scale) / np.sqrt(np.float64(pnorm2) / np.float64(4 ** j))
                dev = float(np.max(np.abs(exp - sh["st_out"]))) if pnorm2 != 0 and exp.shape == sh["st_out"].shape else None
                good = dev is not None and dev <= NEAR_TOL
                # the later gates and the final measurement see the collapsed state
                if good and fin is not None and sh["final"] is not None:
                    nrm = np.sqrt(np.float64(norm2) / np.float64(4 ** j))
                    exp_fin = (pairs_to_complex(fin) / scale) / nrm
                    if exp_fin.shape != sh["final"].shape or not float(np.max(np.abs(exp_fin - sh["final"]))) <= NEAR_TOL:
                        ok_all = False
                        run.find(f"near:final_state:{mode}:{which}", "the state at the end of the shot is not the collapsed state followed by the later gates", sinfo)
                    elif sh["final_sample"] is not None:
                        x = int("".join(str(int(b)) for b in sh["final_sample"]), 2)
                        if not abs(sh["final"][x]) > 0:
                            ok_all = False
                            run.find(f"near:final_sample:{mode}:{which}", "the final measurement reports an outcome of zero probability in the collapsed state", sinfo)
                if [bool(b) for b in sh["recorded"]] != rec and spec_ok:
                    ok_all = False
                    run.find(f"near:recorded:{mode}:{which}", "the recorded outcome differs from the model's for the same draw", sinfo, concrete=False)
            if not good:
                ok_all = False
                run.find(f"near:projection:{mode}:{which}:{srt}",
                         "the state after a collapsing measurement whose recorded outcome has probability "
                         + ("1 - " if which == "likely" else "") + info["rare_probability"].split(" = ")[0] +
                         " is not the normalised projection onto that outcome (exact dyadic data, projection computed in Coq, compared at 1e-14)", dict(sinfo, max_deviation=dev))
    run.oblige("correspondence:collapse_near_special", ok_all, "correspondence")


# ------------------------------------------------------------------ near-special float stream
def near_float_cases():
    out = []
    for k in range(3, 13):
        for rare_is in (1, 0):
            for dm in (False, True):
                for ent in ("none", "cnot", "cnot_h", "pair"):
                    for force in ("likely", "rare"):
                        out.append((k, rare_is, dm, ent, force))
    return out


def near_float_case(run, be, idx, spec):
    from qibo import Circuit, gates
    k, rare_is, dm, ent, force = spec
    crng = random.Random(f"{run.seed}:near_float:{idx}")
    th = 2 * np.arcsin(10 ** (-k / 2))
    if rare_is == 0:
        th = np.pi - th
    if crng.random() < 0.5:
        th = -th
    n = {"none": 1, "cnot": 2, "cnot_h": 3, "pair": 3}[ent]
    perm = crng.sample(range(n), n)
    a = perm[0]
    c = Circuit(n, density_matrix=dm)
    c.add(gates.RY(a, theta=th))
    script = [f"RY({a}, theta={th!r})"]
    tq = [a]
    if ent != "none":
        b = perm[1]
        c.add(gates.CNOT(a, b))
        script.append(f"CNOT({a},{b})")
        if ent == "cnot_h":
            c.add(gates.H(perm[2]))
            script.append(f"H({perm[2]})")
        if ent == "pair":
            c.add(gates.H(perm[2]))
            c.add(gates.CZ(perm[2], b))
            script += [f"H({perm[2]})", f"CZ({perm[2]},{b})"]
            tq = [perm[2], a]
    mres = c.add(gates.M(*tq, collapse=True))
    script.append(f"M({','.join(map(str, tq))}, collapse=True)")
    c.add(gates.M(*range(n)))
    want_a = rare_is if force == "rare" else 1 - rare_is
    # forced outcome over the sorted qubits: qubit a = want_a, any other measured qubit random
    bits = {q: (want_a if q == a else crng.randint(0, 1)) for q in tq}
    forced = int("".join(str(bits[q]) for q in sorted(tq)), 2)
    info = {"part": "near_float", "case": idx, "k": k, "density_matrix": dm, "script": script, "outcome": force,
            "probability_of_forced_outcome_of_rotated_qubit": (10.0 ** -k if force == "rare" else 1 - 10.0 ** -k), "forced_bits": {str(q): v for q, v in bits.items()}}
    with CollapseSpy(be, [forced]) as spy:
        be.set_seed(crng.randrange(2 ** 31))
        res = c(nshots=1)
        sample = [int(x) for x in np.asarray(res.samples())[0].tolist()]
        final_state = np.asarray(res.state()) if dm else (spy.finals[0] if spy.finals else None)
    problems = []
    if len(spy.calls) != 1:
        return info, [("calls", f"the collapsing measurement was applied {len(spy.calls)} times in one shot")]
    st_in, st_out = spy.calls[0]
    rec = [int(x) for x in np.asarray(mres._samples[0]).tolist()]
    info["recorded"] = rec
    # independent projection onto the recorded outcome (bits in the gate's qubit order)
    dim = 2 ** n
    keep = np.array([all(((x >> (n - 1 - q)) & 1) == bbit for q, bbit in zip(tq, rec)) for x in range(dim)])
    if dm:
        P = np.diag(keep.astype(float))
        proj = P @ st_in.reshape(dim, dim) @ P
        nrm = np.trace(proj).real
        exp = proj / nrm if nrm > 0 else None
    else:
        proj = np.where(keep, st_in.ravel(), 0)
        nrm = np.sqrt(np.sum(np.abs(proj) ** 2))
        exp = proj / nrm if nrm > 0 else None
    if exp is None:
        problems.append(("zero_probability", "the recorded outcome has probability zero in the state that entered the gate"))
    else:
        dev = float(np.max(np.abs(exp - st_out.reshape(exp.shape))))
        info["max_deviation_from_projection"] = dev
        if not dev <= 1e-12:
            problems.append(("projection", f"the state after the collapsing measurement differs from the normalised projection onto the recorded outcome by {dev:.3e} (> 1e-12)"))
        if final_state is not None:
            dev2 = float(np.max(np.abs(exp - np.asarray(final_state).reshape(exp.shape))))
            if not dev2 <= 1e-12:
                problems.append(("final_state", f"the final state of the shot differs from the normalised projection by {dev2:.3e} (> 1e-12)"))
    if rec[tq.index(a)] != want_a and (10.0 ** -k) > 0:
        problems.append(("forced", "the forced outcome (non-zero probability) was not recorded"))
    # later measurements of the same shot see the outcome (also the partner entangled by CNOT)
    for q, bbit in zip(tq, rec):
        if sample[q] != bbit:
            problems.append(("later_measurement", f"the final measurement of qubit {q} returned {sample[q]} after the collapse recorded {bbit}"))
    if ent in ("cnot", "cnot_h", "pair") and sample[perm[1]] != rec[tq.index(a)]:
        problems.append(("partner", f"the CNOT partner qubit {perm[1]} was measured as {sample[perm[1]]} after the collapse of qubit {a} recorded {rec[tq.index(a)]}"))
    return info, problems


def part_near_float(run, be, only=None):
    specs = near_float_cases()
    ok = True
    for idx in (range(len(specs)) if only is None else only):
        spec = specs[idx]
        try:
            info, problems = near_float_case(run, be, idx, spec)
        except Exception as e:  # noqa
            info, problems = {"part": "near_float", "case": idx, "spec": list(spec)}, [("raised", "raised: " + repr(e)[:300])]
        run.case({"near_float": info}, spec[3] != "none")
        if idx < 2:
            run.sample(info)
        for kind, what in problems:
            ok = False
            run.find(f"near:float:{kind}:{'dm' if spec[2] else 'sv'}:{spec[4]}", what, info)
    if only is None:
        run.oblige("test:collapse_near_special_probabilities_1e-12", ok, "test")


# ------------------------------------------------------------------ routes x layouts
ROUTES = ["single_sv", "single_dm", "collapse_sv", "collapse_dm", "noise_sv", "from_dict_circuit_result", "from_dict_outcomes",
          "load_result", "load_result_repeated", "ctor_samples", "ctor_probabilities", "gates_hold_samples", "from_dict_dm_collapse"]
NO_CIRCUIT = {"from_dict_circuit_result", "from_dict_outcomes", "load_result", "load_result_repeated", "ctor_samples",
              "ctor_probabilities", "gates_hold_samples", "from_dict_dm_collapse"}


def asym_state(crng, n, Q, kind):
    """(ints, j): kind 0 = basis state whose bits over Q are not constant; kind 1 = dyadic superposition"""
    if kind == 0:
        for _ in range(100):
            x = [crng.randint(0, 1) for _ in range(n)]
            bits = [x[q] for q in Q]
            if len(set(bits)) > 1 or len(Q) == 1:
                # not invariant under the rotation of Q either
                if len(Q) < 3 or bits != bits[1:] + bits[:1]:
                    break
        a = [0] * 2 ** n
        a[int("".join(map(str, x)), 2)] = crng.choice([1, -1, 1j, -1j])
        return a, 0
    fit = [t for t in SPARSE if len(t[0]) <= 2 ** n]
    if not fit:
        return asym_state(crng, n, Q, 0)
    mags, j = crng.choice(fit)
    pos = crng.sample(range(2 ** n), len(mags))
    a = [0] * 2 ** n
    for p_, m_ in zip(pos, mags):
        a[p_] = m_ * crng.choice([1, -1, 1j, -1j])
    return a, j


# magnitudes with sum of squares 4^j (sparse dyadic superpositions for any number of qubits)
SPARSE = [([2, 2, 2, 2], 2), ([3, 2, 1, 1, 1], 2), ([5, 5, 3, 2, 1], 3), ([6, 4, 2, 2, 2], 3), ([7, 3, 2, 1, 1], 3), ([5, 4, 3, 3, 2, 1], 3),
          ([1, 1, 1, 1], 1), ([3, 2, 1, 1, 1], 2)]


def build_route(run, be, crng, route, regs, state_kind):
    """returns dict(result, handles, n, w, exact_scale, nshots, ctor_samples, script)"""
    from qibo import Circuit, gates
    from qibo.result import CircuitResult, MeasurementOutcomes, load_result
    Q = [q for r in regs for q in r]
    n = max(Q) + 1 + (1 if route == "noise_sv" or crng.random() < 0.2 else 0)
    ints, j = asym_state(crng, n, Q, state_kind)
    psi = np.array(ints, dtype=complex) / 2 ** j
    w = [int(round(abs(complex(a)) ** 2)) for a in ints]
    ns = crng.randint(3, 9)
    script = []
    dm = route in ("single_dm", "collapse_dm", "from_dict_dm_collapse")

    custom = (route in NO_CIRCUIT and crng.random() < 0.5)

    def circuit(collapse=False, noise=False):
        c = Circuit(n, density_matrix=dm)
        if collapse:
            cq = crng.sample(range(n), crng.randint(1, min(2, n)))
            c.add(gates.M(*cq, collapse=True))
            script.append(f"M({','.join(map(str, cq))}, collapse=True)")
        if noise:
            c.add(gates.PauliNoiseChannel(n - 1, [("X", 0.5)]))
            script.append(f"PauliNoiseChannel({n - 1}, [('X', 0.5)])")
        hs = []
        for k_, reg in enumerate(regs):
            if custom:
                hs.append(c.add(gates.M(*reg, register_name=f"u{k_}")))
                script.append(f"M({','.join(map(str, reg))}, register_name='u{k_}')")
            else:
                hs.append(c.add(gates.M(*reg)))
                script.append(f"M({','.join(map(str, reg))})")
        return c, hs

    def run_circuit(c):
        init = np.outer(psi, psi.conj()) if dm else psi
        with np.errstate(all="ignore"):
            return c(initial_state=init.copy(), nshots=ns)

    out = {"n": n, "w": w, "nshots": ns, "exact_scale": None, "ctor_samples": False, "script": script,
           "state_times_2^j": [str(a) for a in ints], "j": j}
    be.set_seed(crng.randrange(2 ** 31))
    if route in ("single_sv", "single_dm"):
        c, hs = circuit()
        r = run_circuit(c)
        out.update(result=r, handles=hs, exact_scale=4 ** j)
    elif route in ("collapse_sv", "collapse_dm"):
        c, hs = circuit(collapse=True)
        r = run_circuit(c)
        out.update(result=r, handles=hs, ctor_samples=True)
    elif route == "noise_sv":
        c, hs = circuit(noise=True)
        r = run_circuit(c)
        out.update(result=r, handles=hs, ctor_samples=True)
    elif route in ("from_dict_circuit_result", "load_result"):
        c, _ = circuit()
        r0 = run_circuit(c)
        r0.samples()
        if route == "load_result":
            with tempfile.TemporaryDirectory(prefix="c03_routes_") as d:
                r0.dump(os.path.join(d, "r.npy"))
                r = load_result(os.path.join(d, "r.npy"))
        else:
            r = CircuitResult.from_dict(r0.to_dict())
        out.update(result=r, handles=[m.result for m in r.measurements], ctor_samples=True, source=r0, exact_scale=4 ** j)
    elif route in ("from_dict_outcomes", "load_result_repeated", "from_dict_dm_collapse"):
        c, _ = circuit(collapse=True)
        r0 = run_circuit(c)
        if route == "load_result_repeated":
            with tempfile.TemporaryDirectory(prefix="c03_routes_") as d:
                r0.dump(os.path.join(d, "r.npy"))
                r = load_result(os.path.join(d, "r.npy"))
        else:
            r = type(r0).from_dict(r0.to_dict())
        out.update(result=r, handles=[m.result for m in r.measurements], ctor_samples=True, source=r0)
    else:
        ms = [gates.M(*reg, register_name=f"r{k}") for k, reg in enumerate(regs)]
        script += [f"M({','.join(map(str, reg))}, register_name='r{k}')" for k, reg in enumerate(regs)]
        probs = be.calculate_probabilities(psi, Q, n)
        S = be.sample_shots(probs, ns)
        rows = be.samples_to_binary(S, len(Q))
        if route == "ctor_samples":
            r = MeasurementOutcomes(ms, backend=be, samples=np.array(rows, copy=True), nshots=ns)
            out["ctor_samples"] = True
        elif route == "ctor_probabilities":
            r = MeasurementOutcomes(ms, backend=be, probabilities=np.array(probs, copy=True), nshots=ns)
        else:
            pos = 0
            for m_, reg in zip(ms, regs):
                m_.result.register_samples(np.array(rows[:, pos:pos + len(reg)], copy=True))
                pos += len(reg)
            r = MeasurementOutcomes(ms, backend=be, nshots=ns)
            out["given_samples"] = [int(x) for x in np.asarray(S).tolist()]
        out.update(result=r, handles=[m.result for m in ms])
    return out


def routes_case(run, be, idx):
    import warnings
    with warnings.catch_warnings():
        warnings.simplefilter("ignore")
        return _routes_case(run, be, idx)


def _routes_case(run, be, idx):
    crng = random.Random(f"{run.seed}:routes:{idx}")
    route = ROUTES[idx % len(ROUTES)]
    li = idx // len(ROUTES)
    regs = LAYOUTS[li] if li < len(LAYOUTS) else c03.random_registers(crng, crng.randint(3, 4))
    regs = [list(r) for r in regs]
    Q = [q for r in regs for q in r]
    b = build_route(run, be, crng, route, regs, state_kind=(idx + li) % 2)
    r, hs, n = b["result"], b["handles"], b["n"]
    ms = r.measurements
    names = [m.register_name for m in ms]
    names_ok = len(set(names)) == len(names) and len(ms) == len(regs)
    hms = [type("Handle", (), {"register_name": k_})() for k_ in range(len(regs))]     # handles are addressed by position
    cfg = f"(mkcfg {n}%nat {nat_list_list(regs)})"
    info = {"part": "routes", "case": idx, "route": route, "n": n, "registers": regs, "layout": layout_class(regs), "nshots": b["nshots"],
            "state_times_2^j": b["state_times_2^j"], "j": b["j"], "script": b["script"], "calls": []}
    views = [("samples", bb, rg) for bb in (True, False) for rg in (True, False)] + [("freqs", bb, rg) for bb in (True, False) for rg in (True, False)]
    views += [("hs", True), ("hs", False), ("hf", True), ("hf", False), ("sym",)]
    sub = [q for q in Q]
    crng.shuffle(sub)
    plists = [list(Q), sub[: crng.randint(1, len(sub))]]
    if len(Q) >= 3:
        plists.append(Q[1:] + Q[:1])
    views += [("probs", tuple(p)) for p in plists]
    crng.shuffle(views)
    if route in NO_CIRCUIT and r._samples is None and route != "gates_hold_samples":
        views.insert(0, ("samples", True, False))
    got = []
    for v in views:
        if v[0] == "samples":
            val = r.samples(binary=v[1], registers=v[2])
        elif v[0] == "freqs":
            val = r.frequencies(binary=v[1], registers=v[2])
        elif v[0] == "hs":
            val = {k_: h.samples(binary=v[1]) for k_, h in enumerate(hs)}
        elif v[0] == "hf":
            val = {k_: h.frequencies(binary=v[1]) for k_, h in enumerate(hs)}
        elif v[0] == "sym":
            val = [[int(h.symbols[t].outcome()) for t in range(len(reg))] for h, reg in zip(hs, regs)]
        else:
            val = np.array(r.probabilities(list(v[1])), copy=True)
        got.append((v, val))
        info["calls"].append(":".join(map(str, v)))
    S = [int(x) for x in np.asarray(r.samples(binary=False)).tolist()]
    info["samples"] = S
    items = [("shots", f"shots_okb {cfg} {z_list(b['w'])} {b['nshots']}%nat {nat_list(S)}")]
    tests = []
    if not names_ok:
        tests.append(("register_names", False, names))
    for t, (v, val) in enumerate(got):
        lab = f"{t}:" + ":".join(map(str, v[:3] if v[0] != "probs" else ("probs",)))
        if v[0] in ("samples", "freqs"):
            if v[2] and not names_ok:
                continue      # reported once as register_names
            if v[2] and (not isinstance(val, dict) or isinstance(val, collections.Counter)):
                items.append((f"view:{v[0]}:{v[1]}:{v[2]}:shape", "false"))
                continue
            op = (f"Samples 0%nat {b2s(v[1])} {b2s(v[2])} (@nil nat)" if v[0] == "samples" else f"Freqs 0%nat {b2s(v[1])} {b2s(v[2])} (@nil (nat * nat))")
            items.append((f"view:{v[0]}:{v[1]}:{v[2]}", f"explainsb {cfg} (@nil Z) {nat_list(S)} ({op}) ({out_term(v[0], v[1], v[2], val, ms)})"))
        elif v[0] == "hs":
            op = f"Samples 0%nat {b2s(v[1])} true (@nil nat)"
            term = out_term("samples", v[1], True, val, hms)
            items.append((f"handle:samples:{v[1]}", f"explainsb {cfg} (@nil Z) {nat_list(S)} ({op}) ({term})"))
            if b["ctor_samples"]:
                items.append((f"model:handle:samples:{v[1]}", f"out_eqb (handles_view {cfg} {nat_list(S)} ({op})) ({term})"))
        elif v[0] == "hf":
            op = f"Freqs 0%nat {b2s(v[1])} true (@nil (nat * nat))"
            term = out_term("freqs", v[1], True, val, hms)
            items.append((f"handle:frequencies:{v[1]}", f"explainsb {cfg} (@nil Z) {nat_list(S)} ({op}) ({term})"))
            if b["ctor_samples"]:
                items.append((f"model:handle:frequencies:{v[1]}", f"out_eqb (handles_view {cfg} {nat_list(S)} ({op})) ({term})"))
        elif v[0] == "sym":
            items.append(("handle:symbols", "forallb (fun b => b) [" + "; ".join(
                f"bits_eqb (symbols_spec {cfg} {nat_list(reg)} {nat_list(S)}) {bits_lit(bits)}" for reg, bits in zip(regs, val)) + "]"))
        else:
            qs = list(v[1])
            if b["exact_scale"] is not None:
                try:
                    ints = exact_ints(val, b["exact_scale"])
                    items.append((f"probs:{','.join(map(str, qs))}", f"explainsb {cfg} {z_list(b['w'])} {nat_list(S)} (Probs 0%nat {nat_list(qs)}) (OProbs {z_list(ints)})"))
                except (AssertionError, ValueError, OverflowError):
                    items.append((f"probs:{','.join(map(str, qs))}", "false"))
            elif route not in ("collapse_dm", "from_dict_dm_collapse", "ctor_probabilities"):
                # results without a state: probabilities = frequencies / nshots, marginalised in the requested order
                cnt = collections.Counter()
                for s_ in S:
                    row = [(s_ >> (len(Q) - 1 - t_)) & 1 for t_ in range(len(Q))]
                    cnt[int("".join(str(row[Q.index(q)]) for q in qs), 2)] += 1
                exp = np.array([cnt[x] / len(S) for x in range(2 ** len(qs))])
                dev = float(np.max(np.abs(exp - np.asarray(val).ravel()))) if np.asarray(val).size == exp.size else float("inf")
                tests.append((f"probs_from_frequencies:{','.join(map(str, qs))}", dev <= 1e-12, dev))
    if route == "gates_hold_samples":
        tests.append(("given_samples", S == b["given_samples"], None))
    if "source" in b:
        S0 = [int(x) for x in np.asarray(b["source"].samples(binary=False)).tolist()]
        tests.append(("reloaded_samples", S == S0, None))
    return info, items, tests


def part_routes(run, be, count, only=None):
    from concurrent.futures import ThreadPoolExecutor
    all_items, meta, ok = [], [], True
    for idx in (range(count) if only is None else only):
        try:
            info, items, tests = routes_case(run, be, idx)
        except Exception as e:  # noqa
            import traceback
            ok = False
            run.case({"routes": idx, "raised": True}, False)
            run.find(f"routes:{ROUTES[idx % len(ROUTES)]}:raised", "building a result object / reading its views raised: " + repr(e)[:200],
                     {"part": "routes", "case": idx, "route": ROUTES[idx % len(ROUTES)], "raised": traceback.format_exc()[-600:]})
            continue
        run.case({"routes": {k: v for k, v in info.items() if k != "calls"}}, info["layout"] != "ascending")
        if idx < 2:
            run.sample(info)
        for label, term in items:
            all_items.append((f"rt{idx}:{label}", term))
            meta.append((f"rt{idx}:{label}", label, info))
        for label, good, dev in tests:
            if not good:
                ok = ok and label == "register_names"     # the lost default register names are a recorded defect of from_dict, judged separately
                what = {"register_names": "the measurement gates of a result rebuilt by from_dict / load_result do not carry distinct register names "
                                          f"({dev}): samples(registers=True) / frequencies(registers=True) collapse to one entry",
                        "given_samples": "a result built on measurement gates that hold registered samples does not report those samples",
                        "reloaded_samples": "a result rebuilt by from_dict / load_result reports other samples than the result it was saved from"}.get(
                            label, f"probabilities(qubits) of a result without state differ from the frequencies of its own samples marginalised in the requested qubit order (max deviation {dev})")
                run.find(f"routes:{info['route']}:{label.split(':')[0]}:{info['layout']}", what, dict(info, failed=label))
    chunks = [all_items[ci:ci + 350] for ci in range(0, len(all_items), 350)]
    with ThreadPoolExecutor(max_workers=8) as ex:
        parts = list(ex.map(lambda t: run.coq_bools(f"routes_{t[0]}.v", HEADER, t[1], timeout=900)[0], enumerate(chunks)))
    if any(p is None for p in parts):
        run.oblige("correspondence:result_routes_and_handles", False, "correspondence")
        run.find("routes:coq-failed", "generated file did not compile", {}, concrete=False)
        return
    res = {}
    for p in parts:
        res.update(p)
    for label, short, info in meta:
        if res[label]:
            continue
        ok = False
        kind = short.split(":")[0]
        if kind == "model":
            # the specification verdict of the same view decides whether this is a defect or a model gap
            spec_label = label.replace(":model:", ":")
            run.find(f"routes:{info['route']}:model:{short.split(':', 1)[1]}", "C03/ModelHandles.v disagrees with the handles of a result built from given samples",
                     dict(info, failed=short), concrete=not res.get(spec_label, True))
            continue
        what = {"shots": "the samples of the result have the wrong count or contain an outcome of zero probability for the executed state",
                "view": "a samples / frequencies view of the result is not the same data as its own samples (bits in the order the qubits were given)",
                "handle": "the per-register MeasurementResult handle (gate.result) does not show the columns of ITS qubits of the result's own samples "
                          "(result.samples() and the handle disagree)",
                "probs": "probabilities(qubits) is not the Born marginal of the executed state in the requested qubit order"}[kind]
        sub = ":".join(short.split(":")[1:3]) if kind in ("view", "handle") else ""
        run.find(f"routes:{info['route']}:{kind}" + (f":{sub}" if sub else "") + f":{info['layout']}", what, dict(info, failed=short))
    run.oblige("correspondence:result_routes_and_handles", ok, "correspondence")


def routes_count(tier):
    return len(ROUTES) * (len(LAYOUTS) + (12 if tier == "thorough" else 3))


RULE = ("  near_exact: M(*tq, collapse=True) on dyadic Gaussian-integer states with outcome probabilities 1 - s/4^j and s/4^j (j in 5..20, s in 1..6), "
        "tq sorted / unsorted / cyclic with >= 1 entangled partner qubit, state vector and density matrix, both outcomes forced through the wrapped sampler; "
        "output of M.apply(_density_matrix) bit for bit against the normalised Coq projection onto the recorded outcome.  near_float: RY(+-2 asin(10^(-k/2))) and "
        "pi minus that (k = 3..12) x {alone, CNOT partner, CNOT partner + spectator, 2-qubit collapse with CZ-entangled spectator} x {sv, dm} x {likely, rare outcome}: "
        "1e-12 against the independent projection, later measurements of the shot see the outcome.  routes: 13 construction routes of a result object x "
        "17 register layouts (non-ascending, registers in non-ascending order, 3-/4-cycles) + random layouts, basis / dyadic asymmetric states, all views incl. the "
        "per-gate handles and symbols in random order; non-trivial = layout not ascending.")
