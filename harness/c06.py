"""C06  Updating circuit parameters is equivalent to rebuilding the circuit.

 * static theorems  coq/theories/C06/Props.v : flat-list offsets, set/get round trips, only
   trainable gates change, flat/list readings agree (all circuits, all values);
 * correspondence: the real Circuit.set_parameters / get_parameters (3 formats) on random
   circuits mixing trainable and non-trainable gates of 1, 2, 3 and matrix-valued parameters,
   against the model evaluated in Coq on the same integer data (exact);
 * views after an update (matrix, unitary, copy, invert, fuse, dagger, controlled_by,
   on_qubits) equal those of a freshly built circuit (exact float equality; the per-class
   symbolic obligations are C05's "updated" cases, re-run here for parametrised classes);
 * derived circuits (harness/c06_derived.py, coq/theories/C06/Derived.v + PropsDerived.v): sequences of 1-4 of
   invert / + / copy / on_qubits / fuse on circuits mixing trainable, trainable=False, flag-toggled, updated, dedicated- and
   generic-controlled gates: queue shape and exposed lists equal the model deval (only parametrised gates of the queue, in
   queue order, flags inherited: the mask of the inverse is the reversed mask, + concatenates, fuse keeps the list), then the
   set/get model runs on the derived circuit in a random format, exactly the exposed trainable gates move (sources and
   non-exposed gates keep their values; objects shared iff derived by shallow copy / + / fuse only) and the operator of the
   derived circuit and of its inverse equal a rebuild from constructors;
 * parameter-shift rule, general theorem (coq/theories/C06/PropsShift.v, proofs in ShiftRule.v): for every
   dimension, state, observable H, lists of fixed matrices before/after the gate, every family
   U(th) = cos(r th) Id - i sin(r th) G, r <> 0 and every scale factor, Re and Im of
   f(th) = <phi(th)|H|phi(th)> are derivable and d/dx f(scale x) = r (f(scale x + pi/4r) - f(scale x - pi/4r)) scale,
   the value derivative.py returns.  Tied to /repo on every run: every gate class whose
   generator_eigenvalue() does not raise (RX, RY, RZ) is traced and `rot_gate_check r M G = true` is
   proved (M(th) = cos(r th) I - i sin(r th) G, G = traced X/Y/Z, G G = I), from which
   traced_gate_shift_rule gives the rule for that traced matrix on any qubit of any register; all other
   parametrised classes are checked to be rejected by parameter_shift (NotImplementedError);
 * (kept) per-monomial obligations: every bilinear monomial conj(u_ab(th)) * u_cd(th) of RX, RY, RZ has
   derivative r*(g(th+s) - g(th-s)) -- Base/TrigDeriv.deriv_check_sound;
 * tolerance tests: the real parameter_shift equals r*(f(th+s)-f(th-s)) and restores the parameters;
   it equals the analytic derivative 2 Re<psi|H|d psi> * scale_factor for gates in the middle of deeper
   circuits with scale_factor != 1, random initial states and observables.
"""
STATIC = ["C06/Props", "C06/PropsShift", "Base/TrigDeriv", "Base/TrigMat", "C06/PropsDerived", "C06/PropsLayout"]
import itertools
import random
from fractions import Fraction

import numpy as np

from lib import qtrace, vcore, symtrace as st
from harness import c06_derived, c06_repr
from lib.symtrace import PI

HEADER = "From Coquelicot Require Import Coquelicot.\n" + qtrace.COQ_HEADER + "From QV Require Import Base.TrigDeriv.\nImport ListNotations.\n"
MODEL_HEADER = ("From Coq Require Import List ZArith Bool.\nFrom QV Require Import C06.Params.\n"
                "Import ListNotations.\nLocal Open Scope Z_scope.\n")


CTOR_PARAMS = {name: ps for name, nq, ps in qtrace.catalogue()}


# --------------------------------------------------------------------------- bookkeeping
def gate_pool(rng, nq):
    from qibo import gates
    q = lambda k: rng.sample(range(nq), k)
    tr = lambda: rng.random() < 0.65
    iv = lambda: rng.randint(-9, 9)
    pool = [
        lambda: gates.RX(*q(1), iv(), trainable=tr()),
        lambda: gates.RY(*q(1), iv(), trainable=tr()),
        lambda: gates.U1(*q(1), iv(), trainable=tr()),
        lambda: gates.U2(*q(1), iv(), iv(), trainable=tr()),
        lambda: gates.U3(*q(1), iv(), iv(), iv(), trainable=tr()),
        lambda: gates.fSim(*q(2), iv(), iv(), trainable=tr()),
        lambda: gates.CRZ(*q(2), iv(), trainable=tr()),
        lambda: gates.CU3(*q(2), iv(), iv(), iv(), trainable=tr()),
        lambda: gates.PRX(*q(1), iv(), iv(), trainable=tr()),
        lambda: gates.Unitary(np.array([[iv(), iv()], [iv(), iv()]], dtype=float), *q(1), trainable=tr(), check_unitary=False),
        lambda: gates.H(*q(1)),
        lambda: gates.CNOT(*q(2)),
    ]

    def ctrl(maker, npar):
        # gate made with controlled_by (one control: specialises to CU1/CU2/CU3/CRX...; two controls: generic)
        def f():
            qs = q(min(nq, rng.choice([2, 3])))
            t = tr()
            g = maker(qs[0], *[iv() for _ in range(npar)], trainable=t).controlled_by(*qs[1:])
            g._expected_trainable = t
            return g
        return f
    pool += [ctrl(gates.U1, 1), ctrl(gates.U2, 2), ctrl(gates.U3, 3), ctrl(gates.RX, 1), ctrl(gates.RY, 1), ctrl(gates.RZ, 1),
             ctrl(gates.GPI, 1), ctrl(gates.PRX, 2)]
    return pool


def flat_of(params):
    out = []
    for p in params:
        a = np.asarray(p).reshape(-1)
        out += [int(round(float(x))) for x in a]
    return out


def gate_vals(g):
    return flat_of(g.parameters)


def coq_gates(pg):
    return "[" + "; ".join(f"mkpg {g.nparams}%nat {'true' if getattr(g, '_expected_trainable', g.trainable) else 'false'} [{'; '.join(str(v) for v in gate_vals(g))}]" for g in pg) + "]"


def coq_zlist(xs):
    return "[" + "; ".join(str(int(x)) for x in xs) + "]"


def bookkeeping(run, rng, ncases):
    from qibo import Circuit
    exprs, expect, descr = [], [], []
    for ci in range(ncases):
        nq = rng.randint(2, 4)
        pool = gate_pool(rng, nq)
        c = Circuit(nq)
        for _ in range(rng.randint(2, 8)):
            c.add(rng.choice(pool)())
        pg = list(c.parametrized_gates)
        tg = [g for g in pg if g.trainable]
        if not tg:
            continue
        before = coq_gates(pg)
        fmt = rng.choice(["flat", "list", "dict", "array"])
        total = sum(g.nparams for g in tg)
        if fmt in ("flat", "array"):
            if total == len(tg) and fmt == "flat":
                pass
            flat = [rng.randint(-50, 50) for _ in range(total)]
            try:
                c.set_parameters(np.array(flat, dtype=float) if fmt == "array" else [float(x) for x in flat])
            except Exception as e:
                run.find(f"set_parameters_raises:{fmt}:" + "+".join(sorted({type(g).__name__ for g in tg})),
                         f"set_parameters({fmt}) raises {type(e).__name__}: {e}",
                         {"gates": [type(g).__name__ for g in pg], "format": fmt})
                continue
            model = f"map vals (set_flat_lit {before} {coq_zlist(flat)} 0%nat 0%nat)"
        else:
            per = []
            for g in tg:
                per.append([rng.randint(-50, 50) for _ in range(g.nparams)])
            def shape(g, p):
                if type(g).__name__ == "Unitary":
                    return np.array(p, dtype=float).reshape(2, 2)
                return float(p[0]) if len(p) == 1 else tuple(float(x) for x in p)
            try:
                if fmt == "list":
                    if len(tg) == total and any(g.nparams > 1 for g in tg):
                        continue
                    c.set_parameters([shape(g, p) for g, p in zip(tg, per)])
                else:
                    items = list(zip(tg, per))
                    rng.shuffle(items)
                    c.set_parameters({g: shape(g, p) for g, p in items})
            except Exception as e:
                run.find(f"set_parameters_raises:{fmt}:" + "+".join(sorted({type(g).__name__ for g in tg})),
                         f"set_parameters({fmt}) raises {type(e).__name__}: {e}",
                         {"gates": [type(g).__name__ for g in pg], "format": fmt})
                continue
            model = f"map vals (set_list {before} [{'; '.join(coq_zlist(p) for p in per)}])"
        got_all = [gate_vals(g) for g in pg]
        got_flat = flat_of(c.get_parameters("flatlist"))
        got_list = [flat_of([p]) if not isinstance(p, tuple) else flat_of(p) for p in c.get_parameters("list")]
        got_list = [flat_of(g.parameters) for g in tg] if len(got_list) != len(tg) else [flat_of(p) for p in c.get_parameters("list")]
        got_dict = c.get_parameters("dict")
        dict_ok = list(got_dict.keys()) == tg and all(flat_of(v) == gate_vals(g) for g, v in got_dict.items())
        # constructor keyword arguments kept for re-creating the gate (dagger, on_qubits, raw ...) follow the
        # current values: names are the constructor's own parameter names (from its signature), not g.parameter_names
        kw_ok = all(all((k not in g.init_kwargs) or flat_of([g.init_kwargs[k]]) == flat_of([v])
                        for k, v in zip(CTOR_PARAMS.get(type(g).__name__, []), g.parameters))
                    for g in pg if type(g).__name__ != "Unitary")
        exprs.append(model)
        after = coq_gates(pg)
        exprs.append(f"(get_flat {after}, get_list {after})")
        expect.append((got_all, got_flat, got_list, dict_ok, kw_ok))
        descr.append({"format": fmt, "gates": [f"{type(g).__name__}{'' if g.trainable else '(fixed)'}" for g in pg]})
        run.case([fmt, [(type(g).__name__, g.trainable) for g in pg], got_flat])
        run.sample(descr[-1])
    vals = run.coq_eval("C06_cases.v", MODEL_HEADER, exprs, timeout=600)
    if vals is None:
        run.find("coq:C06_cases", "model evaluation file does not compile", concrete=False)
        return
    bad = 0
    for i, (ga, gf, gl, dok, kok) in enumerate(expect):
        m_all = parse_ll(vals[2 * i])
        m_flat, m_list = parse_pair(vals[2 * i + 1])
        ok = (m_all == ga) and (m_flat == gf) and (m_list == gl) and dok and kok
        if not ok:
            bad += 1
            run.find(f"params_mismatch:{descr[i]['format']}:" + "+".join(sorted(set(descr[i]['gates']))),
                     "set/get_parameters disagrees with the model (or init_kwargs/dict view out of sync)",
                     {**descr[i], "impl_all": ga, "model_all": m_all, "impl_flat": gf, "model_flat": m_flat,
                      "impl_list": gl, "model_list": m_list, "dict_ok": dok, "init_kwargs_ok": kok})
    run.oblige("correspondence_set_get_parameters", bad == 0, "correspondence")


def parse_ll(s):
    import re
    s = s.replace("%Z", "")
    inner = re.findall(r"\[([^\[\]]*)\]", s)
    if s.strip() in ("[]", "nil"):
        return []
    return [[int(x) for x in i.split(";") if x.strip()] for i in inner]


def parse_pair(s):
    s = s.strip()
    assert s.startswith("(")
    depth, cut = 0, None
    for i, ch in enumerate(s):
        if ch == "[":
            depth += 1
        elif ch == "]":
            depth -= 1
        elif ch == "," and depth == 0:
            cut = i
            break
    a, b = s[1:cut], s[cut + 1:-1]
    flat = [int(x) for x in a.replace("%Z", "").strip().strip("[]").split(";") if x.strip()]
    return flat, (parse_ll(b) if b.strip() not in ("[]", "nil") else [])


# --------------------------------------------------------------------------- views after update
def views(run, rng, ncases):
    from qibo import Circuit, gates
    bad = 0
    for ci in range(ncases):
        nq = rng.randint(2, 3)
        spec = []
        cat = {name: (a, len(ps)) for name, a, ps in qtrace.catalogue() if (ps and a <= nq) or name in ("H", "CNOT")}
        kinds = sorted(cat)            # every parametrised class of gates.py (+ two fixed gates)
        for _ in range(rng.randint(2, 6)):
            k = kinds[(ci + rng.randrange(len(kinds))) % len(kinds)] if rng.random() < 0.5 else kinds[ci % len(kinds)]
            arity, npar = cat[k]
            spec.append((k, rng.sample(range(nq), arity), npar, rng.random() < 0.7))

        def build(values):
            c = Circuit(nq)
            it = iter(values)
            for k, qs, npar, tr in spec:
                ps = [next(it) for _ in range(npar)]
                if npar:
                    c.add(getattr(gates, k)(*qs, *ps, trainable=tr))
                else:
                    c.add(getattr(gates, k)(*qs))
            return c
        ntot = sum(s[2] for s in spec)
        old = [round(rng.uniform(0.1, 1.4), 3) for _ in range(ntot)]
        new = list(old)
        # new values only for trainable gates
        pos = 0
        train_flat = []
        for k, qs, npar, tr in spec:
            for j in range(npar):
                if tr:
                    new[pos] = round(rng.uniform(0.1, 1.4), 3)
                    train_flat.append(new[pos])
                pos += 1
        c = build(old)
        if not train_flat:
            continue
        c.set_parameters(train_flat)
        fresh = build(new)
        view = rng.choice(["unitary", "invert", "copy_deep", "copy", "fuse", "execute", "dagger_each", "on_qubits"])
        try:
            if view == "unitary":
                a, b = c.unitary(), fresh.unitary()
            elif view == "invert":
                a, b = c.invert().unitary(), fresh.invert().unitary()
            elif view == "copy_deep":
                a, b = c.copy(deep=True).unitary(), fresh.unitary()
            elif view == "copy":
                a, b = c.copy().unitary(), fresh.unitary()
            elif view == "fuse":
                a, b = c.fuse(max_qubits=2)().state(), fresh().state()
            elif view == "execute":
                a, b = c().state(), fresh().state()
            elif view == "dagger_each":
                a = np.array([np.asarray(g.dagger().matrix()).ravel() for g in c.queue], dtype=object)
                b = np.array([np.asarray(g.dagger().matrix()).ravel() for g in fresh.queue], dtype=object)
                a, b = np.concatenate(list(a)), np.concatenate(list(b))
            else:
                big1, big2 = Circuit(nq + 1), Circuit(nq + 1)
                perm = rng.sample(range(nq + 1), nq)
                big1.add(c.on_qubits(*perm))
                big2.add(fresh.on_qubits(*perm))
                a, b = big1.unitary(), big2.unitary()
            d = float(np.abs(np.asarray(a) - np.asarray(b)).max())
        except Exception as e:
            d = float("inf")
            err = f"{type(e).__name__}: {e}"
        run.case(["view", view, [(s[0], s[3]) for s in spec], new])
        if d > 1e-12:
            bad += 1
            run.find(f"stale_view:{view}:" + "+".join(sorted({s[0] for s in spec if s[2]})),
                     f"{view} after set_parameters differs from a freshly built circuit (max diff {d})",
                     {"spec": spec, "old": old, "new": new, "view": view, "diff": d})
    run.oblige("views_after_update_equal_fresh", bad == 0, "correspondence")


def independence(run, rng, ncases):
    """histories: a derived object with its OWN gate objects (deep copy, inverse) is updated -> every view
    of the source still equals a freshly built circuit with the source's values; then the source is
    updated -> the derived object's operator does not move."""
    from qibo import Circuit, gates
    bad = 0
    kinds = {"RX": (1, 1), "RY": (1, 1), "RZ": (1, 1), "U3": (1, 3), "fSim": (2, 2), "CRX": (2, 1), "PRX": (1, 2), "GPI2": (1, 1),
             "GPI": (1, 1), "U1q": (1, 2), "RXX": (2, 1), "RZX": (2, 1), "MS": (2, 3), "GIVENS": (2, 1), "RBS": (2, 1), "CU2": (2, 2),
             "CU3": (2, 3), "U2": (1, 2), "U1": (1, 1), "CU1": (2, 1), "RXXYY": (2, 1), "H": (1, 0), "CNOT": (2, 0)}

    def views_of(c, nq):
        out = {"unitary": np.asarray(c.unitary()), "invert": np.asarray(c.invert().unitary()),
               "copy_deep": np.asarray(c.copy(deep=True).unitary()),
               "dagger_each": np.concatenate([np.asarray(g.dagger().matrix()).ravel() for g in c.queue])}
        big = Circuit(nq + 1)
        big.add(c.on_qubits(*range(1, nq + 1)))
        out["on_qubits"] = np.asarray(big.unitary())
        return out
    for ci in range(ncases):
        nq = rng.randint(2, 3)
        spec = []
        for _ in range(rng.randint(2, 6)):
            k = rng.choice(sorted(kinds))
            arity, npar = kinds[k]
            spec.append((k, rng.sample(range(nq), arity), npar))

        def build(values):
            c = Circuit(nq)
            it = iter(values)
            for k, qs, npar in spec:
                ps = [next(it) for _ in range(npar)]
                c.add(getattr(gates, k)(*qs, *ps) if npar else getattr(gates, k)(*qs))
            return c
        ntot = sum(sp[2] for sp in spec)
        if not ntot:
            continue
        draw = lambda: [round(rng.uniform(0.1, 0.7), 3) for _ in range(ntot)]   # MS needs theta <= pi/2
        old, newd, newc = draw(), draw(), draw()
        how = rng.choice(["copy_deep", "invert"])
        stage, d, err, which = "derive", 0.0, None, None
        try:
            c = build(old)
            der = c.copy(deep=True) if how == "copy_deep" else c.invert()
            stage = "update_derived"
            der.set_parameters(newd)          # flat list; the inverse has the same number of parameters
            got, want = views_of(c, nq), views_of(build(old), nq)
            for v in want:
                dv = float(np.abs(got[v] - want[v]).max())
                if dv > d:
                    d, which = dv, v
            if d <= 1e-12:
                stage = "update_source"
                before = np.asarray(der.unitary())
                c.set_parameters(newc)
                d = float(np.abs(np.asarray(der.unitary()) - before).max())
                which = "derived_unitary"
        except Exception as e:  # noqa: BLE001
            d, err = float("inf"), f"{type(e).__name__}: {e}"
        run.case(["independence", how, [sp[0] for sp in spec]])
        if d > 1e-12:
            bad += 1
            run.find(f"shared_state:{how}:{stage}:" + "+".join(sorted({sp[0] for sp in spec if sp[2]})),
                     f"{how} of a circuit does not have its own parameters: after {stage} the view '{which}' of the "
                     f"{'source' if stage == 'update_derived' else 'derived circuit'} moved by {d}" + (f" ({err})" if err else ""),
                     {"spec": spec, "old": old, "new_derived": newd, "new_source": newc, "how": how, "stage": stage, "view": which, "diff": d})
    run.oblige("derived_circuits_have_their_own_parameters", bad == 0, "correspondence")


def derived(run, rng, ncases):
    """bookkeeping model on DERIVED circuits (inverse, copy, +, on_qubits, fused; sequences of 1-4 operations)"""
    for t in vcore.props_theorems("C06/PropsDerived.v"):
        run.oblige(t, True, "static-theorem")
    ok, pa = vcore.static_assumptions("C06/PropsDerived")
    run.notes["print_assumptions_derived"] = pa
    exprs, pend, seen = [], [], set()
    nfound = 0

    def report(case, kind, what, extra=None):
        nonlocal nfound
        ch = c06_derived.chain(case["expr"])
        site = kind.startswith("counters") or kind.startswith("set_raises")    # defects of one call site: keyed by the outermost operation
        key = f"derived_{kind}:{ch.split('(')[0] if site else ch}"
        if key in seen or (nfound >= 8 and not site):
            return
        seen.add(key)
        nfound += 1
        run.refuted.append(key)
        run.find(key, what, {"derived": case, **(extra or {})})
    for i in range(ncases):
        case = c06_derived.make_case(rng, i)
        r = c06_derived.run_case(case)
        run.case(["derived", c06_derived.chain(case["expr"]), case["format"],
                  [[(s["cls"], len(s["controls"]), s["trainable"], s["updated"]) for s in sp] for sp in case["sources"]]])
        if i % 30 == 0:
            run.sample({"derived": c06_derived.chain(case["expr"]), "format": case["format"],
                        "sources": [[s["cls"] + ("" if s["trainable"] in (None, True) else "(fixed)") for s in sp] for sp in case["sources"]]})
        if "problem" in r:
            report(case, r["problem"][0], r["problem"][1])
            continue
        for kind, what in r["problems"]:
            report(case, kind, what)
        idx = {"dshow": len(exprs)}
        exprs.append(r["dshow"])
        if "get_expr" in r:
            idx["set"] = len(exprs)
            exprs.append(r["set_expr"])
            idx["get"] = len(exprs)
            exprs.append(r["get_expr"])
        pend.append((case, r, idx))
    vals = run.coq_eval("C06_derived.v", c06_derived.HEADER, exprs, timeout=600)
    if vals is None:
        run.oblige("correspondence_derived_circuit_bookkeeping", False, "correspondence")
        run.find("coq:C06_derived", "model evaluation file for derived circuits does not compile", concrete=False)
        return
    for case, r, idx in pend:
        model = c06_derived.parse(vals[idx["dshow"]])
        if model is None:
            report(case, "bookkeeping", "the model refuses an expression the real code executed")
            continue
        mq = [(b, [tuple(x) for x in ms]) for b, ms in model[0]]
        mp = [tuple(x) for x in model[1]]
        rq, rp = r["shape"]
        if mq != rq or mp != rp:
            report(case, "bookkeeping", "queue / parametrized_gates / trainable_gates of the derived circuit differ from the model "
                   "(only parametrised gates of the queue, in queue order, flags inherited from the source gates)",
                   {"real_queue": rq, "model_queue": mq, "real_exposed": rp, "model_exposed": mp})
            continue
        if "get" in idx:
            ga, gf, gl, dok, allok = r["got"]
            m_all = parse_ll(vals[idx["set"]])
            m_flat, m_list = parse_pair(vals[idx["get"]])
            if not (m_all == ga and m_flat == gf and m_list == gl and dok and allok):
                report(case, "params:" + r["fmt"], "set/get_parameters on the derived circuit disagrees with the model",
                       {"impl_all": ga, "model_all": m_all, "impl_flat": gf, "model_flat": m_flat, "impl_list": gl, "model_list": m_list,
                        "dict_ok": dok, "include_not_trainable_ok": allok})
    run.oblige("correspondence_derived_circuit_bookkeeping", nfound == 0, "correspondence")


# --------------------------------------------------------------------------- parameter shift
def shift_obligations(run, rng):
    items = []
    with qtrace.patched():
        qtrace.fresh_sym_backend()
        for name in ("RX", "RY", "RZ"):
            (th,) = qtrace.setup_vars(1)
            g0 = qtrace.make_gate(name, [0], [th])
            r = Fraction(g0.generator_eigenvalue()).limit_denominator(64)
            s = PI * (Fraction(1, 4) / r)     # derivative.py: s = pi / (4 * r)
            M0 = qtrace.gate_symmat(qtrace.make_gate(name, [0], [th]))
            Mp = qtrace.gate_symmat(qtrace.make_gate(name, [0], [th + s]))
            Mm = qtrace.gate_symmat(qtrace.make_gate(name, [0], [th - s]))
            ent = lambda M, a, b: st.lift(M.rows[a][b]).tree()
            for a, b, c, d in itertools.product(range(2), repeat=4):
                g = f"(EMul (EConj {ent(M0, a, b).coq}) {ent(M0, c, d).coq})"
                gp = f"(EMul (EConj {ent(Mp, a, b).coq}) {ent(Mp, c, d).coq})"
                gm = f"(EMul (EConj {ent(Mm, a, b).coq}) {ent(Mm, c, d).coq})"
                rhs = f"(EMul (EQ {st.qlit(r)}) (EAdd {gp} (ENeg {gm})))"
                items.append((f"shift_{name}_{a}{b}{c}{d}", f"deriv_check 0%nat {g} {rhs}"))
            run.case(["parameter_shift", name, str(r)])
            run.sample({"obligation": f"shift_{name}_*", "generator_eigenvalue": str(r), "shift": "pi/(4r)"})
    res, out = run.coq_bools("C06_shift_triage.v", HEADER, items, timeout=600)
    if res is None:
        run.find("coq:C06_shift", "parameter-shift obligations do not compile", {"log": out[-1500:]}, concrete=False)
        return
    good = [(n, t) for n, t in items if res[n]]
    bad = [(n, t) for n, t in items if not res[n]]
    thms = [(f"ok_{n}", f"{t} = true", "vm_compute; reflexivity.") for n, t in good]
    # one fully stated instance: the conclusion in terms of is_derive
    if good:
        n0, t0 = good[0]
        args = t0[len("deriv_check 0%nat "):]
        thms.append(("shift_rule_meaning",
                     "forall e e', deriv_check 0%nat e e' = true -> forall (th : nat -> R) (x : R), "
                     "is_derive (fun s : R => fst (denote (upd th 0%nat s) e)) x (fst (denote (upd th 0%nat x) e')) /\\ "
                     "is_derive (fun s : R => snd (denote (upd th 0%nat s) e)) x (snd (denote (upd th 0%nat x) e'))",
                     "intros e e' H; exact (deriv_check_sound 0%nat e e' H)."))
    ok, out2 = run.coq_theorems("C06_shift_theorems.v", HEADER, thms, timeout=600)
    for n, _ in good:
        run.oblige(n, ok, "parameter-shift")
    if not ok:
        run.find("coq:C06_shift_theorems", "theorem file does not compile", {"log": out2[-1500:]}, concrete=False)
    for n, _ in bad:
        w = shift_numeric(n.split("_")[1], rng)
        if w:
            run.refuted.append(n)
            run.find(f"parameter_shift:{n.split('_')[1]}", "parameter_shift differs from the true derivative", w)
        else:
            run.oblige(n, False, "parameter-shift")
            run.find(f"unproved:{n}", f"obligation {n} no longer checks", concrete=False)


def shift_numeric(name, rng, trials=6):
    """real parameter_shift vs a high-order central finite difference (locating a witness only)"""
    from qibo import Circuit, gates, hamiltonians
    from qibo.derivative import parameter_shift
    for _ in range(trials):
        th = round(rng.uniform(0.2, 2.5), 3)
        c = Circuit(1)
        c.add(gates.RY(0, 0.37))
        c.add(getattr(gates, name)(0, th))
        c.add(gates.RX(0, 0.81))
        H = hamiltonians.Hamiltonian(1, np.array([[0.3, 0.2 - 0.5j], [0.2 + 0.5j, -1.1]]))
        got = parameter_shift(c, H, 1)

        def f(t):
            cc = Circuit(1)
            cc.add(gates.RY(0, 0.37)); cc.add(getattr(gates, name)(0, t)); cc.add(gates.RX(0, 0.81))
            return float(np.real(H.expectation(cc().state())))
        h = 1e-3
        fd = (-f(th + 2 * h) + 8 * f(th + h) - 8 * f(th - h) + f(th - 2 * h)) / (12 * h)
        if abs(got - fd) > 1e-6:
            return {"gate": name, "theta": th, "parameter_shift": got, "finite_difference": fd}
    return None


def shift_implementation(run, rng, n):
    """the real parameter_shift computes r*(f(th+s)-f(th-s)) and restores the parameters"""
    from qibo import Circuit, gates, hamiltonians
    from qibo.derivative import parameter_shift
    bad = 0
    for i in range(n):
        nq = 2
        names = [rng.choice(["RX", "RY", "RZ"]) for _ in range(rng.randint(2, 4))]
        ths = [round(rng.uniform(0.1, 2.9), 3) for _ in names]
        qs = [rng.randrange(nq) for _ in names]
        def mk(vals):
            c = Circuit(nq)
            for nm, q, v in zip(names, qs, vals):
                c.add(getattr(gates, nm)(q, v))
                c.add(gates.CNOT(0, 1))
            return c
        A = np.array([[rng.randint(-3, 3) + 1j * rng.randint(-3, 3) for _ in range(4)] for _ in range(4)])
        H = hamiltonians.Hamiltonian(nq, (A + A.conj().T) / 2)
        c = mk(ths)
        idx = rng.randrange(len(names))
        psi0 = None
        if i % 2:
            v = np.array([rng.randint(-3, 3) + 1j * rng.randint(-3, 3) for _ in range(4)], dtype=complex)
            v[0] += 4
            psi0 = v / np.linalg.norm(v)
        got = parameter_shift(c, H, idx, initial_state=psi0)
        after = [float(p[0]) for p in c.get_parameters()]
        r = 0.5
        s = np.pi / (4 * r)
        fp, fm = list(ths), list(ths)
        fp[idx] += s
        fm[idx] -= s
        want = r * (H.expectation(mk(fp)(initial_state=psi0).state()) - H.expectation(mk(fm)(initial_state=psi0).state()))
        run.case(["psr_impl", names, idx])
        if abs(got - float(np.real(want))) > 1e-10 or any(abs(a - b) > 1e-12 for a, b in zip(after, ths)):
            bad += 1
            run.find(f"parameter_shift_impl:{names[idx]}", "parameter_shift is not r*(f(th+s)-f(th-s)) or does not restore parameters",
                     {"gates": names, "qubits": qs, "thetas": ths, "index": idx, "got": got, "want": float(np.real(want)), "after": after})
    run.oblige("parameter_shift_computes_shift_formula", bad == 0, "correspondence")


# --------------------------------------------------------------------------- the general shift theorem, tied per run
SHIFT_HEADER = HEADER + "From QV Require Import C06.ShiftRule C06.PropsShift.\n"
GENERATOR_OF = {"RX": "X", "RY": "Y", "RZ": "Z"}


def claimed_classes():
    """{class: generator_eigenvalue()} for every parametrised class of gates.py whose method does not raise
    NotImplementedError (the gates parameter_shift accepts), and the list of classes that raise"""
    claimed, rejected, skipped = {}, [], []
    for name, nq, ps in qtrace.catalogue():
        if not ps:
            continue
        try:
            g = qtrace.make_gate(name, list(range(nq)), [0.1 * (j + 1) for j in range(len(ps))])
        except Exception as e:  # noqa: BLE001
            skipped.append(f"{name}: {type(e).__name__}")
            continue
        try:
            claimed[name] = (g.generator_eigenvalue(), nq, len(ps))
        except NotImplementedError:
            rejected.append(name)
    return claimed, rejected, skipped


def overriding_classes():
    """every Gate subclass (all of qibo.gates, including the classes the catalogue skips) that overrides
    generator_eigenvalue -- the abstract method raises NotImplementedError"""
    import qibo.gates  # noqa: F401
    from qibo.gates.abstract import Gate
    seen, todo, out = set(), [Gate], []
    while todo:
        k = todo.pop()
        for sub in k.__subclasses__():
            if sub not in seen:
                seen.add(sub)
                todo.append(sub)
                if "generator_eigenvalue" in vars(sub):
                    out.append(sub.__name__)
    return sorted(out)


def shift_general(run, rng):
    from qibo import Circuit, gates, hamiltonians
    from qibo.derivative import parameter_shift
    for t in vcore.props_theorems("C06/PropsShift.v"):
        run.oblige(t, True, "static-theorem")
    ok, pa = vcore.static_assumptions("C06/PropsShift")
    run.notes["print_assumptions_shift"] = pa
    claimed, rejected, skipped = claimed_classes()
    run.notes["parameter_shift_accepts"] = sorted(claimed)
    run.notes["parameter_shift_rejects"] = sorted(rejected)
    if skipped:
        run.notes["parameter_shift_unclassified"] = skipped
    over = overriding_classes()
    extra = [n for n in over if n not in claimed]
    run.oblige("generator_eigenvalue_defined_only_by_checked_classes", not extra, "correspondence")
    if extra:
        run.find("unproved:generator_eigenvalue:" + "+".join(extra), "classes outside the traced catalogue define generator_eigenvalue "
                 f"(accepted by parameter_shift) but are not covered by the shift theorem: {extra}", concrete=False)
    defs, items, meta = [], [], {}
    with qtrace.patched():
        qtrace.fresh_sym_backend()
        for name in sorted(claimed):
            val, nq, npar = claimed[name]
            run.case(["rot_form", name, repr(val)])
            r = Fraction(val).limit_denominator(64)
            if nq != 1 or npar != 1 or r == 0 or abs(float(r) - float(val)) > 1e-15:
                # outside the family the theorem covers: look for a wrong derivative, otherwise report as unproved
                w = shift_numeric(name, rng) if nq == 1 and npar == 1 else None
                if w:
                    run.refuted.append(f"rot_form_{name}")
                    run.find(f"parameter_shift:{name}", "parameter_shift differs from the true derivative", w)
                else:
                    run.oblige(f"rot_form_{name}", False, "parameter-shift")
                    run.find(f"unproved:rot_form_{name}", f"{name} claims generator eigenvalue {val} but is not a one-qubit "
                             "one-parameter gate with rational eigenvalue: not covered by the shift theorem", concrete=False)
                continue
            try:
                (th,) = qtrace.setup_vars(1)
                M = qtrace.gate_symmat(qtrace.make_gate(name, [0], [th]))
                if name in GENERATOR_OF:
                    G = qtrace.gate_symmat(qtrace.make_gate(GENERATOR_OF[name], [0], []))
                    gtxt = G.coq()
                    gsrc = f"traced gates.{GENERATOR_OF[name]}"
                else:   # U(pi/(2r)) = -i G
                    Mh = qtrace.gate_symmat(qtrace.make_gate(name, [0], [PI * (Fraction(1, 2) / r)]))
                    gtxt = "[" + "; ".join("[" + "; ".join(f"(EMul EI {st.lift(e).tree().coq})" for e in row) + "]" for row in Mh.rows) + "]"
                    gsrc = "i * U(pi/(2r))"
            except Exception as e:  # noqa: BLE001  (TraceError: fail closed)
                run.oblige(f"rot_form_{name}", False, "parameter-shift")
                run.find(f"unproved:rot_form_{name}", f"tracing {name} failed: {type(e).__name__}: {e}", concrete=False)
                continue
            defs.append(f"Definition M_{name} : mat expr := {M.coq()}.\nDefinition G_{name} : mat expr := {gtxt}.\n")
            items.append((f"rot_form_{name}", f"rot_gate_check {st.qlit(r)} M_{name} G_{name}"))
            meta[name] = (r, gsrc)
            run.sample({"obligation": f"rot_form_{name}", "generator_eigenvalue": str(r), "generator": gsrc,
                        "statement": f"{name}(th) = cos(r th) I - i sin(r th) G, G G = I, hence traced_gate_shift_rule"})
    header = SHIFT_HEADER + "".join(defs)

    def theorem_list(good):
        thms = []
        for n, t in good:
            name = n[len("rot_form_"):]
            r = meta[name][0]
            thms.append((f"ok_{n}", f"{t} = true", "vm_compute; reflexivity."))
            thms.append((f"psr_{name}",
                         "forall (n : nat) (qs : list nat) (before after : list Cmat) (H : Cmat) (psi : Cvec) (scale x : R), "
                         f"let U := fun th : R => embed Cops n qs (mden (fun _ => th) (MLit M_{name})) in "
                         "let f := fun th : R => expect H (circuit_state before (U th) after psi) in "
                         f"is_derive (fun y => Re (f (scale * y)%R)) x (psr_value (fun t => Re (f t)) (Q2R {st.qlit(r)}) scale (scale * x)%R) /\\ "
                         f"is_derive (fun y => Im (f (scale * y)%R)) x (psr_value (fun t => Im (f t)) (Q2R {st.qlit(r)}) scale (scale * x)%R)",
                         f"exact (traced_gate_shift_rule {st.qlit(r)} M_{name} G_{name} ok_{n})."))
        return thms
    res = {n: True for n, _ in items}
    if items:
        ok, out = run.coq_theorems("C06_rot_theorems.v", header, theorem_list(items), timeout=600)
        if not ok:
            run.notes.get("coq_errors", []) and run.notes["coq_errors"].pop()
            res, out = run.coq_bools("C06_rot_triage.v", header, items, timeout=600)
            if res is None:
                run.find("coq:C06_rot", "rotation-form obligations do not compile", {"log": out[-1500:]}, concrete=False)
                res = {}
                items = []
            good = [(n, t) for n, t in items if res[n]]
            ok = True
            if good:
                ok, out2 = run.coq_theorems("C06_rot_theorems.v", header, theorem_list(good), timeout=600)
                if not ok:
                    run.find("coq:C06_rot_theorems", "theorem file does not compile", {"log": out2[-1500:]}, concrete=False)
        for n, _ in items:
            name = n[len("rot_form_"):]
            if res.get(n):
                run.oblige(n, ok, "parameter-shift")
                run.oblige(f"psr_{name}", ok, "parameter-shift")
            else:
                w = shift_numeric(name, rng)
                if w:
                    run.refuted.append(n)
                    run.find(f"parameter_shift:{name}", "parameter_shift differs from the true derivative", w)
                else:
                    run.oblige(n, False, "parameter-shift")
                    run.find(f"unproved:{n}", f"{name}(th) is not cos(r th) I - i sin(r th) G with G G = I for r = generator_eigenvalue()",
                             concrete=False)
    # every other parametrised class is rejected by the real parameter_shift (not claimed by the theorem either)
    bad = 0
    H1 = {1: hamiltonians.Hamiltonian(1, np.diag([1.0, -1.0])),
          2: hamiltonians.Hamiltonian(2, np.diag([1.0, -1.0, 0.5, 2.0])),
          3: hamiltonians.Hamiltonian(3, np.diag([1.0, -1.0, 0.5, 2.0, 0.0, 1.5, -2.0, 3.0]))}
    cat = {name: (nq, len(ps)) for name, nq, ps in qtrace.catalogue()}
    for name in sorted(rejected):
        nq, npar = cat[name]
        vals = [round(rng.uniform(0.2, 0.7), 3) for _ in range(npar)]
        c = Circuit(nq)
        for q in range(nq):
            c.add(gates.H(q))
        c.add(getattr(gates, name)(*range(nq), *vals))
        run.case(["psr_rejects", name])
        try:
            got = parameter_shift(c, H1[nq], 0)
        except NotImplementedError:
            continue
        except Exception as e:  # noqa: BLE001
            run.notes.setdefault("parameter_shift_other_errors", []).append(f"{name}: {type(e).__name__}")
            continue
        bad += 1
        run.find(f"parameter_shift:unclaimed:{name}", f"parameter_shift returns {got} for a {name} gate although its "
                 "generator_eigenvalue() raises NotImplementedError: value not covered by the shift theorem",
                 {"gate": name, "values": vals, "got": got}, concrete=False)
    run.oblige("parameter_shift_rejects_every_unclaimed_class", bad == 0, "correspondence")


def shift_outside_family(run, rng):
    """RX/RY/RZ objects that are NOT the embedded one-qubit family although generator_eigenvalue() answers:
    controlled_by with two or more controls keeps the class (one control specialises to CRX/CRY/CRZ, which raise).
    Witness of C06/PropsShift.controlled_rotation_shift_rule_refuted (normalised): psi = (|000>+|011>)/sqrt2,
    H = Z (x) (|00><11| + |11><00|), th = pi: f = cos(th/2), f' = -1/2, two-term rule gives -1/sqrt2."""
    from qibo import Circuit, gates, hamiltonians
    from qibo.derivative import parameter_shift
    Hm = np.zeros((8, 8), dtype=complex)
    Hm[0, 3] = Hm[3, 0] = 1.0
    Hm[4, 7] = Hm[7, 4] = -1.0
    psi = np.zeros(8, dtype=complex)
    psi[0] = psi[3] = 1 / np.sqrt(2)
    for name in ("RX", "RY", "RZ"):
        th = float(np.pi) if name != "RZ" else 1.3

        def mk(t):
            c = Circuit(3)
            if name == "RZ":
                c.add(gates.H(0))
            c.add(getattr(gates, name)(0, t).controlled_by(1, 2))
            if name == "RZ":
                c.add(gates.H(0))
            return c
        c = mk(th)
        run.case(["psr_multi_controlled", name])
        H = hamiltonians.Hamiltonian(3, Hm)
        try:
            got = parameter_shift(c, H, 0, initial_state=psi.copy())
        except NotImplementedError:
            continue            # rejected: nothing claimed, nothing wrong
        f = lambda t: float(np.real(H.expectation(mk(t)(initial_state=psi.copy()).state())))
        h = 1e-3
        want = (-f(th + 2 * h) + 8 * f(th + h) - 8 * f(th - h) + f(th - 2 * h)) / (12 * h)
        if abs(got - want) > 1e-6:
            run.refuted.append(f"psr_multi_controlled_{name}")
            run.find(f"parameter_shift:multi_controlled:{name}",
                     f"gates.{name}(0, th).controlled_by(1, 2) keeps class {type(c.queue[-1 if name != 'RZ' else 1]).__name__} and "
                     f"generator_eigenvalue() = 0.5, so parameter_shift applies the two-term rule to a controlled rotation "
                     f"(generator eigenvalues 0, +-1/2): returns {got}, true derivative {want}",
                     {"circuit": f"{name}(0, {th}).controlled_by(1, 2) on 3 qubits" + (" between H(0)" if name == "RZ" else ""),
                      "hamiltonian": "Z(0) (x) (|00><11| + |11><00|) on qubits 1,2", "initial_state": "(|000> + |011>)/sqrt(2)",
                      "theta": th, "parameter_shift": got, "true_derivative": want})


def shift_true_derivative(run, rng, n):
    """tolerance test: the real parameter_shift (with scale_factor) against the analytic derivative.
    For U(th) = exp(-i th G / 2):  d phi = (-i/2) (after) G U(th) (before) psi, f' = 2 Re <phi|H|d phi> (H Hermitian),
    d/dx f(scale x) = scale f'.  d phi is computed by the real backend on the circuit with the Pauli gate G
    inserted after the target gate, so the reference does not use the shift formula."""
    from qibo import Circuit, gates, hamiltonians
    from qibo.derivative import parameter_shift
    fixed = [lambda q: gates.H(q[0]), lambda q: gates.S(q[0]), lambda q: gates.T(q[0]), lambda q: gates.CNOT(q[0], q[1]),
             lambda q: gates.CZ(q[0], q[1]), lambda q: gates.SWAP(q[0], q[1]), lambda q: gates.TOFFOLI(q[0], q[1], q[2]),
             lambda q: gates.SX(q[0]), lambda q: gates.iSWAP(q[0], q[1])]
    bad = 0
    for i in range(n):
        nq = rng.randint(3, 4)
        spec = []        # ("fix", maker index, qubits) | ("rot", name, qubit, value)
        depth = rng.randint(8, 16)
        for _ in range(depth):
            if rng.random() < 0.45:
                spec.append(("rot", rng.choice(["RX", "RY", "RZ"]), rng.randrange(nq), round(rng.uniform(-3.0, 3.0), 3)))
            else:
                spec.append(("fix", rng.randrange(len(fixed)), rng.sample(range(nq), 3)))
        rots = [k for k, sp in enumerate(spec) if sp[0] == "rot"]
        if len(rots) < 3:
            continue
        target = rots[rng.randrange(1, len(rots) - 1)] if rng.random() < 0.8 else rng.choice(rots)   # mostly a gate in the middle
        idx = rots.index(target)
        scale = rng.choice([-2.5, -1.0, 0.3, 0.5, 2.0, 3.75, 1.0])

        def build(insert_generator=False):
            c = Circuit(nq)
            for k, sp in enumerate(spec):
                if sp[0] == "rot":
                    c.add(getattr(gates, sp[1])(sp[2], sp[3]))
                    if insert_generator and k == target:
                        c.add(getattr(gates, GENERATOR_OF[sp[1]])(sp[2]))
                else:
                    c.add(fixed[sp[1]](sp[2]))
            return c
        d = 2 ** nq
        A = np.array([[rng.uniform(-1, 1) + 1j * rng.uniform(-1, 1) for _ in range(d)] for _ in range(d)])
        Hm = (A + A.conj().T) / 2
        H = hamiltonians.Hamiltonian(nq, Hm)
        psi0 = None
        if i % 3:
            v = np.array([rng.uniform(-1, 1) + 1j * rng.uniform(-1, 1) for _ in range(d)], dtype=complex)
            psi0 = v / np.linalg.norm(v)
        c = build()
        before = [float(p[0]) for p in c.get_parameters()]
        got = parameter_shift(c, H, idx, initial_state=psi0, scale_factor=scale)
        after = [float(p[0]) for p in c.get_parameters()]
        phi = np.asarray(build()(initial_state=None if psi0 is None else psi0.copy()).state())
        dphi = -0.5j * np.asarray(build(True)(initial_state=None if psi0 is None else psi0.copy()).state())
        want = float(2 * np.real(np.conj(phi) @ Hm @ dphi)) * scale
        run.case(["psr_true", [sp[1] if sp[0] == "rot" else "f%d" % sp[1] for sp in spec], idx, scale, psi0 is not None])
        if abs(got - want) > 1e-9 or before != after:
            bad += 1
            run.find(f"parameter_shift_true:{spec[target][1]}", "parameter_shift (scale_factor, deep circuit) differs from the analytic "
                     "derivative or does not restore the parameters",
                     {"nqubits": nq, "spec": spec, "target": target, "index": idx, "scale_factor": scale, "got": got, "want": want,
                      "params_before": before, "params_after": after, "initial_state": None if psi0 is None else [str(z) for z in psi0]})
    run.oblige("parameter_shift_equals_analytic_derivative_test", bad == 0, "test")


def probes(run, rng):
    """formats x matrix-valued two-part parameters, and parameter_shift's index conventions"""
    from qibo import Circuit, gates, hamiltonians
    from qibo.derivative import parameter_shift
    # (1) flat format with GeneralizedfSim (parameters = (2x2 matrix, phi), nparams = 5)
    c = Circuit(2)
    c.add(gates.GeneralizedfSim(0, 1, np.eye(2), 0.25))
    c.add(gates.RX(0, 0.5))
    flat = [1.0, 2.0, 3.0, 4.0, 0.75, 1.5]
    run.case(["probe", "flat_GeneralizedfSim"])
    try:
        c.set_parameters(flat)
        back = c.get_parameters("flatlist")
        ok = [float(x) for x in np.asarray(back, dtype=float).reshape(-1)] == flat
        if not ok:
            run.find("flat_format:GeneralizedfSim", "flat-list round trip through GeneralizedfSim is not the identity", {"set": flat, "got": str(back)})
    except Exception as e:
        run.find("flat_format:GeneralizedfSim", f"set_parameters(flat list) with a GeneralizedfSim gate raises {type(e).__name__}: {e}",
                 {"circuit": "GeneralizedfSim(0,1,eye(2),0.25); RX(0,0.5)", "flat": flat})
    # (2) parameter_shift with a non-trainable gate of another class before the target
    H = hamiltonians.Hamiltonian(1, np.array([[1.0, 0.0], [0.0, -1.0]]))
    c = Circuit(1)
    c.add(gates.U3(0, 0.1, 0.2, 0.3, trainable=False))
    c.add(gates.RY(0, 0.9))
    run.case(["probe", "psr_nontrainable_before"])
    try:
        got = parameter_shift(c, H, 0)
        U = np.asarray(gates.U3(0, 0.1, 0.2, 0.3).matrix())
        def f(t):
            v = np.asarray(gates.RY(0, t).matrix()) @ U @ np.array([1, 0])
            return float(np.real(np.conj(v) @ np.diag([1, -1]) @ v))
        want = 0.5 * (f(0.9 + np.pi / 2) - f(0.9 - np.pi / 2))
        if abs(got - want) > 1e-9:
            run.find("parameter_shift:nontrainable_before", "wrong derivative", {"got": got, "want": want})
    except Exception as e:
        run.find("parameter_shift:nontrainable_before",
                 f"parameter_shift(index 0 = the only trainable parameter) raises {type(e).__name__}: {e} -- the index is looked up in "
                 "parametrized_gates (all gates) but applied to get_parameters() (trainable gates only)",
                 {"circuit": "U3(0,.1,.2,.3,trainable=False); RY(0,.9)", "parameter_index": 0})
    # (3) parameter_shift in a circuit of mixed arity
    c = Circuit(2)
    c.add(gates.fSim(0, 1, 0.1, 0.2, trainable=False))
    c.add(gates.RX(1, 0.3))
    c.add(gates.fSim(0, 1, 0.1, 0.2))
    c.add(gates.RY(0, 0.9))
    H2 = hamiltonians.Hamiltonian(2, np.diag([1.0, -1.0, 1.0, -1.0]))
    run.case(["probe", "psr_mixed_arity"])
    errs = []
    for idx in range(4):
        try:
            parameter_shift(c, H2, idx)
        except Exception as e:
            errs.append(f"{idx}: {type(e).__name__}")
    if len(errs) == 4:
        run.find("parameter_shift:mixed_arity", "no parameter_index lets parameter_shift differentiate w.r.t. the RY angle of "
                 "[fSim(fixed), RX, fSim, RY]: " + "; ".join(errs), {"errors": errs})


RULE = ("representations: 20 fixed + random circuits of 3-6 gates (Unitary 1q/2q, GeneralizedfSim, RX, fixed RY/Unitary, H, CNOT) whose matrices "
        "are constructed and updated (1-3 steps; gate setter / list / dict / flat list / flat array; on the circuit, its inverse, deep copy, copy, "
        "fused circuit) in dtype int64/float32/float64/complex64/complex128 x layout C/F/transposed view/strided/read-only/nested list, "
        "construction and update independent; read-back, operator, derived views, flat round trips (also of the inverse), stored layout vs "
        "C06/Layout.flat_read, inputs unmodified; derived circuits: 24 fixed + random sequences of 1-4 operations (invert, +, copy, on_qubits, fuse) over sources of 2-7 gates "
        "(22 parametrised classes, Unitary, fixed gates, generic controls, trainable=False, updated) x 4 formats, exact vs C06/Derived.deval "
        "and C06/Params; bookkeeping: random circuits of 12 gate kinds (1/2/3/matrix parameters, trainable and fixed interleaved) x 4 input formats, "
        "integer values, compared exactly with the Coq model; views: 8 derived views after an update vs a freshly built circuit; "
        "parameter shift: general theorem (static) + per claimed class the traced matrix is proved to be cos(r th) I - i sin(r th) G; "
        "16 bilinear monomials x {RX,RY,RZ} as Coq derivative obligations; real parameter_shift vs shift formula and vs analytic derivative "
        "(deep circuits, scale_factor, random states/observables; tolerance tests); distinct = distinct (format, gate list, values)")


def main(run):
    rng = random.Random(run.seed)
    run.trusted += ["Coq 8.16.1 kernel, vm_compute", "C06/Params.v model of set/get_parameters (hand-written, tied by exact correspondence)",
                    "Base/TrigDeriv.v (is_derive of TrigNF polynomials; Coquelicot)", "lib/symtrace.py tracer"]
    run.assumptions += ["exact real arithmetic (Coq/Coquelicot reals) for the shift rule"]
    run.trusted += ["C06/ShiftRule.v definitions (rot, circuit_state, expect, psr_value) read against derivative.py; Base/TrigMat.v (mcheck_eq_sound)"]
    for t in vcore.props_theorems("C06/Props.v"):
        run.oblige(t, True, "static-theorem")
    ok, pa = vcore.static_assumptions("C06/Props")
    run.notes["print_assumptions"] = pa
    q = run.tier == "quick"
    bookkeeping(run, rng, 150 if q else 1500)
    views(run, rng, 120 if q else 1500)
    independence(run, random.Random(run.seed + 77), 80 if q else 800)
    derived(run, random.Random(run.seed + 606), 220 if q else 2200)
    c06_repr.stream(run, random.Random(run.seed + 616), 170 if q else 1700)
    shift_obligations(run, rng)
    shift_general(run, random.Random(run.seed + 5))
    shift_implementation(run, rng, 25 if q else 300)
    shift_true_derivative(run, random.Random(run.seed + 6), 40 if q else 600)
    shift_outside_family(run, rng)
    probes(run, rng)
    run.not_proved += ["finite_differences (an approximation by definition) and the shot-based branch (nshots) of parameter_shift are not modelled",
                       "the shift rule is proved in exact real arithmetic for the mathematical function f (C06/PropsShift.v: all dimensions, states, "
                       "observables, circuits, scale factors); that the real parameter_shift evaluates r*(f(th+s)-f(th-s))*scale_factor with these "
                       "f, r, s is a tolerance test (float execution), and that circuit execution is the matrix-vector product used in the theorem "
                       "is C01's statement",
                       "parameter_shift accepts only RX, RY, RZ (generator_eigenvalue raises NotImplementedError for every other class, checked "
                       "per run); nothing is claimed for other gates; RX/RY/RZ objects made with controlled_by(two or more controls) keep the "
                       "class but are controlled operators (cembed, not embed): the rule is refuted for them "
                       "(controlled_rotation_shift_rule_refuted); parameter_shift rejects them since /repo 227cda208, re-checked per run "
                       "(a wrong derivative is reported as parameter_shift:multi_controlled:*)",
                       "derived circuits: the `trainable` flag toggled on a gate object after construction is followed through add / copy / + / "
                       "invert / fuse only; on_qubits (and light_cone, serialisation) re-create gates from constructor arguments and are "
                       "exercised with constructor-given flags; exposure of FusedGate members after re-adding a fused queue (copy, +, invert "
                       "of a fused circuit expose only un-fused gates) is modelled as the code does it, not judged",
                       "density-matrix circuits / noise channels: the theorem is stated for state vectors (pure states); mixed states follow by "
                       "linearity of the derivative in the ensemble, which is not formalised"]
    return run.finish(rule=RULE)


def replay(run, data):
    rng = random.Random(data.get("seed", 0))
    rp = data["replay"]
    if "repr" in rp:
        probs = c06_repr.replay_case(run, rp["repr"])
        for k, w in probs:
            print("replay:", k, w)
        if probs:
            run.find(data["key"], probs[0][1], rp)
        return run.finish(rule="replay of one recorded representation history")
    if "derived" in rp:
        r = c06_derived.run_case(rp["derived"])
        probs = [r["problem"]] if "problem" in r else list(r["problems"])
        if "shape" in r:
            v = run.coq_eval("C06_derived_replay.v", c06_derived.HEADER, [r["dshow"]])
            model = c06_derived.parse(v[0]) if v else None
            if model is not None:
                mq, mp = [(b, [tuple(x) for x in ms]) for b, ms in model[0]], [tuple(x) for x in model[1]]
                if (mq, mp) != tuple(r["shape"]):
                    probs.append(("bookkeeping", f"real exposed list {r['shape'][1]} model {mp}"))
        for k, w in probs:
            print("replay:", k, w)
        if probs:
            run.find(data["key"], probs[0][1], rp)
        return run.finish(rule="replay of one recorded derived-circuit case")
    if "view" in rp:
        print("replay: re-run `bin/check C06` with VERIF_SEED=%s to regenerate this case" % data.get("seed"))
    return main(run)
