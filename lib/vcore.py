"""Common machinery of all checks: Coq driving, evidence, findings, replay files."""
import hashlib
import json
import os
import re
import subprocess
import sys
import time

VERIF = os.path.dirname(os.path.dirname(os.path.abspath(__file__)))
COQ = os.path.join(VERIF, "coq")
THEORIES = os.path.join(COQ, "theories")
BUILD = os.path.join(VERIF, "_build")
REPO = os.environ.get("QIBO_REPO", "/repo")
COQ_WARN = "-notation-overridden,-deprecated-hint-without-locality,-deprecated-instance-without-locality"


def sh(cmd, timeout=600, cwd=None, env=None):
    try:
        p = subprocess.run(cmd, shell=isinstance(cmd, str), cwd=cwd, env=env, timeout=timeout,
                           stdout=subprocess.PIPE, stderr=subprocess.STDOUT, text=True)
        return p.returncode, p.stdout
    except subprocess.TimeoutExpired as e:
        out = e.stdout if isinstance(e.stdout, str) else (e.stdout or b"").decode("utf8", "replace")
        return 124, out + "\nTIMEOUT"


def _coqproject_text():
    files = []
    for root, _, fs in os.walk(THEORIES):
        for f in fs:
            if f.endswith(".v"):
                files.append(os.path.relpath(os.path.join(root, f), COQ))
    files.sort()
    return ("-Q theories QV\n-arg -w -arg " + COQ_WARN + "\n" + "\n".join(files) + "\n")


def ensure_static_build(targets=None, keep_going=False):
    """(re)build the static Coq development (or only the given theories, e.g. ["Base/TrigMat"])
    if any .vo is missing or stale.  Serialised by a file lock so concurrent checks do not race."""
    import fcntl
    with open(os.path.join(COQ, ".lock"), "w") as lk:
        fcntl.flock(lk, fcntl.LOCK_EX)
        txt = _coqproject_text()
        cp = os.path.join(COQ, "_CoqProject")
        old = open(cp).read() if os.path.exists(cp) else ""
        if old != txt or not os.path.exists(os.path.join(COQ, "Makefile")):
            with open(cp, "w") as f:
                f.write(txt)
            rc, out = sh("coq_makefile -f _CoqProject -o Makefile", cwd=COQ)
            if rc:
                raise RuntimeError("coq_makefile failed:\n" + out)
        tg = " ".join(f"theories/{t}.vo" for t in targets) if targets else ""
        # every single file is compiled under its own time limit so that a diverging proof in one
        # theory can neither hang a check nor hold the build lock
        per_file = int(os.environ.get("VERIF_COQC_TIMEOUT", "900"))
        rc, out = sh(f"timeout 3000 make {'-k ' if keep_going else ''}-j16 COQC='timeout {per_file} coqc' {tg}", cwd=COQ, timeout=3100)
        if rc and not keep_going:
            raise RuntimeError("static Coq build failed:\n" + out[-4000:])
        return rc, out


def coqc(path, timeout=600, extra_q=()):
    """compile one generated file; returns (ok, output)"""
    d = os.path.dirname(path)
    qs = f"-Q {THEORIES} QV -Q {d} Gen"
    for (dd, name) in extra_q:
        qs += f" -Q {dd} {name}"
    cmd = f"timeout {timeout} coqc -w {COQ_WARN} {qs} {path}"
    rc, out = sh(cmd, timeout=timeout + 10, cwd=d)
    return rc == 0, out


def parse_bools(out):
    return [t == "true" for t in re.findall(r"\b(true|false)\b", out)]


class Finding:
    def __init__(self, key, what, replay=None, concrete=True):
        self.key = key          # stable identifier of the failing input / call site
        self.what = what
        self.replay = replay or {}
        self.concrete = concrete  # False: no failing input found


class Run:
    def __init__(self, prop, tier="quick", seed=0):
        self.prop = prop
        self.tier = tier
        self.seed = seed
        self.t0 = time.time()
        # VERIF_BUILD_TAG isolates concurrent runs of the same check (own build dir, own evidence file)
        self.tag = os.environ.get("VERIF_BUILD_TAG", "")
        self.dir = os.path.join(BUILD, prop + (f"-{self.tag}" if self.tag else ""))
        os.makedirs(self.dir, exist_ok=True)
        os.makedirs(os.path.join(BUILD, "replay"), exist_ok=True)
        self.obligations = []      # (name, discharged:bool, kind)
        self.refuted = []          # names of statements refuted on the current tree (known findings)
        self.findings = []
        self.samples = []
        self.evals = 0
        self.distinct = set()
        self.checker_cmds = []
        self.trusted = []
        self.assumptions = []
        self.notes = {}
        self.axioms = set()
        self.not_proved = []
        self.replay_mode = False   # --replay runs write evidence/<id>.replay.json, never the check's evidence file

    # ---------- bookkeeping
    def oblige(self, name, ok, kind="theorem"):
        self.obligations.append((name, bool(ok), kind))

    def case(self, canon, nontrivial=True):
        """count one correspondence case; canon is any json-able canonical form"""
        self.evals += 1
        if nontrivial:
            self.distinct.add(hashlib.sha1(json.dumps(canon, sort_keys=True, default=str).encode()).hexdigest())

    def sample(self, s):
        if len(self.samples) < 8:
            self.samples.append(s)

    def find(self, key, what, replay=None, concrete=True):
        self.findings.append(Finding(key, what, replay, concrete))

    # ---------- Coq helpers
    def write(self, name, text):
        p = os.path.join(self.dir, name)
        with open(p, "w") as f:
            f.write(text)
        return p

    def coq_bools(self, name, header, items, timeout=600):
        """items: list of (label, coq bool term). One vm_compute; returns {label: bool}
        (None for all if the file does not compile)."""
        body = header + "\nDefinition results : list bool := [\n  " + ";\n  ".join(t for _, t in items) + "].\n"
        body += "Eval vm_compute in results.\n"
        p = self.write(name, body)
        ok, out = coqc(p, timeout)
        self.checker_cmds.append(f"coqc {os.path.relpath(p, VERIF)}")
        if not ok:
            self.notes.setdefault("coq_errors", []).append({"file": name, "log": out[-1500:]})
            return None, out
        bs = parse_bools(out.split("=", 1)[1] if "=" in out else out)
        if len(bs) != len(items):
            self.notes.setdefault("coq_errors", []).append({"file": name, "log": "bool count mismatch " + out[-500:]})
            return None, out
        return {lab: b for (lab, _), b in zip(items, bs)}, out

    def prove_bools(self, name, header, items, timeout=1500, kind="theorem"):
        """items: [(label, closed boolean Coq term)].  First tries to compile ALL of them as theorems
        `ok_<label> : <term> = true` (kernel-checked, Print Assumptions under each).  If that file does
        not compile, one vm_compute triages them and the theorem file is rebuilt with the true ones.
        Obliges every proved label; returns ({label: bool}, triage_ok)."""
        if not items:
            return {}, True
        thms = [(f"ok_{n}", f"{t} = true", "vm_compute; reflexivity.") for n, t in items]
        ok, out = self.coq_theorems(name + "_theorems.v", header, thms, timeout=timeout)
        if ok:
            for n, _ in items:
                self.oblige(n, True, kind)
            return {n: True for n, _ in items}, True
        self.notes.get("coq_errors", []) and self.notes["coq_errors"].pop()
        res, out = self.coq_bools(name + "_triage.v", header, items, timeout=timeout)
        if res is None:
            return None, False
        good = [(n, t) for n, t in items if res[n]]
        if good:
            thms = [(f"ok_{n}", f"{t} = true", "vm_compute; reflexivity.") for n, t in good]
            ok2, out2 = self.coq_theorems(name + "_theorems.v", header, thms, timeout=timeout)
            for n, _ in good:
                self.oblige(n, ok2, kind)
            if not ok2:
                self.find("coq:" + name + "_theorems", "theorem file does not compile", {"log": out2[-1500:]}, concrete=False)
        return res, True

    def coq_eval(self, name, header, exprs, timeout=600):
        """evaluate Coq terms with vm_compute, one `Eval` per term; returns the list of printed
        values as strings (whitespace-normalised), or None if the file does not compile."""
        body = header + "\n" + "".join(f"Eval vm_compute in ({e}).\n" for e in exprs)
        p = self.write(name, body)
        ok, out = coqc(p, timeout)
        self.checker_cmds.append(f"coqc {os.path.relpath(p, VERIF)}")
        if not ok:
            self.notes.setdefault("coq_errors", []).append({"file": name, "log": out[-1500:]})
            return None
        vals = re.findall(r"^\s*= (.*?)\n\s*: ", out, re.S | re.M)
        vals = [" ".join(v.split()) for v in vals]
        if len(vals) != len(exprs):
            self.notes.setdefault("coq_errors", []).append({"file": name, "log": "value count mismatch"})
            return None
        return vals

    def coq_theorems(self, name, header, thms, timeout=900):
        """thms: list of (thm_name, statement, proof). Compiles them in one file with
        Print Assumptions under each; returns (ok, out). Collects axioms."""
        body = header + "\n"
        for (n, st, pr) in thms:
            body += f"Theorem {n} : {st}.\nProof. {pr} Qed.\nPrint Assumptions {n}.\n\n"
        p = self.write(name, body)
        ok, out = coqc(p, timeout)
        self.checker_cmds.append(f"coqc {os.path.relpath(p, VERIF)}")
        if ok:
            for m in re.finditer(r"^([A-Za-z_][\w.]*)\s*:", out, re.M):
                self.axioms.add(m.group(1))
        else:
            self.notes.setdefault("coq_errors", []).append({"file": name, "log": out[-1500:]})
        return ok, out

    # ---------- finishing
    def known(self):
        """open findings for this property: known_findings.json plus fragments known_findings.d/*.json"""
        import glob
        files = [os.path.join(VERIF, "known_findings.json")] + sorted(glob.glob(os.path.join(VERIF, "known_findings.d", "*.json")))
        out = []
        for fn in files:
            try:
                kf = json.load(open(fn))
            except FileNotFoundError:
                continue
            out += [e for e in kf.get("findings", []) if e.get("property") == self.prop and e.get("status") == "open"]
        return out

    @staticmethod
    def match_known(known, key):
        import fnmatch
        for e in known:
            if fnmatch.fnmatchcase(key, e["key"]):
                return e
        return None

    def finish(self, level="proof", rule="", extra_cov=None):
        known = self.known()
        lines = []
        violations = 0
        reported = set()
        for f in self.findings:
            e = self.match_known(known, f.key) if f.concrete else None
            if e is not None:
                if e["key"] not in reported:
                    reported.add(e["key"])
                    lines.append(f"KNOWN-FINDING: property={self.prop} {e['key']}: {e.get('what', f.what)}")
                continue
            violations += 1
            rp = os.path.join(BUILD, "replay", f"{self.prop}-{re.sub(r'[^A-Za-z0-9_.-]+', '_', f.key)[:80]}.json")
            with open(rp, "w") as fh:
                json.dump({"property": self.prop, "key": f.key, "what": f.what, "seed": self.seed,
                           "tier": self.tier, "concrete_failing_input": f.concrete, "replay": f.replay}, fh, indent=1, default=str)
            tail = "" if f.concrete else " no-failing-input-found"
            lines.append(f"VIOLATION property={self.prop} replay={rp}{tail}")
        n_ob = len(self.obligations)
        n_ok = sum(1 for _, ok, _ in self.obligations if ok)
        cov = {
            "obligations": n_ob,
            "discharged": n_ok,
            "undischarged": [n for n, ok, _ in self.obligations if not ok][:50],
            "checker_cmd": " ; ".join(dict.fromkeys(self.checker_cmds))[:4000] or "none",
            "trusted_base": self.trusted + ["axioms reported by Print Assumptions this run: " + (", ".join(sorted(self.axioms)) or "none (closed under the global context)")],
            "evaluations": self.evals,
            "distinct_nontrivial": len(self.distinct),
            "rule": rule,
            "samples": self.samples or ["(no correspondence cases in this run)"],
            "refuted_on_current_tree": self.refuted,
            "not_proved": self.not_proved,
            "known_findings_reproduced": [l for l in lines if l.startswith("KNOWN")],
        }
        cov.update(self.notes)
        if extra_cov:
            cov.update(extra_cov)
        ev = {"property_id": self.prop, "tier": self.tier, "seed": self.seed, "level": level,
              "coverage": cov, "assumptions": self.assumptions, "wall_s": round(time.time() - self.t0, 2),
              "violations": violations}
        os.makedirs(os.path.join(VERIF, "evidence"), exist_ok=True)
        evname = f"{self.prop}.replay.json" if self.replay_mode else (f"{self.prop}.{self.tag}.json" if self.tag else f"{self.prop}.json")
        with open(os.path.join(VERIF, "evidence", evname), "w") as fh:
            json.dump(ev, fh, indent=1, default=str)
        for l in lines:
            print(l)
        print(f"[{self.prop}] tier={self.tier} obligations={n_ob} discharged={n_ok} cases={self.evals} "
              f"distinct={len(self.distinct)} findings={len(self.findings)} violations={violations} "
              f"wall={ev['wall_s']}s")
        return 1 if violations else 0


def props_theorems(relpath):
    """names of the Theorems stated in a static Props file (relative to coq/theories)"""
    txt = open(os.path.join(THEORIES, relpath)).read()
    return re.findall(r"^\s*Theorem\s+([A-Za-z_][\w']*)", txt, re.M)


def static_assumptions(theory, timeout=600):
    """compile a tiny file that re-prints `Print Assumptions` for every Theorem of a static Props
    theory (e.g. "C07/Props"); returns {theorem: text}."""
    names = props_theorems(theory + ".v")
    mod = "QV." + theory.replace("/", ".")
    d = os.path.join(BUILD, "assumptions")
    os.makedirs(d, exist_ok=True)
    p = os.path.join(d, theory.replace("/", "_") + "_pa.v")
    with open(p, "w") as f:
        f.write(f"Require Import {mod}.\n" + "".join(f'Print Assumptions {n}.\n' for n in names))
    ok, out = coqc(p, timeout)
    res = {}
    if ok:
        chunks = re.split(r"(?=^(?:Closed under the global context|Axioms:))", out, flags=re.M)
        chunks = [c.strip() for c in chunks if c.strip()]
        for n, c in zip(names, chunks):
            res[n] = " ".join(c.split())
    return ok, res


def strip_coq_comments(txt):
    out, depth, i = [], 0, 0
    while i < len(txt):
        if txt.startswith("(*", i):
            depth += 1
            i += 2
        elif txt.startswith("*)", i) and depth:
            depth -= 1
            i += 2
        else:
            if depth == 0:
                out.append(txt[i])
            elif txt[i] == "\n":
                out.append("\n")
            i += 1
    return "".join(out)


FORBIDDEN = re.compile(r"\b(Admitted|admit|Axiom|Axioms|Parameter|Parameters|Conjecture|Admit\s+Obligations)\b"
                       r"|Unset\s+Guard|bypass_check|type-in-type|impredicative-set|Unset\s+Universe|Unset\s+Positivity")


def scan_forbidden():
    """[(file, line, text)] of forbidden constructs in coq/theories (comments and strings ignored);
    Variable/Hypothesis outside a Section are also reported."""
    hits = []
    for root, _, fs in os.walk(THEORIES):
        for f in fs:
            if not f.endswith(".v"):
                continue
            p = os.path.join(root, f)
            txt = strip_coq_comments(open(p).read())
            depth = 0
            for ln, line in enumerate(txt.split("\n"), 1):
                if re.match(r"\s*(Section|Module)\s+\w+", line) and ":=" not in line:
                    depth += 1
                elif re.match(r"\s*End\s+\w+\s*\.", line):
                    depth = max(0, depth - 1)
                m = FORBIDDEN.search(line)
                if m:
                    hits.append((os.path.relpath(p, VERIF), ln, line.strip()[:120]))
                if depth == 0 and re.match(r"\s*(Variable|Variables|Hypothesis|Hypotheses|Context)\b", line):
                    hits.append((os.path.relpath(p, VERIF), ln, "outside a Section: " + line.strip()[:100]))
    return hits


def coqchk(theories, timeout=1500):
    """independent re-check (coqchk -o) of compiled static theories, e.g. ["C06/Props"]; returns
    (ok, summary text with the axiom list)."""
    mods = " ".join("QV." + t.replace("/", ".") for t in theories)
    rc, out = sh(f"timeout {timeout} coqchk -silent -o -Q theories QV {mods}", cwd=COQ, timeout=timeout + 20)
    i = out.find("CONTEXT SUMMARY")
    return rc == 0, " ".join((out[i:] if i >= 0 else out[-1500:]).split())[:3000]
