"""Shared driver for table-style obligations: 'this gate list equals that operator
(exactly / up to a global phase) for all parameter values'."""
import math
import random

import numpy as np

from . import qtrace, symtrace as st
from .symtrace import TraceError

HEADER = qtrace.COQ_HEADER


class Item:
    """builder(params) -> (lhs_gates, rhs_gates, n).  Both sides are gate lists (first applied first)."""

    def __init__(self, name, key, nparams, builder, mode="phase", witness=None, meta=None, domain=(0.05, 1.5)):
        self.name, self.key, self.nparams, self.builder = name, key, nparams, builder
        self.mode, self.witness, self.meta, self.domain = mode, witness, meta or {}, domain


def side_coq(gs, n):
    if len(gs) == 1:
        return qtrace.op_coq(gs[0], n)
    return qtrace.circ_coq(gs, n)


def run_items(run, items, fname, rng, trials=10, tol=1e-8):
    """trace, triage with one vm_compute, prove the passing ones as theorems, search failing inputs."""
    terms, meta, pending = [], {}, []
    with qtrace.patched():
        qtrace.fresh_sym_backend()
        for it in items:
            try:
                params = qtrace.setup_vars(it.nparams, it.witness)
                lhs, rhs, n = it.builder(params)
                chk = "mcheck_phase" if it.mode == "phase" else "mcheck_eq"
                terms.append((it.name, f"{chk} {side_coq(lhs, n)} {side_coq(rhs, n)}"))
                meta[it.name] = it
                run.case([it.key, it.meta])
                run.sample({"obligation": it.name, **it.meta, "gates": [type(g).__name__ for g in lhs][:12]})
            except TraceError as e:
                pending.append((it, "trace", e))
            except Exception as e:
                pending.append((it, "raise", e))
    # numeric fall-backs run outside the patched context (real numpy / math)
    for it, kind, e in pending:
        w = numeric_search(it, rng, trials, tol=1e-6 if kind == "raise" else tol)
        if kind == "trace":
            if w:
                run.refuted.append(it.name)
                run.find(it.key, f"{it.name}: implementation contradicts the expected operator", {**it.meta, **w})
            else:
                run.oblige(it.name, False, "untranslatable")
                run.find("trace:" + it.key, f"symbolic tracing failed: {e}", it.meta, concrete=False)
        elif w and "magic basis" in str(w.get("error", "")):
            # numerical KAK path: input-dependent refusal of magic_decomposition (a defect class of its own)
            run.refuted.append(it.name)
            run.find("kak_magic_basis:" + str(it.meta.get("class", it.key)),
                     f"{it.name}: the numerical two-qubit synthesis raises {w['error']}", {**it.meta, **w})
        elif w:
            run.refuted.append(it.name)
            run.find(("raises:" if "error" in w else "") + it.key,
                     f"{it.name}: " + (w.get("error") or "implementation contradicts the expected operator"),
                     {**it.meta, **w})
        else:
            # symbolic execution left the traced fragment through a numeric routine (numerical KAK path)
            run.not_proved.append(f"{it.name}: numeric path ({type(e).__name__}); tolerance test only, passed")
    # The theorems are about the path the SYMBOLIC execution took.  Tie it to the path floats take
    # (type- or value-dependent branches: `isinstance(theta, float) and abs(sin(theta/2)) < tol`): the real
    # float execution must give the expected operator at special values (multiples of pi/4 ...) and at
    # random points.  Test level; a failure is a concrete input.
    swept = 0
    for name_, it in meta.items():
        w = numeric_search(it, rng, 2, tol, sweep=True)
        swept += 1
        if w:
            run.refuted.append("float_path_" + name_)
            run.find(it.key, f"{name_}: float execution contradicts the expected operator"
                     + (f" ({w['error']})" if "error" in w else ""), {**it.meta, **w})
    run.notes.setdefault("float_path_sweeps", 0)
    run.notes["float_path_sweeps"] += swept
    if not terms:
        return
    res, okc = run.prove_bools(fname, HEADER, terms, timeout=1500)
    if res is None:
        run.find("coq:" + fname, "generated obligations do not compile", concrete=False)
        return
    bad = [(n_, t) for n_, t in terms if not res[n_]]
    seen = set()
    for n_, _ in bad:
        it = meta[n_]
        if it.key in seen:
            continue
        seen.add(it.key)
        w = numeric_search(it, rng, trials, tol)
        if w is None:
            run.oblige(n_, False)
            run.find("unproved:" + it.key, f"obligation {n_} no longer checks", {"obligation": n_, **it.meta}, concrete=False)
        else:
            run.refuted.append(n_)
            run.find(it.key, f"{n_}: implementation contradicts the expected operator", {**it.meta, **w})


SPECIAL = [0.0, math.pi, -math.pi, math.pi / 2, -math.pi / 2, 2 * math.pi, math.pi / 4, 3 * math.pi / 2, 1.0]


def candidate_values(it, rng, trials):
    """special parameter values first (multiples of pi/4 expose wrong special cases), then random ones"""
    k = it.nparams
    out = []
    if k:
        for j in range(k):
            for sp in SPECIAL:
                v = [round(rng.uniform(*it.domain), 3) for _ in range(k)]
                v[j] = sp
                out.append(v)
        for sp in SPECIAL:
            out.append([sp] * k)
    for _ in range(trials):
        out.append([round(rng.uniform(*it.domain), 3) for _ in range(k)])
    return out


def valid_params(it, vals):
    """constructor domain restrictions of the catalogue classes (MS: 0 <= theta <= pi/2)"""
    if it.meta.get("class") == "MS" and len(vals) == 3:
        return 0.0 <= vals[2] <= math.pi / 2
    return True


def numeric_search(it, rng, trials=10, tol=1e-8, sweep=False):
    for vals in candidate_values(it, rng, trials):
        if not valid_params(it, vals):
            continue
        try:
            lhs, rhs, n = it.builder(vals)
            A = qtrace.full_unitary(lhs, n)
            B = qtrace.full_unitary(rhs, n)
        except Exception as e:
            return {"params": vals, "error": f"{type(e).__name__}: {e}"}
        d = qtrace.phase_distance(A, B) if it.mode == "phase" else float(np.abs(A - B).max())
        if d > tol:
            return {"params": vals, "distance": d}
        if it.nparams == 0:
            break
    return None
