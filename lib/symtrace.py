"""Symbolic tracer: runs qibo's *real* matrix / decomposition code on symbolic
numbers and emits Coq `expr` / `aff` text for Base/TrigNF.v.

Fail-closed: any operation outside the supported fragment raises TraceError.

A symbolic value is either
  Lin  : complex-rational affine form  c + cpi*pi + sum_j c_j*theta_j
  Tree : complex expression (Coq text + numeric evaluator)
"""
from fractions import Fraction
import cmath
import math as _math
import numbers

import numpy as _np


class TraceError(Exception):
    pass


def _frac(x):
    if isinstance(x, Fraction):
        return x
    if isinstance(x, bool):
        raise TraceError("bool used as number")
    if isinstance(x, (int, _np.integer)):
        return Fraction(int(x))
    if isinstance(x, (float, _np.floating)):
        if x != x or x in (float("inf"), float("-inf")):
            raise TraceError("non-finite float")
        return Fraction(float(x))
    raise TraceError(f"not a real number: {x!r}")


class CQ:
    """complex rational"""
    __slots__ = ("re", "im")

    def __init__(self, re=0, im=0):
        self.re = _frac(re)
        self.im = _frac(im)

    @staticmethod
    def of(x):
        if isinstance(x, CQ):
            return x
        if isinstance(x, (complex, _np.complexfloating)):
            return CQ(x.real, x.imag)
        return CQ(x, 0)

    def __add__(self, o):
        return CQ(self.re + o.re, self.im + o.im)

    def __mul__(self, o):
        return CQ(self.re * o.re - self.im * o.im, self.re * o.im + self.im * o.re)

    def __neg__(self):
        return CQ(-self.re, -self.im)

    def conj(self):
        return CQ(self.re, -self.im)

    def inv(self):
        d = self.re * self.re + self.im * self.im
        if d == 0:
            raise TraceError("division by zero")
        return CQ(self.re / d, -self.im / d)

    def is_zero(self):
        return self.re == 0 and self.im == 0

    def is_real(self):
        return self.im == 0

    def is_imag(self):
        return self.re == 0

    def num(self):
        return complex(float(self.re), float(self.im))


def qlit(fr):
    fr = Fraction(fr)
    n, d = fr.numerator, fr.denominator
    return f"(({n}) # {d})" if n < 0 else f"({n} # {d})"


def is_number(x):
    return isinstance(x, (numbers.Number, _np.number)) and not isinstance(x, bool)


WITNESS = {}   # j -> float: sample valuation used to decide comparisons on symbolic values
PATH = []      # log of comparisons decided through the witness (path conditions)


def _cmp(a, b, op, name):
    a, b = lift(a), lift(b)
    if not (isinstance(a, Lin) and isinstance(b, Lin)):
        raise TraceError(f"{name} on a symbolic expression")
    if a.is_const() and b.is_const():
        return op(a.c.num().real, b.c.num().real)
    vals = [WITNESS.get(j) for j in set(a.coefs) | set(b.coefs)]
    if any(v is None for v in vals):
        raise TraceError(f"{name} on a symbolic value without witness")
    r = op(a.num(WITNESS).real, b.num(WITNESS).real)
    PATH.append((name, r))
    return r


class Sym:
    __array_priority__ = 1000
    __array_ufunc__ = None
    __hash__ = None

    def __bool__(self):
        raise TraceError("symbolic value used in a condition")

    def __float__(self):
        raise TraceError("float() of a symbolic value")

    def __complex__(self):
        raise TraceError("complex() of a symbolic value")

    def __int__(self):
        raise TraceError("int() of a symbolic value")

    def __eq__(self, other):
        if other is None or isinstance(other, str):
            return False
        return _cmp(self, other, lambda x, y: abs(x - y) < 1e-12, "==")

    def __ne__(self, other):
        if other is None or isinstance(other, str):
            return True
        return _cmp(self, other, lambda x, y: abs(x - y) >= 1e-12, "!=")

    def __lt__(self, other):
        return _cmp(self, other, lambda x, y: x < y, "<")

    def __le__(self, other):
        return _cmp(self, other, lambda x, y: x <= y, "<=")

    def __gt__(self, other):
        return _cmp(self, other, lambda x, y: x > y, ">")

    def __ge__(self, other):
        return _cmp(self, other, lambda x, y: x >= y, ">=")

    def __mod__(self, other):
        raise TraceError("% on a symbolic value")

    def __radd__(self, o):
        if isinstance(o, _np.ndarray):
            return SymMat(o.tolist()).__add__(self)
        return self.__add__(o)

    def __rmul__(self, o):
        if isinstance(o, _np.ndarray):
            return SymMat(o.tolist()) * self
        return self.__mul__(o)

    def __sub__(self, o):
        return self + (-lift(o))

    def __rsub__(self, o):
        return lift(o) + (-self)

    def __pos__(self):
        return self

    def __rtruediv__(self, o):
        if isinstance(o, _np.ndarray):
            return SymMat(o.tolist()) / self
        return lift(o) / self

    def __pow__(self, k):
        if isinstance(k, (int, _np.integer)) and 0 <= int(k) <= 8:
            r = lift(1)
            for _ in range(int(k)):
                r = r * self
            return r
        raise TraceError("unsupported power")


class Lin(Sym):
    """c + cpi*pi + sum c_j * var_j   (complex-rational coefficients)"""

    def __init__(self, c=0, cpi=0, coefs=None):
        self.c = CQ.of(c)
        self.cpi = CQ.of(cpi)
        self.coefs = {j: CQ.of(v) for j, v in (coefs or {}).items() if not CQ.of(v).is_zero()}

    def is_const(self):
        return self.cpi.is_zero() and not self.coefs

    def scale(self, k):
        k = CQ.of(k)
        return Lin(self.c * k, self.cpi * k, {j: v * k for j, v in self.coefs.items()})

    def __add__(self, o):
        if isinstance(o, SymMat):
            return NotImplemented
        o = lift(o)
        if isinstance(o, Lin):
            co = dict(self.coefs)
            for j, v in o.coefs.items():
                co[j] = co.get(j, CQ()) + v
            return Lin(self.c + o.c, self.cpi + o.cpi, co)
        return self.tree() + o

    def __neg__(self):
        return self.scale(-1)

    def __mul__(self, o):
        if isinstance(o, SymMat):
            return NotImplemented
        o = lift(o)
        if isinstance(o, Lin):
            if self.is_const():
                return o.scale(self.c)
            if o.is_const():
                return self.scale(o.c)
            raise TraceError("product of two non-constant angle forms")
        return self.tree() * o

    def __truediv__(self, o):
        o = lift(o)
        if isinstance(o, Lin) and o.is_const():
            return self.scale(o.c.inv())
        if isinstance(o, Tree):
            return self.tree() / o
        raise TraceError("division by a non-constant")

    def conj(self):
        return Lin(self.c.conj(), self.cpi.conj(), {j: v.conj() for j, v in self.coefs.items()})

    # --- views
    def real_affine(self):
        """(cpi, {j:c}) as Fractions; requires real coefficients and zero constant."""
        if not self.c.is_zero():
            raise TraceError("angle with a constant that is not a multiple of pi")
        if not self.cpi.is_real() or any(not v.is_real() for v in self.coefs.values()):
            raise TraceError("angle with complex coefficients")
        return self.cpi.re, {j: v.re for j, v in self.coefs.items()}

    def imag_affine(self):
        """for exp(i*a): returns a (real affine)"""
        if not self.c.is_zero():
            raise TraceError("exp of a constant that is not i*multiple of pi")
        if not self.cpi.is_imag() or any(not v.is_imag() for v in self.coefs.values()):
            raise TraceError("exp of a form that is not purely imaginary")
        return self.cpi.im, {j: v.im for j, v in self.coefs.items()}

    def tree(self):
        if not self.is_const():
            raise TraceError("angle form used as a complex value")
        return const_tree(self.c)

    def num(self, vals):
        return self.c.num() + self.cpi.num() * _math.pi + sum(
            v.num() * vals[j] for j, v in self.coefs.items())


VARNAMES = {}  # j -> coq identifier


def aff_coq(cpi, coefs):
    items = "; ".join(f"({qlit(c)}, {VARNAMES.get(j, f'p{j}')})" for j, c in sorted(coefs.items()))
    return f"(acomb {qlit(cpi)} [{items}])"


def aff_num(cpi, coefs, vals):
    return float(cpi) * _math.pi + sum(float(c) * vals[j] for j, c in coefs.items())


class Tree(Sym):
    def __init__(self, coq, fn, zero=False, one=False):
        self.coq = coq
        self.fn = fn
        self.zero = zero
        self.one = one

    def num(self, vals):
        return self.fn(vals)

    def tree(self):
        return self

    def __add__(self, o):
        if isinstance(o, SymMat):
            return NotImplemented
        o = lift(o).tree()
        if o.zero:
            return self
        if self.zero:
            return o
        a, b = self, o
        return Tree(f"(EAdd {a.coq} {b.coq})", lambda v: a.fn(v) + b.fn(v))

    def __mul__(self, o):
        if isinstance(o, SymMat):
            return NotImplemented
        o = lift(o).tree()
        if self.zero or o.zero:
            return const_tree(CQ())
        if self.one:
            return o
        if o.one:
            return self
        a, b = self, o
        return Tree(f"(EMul {a.coq} {b.coq})", lambda v: a.fn(v) * b.fn(v))

    def __neg__(self):
        if self.zero:
            return self
        a = self
        return Tree(f"(ENeg {a.coq})", lambda v: -a.fn(v))

    def __truediv__(self, o):
        o = lift(o)
        if isinstance(o, Lin) and o.is_const():
            return self * const_tree(o.c.inv())
        if isinstance(o, Tree) and getattr(o, "is_sqrt2", False):
            return self * SQRT2 * const_tree(CQ(Fraction(1, 2)))
        raise TraceError("division by a non-constant expression")

    def conj(self):
        a = self
        return Tree(f"(EConj {a.coq})", lambda v: a.fn(v).conjugate())


def const_tree(c):
    c = CQ.of(c)
    if c.is_zero():
        return Tree("(EQ 0)", lambda v: 0j, zero=True)
    if c.is_real():
        return Tree(f"(EQ {qlit(c.re)})", lambda v: complex(float(c.re)), one=(c.re == 1))
    if c.is_imag():
        return Tree(f"(EMul EI (EQ {qlit(c.im)}))", lambda v: 1j * float(c.im))
    return Tree(f"(EAdd (EQ {qlit(c.re)}) (EMul EI (EQ {qlit(c.im)})))", lambda v: c.num())


SQRT2 = Tree("ESqrt2", lambda v: complex(_math.sqrt(2)))
SQRT2.is_sqrt2 = True
PI = Lin(0, 1, {})


def var(j):
    return Lin(0, 0, {j: 1})


def snap_pi(x):
    """a float that is (within 4 ulp) the double nearest to (p/q)*pi, q <= 64, is read as that
    exact multiple of pi; returns Fraction or None.  Small dyadic floats are never snapped."""
    x = float(x)
    if x == 0.0:
        return Fraction(0)
    fx = Fraction(x)
    if fx.denominator <= 2 ** 12:
        return None
    for q in range(1, 65):
        p = round(x * q / _math.pi)
        if p == 0:
            continue
        y = p * _math.pi / q
        if abs(y - x) <= 4 * _math.ulp(x):
            return Fraction(p, q)
    return None


def symify(x):
    """numeric gate parameter -> exact symbolic value (multiples of pi recognised)"""
    if isinstance(x, Sym):
        return x
    if isinstance(x, (float, _np.floating)):
        q = snap_pi(x)
        if q is not None:
            return Lin(0, q, {})
        return Lin(CQ.of(float(x)))
    if isinstance(x, (int, _np.integer)) and not isinstance(x, bool):
        return Lin(CQ.of(int(x)))
    return x


_INV_SQRT2 = 2 ** -0.5


def snap_real(x):
    """float -> exact symbolic real: small dyadics stay rational, +-1/sqrt(2) (within 2 ulp) is read
    as sqrt(2)/2, multiples of pi as in snap_pi; anything else keeps its exact binary value."""
    x = float(x)
    if abs(abs(x) - _INV_SQRT2) <= 2 * _math.ulp(_INV_SQRT2):
        return const_tree(CQ(Fraction(1 if x > 0 else -1, 2))) * SQRT2
    return symify(x)


def lift(x):
    if isinstance(x, Sym):
        return x
    if isinstance(x, SymMat):
        raise TraceError("matrix used as scalar")
    if isinstance(x, (float, _np.floating)):
        return snap_real(x)
    if isinstance(x, (complex, _np.complexfloating)):
        re, im = snap_real(x.real), snap_real(x.imag)
        if isinstance(re, Lin) and isinstance(im, Lin) and re.is_const() and im.is_const():
            return Lin(CQ(re.c.re, im.c.re))
        if isinstance(re, Lin) and not re.is_const() or isinstance(im, Lin) and not im.is_const():
            raise TraceError("complex constant with a pi-multiple part")
        return re.tree() + im.tree() * const_tree(CQ(0, 1))
    if is_number(x):
        return Lin(CQ.of(x))
    raise TraceError(f"cannot lift {type(x).__name__}")


def s_cos(x):
    x = lift(x)
    if isinstance(x, Lin):
        cpi, co = x.real_affine()
        return Tree(f"(ECos {aff_coq(cpi, co)})", lambda v: complex(_math.cos(aff_num(cpi, co, v))))
    raise TraceError("cos of a non-affine argument")


def s_sin(x):
    x = lift(x)
    if isinstance(x, Lin):
        cpi, co = x.real_affine()
        return Tree(f"(ESin {aff_coq(cpi, co)})", lambda v: complex(_math.sin(aff_num(cpi, co, v))))
    raise TraceError("sin of a non-affine argument")


def s_exp(x):
    x = lift(x)
    if isinstance(x, Lin):
        cpi, co = x.imag_affine()
        return Tree(f"(ECis {aff_coq(cpi, co)})", lambda v: cmath.exp(1j * aff_num(cpi, co, v)))
    raise TraceError("exp of a non-affine argument")


def s_conj(x):
    if isinstance(x, SymMat):
        return SymMat([[s_conj(e) for e in r] for r in x.rows])
    x = lift(x)
    return x.conj()


def s_sqrt(x):
    if isinstance(x, Sym):
        raise TraceError("sqrt of symbolic value")
    fx = _frac(x)
    if fx == 2:
        return SQRT2
    n, d = fx.numerator, fx.denominator
    rn, rd = _math.isqrt(n), _math.isqrt(d)
    if n >= 0 and rn * rn == n and rd * rd == d:
        return Lin(Fraction(rn, rd))
    raise TraceError(f"sqrt({x}) unsupported")


class SymMat:
    """matrix of symbolic entries (list of rows)"""

    def __init__(self, rows):
        self.rows = [[lift(e) for e in r] for r in rows]
        self.dtype = "complex128"

    @property
    def shape(self):
        return (len(self.rows), len(self.rows[0]) if self.rows else 0)

    def astype(self, *a, **k):
        return self

    def __len__(self):
        return len(self.rows)

    def __truediv__(self, o):
        return SymMat([[lift(e).tree() / o for e in r] for r in self.rows])

    def __mul__(self, o):
        return SymMat([[lift(e).tree() * o for e in r] for r in self.rows])

    __rmul__ = __mul__

    def __radd__(self, o):
        return self.__add__(o)

    def __add__(self, o):
        if isinstance(o, (SymMat, _np.ndarray)):
            o = SymMat._of(o)
            return SymMat([[lift(a).tree() + lift(b).tree() for a, b in zip(r, q)] for r, q in zip(self.rows, o.rows)])
        return SymMat([[lift(e).tree() + o for e in r] for r in self.rows])

    __array_priority__ = 2000
    __array_ufunc__ = None

    def __neg__(self):
        return SymMat([[-lift(e).tree() for e in r] for r in self.rows])

    def __sub__(self, o):
        return self + (-(o if isinstance(o, SymMat) else SymMat(_np.asarray(o).tolist())))

    @property
    def T(self):
        return SymMat([list(c) for c in zip(*self.rows)])

    def conj(self):
        return SymMat([[lift(e).conj() if isinstance(lift(e), Lin) else lift(e).tree().conj() for e in r] for r in self.rows])

    @staticmethod
    def _of(o):
        return o if isinstance(o, SymMat) else SymMat(_np.asarray(o).tolist())

    def __matmul__(self, o):
        o = SymMat._of(o)
        cols = list(zip(*o.rows))
        out = []
        for r in self.rows:
            row = []
            for c in cols:
                acc = const_tree(CQ())
                for a, b in zip(r, c):
                    acc = acc + lift(a).tree() * lift(b).tree()
                row.append(acc)
            out.append(row)
        return SymMat(out)

    def __rmatmul__(self, o):
        return SymMat._of(o) @ self

    def coq(self):
        return "[" + "; ".join("[" + "; ".join(lift(e).tree().coq for e in r) + "]" for r in self.rows) + "]"

    def num(self, vals):
        return _np.array([[lift(e).tree().num(vals) for e in r] for r in self.rows], dtype=complex)


def _contains_sym(x):
    if isinstance(x, (Sym, SymMat)):
        return True
    if isinstance(x, (list, tuple)):
        return any(_contains_sym(e) for e in x)
    return False


class FakeNp:
    """numpy proxy: symbolic-aware cos/sin/exp/conj/sqrt/array, everything else real numpy"""
    pi = PI

    def __getattr__(self, name):
        return getattr(_np, name)

    @staticmethod
    def cos(x):
        return s_cos(x) if isinstance(x, Sym) else _np.cos(x)

    @staticmethod
    def sin(x):
        return s_sin(x) if isinstance(x, Sym) else _np.sin(x)

    @staticmethod
    def exp(x):
        return s_exp(x) if isinstance(x, Sym) else _np.exp(x)

    @staticmethod
    def conj(x):
        return s_conj(x) if isinstance(x, (Sym, SymMat)) else _np.conj(x)

    @staticmethod
    def sqrt(x):
        if isinstance(x, Sym):
            raise TraceError("sqrt of symbolic")
        try:
            return s_sqrt(x)
        except TraceError:
            return _np.sqrt(x)

    @staticmethod
    def array(x, *a, **k):
        if _contains_sym(x):
            return SymMat(x)
        return _np.array(x, *a, **k)

    @staticmethod
    def asarray(x, *a, **k):
        if isinstance(x, SymMat):
            return x
        if _contains_sym(x):
            return SymMat(x)
        return _np.asarray(x, *a, **k)

    @staticmethod
    def eye(n, *a, **k):
        return SymMat([[1 if i == j else 0 for j in range(n)] for i in range(n)])


class FakeMath:
    """math / cmath proxy: everything is symbolic so that constants stay exact"""
    pi = PI

    def __getattr__(self, name):
        return getattr(_math, name)

    @staticmethod
    def cos(x):
        return s_cos(x)

    @staticmethod
    def sin(x):
        return s_sin(x)

    @staticmethod
    def exp(x):
        return s_exp(x)

    @staticmethod
    def sqrt(x):
        return s_sqrt(x)
