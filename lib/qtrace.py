"""qibo-specific symbolic tracing built on symtrace: symbolic backend, gate catalogue,
generation of Gen_Matrices.v from the code that is in /repo right now."""
import contextlib
import inspect
import sys

import numpy as np

from . import symtrace as st
from .symtrace import TraceError, Sym, SymMat, Lin, var

QUBIT_ARGS = ("q", "q0", "q1", "q2")
SKIP_CLASSES = ("Unitary", "GeneralizedRBS", "GeneralizedfSim", "Align", "I")


def mod(name):
    """the real module object (qibo re-exports shadow sub-module attributes)"""
    import importlib
    importlib.import_module(name)
    return sys.modules[name]


@contextlib.contextmanager
def patched():
    """patch math/cmath/np names inside the qibo modules whose arithmetic is traced"""
    npm = mod("qibo.backends.npmatrices")
    dec = mod("qibo.transpiler.decompositions")
    gg = mod("qibo.gates.gates")
    saved = []
    fm, fn = st.FakeMath(), st.FakeNp()
    for m_, names in ((npm, {"math": fm, "cmath": fm}), (dec, {"np": fn, "math": fm}), (gg, {"math": fm, "np": fn})):
        for k, v in names.items():
            if hasattr(m_, k):
                saved.append((m_, k, getattr(m_, k)))
                setattr(m_, k, v)
    # Unitary(SymMat, ...) : skip the numeric unitarity test (it cannot run on symbolic entries)
    U = gg.Unitary
    orig_init = U.__init__

    def init(self, unitary, *q, **kw):
        if isinstance(unitary, SymMat):
            kw["check_unitary"] = False
        return orig_init(self, unitary, *q, **kw)
    U.__init__ = init
    ud = mod("qibo.transpiler.unitary_decompositions")
    for k, v in {"np": fn}.items():
        saved.append((ud, k, getattr(ud, k)))
        setattr(ud, k, v)
    try:
        yield
    finally:
        U.__init__ = orig_init
        for m_, k, v in saved:
            setattr(m_, k, v)


_backend = None


def sym_backend():
    global _backend
    if _backend is None:
        from qibo.backends.numpy import NumpyBackend

        class SymBackend(NumpyBackend):
            def cast(self, x, dtype=None, copy=False):
                if isinstance(x, SymMat):
                    return x
                return super().cast(x, dtype=dtype, copy=copy)

        b = SymBackend()
        b.matrices = b.matrices.__class__(b.dtype)
        b.matrices.np = st.FakeNp()
        b.np = st.FakeNp()
        _backend = b
    return _backend


def fresh_sym_backend():
    global _backend
    _backend = None
    return sym_backend()


def catalogue():
    """[(class name, nqubits, [param names])] for every gate class of gates.py with fixed arity."""
    gg = mod("qibo.gates.gates")
    from qibo.gates.abstract import Gate
    out = []
    for name, cls in vars(gg).items():
        if not (inspect.isclass(cls) and issubclass(cls, Gate)) or name.startswith("_"):
            continue
        if cls.__module__ != gg.__name__ or name in SKIP_CLASSES:
            continue
        sig = inspect.signature(cls.__init__)
        qs, ps = [], []
        for pn, p in list(sig.parameters.items())[1:]:
            if pn in QUBIT_ARGS:
                qs.append(pn)
            elif pn == "trainable":
                continue
            elif p.kind in (p.VAR_POSITIONAL, p.VAR_KEYWORD):
                raise TraceError(f"{name}: variadic constructor")
            else:
                ps.append(pn)
        out.append((name, len(qs), ps))
    return out


def make_gate(name, qubits, params):
    return getattr(mod("qibo.gates.gates"), name)(*qubits, *params)


def sym_params(n, start=0):
    return [var(start + j) for j in range(n)]


def gate_symmat(gate):
    """matrix of a (possibly symbolic-parameter) gate through the real backend glue"""
    import copy
    name = type(gate).__name__
    if gate.parameters and name not in ("Unitary", "FusedGate"):
        g = copy.copy(gate)
        g._parameters = tuple(st.symify(p) for p in gate.parameters)
        if name == "GeneralizedRBS":
            g.init_kwargs = dict(gate.init_kwargs)
            g.init_kwargs["theta"], g.init_kwargs["phi"] = g._parameters
        gate = g
    m = gate.matrix(sym_backend())
    if isinstance(m, SymMat):
        return m
    m = np.asarray(m)
    return SymMat([[complex(x) for x in r] for r in m])


def trace_matrices():
    """returns {name: (nq, params, SymMat)} plus failures {name: reason}"""
    res, fail = {}, {}
    with patched():
        fresh_sym_backend()
        for name, nq, ps in catalogue():
            try:
                g = make_gate(name, list(range(nq)), sym_params(len(ps)))
                res[name] = (nq, ps, gate_symmat(g))
            except TraceError as e:
                fail[name] = f"TraceError: {e}"
            except Exception as e:  # fail closed, but keep going for the other classes
                fail[name] = f"{type(e).__name__}: {e}"
    return res, fail


COQ_HEADER = """From Coq Require Import Reals QArith List.
From QV Require Import Base.Cis Base.TrigNF Base.Mat Base.TrigMat.
Import ListNotations.
Local Open Scope Q_scope.
"""


def gen_matrices_v(res):
    """Coq text: one function per gate class from parameter angle forms to `mat expr`."""
    out = [COQ_HEADER, "(* generated from /repo by lib/qtrace.py -- do not edit *)\n"]
    for name, (nq, ps, M) in sorted(res.items()):
        args = " ".join(f"(p{j} : aff)" for j in range(len(ps)))
        out.append(f"Definition G_{name} {args} : mat expr :=\n  {M.coq()}.\n")
    return "\n".join(out)


def aff_of(x):
    """Coq aff text of a real-affine symbolic (or numeric) parameter value."""
    x = st.lift(x)
    if not isinstance(x, Lin):
        raise TraceError("parameter is not an angle form")
    if not x.c.is_zero():
        raise TraceError("parameter with non-pi constant")
    cpi, co = x.real_affine()
    return st.aff_coq(cpi, co)


def gate_coq(gate, varnames=None):
    """Coq `mexpr` text for the matrix of a traced gate instance: (G_Class params)."""
    name = type(gate).__name__
    ps = " ".join(aff_of(p) for p in gate.parameters)
    return f"(MLit (G_{name} {ps}))" if ps else f"(MLit G_{name})"


def nat_list(xs):
    return "[" + "; ".join(f"{int(x)}%nat" for x in xs) + "]"


# ------------------------------------------------------------------ Coq text of gate operators
def setup_vars(k, witness=None):
    """declare k symbolic parameters th_0..th_{k-1}; comparisons are decided at the witness point"""
    st.WITNESS.clear()
    st.VARNAMES.clear()
    del st.PATH[:]
    for j in range(k):
        st.WITNESS[j] = (witness[j] if witness else 0.3 + 0.17 * j)
        st.VARNAMES[j] = f"(avar {j})"
    return [var(j) for j in range(k)]


def gate_lit(g):
    """Coq mexpr literal of the matrix the real backend returns for this gate instance"""
    return f"(MLit {gate_symmat(g).coq()})"


def op_coq(g, n):
    """the operator of gate g on n qubits: controlled_by-gates act where all controls are 1,
    all other gates apply their full matrix on control_qubits + target_qubits"""
    M = gate_lit(g)
    if g.is_controlled_by:
        return f"(MCEmbed {n}%nat {nat_list(g.control_qubits)} {nat_list(g.target_qubits)} {M})"
    return f"(MEmbed {n}%nat {nat_list(g.qubits)} {M})"


def egate_coq(g):
    M = gate_lit(g)
    if g.is_controlled_by:
        return f"({nat_list(g.control_qubits)}, {nat_list(g.target_qubits)}, {M})"
    return f"({nat_list([])}, {nat_list(g.qubits)}, {M})"


def circ_coq(gs, n):
    return f"(mcirc {n}%nat [" + "; ".join(egate_coq(g) for g in gs) + "])"


def nat_list(xs):
    xs = list(xs)
    if not xs:
        return "(@nil nat)"
    return "[" + "; ".join(f"{int(x)}%nat" for x in xs) + "]"


def full_unitary(gs, n):
    """numeric operator of a gate list through the real Circuit.unitary()"""
    from qibo import Circuit
    c = Circuit(n)
    for g in (gs if isinstance(gs, (list, tuple)) else [gs]):
        c.add(g)
    return np.asarray(c.unitary())


def phase_distance(A, B):
    """min over global phases of max|A - e^{i phi} B| (numeric, for failing-input search)"""
    idx = np.unravel_index(np.argmax(np.abs(B)), B.shape)
    if abs(B[idx]) < 1e-12 or abs(A[idx]) < 1e-12:
        return float(np.abs(A - B).max())
    ph = (A[idx] / B[idx])
    ph = ph / abs(ph)
    return float(np.abs(A - ph * B).max())
