(* C17/Model.v : executable model of qibo.quantum_info.superoperator_transformations,
   quantum_info.basis and the channel part of quantum_info.quantum_networks.
   No proofs here.  Generic over the carrier (ops T, conjugation cj, the four single-qubit
   Pauli matrices); the correspondence run instantiates it with Gaussian integers.

   Conventions copied from the code:
   * vectorization(order=row)    : reshape(d,d -> d^2)             |M)[i*d+j] = M[i][j]
   * vectorization(order=column) : transpose, reshape              |M)[j*d+i] = M[i][j]
   * vectorization(order=system) : reshape [2]*2n, transpose (c0,r0,c1,r1,...), reshape
   * _reshuffling row : swapaxes(1,2) of the (d,d,d,d) view; column : swapaxes(0,3);
     system : NotImplementedError (so every function going through _reshuffling has only a
     row/column model: argument [col : bool])
   * every composite *_to_* function is the composition written in the source, INCLUDING which
     keyword arguments are forwarded.  (Before repair 2621e9186 to_pauli_liouville did not forward
     `order`, and before d90e25ba4 the non-pure branch of QuantumChannel.apply contracted the
     output indices; those formulas are kept as *_prefix definitions for the historical lemmas.) *)
From Coq Require Import List Bool Arith Lia.
From QV Require Import Base.Mat C17.Alg.
Import ListNotations.

Inductive vorder := Row (d : nat) | Col (d : nat) | Sys (n : nat).
Definition odim (o : vorder) : nat := match o with Row d | Col d => d | Sys n => 2 ^ n end.
Definition ord (col : bool) (d : nat) : vorder := if col then Col d else Row d.

(* system order: index bits (c0,r0,c1,r1,...), qubit 0 most significant *)
Fixpoint sys_idx (n i j : nat) : nat :=
  match n with
  | O => 0
  | S n' => let h := 2 ^ n' in (2 * (j / h) + i / h) * 4 ^ n' + sys_idx n' (i mod h) (j mod h)
  end.
Fixpoint sys_un (n k : nat) : nat * nat :=
  match n with
  | O => (0, 0)
  | S n' => let q := k / 4 ^ n' in
            let '(i', j') := sys_un n' (k mod 4 ^ n') in
            ((q mod 2) * 2 ^ n' + i', (q / 2) * 2 ^ n' + j')
  end.

(* position of entry (i,j) in the vectorised operator, and back *)
Definition vidx (o : vorder) (i j : nat) : nat :=
  match o with Row d => i * d + j | Col d => j * d + i | Sys n => sys_idx n i j end.
Definition vun (o : vorder) (k : nat) : nat * nat :=
  match o with Row d => (k / d, k mod d) | Col d => (k mod d, k / d) | Sys n => sys_un n k end.

(* the four matrix representations of the conversion table *)
Inductive rep := RChoi | RLiou | RPauli | RChi.
Definition leaves_pauli (a : rep) : bool := match a with RPauli | RChi => true | _ => false end.
Definition rep_eqb (a b : rep) : bool :=
  match a, b with RChoi, RChoi | RLiou, RLiou | RPauli, RPauli | RChi, RChi => true | _, _ => false end.

Section Model.
  Context {T : Type} (K : ops T) (cj : T -> T).
  Variable ps : nat -> mat T.        (* 0,1,2,3 -> I, X, Y, Z as 2x2 matrices *)

  Notation vget := (vget K).
  Notation mget := (mget K).

  Definition vconj (v : vec T) : vec T := map cj v.
  Definition mconj (M : mat T) : mat T := map (map cj) M.
  Definition dagger (r c : nat) (M : mat T) : mat T := mk c r (fun i j => cj (mget M j i)).
  Definition mtrans (r c : nat) (M : mat T) : mat T := mk c r (fun i j => mget M j i).
  Definition outer (u v : vec T) : mat T :=
    mk (length u) (length v) (fun i j => mul K (vget u i) (vget v j)).
  Definition msum (r c : nat) (Ms : list (mat T)) : mat T :=
    mk r c (fun i j => lsum K (map (fun M => mget M i j) Ms)).
  Definition mscal (x : T) (M : mat T) : mat T := map (map (mul K x)) M.
  Fixpoint dot (u v : vec T) : T :=
    match u, v with x :: u', y :: v' => add K (mul K x y) (dot u' v') | _, _ => zero K end.
  Definition mvmul (M : mat T) (v : vec T) : vec T := map (fun row => dot row v) M.
  Definition mmul3 (A B C : mat T) : mat T := mmul K (mmul K A B) C.

  (* ---------------- vectorization / unvectorization *)
  Definition vectorize (o : vorder) (M : mat T) : vec T :=
    let d := odim o in tab (d * d) (fun k => let '(i, j) := vun o k in mget M i j).
  Definition unvectorize (o : vorder) (v : vec T) : mat T :=
    let d := odim o in mk d d (fun i j => vget v (vidx o i j)).
  (* a 1-D input of `vectorization` is first turned into |psi><psi| *)
  Definition vectorize_sv (o : vorder) (psi : vec T) : vec T := vectorize o (outer psi (vconj psi)).

  (* ---------------- _reshuffling (row / column only) *)
  Definition reshuffle (col : bool) (d : nat) (M : mat T) : mat T :=
    mk (d * d) (d * d) (fun x y =>
      let a := x / d in let b := x mod d in let c := y / d in let e := y mod d in
      if col then mget M (e * d + b) (c * d + a) else mget M (a * d + c) (b * d + e)).

  (* ---------------- Kraus -> Choi / Liouville ;  to_choi / to_liouville *)
  Definition to_choi (o : vorder) (U : mat T) : mat T :=
    let v := vectorize o U in outer v (vconj v).
  Definition kraus_to_choi (o : vorder) (Ks : list (mat T)) : mat T :=
    let d := odim o in msum (d * d) (d * d) (map (to_choi o) Ks).
  Definition to_liouville (col : bool) (d : nat) (U : mat T) : mat T :=
    reshuffle col d (to_choi (ord col d) U).
  Definition choi_to_liouville := reshuffle.
  Definition liouville_to_choi := reshuffle.
  Definition kraus_to_liouville (col : bool) (d : nat) (Ks : list (mat T)) : mat T :=
    choi_to_liouville col d (kraus_to_choi (ord col d) Ks).
  (* Kraus operators given as (qubits, matrix) pairs are embedded by a FusedGate on range(n) *)
  Definition kraus_full (n : nat) (Ks : list (list nat * mat T)) : list (mat T) :=
    map (fun qk => embed K n (fst qk) (snd qk)) Ks.

  (* ---------------- Pauli basis (basis.py) *)
  Section Pauli.
    Variable po : list nat.          (* pauli_order as positions in "IXYZ", e.g. "XZIY" = [1;3;0;2] *)
    Definition single (a : nat) : mat T := ps (nth a po 0).
    (* einsum over the n single-qubit factors: entry = product of the factors' entries *)
    Fixpoint pauli_entry (n a r c : nat) : T :=
      match n with
      | O => one K
      | S n' => let h := 2 ^ n' in
                mul K (mget (single (a / 4 ^ n')) (r / h) (c / h))
                      (pauli_entry n' (a mod 4 ^ n') (r mod h) (c mod h))
      end.
    Definition pauli_mat (n a : nat) : mat T := mk (2 ^ n) (2 ^ n) (pauli_entry n a).
    (* pauli_basis(n, vectorize=True, order=o), un-normalised: row a = |P_a) *)
    Definition pauli_basis_vec (o : vorder) (n : nat) : mat T :=
      tab (4 ^ n) (fun a => vectorize o (pauli_mat n a)).
    Definition comp_basis_to_pauli (o : vorder) (n : nat) : mat T := mconj (pauli_basis_vec o n).
    Definition pauli_to_comp_basis (o : vorder) (n : nat) : mat T :=
      mtrans (4 ^ n) (4 ^ n) (pauli_basis_vec o n).

    (* un-normalised basis changes;  normalize=True divides the result by d = 2^n per call *)
    Definition liouville_to_pauli (o : vorder) (n : nat) (L : mat T) : mat T :=
      let U := comp_basis_to_pauli o n in mmul3 U L (dagger (4 ^ n) (4 ^ n) U).
    Definition pauli_to_liouville (o : vorder) (n : nat) (P : mat T) : mat T :=
      let V := pauli_to_comp_basis o n in mmul3 V P (dagger (4 ^ n) (4 ^ n) V).

    Definition choi_to_pauli (col : bool) (n : nat) (C : mat T) : mat T :=
      liouville_to_pauli (ord col (2 ^ n)) n (choi_to_liouville col (2 ^ n) C).
    Definition choi_to_chi (o : vorder) (n : nat) (C : mat T) : mat T := liouville_to_pauli o n C.
    Definition kraus_to_pauli (col : bool) (n : nat) (Ks : list (mat T)) : mat T :=
      choi_to_pauli col n (kraus_to_choi (ord col (2 ^ n)) Ks).
    Definition kraus_to_chi (o : vorder) (n : nat) (Ks : list (mat T)) : mat T :=
      let B := comp_basis_to_pauli o n in
      msum (4 ^ n) (4 ^ n)
        (map (fun Km => let w := mvmul B (vectorize o Km) in outer w (vconj w)) Ks).
    Definition liouville_to_chi (col : bool) (n : nat) (L : mat T) : mat T :=
      liouville_to_pauli (ord col (2 ^ n)) n (liouville_to_choi col (2 ^ n) L).
    Definition pauli_to_choi (col : bool) (n : nat) (P : mat T) : mat T :=
      liouville_to_choi col (2 ^ n) (pauli_to_liouville (ord col (2 ^ n)) n P).
    Definition pauli_to_chi (col : bool) (n : nat) (P : mat T) : mat T :=
      liouville_to_chi col n (pauli_to_liouville (ord col (2 ^ n)) n P).
    Definition chi_to_choi (o : vorder) (n : nat) (X : mat T) : mat T := pauli_to_liouville o n X.
    Definition chi_to_liouville (col : bool) (n : nat) (X : mat T) : mat T :=
      choi_to_liouville col (2 ^ n) (pauli_to_liouville (ord col (2 ^ n)) n X).
    Definition chi_to_pauli (col : bool) (n : nat) (X : mat T) : mat T :=
      choi_to_pauli col n (pauli_to_liouville (ord col (2 ^ n)) n X).

    (* to_pauli_liouville(channel, normalize, order, pauli_order): to_liouville, then conjugation with
       comp_basis_to_pauli(nqubits, normalize, order=order, pauli_order=pauli_order) *)
    Definition to_pauli_liouville (col : bool) (n : nat) (U : mat T) : mat T :=
      let L := to_liouville col (2 ^ n) U in
      let B := comp_basis_to_pauli (ord col (2 ^ n)) n in
      mmul3 B L (dagger (4 ^ n) (4 ^ n) B).
    (* HISTORICAL (pre-repair formula): `order` was not forwarded to comp_basis_to_pauli, so the
       row-order basis change was used whatever `order` was *)
    Definition to_pauli_liouville_prefix (col : bool) (n : nat) (U : mat T) : mat T :=
      let L := to_liouville col (2 ^ n) U in
      let B := comp_basis_to_pauli (Row (2 ^ n)) n in
      mmul3 B L (dagger (4 ^ n) (4 ^ n) B).
    Definition to_chi (o : vorder) (n : nat) (U : mat T) : mat T :=
      liouville_to_pauli o n (to_choi o U).

    (* the finite table of (non-spectral) conversion functions: <a>_to_<b> for every ordered pair of
       {choi, liouville, pauli, chi} (row / column order), and kraus_to_<b> *)
    Definition from_kraus_rep (col : bool) (n : nat) (r : rep) (Ks : list (mat T)) : mat T :=
      match r with
      | RChoi => kraus_to_choi (ord col (2 ^ n)) Ks
      | RLiou => kraus_to_liouville col (2 ^ n) Ks
      | RPauli => kraus_to_pauli col n Ks
      | RChi => kraus_to_chi (ord col (2 ^ n)) n Ks
      end.
    Definition conv_rep (col : bool) (n : nat) (a b : rep) (M : mat T) : mat T :=
      match a, b with
      | RChoi, RLiou => choi_to_liouville col (2 ^ n) M
      | RChoi, RPauli => choi_to_pauli col n M
      | RChoi, RChi => choi_to_chi (ord col (2 ^ n)) n M
      | RLiou, RChoi => liouville_to_choi col (2 ^ n) M
      | RLiou, RPauli => liouville_to_pauli (ord col (2 ^ n)) n M
      | RLiou, RChi => liouville_to_chi col n M
      | RPauli, RLiou => pauli_to_liouville (ord col (2 ^ n)) n M
      | RPauli, RChoi => pauli_to_choi col n M
      | RPauli, RChi => pauli_to_chi col n M
      | RChi, RChoi => chi_to_choi (ord col (2 ^ n)) n M
      | RChi, RLiou => chi_to_liouville col n M
      | RChi, RPauli => chi_to_pauli col n M
      | _, _ => M
      end.
    (* a path r0 -> r1 -> ... through the table *)
    Fixpoint run_path (col : bool) (n : nat) (a : rep) (path : list rep) (M : mat T) : mat T :=
      match path with [] => M | b :: rest => run_path col n b rest (conv_rep col n a b M) end.
    Fixpoint path_end (a : rep) (path : list rep) : rep :=
      match path with [] => a | b :: rest => path_end b rest end.
  End Pauli.

  (* ---------------- Stinespring *)
  Definition kronI (rb cb ra ca : nat) (A B : mat T) : mat T :=
    mk (ra * rb) (ca * cb) (fun x y => mul K (mget A (x / rb) (y / cb)) (mget B (x mod rb) (y mod cb))).
  Definition unitvec (D a : nat) : vec T := tab D (fun b => if Nat.eqb a b then one K else zero K).
  (* U0 = sum_alpha kron(K_alpha, outer(e_alpha, conj v0)),  D = number of Kraus operators *)
  Definition kraus_to_stinespring (d : nat) (Ks : list (mat T)) (v0 : vec T) : mat T :=
    let D := length Ks in
    msum (d * D) (d * D)
      (map (fun aK => kronI D D d d (snd aK) (outer (unitvec D (fst aK)) (vconj v0)))
           (combine (seq 0 D) Ks)).
  (* K_alpha[i][j] = sum_b U0[(i,alpha)][(j,b)] v0[b] *)
  Definition stinespring_to_kraus (d D : nat) (U0 : mat T) (v0 : vec T) : list (mat T) :=
    tab D (fun alpha => mk d d (fun i j =>
      bsum K D (fun b => mul K (mget U0 (i * D + alpha) (j * D + b)) (vget v0 b)))).
  Definition stinespring_to_choi o D U0 v0 := kraus_to_choi o (stinespring_to_kraus (odim o) D U0 v0).
  Definition stinespring_to_liouville col d D U0 v0 := kraus_to_liouville col d (stinespring_to_kraus d D U0 v0).
  Definition stinespring_to_pauli po col n D U0 v0 :=
    kraus_to_pauli po col n (stinespring_to_kraus (2 ^ n) D U0 v0).
  Definition stinespring_to_chi po o n D U0 v0 :=
    kraus_to_chi po o n (stinespring_to_kraus (2 ^ n) D U0 v0).

  (* choi_to_kraus after the oracle: eigh returned pairs (lambda_k, v_k); the code keeps those with
     |lambda_k| > tol and returns sqrt(lambda_k) * unvectorization(v_k).  Here s_k = sqrt(lambda_k). *)
  Definition choi_to_kraus_from_eig (o : vorder) (evs : list (T * vec T)) : list (mat T) :=
    map (fun sv => mscal (fst sv) (unvectorize o (snd sv))) evs.

  (* with the threshold: eigh returns ALL d^2 pairs; `keep` marks those with |lambda_k| > precision_tol *)
  Definition choi_to_kraus_thresholded (o : vorder) (keep : T * vec T -> bool) (evs : list (T * vec T)) : list (mat T) :=
    choi_to_kraus_from_eig o (filter keep evs).

  (* ---------------- quantum_networks.py, channels (two systems) *)
  (* QuantumNetwork.from_operator(choi, partition=(p0,p1)) : tensor[(a,a')][(b,b')] = choi[(a,b)][(a',b')] *)
  Definition qn_from_operator (p0 p1 : nat) (C : mat T) : mat T :=
    mk (p0 * p0) (p1 * p1) (fun x y =>
      mget C ((x / p0) * p1 + y / p1) ((x mod p0) * p1 + y mod p1)).
  (* QuantumComb.from_operator(..., inverse=True): partition reversed, tensor transposed *)
  Definition qn_from_operator_inv (p0 p1 : nat) (C : mat T) : mat T :=
    mtrans (p0 * p0) (p1 * p1) (qn_from_operator p0 p1 C).
  (* pure networks keep the p0 x p1 matrix itself; inverse=True transposes it *)
  Definition qn_full (p0 p1 : nat) (t : mat T) : mat T :=
    mk (p0 * p0) (p1 * p1) (fun x y =>
      mul K (mget t (x / p0) (y / p1)) (cj (mget t (x mod p0) (y mod p1)))).
  (* QuantumChannel.apply, non-pure branch:  einsum("ijkl, ik -> jl", operator, state)
     with operator[i,j,k,l] = tensor[(i,k)][(j,l)]  -> result indexed (j,l), state on the input pair *)
  Definition qn_apply (p0 p1 : nat) (t : mat T) (rho : mat T) : mat T :=
    mk p1 p1 (fun j l => bsum K p0 (fun i => bsum K p0 (fun k =>
      mul K (mget t (i * p0 + k) (j * p1 + l)) (mget rho i k)))).
  (* HISTORICAL (pre-repair formula): einsum("ijkl,jl", operator, state) -> result indexed (i,k) *)
  Definition qn_apply_prefix (p0 p1 : nat) (t : mat T) (rho : mat T) : mat T :=
    mk p0 p0 (fun i k => bsum K p1 (fun j => bsum K p1 (fun l =>
      mul K (mget t (i * p0 + k) (j * p1 + l)) (mget rho j l)))).
  (* pure branch: einsum("ij,lk,il", t, conj t, state) -> result indexed (j,k) *)
  Definition qn_apply_pure (p0 p1 : nat) (t : mat T) (rho : mat T) : mat T :=
    mk p1 p1 (fun j k => bsum K p0 (fun i => bsum K p0 (fun l =>
      mul K (mul K (mget t i j) (cj (mget t l k))) (mget rho i l)))).
  (* link_product("ij,jk->ik") and __matmul__ ("jk,kl->jl") on two channels *)
  Definition qn_link (t1 t2 : mat T) : mat T := mmul K t1 t2.
  (* a state as a network with trivial input: tensor = 1 x p^2 row (rho[i][i'] at i*p+i') *)
  Definition qn_state (p : nat) (rho : mat T) : mat T := [vectorize (Row p) rho].
  Definition qn_matrix_of_state (p : nat) (t : mat T) : mat T := unvectorize (Row p) (nth 0 t []).

  (* ---------------- equality test used by the correspondence run *)
  Variable eqb : T -> T -> bool.
  Fixpoint veqb (u v : vec T) : bool :=
    match u, v with [] , [] => true | x :: u', y :: v' => eqb x y && veqb u' v' | _, _ => false end.
  Fixpoint meqb (A B : mat T) : bool :=
    match A, B with [] , [] => true | x :: A', y :: B' => veqb x y && meqb A' B' | _, _ => false end.
End Model.
