(* C17/PropsHistory.v : property theorems about query histories on one channel object (proofs in C17/History.v) *)
From Coq Require Import List Bool Arith Lia Ring ZArith.
From QV Require Import Base.Mat Base.Zi C17.Alg C17.Model C17.Spec C17.ZiInst C17.ProofsIdx C17.ProofsVec C17.History.
Import ListNotations.

Section Generic.
  Context {T : Type} (K : ops T) (cj : T -> T).
  Variable SR : semi_ring_theory (zero K) (one K) (add K) (mul K) (@eq T).
  Hypothesis cj0 : cj (zero K) = zero K.

  (* every answer along a history of queries (any orders, any kinds) is the answer of a brand-new object *)
  Theorem answers_are_fresh : forall qs Ks, answers K cj Ks qs = map (answer K cj Ks) qs.
  Proof. exact (answers_are_fresh_l K cj). Qed.

  (* after ANY histories h1, h2 on the object, its Choi matrix of any order and its Liouville matrix (row / column)
     act on every rho as sum_k K rho K^dagger: all forms, whenever and in whatever order they were asked, give the
     same output *)
  Theorem all_forms_same_output : forall Ks h1 h2 rho,
    (forall o m n, m < odim o -> n < odim o ->
       mget K (choi_action K o (answer K cj (qrun Ks h1) (QChoi o)) rho) m n = kraus_entry K cj (odim o) Ks rho m n)
    /\ (forall col d m n, m < d -> n < d ->
       mget K (liouville_action K (ord col d) (answer K cj (qrun Ks h2) (QLiouville col d)) rho) m n
       = kraus_entry K cj d Ks rho m n).
  Proof. exact (all_forms_same_output_l K cj SR cj0). Qed.
End Generic.
Print Assumptions answers_are_fresh.
Print Assumptions all_forms_same_output.

(* instance over the Gaussian integers of the correspondence runs; non-vacuity *)
Theorem all_forms_same_output_Zi : forall Ks (h1 : list query) rho o m n, m < odim o -> n < odim o ->
  mget Ziops (choi_action Ziops o (answer Ziops zi_conj (qrun Ks h1) (QChoi o)) rho) m n
  = kraus_entry Ziops zi_conj (odim o) Ks rho m n.
Proof. intros Ks h1 rho o m n Hm Hn. now apply (all_forms_same_output_l Ziops zi_conj Zi_SR zi_conj_0 Ks h1 [] rho). Qed.
Print Assumptions all_forms_same_output_Zi.
