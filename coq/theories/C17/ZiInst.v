(* C17/ZiInst.v : the Gaussian-integer instance used by the correspondence runs. *)
From Coq Require Import ZArith List Bool Arith Lia Ring.
From QV Require Import Base.Mat Base.Zi C17.Alg C17.Model C17.Spec.
Import ListNotations.

Lemma Zi_SR : semi_ring_theory (zero Ziops) (one Ziops) (add Ziops) (mul Ziops) (@eq Zi).
Proof.
  constructor; cbn [zero one add mul Ziops]; intros.
  - apply zi_add_0_l.
  - apply zi_add_comm.
  - apply zi_add_assoc.
  - apply zi_mul_1_l.
  - apply zi_mul_0_l.
  - apply zi_mul_comm.
  - apply zi_mul_assoc.
  - rewrite (zi_mul_comm (zi_add n m) p), zi_mul_add_l. now rewrite !(zi_mul_comm p).
Qed.

Lemma zi_conj_invol x : zi_conj (zi_conj x) = x.
Proof. destruct x as [a b]. unfold zi_conj; cbn [fst snd]. f_equal. apply Z.opp_involutive. Qed.
Lemma zi_conj_0 : zi_conj zi0 = zi0. Proof. reflexivity. Qed.
Lemma zi_conj_1 : zi_conj zi1 = zi1. Proof. reflexivity. Qed.

Local Open Scope Z_scope.
Definition zP (k : nat) : mat Zi :=
  match k with
  | O => [[(1,0); (0,0)]; [(0,0); (1,0)]]
  | S O => [[(0,0); (1,0)]; [(1,0); (0,0)]]
  | S (S O) => [[(0,0); (0,-1)]; [(0,1); (0,0)]]
  | _ => [[(1,0); (0,0)]; [(0,0); (-1,0)]]
  end.
Local Close Scope Z_scope.

Definition zmeqb := meqb zi_eqb.
Definition zveqb := veqb zi_eqb.
Definition zint (z : Z) : Zi := (z, 0%Z).
Definition zscal (z : Z) (M : mat Zi) : mat Zi := mscal Ziops (zint z) M.

(* ---- instantiated names used by the generated correspondence files *)
Definition z_vectorize := vectorize Ziops.
Definition z_vectorize_sv := vectorize_sv Ziops zi_conj.
Definition z_unvectorize := unvectorize Ziops.
Definition z_reshuffle := reshuffle Ziops.
Definition z_to_choi := to_choi Ziops zi_conj.
Definition z_kraus_to_choi := kraus_to_choi Ziops zi_conj.
Definition z_to_liouville := to_liouville Ziops zi_conj.
Definition z_kraus_to_liouville := kraus_to_liouville Ziops zi_conj.
Definition z_kraus_full := kraus_full Ziops.
Definition z_pauli_mat := pauli_mat Ziops zP.
Definition z_pauli_basis_vec := pauli_basis_vec Ziops zP.
Definition z_comp_basis_to_pauli := comp_basis_to_pauli Ziops zi_conj zP.
Definition z_pauli_to_comp_basis := pauli_to_comp_basis Ziops zP.
Definition z_liouville_to_pauli := liouville_to_pauli Ziops zi_conj zP.
Definition z_pauli_to_liouville := pauli_to_liouville Ziops zi_conj zP.
Definition z_choi_to_pauli := choi_to_pauli Ziops zi_conj zP.
Definition z_choi_to_chi := choi_to_chi Ziops zi_conj zP.
Definition z_kraus_to_pauli := kraus_to_pauli Ziops zi_conj zP.
Definition z_kraus_to_chi := kraus_to_chi Ziops zi_conj zP.
Definition z_liouville_to_chi := liouville_to_chi Ziops zi_conj zP.
Definition z_pauli_to_choi := pauli_to_choi Ziops zi_conj zP.
Definition z_pauli_to_chi := pauli_to_chi Ziops zi_conj zP.
Definition z_chi_to_choi := chi_to_choi Ziops zi_conj zP.
Definition z_chi_to_liouville := chi_to_liouville Ziops zi_conj zP.
Definition z_chi_to_pauli := chi_to_pauli Ziops zi_conj zP.
Definition z_to_pauli_liouville := to_pauli_liouville Ziops zi_conj zP.
Definition z_to_pauli_liouville_prefix := to_pauli_liouville_prefix Ziops zi_conj zP.
Definition z_to_chi := to_chi Ziops zi_conj zP.
Definition z_kraus_to_stinespring := kraus_to_stinespring Ziops zi_conj.
Definition z_stinespring_to_kraus := stinespring_to_kraus Ziops.
Definition z_stinespring_to_choi := stinespring_to_choi Ziops zi_conj.
Definition z_stinespring_to_liouville := stinespring_to_liouville Ziops zi_conj.
Definition z_stinespring_to_pauli := stinespring_to_pauli Ziops zi_conj zP.
Definition z_stinespring_to_chi := stinespring_to_chi Ziops zi_conj zP.
Definition z_qn_from_operator := qn_from_operator Ziops.
Definition z_qn_from_operator_inv := qn_from_operator_inv Ziops.
Definition z_qn_full := qn_full Ziops zi_conj.
Definition z_qn_apply := qn_apply Ziops.
Definition z_qn_apply_prefix := qn_apply_prefix Ziops.
Definition z_qn_apply_pure := qn_apply_pure Ziops zi_conj.
Definition z_qn_link := qn_link Ziops.
Definition z_qn_state := qn_state Ziops.
Definition z_qn_matrix_of_state := qn_matrix_of_state Ziops.
Definition z_mtrans := mtrans Ziops.
(* specs *)
Definition z_kraus_action := kraus_action Ziops zi_conj.
Definition z_liouville_action := liouville_action Ziops.
Definition z_choi_action := choi_action Ziops.
Definition z_pauli_action := pauli_action Ziops zi_conj zP.
Definition z_chi_action := chi_action Ziops zi_conj zP.
Definition z_stinespring_action := stinespring_action Ziops zi_conj.
Definition z_network_action := network_action Ziops.
Definition z_mmul := mmul Ziops.
