(* C17/ZiInst.v : the Gaussian-integer instance used by the correspondence runs. *)
From Coq Require Import ZArith List Bool Arith Lia Ring.
From QV Require Import Base.Mat Base.Zi C17.Alg C17.Model C17.Spec.
Import ListNotations.

Lemma Zi_SR : semi_ring_theory (zero Ziops) (one Ziops) (add Ziops) (mul Ziops) (@eq Zi).
Proof.
  constructor; cbn [zero one add mul Ziops]; intros.
  - apply zi_add_0_l.
  - apply zi_add_comm.
  - apply zi_add_assoc.
  - apply zi_mul_1_l.
  - apply zi_mul_0_l.
  - apply zi_mul_comm.
  - apply zi_mul_assoc.
  - rewrite (zi_mul_comm (zi_add n m) p), zi_mul_add_l. now rewrite !(zi_mul_comm p).
Qed.

Lemma zi_conj_invol x : zi_conj (zi_conj x) = x.
Proof. destruct x as [a b]. unfold zi_conj; cbn [fst snd]. f_equal. apply Z.opp_involutive. Qed.
Lemma zi_conj_0 : zi_conj zi0 = zi0. Proof. reflexivity. Qed.
Lemma zi_conj_1 : zi_conj zi1 = zi1. Proof. reflexivity. Qed.

Local Open Scope Z_scope.
Definition zP (k : nat) : mat Zi :=
  match k with
  | O => [[(1,0); (0,0)]; [(0,0); (1,0)]]
  | S O => [[(0,0); (1,0)]; [(1,0); (0,0)]]
  | S (S O) => [[(0,0); (0,-1)]; [(0,1); (0,0)]]
  | _ => [[(1,0); (0,0)]; [(0,0); (-1,0)]]
  end.
Local Close Scope Z_scope.

Definition zmeqb := meqb zi_eqb.
Definition zveqb := veqb zi_eqb.
Definition zint (z : Z) : Zi := (z, 0%Z).
Definition zscal (z : Z) (M : mat Zi) : mat Zi := mscal Ziops (zint z) M.
