(* C17/PropsRepr.v : the model statement behind the stream `representation` of harness/c17.py (family F, input representation
   invariance).  The Coq model works on the mathematical matrices (Gaussian integers), so a converter is by construction a function
   of the NUMBERS it is given; the harness ties the implementation to it by calling every converter on the same numbers stored as
   int / float / complex64 / Fortran order / strided view / read-only / list and comparing with the value verified against the model.
   What makes the real dtypes delicate is stated here: the (un-normalised) Pauli-Liouville matrix of a channel is real-valued -- so it
   is naturally stored in a float or integer array -- while its Liouville and Choi forms are not; a converter that returns its result
   in the dtype of its input therefore cannot be correct. *)
From Coq Require Import ZArith List Bool.
From QV Require Import Base.Mat Base.Zi C17.Alg C17.Model C17.Spec C17.ZiInst.
Import ListNotations. Open Scope Z_scope.

Definition zi_is_real (z : Zi) : bool := snd z =? 0.
Definition all_real (M : mat Zi) : bool := forallb (forallb zi_is_real) M.

(* the S gate, diag(1, i) *)
Definition S_gate : mat Zi := [[(1, 0); (0, 0)]; [(0, 0); (0, 1)]].
Definition IXYZ : list nat := [0; 1; 2; 3]%nat.

Theorem pauli_liouville_real_liouville_complex :
  exists Ks : list (mat Zi),
    all_real (z_kraus_to_pauli IXYZ false 1%nat Ks) = true /\
    all_real (z_kraus_to_pauli IXYZ true 1%nat Ks) = true /\
    all_real (z_pauli_to_liouville IXYZ (Row 2%nat) 1%nat (z_kraus_to_pauli IXYZ false 1%nat Ks)) = false /\
    all_real (z_pauli_to_liouville IXYZ (Col 2%nat) 1%nat (z_kraus_to_pauli IXYZ true 1%nat Ks)) = false /\
    all_real (z_pauli_to_choi IXYZ false 1%nat (z_kraus_to_pauli IXYZ false 1%nat Ks)) = false /\
    (* and the complex result is the right one: 4 x the Liouville form of the channel *)
    zmeqb (z_pauli_to_liouville IXYZ (Row 2%nat) 1%nat (z_kraus_to_pauli IXYZ false 1%nat Ks))
          (zscal 4 (z_kraus_to_liouville false 2%nat Ks)) = true.
Proof. exists [S_gate]. repeat split; vm_compute; reflexivity. Qed.
Print Assumptions pauli_liouville_real_liouville_complex.

(* dropping the imaginary part (what a cast to a real dtype does) changes the map: the truncated matrix no longer acts as 4 E *)
Definition drop_imag (M : mat Zi) : mat Zi := map (map (fun z : Zi => (fst z, 0))) M.
Theorem real_cast_changes_the_channel :
  exists (Ks : list (mat Zi)) (rho : mat Zi),
    let L := z_pauli_to_liouville IXYZ (Row 2%nat) 1%nat (z_kraus_to_pauli IXYZ false 1%nat Ks) in
    zmeqb (z_liouville_action (Row 2%nat) L rho) (zscal 4 (z_kraus_action 2%nat Ks rho)) = true /\
    zmeqb (z_liouville_action (Row 2%nat) (drop_imag L) rho) (zscal 4 (z_kraus_action 2%nat Ks rho)) = false.
Proof. exists [S_gate], [[(1, 0); (2, 1)]; [(0, 3); (1, 0)]]. split; vm_compute; reflexivity. Qed.
Print Assumptions real_cast_changes_the_channel.
