(* C17/ProofsPerm.v : finite sums are invariant under a bijection of the index range; a sum over
   the positions of a vectorised operator is the double sum over its entries (every order);
   associativity of the list matrix product; scalar matrices. *)
From Coq Require Import List Bool Arith Lia Ring Permutation.
From QV Require Import Base.Mat C17.Alg C17.Model C17.ProofsIdx.
Import ListNotations.

Lemma NoDup_map_inj' {A B} (f : A -> B) l :
  (forall x y, In x l -> In y l -> f x = f y -> x = y) -> NoDup l -> NoDup (map f l).
Proof.
  intros Hinj Hnd. induction Hnd as [|x l Hx Hnd IH]; cbn [map]; constructor.
  - intros Hin. apply in_map_iff in Hin. destruct Hin as [y [Hy Hyl]].
    assert (y = x) by (apply Hinj; [now right|now left|exact Hy]). subst. contradiction.
  - apply IH. intros a b Ha Hb. apply Hinj; now right.
Qed.

Section Perm.
  Context {T : Type} (K : ops T).
  Notation T0 := (zero K).
  Notation T1 := (one K).
  Infix "+!" := (add K) (at level 50, left associativity).
  Infix "*!" := (mul K) (at level 40, left associativity).
  Variable SR : semi_ring_theory T0 T1 (add K) (mul K) (@eq T).
  Add Ring TR4 : SR.
  Notation bsum := (bsum K).
  Notation lsum := (lsum K).
  Notation mget := (mget K).

  Lemma lsum_perm' l l' : Permutation l l' -> lsum l = lsum l'.
  Proof.
    induction 1; cbn [Alg.lsum]; try reflexivity.
    - now rewrite IHPermutation.
    - ring.
    - now rewrite IHPermutation1.
  Qed.

  Lemma bsum_lsum n f : bsum n f = lsum (map f (seq 0 n)).
  Proof.
    induction n as [|n IH]; [reflexivity|]. cbn [Alg.bsum]. rewrite seq_S, map_app, (lsum_app K SR), IH.
    cbn [map Alg.lsum Nat.add]. ring.
  Qed.

  Lemma bsum_reindex n (phi : nat -> nat) f :
    (forall k, k < n -> phi k < n) ->
    (forall k k', k < n -> k' < n -> phi k = phi k' -> k = k') ->
    bsum n (fun k => f (phi k)) = bsum n f.
  Proof.
    intros Hr Hi. rewrite !bsum_lsum. rewrite <- (map_map phi f). apply lsum_perm'. apply Permutation_map.
    apply NoDup_Permutation_bis.
    - apply NoDup_map_inj'; [|apply seq_NoDup]. intros x y Hx Hy. apply in_seq in Hx, Hy. apply Hi; lia.
    - now rewrite map_length.
    - intros x Hx. apply in_map_iff in Hx. destruct Hx as [k [<- Hk]]. apply in_seq in Hk. apply in_seq.
      specialize (Hr k). lia.
  Qed.

  (* sum over the positions of a vectorised d x d operator = double sum over (row, column) *)
  Lemma bsum_vidx o (F : nat -> T) :
    bsum (odim o * odim o) F = bsum (odim o) (fun r => bsum (odim o) (fun c => F (vidx o r c))).
  Proof.
    set (d := odim o).
    transitivity (bsum (d * d) (fun k => F (vidx o (k / d) (k mod d)))).
    - symmetry. apply (bsum_reindex (d * d) (fun k => vidx o (k / d) (k mod d)) F).
      + intros k Hk. apply vidx_lt; [now apply div_lt_prod|now apply (mod_lt_prod k d d)].
      + intros k k' Hk Hk' E.
        assert (Hd : d <> 0) by (intros E0; rewrite E0 in Hk; cbn in Hk; lia).
        apply vidx_inj in E; try (now apply div_lt_prod); try (now apply (mod_lt_prod _ d d)).
        destruct E as [E1 E2]. rewrite <- (divmod_eq k d Hd), <- (divmod_eq k' d Hd). now rewrite E1, E2.
    - rewrite (bsum_prod K SR). apply (bsum_ext K). intros r Hr. apply (bsum_ext K). intros c Hc.
      now rewrite div_pair, mod_pair.
  Qed.

  (* ---------- matrix product: associativity and scalar matrices *)
  Lemma mmul_assoc r n m c A B C : wf r n A -> wf n m B -> wf m c C -> n <> 0 -> m <> 0 ->
    mmul K (mmul K A B) C = mmul K A (mmul K B C).
  Proof.
    intros HA HB HC Hn Hm.
    assert (HAB : wf r m (mmul K A B)) by (now apply (wf_mmul K r n m)).
    assert (HBC : wf n c (mmul K B C)) by (now apply (wf_mmul K n m c)).
    apply (mat_ext K r c); [now apply (wf_mmul K r m c)|now apply (wf_mmul K r n c)|].
    intros i j Hi Hj.
    rewrite (mget_mmul_wf K SR r m _ C i j HAB (proj1 HC) Hi).
    rewrite (mget_mmul_wf K SR r n A _ i j HA (proj1 HBC) Hi).
    transitivity (bsum m (fun t => bsum n (fun u => mget A i u *! mget B u t *! mget C t j))).
    - apply (bsum_ext K). intros t Ht.
      rewrite (mget_mmul_wf K SR r n A B i t HA (proj1 HB) Hi). apply (bsum_mul_r K SR).
    - rewrite (bsum_swap K SR). apply (bsum_ext K). intros u Hu.
      rewrite (mget_mmul_wf K SR n m B C u j HB (proj1 HC) Hu).
      rewrite (bsum_mul_l K SR). apply (bsum_ext K). intros t _. ring.
  Qed.

  Definition smat (N : nat) (x : T) : mat T := mk N N (fun i j => if Nat.eqb i j then x else T0).

  Lemma mget_smat_mul N x M i j : wf N N M -> i < N -> j < N ->
    mget (mmul K (smat N x) M) i j = x *! mget M i j.
  Proof.
    intros HM Hi Hj. rewrite (mget_mmul_wf K SR N N (smat N x) M i j (wf_mk N N _) (proj1 HM) Hi).
    rewrite (bsum_ext K N _ (fun k => if Nat.eqb k i then x *! mget M k j else T0)).
    - now rewrite (bsum_delta K SR) by exact Hi.
    - intros k Hk. unfold smat. rewrite (mget_mk K) by assumption. rewrite (Nat.eqb_sym i k).
      destruct (Nat.eqb k i); ring.
  Qed.

  Lemma mget_mul_smat N x M i j : wf N N M -> i < N -> j < N ->
    mget (mmul K M (smat N x)) i j = mget M i j *! x.
  Proof.
    intros HM Hi Hj. rewrite (mget_mmul_wf K SR N N M (smat N x) i j HM (proj1 (wf_mk N N _)) Hi).
    rewrite (bsum_ext K N _ (fun k => if Nat.eqb k j then mget M i k *! x else T0)).
    - now rewrite (bsum_delta K SR) by exact Hj.
    - intros k Hk. unfold smat. rewrite (mget_mk K) by assumption.
      destruct (Nat.eqb k j); ring.
  Qed.
End Perm.
