(* C17/ProofsStine.v : Stinespring round trip, choi_to_kraus under the contract of eigh, and the
   channel networks of quantum_networks.py (what the tensor means, composition = matrix
   product, the pure branch of apply is right, the non-pure branch is refuted). *)
From Coq Require Import List Bool Arith Lia Ring ZArith.
From QV Require Import Base.Mat Base.Zi C17.Alg C17.Model C17.Spec C17.ZiInst C17.ProofsIdx C17.ProofsVec.
Import ListNotations.

Section Proofs.
  Context {T : Type} (K : ops T) (cj : T -> T).
  Notation T0 := (zero K).
  Notation T1 := (one K).
  Infix "+!" := (add K) (at level 50, left associativity).
  Infix "*!" := (mul K) (at level 40, left associativity).
  Variable SR : semi_ring_theory T0 T1 (add K) (mul K) (@eq T).
  Add Ring TR3 : SR.
  Hypothesis cj0 : cj T0 = T0.
  Hypothesis cj_add : forall a b, cj (a +! b) = cj a +! cj b.
  Hypothesis cj_mul : forall a b, cj (a *! b) = cj a *! cj b.
  Hypothesis cj_cj : forall a, cj (cj a) = a.
  Notation vget := (vget K).
  Notation mget := (mget K).
  Notation bsum := (bsum K).
  Notation lsum := (lsum K).

  (* sum over an enumerated list *)
  Lemma lsum_combine_seq {A} (l : list A) (dflt : A) (g : nat * A -> T) : forall s,
    lsum (map g (combine (seq s (length l)) l)) = bsum (length l) (fun b => g ((s + b)%nat, nth b l dflt)).
  Proof.
    induction l as [|x l IH]; intros s; [reflexivity|].
    cbn [length seq combine map Alg.lsum]. rewrite (bsum_shift K SR). rewrite IH.
    rewrite Nat.add_0_r. cbn [nth]. f_equal. apply (bsum_ext K). intros b _.
    now rewrite Nat.add_succ_r.
  Qed.

  Lemma mget_kronI rb cb ra ca A B x y : x < ra * rb -> y < ca * cb ->
    mget (kronI K rb cb ra ca A B) x y = mget A (x / rb) (y / cb) *! mget B (x mod rb) (y mod cb).
  Proof. intros. unfold kronI. now rewrite (mget_mk K). Qed.

  Lemma vget_unitvec D a b : b < D -> vget (unitvec K D a) b = if Nat.eqb a b then T1 else T0.
  Proof. intros. unfold unitvec. now rewrite (vget_tab K). Qed.

  (* ---------- Stinespring round trip: K'_alpha = <v0|v0> K_alpha *)
  Theorem stinespring_roundtrip d Ks v0 alpha i j :
    length v0 = length Ks -> alpha < length Ks -> i < d -> j < d ->
    mget (nth alpha (stinespring_to_kraus K d (length Ks) (kraus_to_stinespring K cj d Ks v0) v0) []) i j
    = mget (nth alpha Ks []) i j *! bsum (length Ks) (fun b => cj (vget v0 b) *! vget v0 b).
  Proof.
    intros Hv Ha Hi Hj. set (D := length Ks) in *.
    unfold stinespring_to_kraus. rewrite nth_tab by exact Ha. rewrite (mget_mk K) by assumption.
    rewrite (bsum_mul_l K SR). apply (bsum_ext K). intros b Hb.
    unfold kraus_to_stinespring. fold D.
    assert (Hx : i * D + alpha < d * D) by (now apply pair_lt).
    assert (Hy : j * D + b < d * D) by (now apply pair_lt).
    rewrite (mget_msum K) by assumption. rewrite map_map.
    rewrite (lsum_combine_seq Ks [] _ 0). fold D. cbn [Nat.add fst snd].
    rewrite (bsum_ext K D _ (fun beta => if Nat.eqb beta alpha
                                         then mget (nth beta Ks []) i j *! cj (vget v0 b) else T0)).
    - rewrite (bsum_delta K SR) by exact Ha. ring.
    - intros beta Hbeta. rewrite mget_kronI by assumption.
      rewrite !div_pair, !mod_pair by assumption.
      rewrite (mget_outer K) by (unfold unitvec, vconj; rewrite ?tab_length, ?map_length; lia).
      rewrite vget_unitvec by exact Ha. rewrite (vget_vconj K cj cj0).
      destruct (Nat.eqb beta alpha); ring.
  Qed.

  (* ---------- choi_to_kraus under the contract of eigh *)
  Lemma mget_mscal x M i j : mget (mscal K x M) i j = x *! mget M i j.
  Proof.
    unfold Mat.mget, mscal.
    assert (E0 : x *! T0 = T0) by ring.
    rewrite <- E0 at 1.
    change (@nil T) with (map (mul K x) []) at 1. rewrite (map_nth (map (mul K x)) M [] i).
    apply (map_nth (mul K x)).
  Qed.

  Theorem kraus_reproduce_choi o (evs : list (T * vec T)) x y :
    (forall sv, In sv evs -> cj (fst sv) = fst sv) ->
    x < odim o * odim o -> y < odim o * odim o ->
    mget (kraus_to_choi K cj o (choi_to_kraus_from_eig K o evs)) x y
    = lsum (map (fun sv => (fst sv *! fst sv) *! (vget (snd sv) x *! cj (vget (snd sv) y))) evs).
  Proof.
    intros Hreal Hx Hy. rewrite (mget_kraus_to_choi K cj cj0) by assumption.
    unfold choi_to_kraus_from_eig. rewrite map_map. apply (lsum_map_ext K). intros [s v] Hin.
    cbn [fst snd]. rewrite !mget_mscal.
    destruct (vun_lt o x Hx) as [X1 X2]. destruct (vun_lt o y Hy) as [Y1 Y2].
    unfold unvectorize. rewrite !(mget_mk K) by assumption. rewrite !vidx_vun by assumption.
    pose proof (Hreal (s, v) Hin) as Hs. cbn [fst] in Hs. rewrite cj_mul, Hs. ring.
  Qed.

  (* if eigh's answer satisfies its contract M = sum lambda_k v_k v_k^dagger with lambda_k = s_k^2
     (s_k real; dropped pairs have lambda_k = 0), the Kraus set returned reproduces M *)
  Corollary choi_to_kraus_contract o M evs :
    (forall sv, In sv evs -> cj (fst sv) = fst sv) ->
    (forall x y, x < odim o * odim o -> y < odim o * odim o ->
       mget M x y = lsum (map (fun sv => (fst sv *! fst sv) *! (vget (snd sv) x *! cj (vget (snd sv) y))) evs)) ->
    forall x y, x < odim o * odim o -> y < odim o * odim o ->
    mget (kraus_to_choi K cj o (choi_to_kraus_from_eig K o evs)) x y = mget M x y.
  Proof. intros Hreal Hc x y Hx Hy. rewrite Hc by assumption. now apply kraus_reproduce_choi. Qed.

  (* ---------- rank-deficient case: eigh returns all d^2 pairs, the code drops those below the threshold.
     Contract: M = sum over ALL pairs of s_k^2 v_k v_k^dagger, s_k real, and every dropped pair has
     eigenvalue s_k^2 = 0 (the idealised threshold).  Then the kept Kraus operators reproduce M. *)
  Lemma lsum_filter {A} (keep : A -> bool) (g : A -> T) (l : list A) :
    (forall x, In x l -> keep x = false -> g x = T0) ->
    lsum (map g (filter keep l)) = lsum (map g l).
  Proof.
    induction l as [|x l IH]; intros H; [reflexivity|]. cbn [filter map Alg.lsum].
    destruct (keep x) eqn:E; cbn [map Alg.lsum].
    - rewrite IH; [reflexivity|]. intros y Hy. apply H. now right.
    - rewrite IH by (intros y Hy; apply H; now right). rewrite (H x (or_introl eq_refl) E). ring.
  Qed.

  Theorem choi_to_kraus_rank_deficient o M keep (evs : list (T * vec T)) :
    (forall sv, In sv evs -> cj (fst sv) = fst sv) ->
    (forall sv, In sv evs -> keep sv = false -> fst sv *! fst sv = T0) ->
    (forall x y, x < odim o * odim o -> y < odim o * odim o ->
       mget M x y = lsum (map (fun sv => (fst sv *! fst sv) *! (vget (snd sv) x *! cj (vget (snd sv) y))) evs)) ->
    forall x y, x < odim o * odim o -> y < odim o * odim o ->
    mget (kraus_to_choi K cj o (choi_to_kraus_thresholded K o keep evs)) x y = mget M x y.
  Proof.
    intros Hreal Hdrop Hc x y Hx Hy. unfold choi_to_kraus_thresholded.
    rewrite kraus_reproduce_choi; [| intros sv Hin; apply Hreal; apply filter_In in Hin; tauto | exact Hx | exact Hy].
    rewrite (Hc x y Hx Hy). apply lsum_filter. intros sv Hin Hk. rewrite (Hdrop sv Hin Hk). ring.
  Qed.

  (* equal Choi matrices denote the same channel: so Ks -> kraus_to_choi -> (eigh, threshold) -> Ks'
     gives a Kraus set Ks' (in general different operators, at most rank many) of the SAME channel *)
  Theorem same_choi_same_channel o Ks Ks' rho m n :
    (forall x y, x < odim o * odim o -> y < odim o * odim o ->
       mget (kraus_to_choi K cj o Ks') x y = mget (kraus_to_choi K cj o Ks) x y) ->
    m < odim o -> n < odim o ->
    kraus_entry K cj (odim o) Ks' rho m n = kraus_entry K cj (odim o) Ks rho m n.
  Proof.
    intros HC Hm Hn. rewrite <- !(choi_acts K cj SR cj0 o _ rho m n Hm Hn).
    unfold choi_action. cbv zeta. rewrite !(mget_mk K) by assumption.
    apply (bsum_ext K). intros k Hk. apply (bsum_ext K). intros l Hl.
    now rewrite HC by (apply vidx_lt; assumption).
  Qed.

  Corollary kraus_choi_kraus_roundtrip o Ks keep evs rho m n :
    (forall sv, In sv evs -> cj (fst sv) = fst sv) ->
    (forall sv, In sv evs -> keep sv = false -> fst sv *! fst sv = T0) ->
    (forall x y, x < odim o * odim o -> y < odim o * odim o ->
       mget (kraus_to_choi K cj o Ks) x y
       = lsum (map (fun sv => (fst sv *! fst sv) *! (vget (snd sv) x *! cj (vget (snd sv) y))) evs)) ->
    m < odim o -> n < odim o ->
    kraus_entry K cj (odim o) (choi_to_kraus_thresholded K o keep evs) rho m n = kraus_entry K cj (odim o) Ks rho m n.
  Proof.
    intros Hreal Hdrop Hc Hm Hn. apply same_choi_same_channel; [|exact Hm|exact Hn].
    intros x y Hx Hy. now apply (choi_to_kraus_rank_deficient o (kraus_to_choi K cj o Ks) keep evs).
  Qed.

  (* ---------- channel networks: the tensor of QuantumChannel.from_operator(choi, inverse=True)
     built from a row-order Choi matrix has partition (input, output) and means the channel *)
  Lemma mget_mtrans r c M i j : i < c -> j < r -> mget (mtrans K r c M) i j = mget M j i.
  Proof. intros. unfold mtrans. now rewrite (mget_mk K). Qed.

  Theorem qchannel_semantics_ok d Ks rho o o' : o < d -> o' < d ->
    mget (network_action K d d (qn_from_operator_inv K d d (kraus_to_choi K cj (Row d) Ks)) rho) o o'
    = kraus_entry K cj d Ks rho o o'.
  Proof.
    intros Ho Ho'. unfold network_action. rewrite (mget_mk K) by assumption.
    unfold kraus_entry. rewrite (lsum_bsum_swap K SR). apply (bsum_ext K). intros i Hi.
    rewrite (lsum_bsum_swap K SR). apply (bsum_ext K). intros i' Hi'.
    unfold qn_from_operator_inv. rewrite mget_mtrans by (apply pair_lt; assumption).
    unfold qn_from_operator. rewrite (mget_mk K) by (apply pair_lt; assumption).
    rewrite !div_pair, !mod_pair by assumption.
    rewrite (mget_kraus_to_choi K cj cj0) by (cbn [odim]; apply pair_lt; assumption).
    cbn [vun fst snd]. rewrite !div_pair, !mod_pair by assumption.
    rewrite <- (lsum_map_mul_r K SR). apply (lsum_map_ext K). intros U _. ring.
  Qed.

  (* composition: the link product "ij,jk->ik" / the operator @ is the matrix product of the
     tensors, and it denotes the composition of the two maps *)
  Theorem link_product_ok pin pmid pout t1 t2 rho o o' :
    wf (pin * pin) (pmid * pmid) t1 -> length t2 = pmid * pmid -> o < pout -> o' < pout ->
    mget (network_action K pin pout (qn_link K t1 t2) rho) o o'
    = mget (network_action K pmid pout t2 (network_action K pin pmid t1 rho)) o o'.
  Proof.
    intros H1 H2 Ho Ho'. unfold network_action at 1 2. rewrite !(mget_mk K) by assumption.
    unfold qn_link.
    transitivity (bsum pin (fun i => bsum pin (fun i' => bsum pmid (fun a => bsum pmid (fun a' =>
       mget t1 (i * pin + i') (a * pmid + a') *! mget t2 (a * pmid + a') (o * pout + o') *! mget rho i i'))))).
    - apply (bsum_ext K). intros i Hi. apply (bsum_ext K). intros i' Hi'.
      rewrite (mget_mmul_wf K SR (pin * pin) (pmid * pmid) t1 t2 _ _ H1 H2) by (now apply pair_lt).
      rewrite (bsum_prod K SR). rewrite (bsum_mul_r K SR). apply (bsum_ext K). intros a Ha.
      rewrite (bsum_mul_r K SR). reflexivity.
    - transitivity (bsum pmid (fun a => bsum pmid (fun a' => bsum pin (fun i => bsum pin (fun i' =>
         mget t1 (i * pin + i') (a * pmid + a') *! mget t2 (a * pmid + a') (o * pout + o') *! mget rho i i'))))).
      + rewrite (bsum_ext K pin _ (fun i => bsum pmid (fun a => bsum pin (fun i' => bsum pmid (fun a' =>
           mget t1 (i * pin + i') (a * pmid + a') *! mget t2 (a * pmid + a') (o * pout + o') *! mget rho i i')))))
          by (intros i _; apply (bsum_swap K SR)).
        rewrite (bsum_swap K SR). apply (bsum_ext K). intros a _.
        rewrite (bsum_ext K pin _ (fun i => bsum pmid (fun a' => bsum pin (fun i' =>
           mget t1 (i * pin + i') (a * pmid + a') *! mget t2 (a * pmid + a') (o * pout + o') *! mget rho i i'))))
          by (intros i _; apply (bsum_swap K SR)).
        apply (bsum_swap K SR).
      + apply (bsum_ext K). intros a Ha. apply (bsum_ext K). intros a' Ha'.
        unfold network_action. rewrite (mget_mk K) by assumption.
        rewrite (bsum_mul_l K SR). apply (bsum_ext K). intros i _.
        rewrite (bsum_mul_l K SR). apply (bsum_ext K). intros i' _. ring.
  Qed.

  (* QuantumChannel.apply, pure branch, on the network of a unitary built with inverse=True *)
  Theorem qchannel_apply_pure_ok d U rho j k : j < d -> k < d ->
    mget (qn_apply_pure K cj d d (mtrans K d d U) rho) j k = kraus_entry K cj d [U] rho j k.
  Proof.
    intros Hj Hk. unfold qn_apply_pure. rewrite (mget_mk K) by assumption.
    unfold kraus_entry. cbn [map Alg.lsum].
    transitivity (bsum d (fun c => bsum d (fun e => mget U j c *! mget rho c e *! cj (mget U k e)))); [|ring].
    apply (bsum_ext K). intros i Hi. apply (bsum_ext K). intros l Hl.
    rewrite !mget_mtrans by assumption. ring.
  Qed.

  (* QuantumChannel.apply, non-pure branch (einsum "ijkl, ik -> jl"), on the documented construction
     from a row-order Choi matrix with inverse=True: sum_K K rho K^dagger *)
  Theorem qchannel_apply_nonpure_ok d Ks rho o o' : o < d -> o' < d ->
    mget (qn_apply K d d (qn_from_operator_inv K d d (kraus_to_choi K cj (Row d) Ks)) rho) o o'
    = kraus_entry K cj d Ks rho o o'.
  Proof. exact (qchannel_semantics_ok d Ks rho o o'). Qed.

  (* a sum with one term *)
  Lemma msum_single r c M : wf r c M -> msum K r c [M] = M.
  Proof.
    intros HM. apply (mat_ext K r c); [apply wf_mk|exact HM|]. intros i j Hi Hj.
    rewrite (mget_msum K) by assumption. cbn [map Alg.lsum]. ring.
  Qed.

  Lemma wf_to_choi o U : wf (odim o * odim o) (odim o * odim o) (to_choi K cj o U).
  Proof.
    unfold to_choi. cbv zeta. set (v := vectorize K o U).
    assert (L1 : length v = odim o * odim o) by apply (length_vectorize K).
    assert (L2 : length (vconj cj v) = odim o * odim o) by (unfold vconj; now rewrite map_length).
    pose proof (wf_outer K v (vconj cj v)) as W. rewrite L2, L1 in W. exact W.
  Qed.

  (* to_pauli_liouville(U, order) is kraus_to_pauli([U], order): the same function of U in row and
     in column order (this is the statement that failed before `order` was forwarded) *)
  Theorem to_pauli_liouville_ok (ps : nat -> mat T) po col n U :
    to_pauli_liouville K cj ps po col n U = kraus_to_pauli K cj ps po col n [U].
  Proof.
    unfold to_pauli_liouville, kraus_to_pauli, choi_to_pauli, liouville_to_pauli, to_liouville,
      choi_to_liouville, kraus_to_choi. cbv zeta. cbn [map].
    assert (Ho : odim (ord col (2 ^ n)) = 2 ^ n) by (destruct col; reflexivity). rewrite Ho.
    rewrite msum_single; [reflexivity|].
    pose proof (wf_to_choi (ord col (2 ^ n)) U) as W. rewrite Ho in W. exact W.
  Qed.
End Proofs.

