(* C17/Props.v : the property theorems (statements only; proofs live in Proofs*.v).
   Generic statements hold over every commutative semiring T with an involution cj that is
   additive and multiplicative (so over C with complex conjugation, and over the Gaussian
   integers used by the correspondence runs).  [wf r c M] = M is an r x c list matrix. *)
From Coq Require Import List Bool Arith Lia Ring ZArith.
From QV Require Import Base.Mat Base.Zi C17.Alg C17.Model C17.Spec C17.ZiInst
  C17.ProofsIdx C17.ProofsVec C17.ProofsPerm C17.ProofsPauli C17.ProofsStine C17.Historical.
Import ListNotations.

(* ---- vectorisation orders are bijections (every dimension; system order: every n) *)
Theorem vec_index_roundtrip : forall o i j, i < odim o -> j < odim o ->
  vun o (vidx o i j) = (i, j) /\ vidx o i j < odim o * odim o.
Proof. intros. split; [now apply vun_vidx | now apply vidx_lt]. Qed.
Print Assumptions vec_index_roundtrip.

Theorem unvec_index_roundtrip : forall o k, k < odim o * odim o ->
  vidx o (fst (vun o k)) (snd (vun o k)) = k /\ fst (vun o k) < odim o /\ snd (vun o k) < odim o.
Proof. intros. split; [now apply vidx_vun | now apply vun_lt]. Qed.
Print Assumptions unvec_index_roundtrip.

Section Generic.
  Context {T : Type} (K : ops T) (cj : T -> T).
  Variable SR : semi_ring_theory (zero K) (one K) (add K) (mul K) (@eq T).
  Hypothesis cj0 : cj (zero K) = zero K.
  Hypothesis cj_add : forall a b, cj (add K a b) = add K (cj a) (cj b).
  Hypothesis cj_mul : forall a b, cj (mul K a b) = mul K (cj a) (cj b).
  Hypothesis cj_cj : forall a, cj (cj a) = a.
  Hypothesis cj1 : cj (one K) = one K.

  (* unvectorization(vectorization(M)) = M and conversely, for row, column and system order *)
  Theorem vec_unvec : forall o M v,
    (wf (odim o) (odim o) M -> unvectorize K o (vectorize K o M) = M) /\
    (length v = odim o * odim o -> vectorize K o (unvectorize K o v) = v).
  Proof. intros. split; [apply unvec_vec | apply ProofsVec.vec_unvec]. Qed.

  (* _reshuffling is an involution: liouville_to_choi (choi_to_liouville C) = C *)
  Theorem reshuffle_involutive : forall col d M, wf (d * d) (d * d) M ->
    reshuffle K col d (reshuffle K col d M) = M.
  Proof. intros. now apply ProofsVec.reshuffle_involutive. Qed.

  (* the Choi matrix sum_K |K)(K| acts as rho -> sum_K K rho K^dagger, in all three orders *)
  Theorem choi_acts : forall o Ks rho m n, m < odim o -> n < odim o ->
    mget K (choi_action K o (kraus_to_choi K cj o Ks) rho) m n = kraus_entry K cj (odim o) Ks rho m n.
  Proof. intros. now apply (ProofsVec.choi_acts K cj SR cj0). Qed.

  (* Choi and Liouville carry the same map: reshuffling turns "acts as a Choi matrix" into
     "acts on |rho) by matrix-vector product" (row and column order; any matrix C) *)
  Theorem choi_liouville_iso : forall col d C rho m n, m < d -> n < d ->
    mget K (liouville_action K (ord col d) (reshuffle K col d C) rho) m n
    = mget K (choi_action K (ord col d) C rho) m n.
  Proof. intros. now apply (ProofsVec.choi_liouville_iso K SR). Qed.

  (* L |rho) = | sum_K K rho K^dagger )  for row and column order *)
  Theorem liouville_acts : forall col d Ks rho x, x < d * d ->
    vget K (mvmul K (kraus_to_liouville K cj col d Ks) (vectorize K (ord col d) rho)) x
    = kraus_entry K cj d Ks rho (fst (vun (ord col d) x)) (snd (vun (ord col d) x)).
  Proof. intros. now apply (ProofsVec.liouville_acts K cj SR cj0). Qed.

  (* kraus_entry is the entry of the matrix expression sum_K K . rho . K^dagger *)
  Theorem kraus_entry_is_matrix_expression : forall d Ks rho a b,
    d <> 0 -> Forall (wf d d) Ks -> wf d d rho -> a < d -> b < d ->
    mget K (kraus_action K cj d Ks rho) a b = kraus_entry K cj d Ks rho a b.
  Proof. intros. now apply (ProofsVec.mget_kraus_action K cj SR). Qed.

  (* Stinespring: stinespring_to_kraus (kraus_to_stinespring Ks v0) v0 = <v0|v0> Ks *)
  Theorem stinespring_roundtrip : forall d Ks v0 alpha i j,
    length v0 = length Ks -> alpha < length Ks -> i < d -> j < d ->
    mget K (nth alpha (stinespring_to_kraus K d (length Ks) (kraus_to_stinespring K cj d Ks v0) v0) []) i j
    = mul K (mget K (nth alpha Ks []) i j) (bsum K (length Ks) (fun b => mul K (cj (vget K v0 b)) (vget K v0 b))).
  Proof. intros. now apply (ProofsStine.stinespring_roundtrip K cj SR cj0). Qed.

  (* choi_to_kraus, under the contract of eigh (M = sum s_k^2 v_k v_k^dagger, s_k real): the
     Kraus operators s_k * unvectorization(v_k) reproduce the Choi matrix, in every order *)
  Theorem kraus_reproduce_choi : forall o M (evs : list (T * vec T)),
    (forall sv, In sv evs -> cj (fst sv) = fst sv) ->
    (forall x y, x < odim o * odim o -> y < odim o * odim o ->
       mget K M x y = lsum K (map (fun sv => mul K (mul K (fst sv) (fst sv))
                                   (mul K (vget K (snd sv) x) (cj (vget K (snd sv) y)))) evs)) ->
    forall x y, x < odim o * odim o -> y < odim o * odim o ->
    mget K (kraus_to_choi K cj o (choi_to_kraus_from_eig K o evs)) x y = mget K M x y.
  Proof. intros. now apply (choi_to_kraus_contract K cj SR cj0 cj_mul). Qed.

  (* rank-deficient case: eigh returns all d^2 pairs and the code drops those under the threshold; if the
     dropped eigenvalues are exactly 0 (idealised threshold) the kept operators still reproduce M ... *)
  Theorem choi_to_kraus_rank_deficient : forall o M keep (evs : list (T * vec T)),
    (forall sv, In sv evs -> cj (fst sv) = fst sv) ->
    (forall sv, In sv evs -> keep sv = false -> mul K (fst sv) (fst sv) = zero K) ->
    (forall x y, x < odim o * odim o -> y < odim o * odim o ->
       mget K M x y = lsum K (map (fun sv => mul K (mul K (fst sv) (fst sv))
                                   (mul K (vget K (snd sv) x) (cj (vget K (snd sv) y)))) evs)) ->
    forall x y, x < odim o * odim o -> y < odim o * odim o ->
    mget K (kraus_to_choi K cj o (choi_to_kraus_thresholded K o keep evs)) x y = mget K M x y.
  Proof. intros. now apply (ProofsStine.choi_to_kraus_rank_deficient K cj SR cj0 cj_mul). Qed.

  (* ... and Ks -> kraus_to_choi -> choi_to_kraus gives a Kraus set of the SAME channel (any rank of Ks) *)
  Theorem kraus_choi_kraus_roundtrip : forall o Ks keep (evs : list (T * vec T)) rho m n,
    (forall sv, In sv evs -> cj (fst sv) = fst sv) ->
    (forall sv, In sv evs -> keep sv = false -> mul K (fst sv) (fst sv) = zero K) ->
    (forall x y, x < odim o * odim o -> y < odim o * odim o ->
       mget K (kraus_to_choi K cj o Ks) x y
       = lsum K (map (fun sv => mul K (mul K (fst sv) (fst sv))
                          (mul K (vget K (snd sv) x) (cj (vget K (snd sv) y)))) evs)) ->
    m < odim o -> n < odim o ->
    kraus_entry K cj (odim o) (choi_to_kraus_thresholded K o keep evs) rho m n = kraus_entry K cj (odim o) Ks rho m n.
  Proof. intros. now apply (ProofsStine.kraus_choi_kraus_roundtrip K cj SR cj0 cj_mul). Qed.

  (* channel networks: the tensor of QuantumChannel.from_operator(choi, inverse=True) denotes the channel *)
  Theorem qchannel_semantics_ok : forall d Ks rho o o', o < d -> o' < d ->
    mget K (network_action K d d (qn_from_operator_inv K d d (kraus_to_choi K cj (Row d) Ks)) rho) o o'
    = kraus_entry K cj d Ks rho o o'.
  Proof. intros. now apply (ProofsStine.qchannel_semantics_ok K cj SR cj0). Qed.

  (* link product "ij,jk->ik" / @ : matrix product of the tensors = composition of the maps *)
  Theorem link_product_ok : forall pin pmid pout t1 t2 rho o o',
    wf (pin * pin) (pmid * pmid) t1 -> length t2 = pmid * pmid -> o < pout -> o' < pout ->
    mget K (network_action K pin pout (qn_link K t1 t2) rho) o o'
    = mget K (network_action K pmid pout t2 (network_action K pin pmid t1 rho)) o o'.
  Proof. intros. now apply (ProofsStine.link_product_ok K SR). Qed.

  (* QuantumChannel.apply, pure branch: U rho U^dagger *)
  Theorem qchannel_apply_pure_ok : forall d U rho j k, j < d -> k < d ->
    mget K (qn_apply_pure K cj d d (mtrans K d d U) rho) j k = kraus_entry K cj d [U] rho j k.
  Proof. intros. now apply (ProofsStine.qchannel_apply_pure_ok K cj SR). Qed.

  (* QuantumChannel.apply, non-pure branch, on QuantumChannel.from_operator(choi, inverse=True) *)
  Theorem qchannel_apply_nonpure_ok : forall d Ks rho o o', o < d -> o' < d ->
    mget K (qn_apply K d d (qn_from_operator_inv K d d (kraus_to_choi K cj (Row d) Ks)) rho) o o'
    = kraus_entry K cj d Ks rho o o'.
  Proof. intros. now apply (ProofsStine.qchannel_apply_nonpure_ok K cj SR cj0). Qed.

  (* to_pauli_liouville(U, order, pauli_order) = kraus_to_pauli([U], order, pauli_order), row and column *)
  Theorem to_pauli_liouville_ok : forall ps po col n U,
    to_pauli_liouville K cj ps po col n U = kraus_to_pauli K cj ps po col n [U].
  Proof. intros. now apply (ProofsStine.to_pauli_liouville_ok K cj SR). Qed.

  (* Pauli basis: orthogonal for every n and every pauli_order (a permutation of the four labels),
     given that the single-qubit table is orthogonal *)
  Section PauliBasis.
    Variable ps : nat -> mat T.
    Variable po : list nat.
    Hypothesis ps_orth : forall x y, x < 4 -> y < 4 ->
      H1 K cj ps x y = if Nat.eqb x y then two K else zero K.
    Hypothesis po_perm : NoDup po /\ length po = 4 /\ (forall x, In x po -> x < 4).

    Theorem pauli_basis_orthogonal : forall n a b, a < 4 ^ n -> b < 4 ^ n ->
      hs K cj (2 ^ n) (pauli_mat K ps po n a) (pauli_mat K ps po n b)
      = if Nat.eqb a b then twopow K n else zero K.
    Proof.
      intros. destruct po_perm as [P1 [P2 P3]].
      now apply (ProofsPauli.pauli_basis_orthogonal K cj SR cj1 cj_mul ps po ps_orth P1 P2 P3).
    Qed.

    (* comp_basis_to_pauli . pauli_to_comp_basis = 2^n I, for row, column and system order *)
    Theorem basis_change_product : forall o n, odim o = 2 ^ n ->
      mmul K (comp_basis_to_pauli K cj ps po o n) (pauli_to_comp_basis K ps po o n)
      = smat K (4 ^ n) (twopow K n).
    Proof.
      intros. destruct po_perm as [P1 [P2 P3]].
      now apply (ProofsPauli.basis_change_product K cj SR cj0 cj1 cj_mul ps po ps_orth P1 P2 P3).
    Qed.

    (* to_pauli after from_pauli is the identity up to the factor (2^n)^2 of the un-normalised basis *)
    Theorem to_pauli_from_pauli : forall o n P a b, odim o = 2 ^ n ->
      wf (4 ^ n) (4 ^ n) P -> a < 4 ^ n -> b < 4 ^ n ->
      mget K (liouville_to_pauli K cj ps po o n (pauli_to_liouville K cj ps po o n P)) a b
      = mul K (mul K (twopow K n) (mget K P a b)) (twopow K n).
    Proof.
      intros. destruct po_perm as [P1 [P2 P3]].
      now apply (ProofsPauli.to_pauli_from_pauli K cj SR cj0 cj1 cj_mul cj_cj ps po ps_orth P1 P2 P3).
    Qed.

    (* the other direction needs completeness of the single-qubit table *)
    Hypothesis ps_complete : forall r c r' c', r < 2 -> c < 2 -> r' < 2 -> c' < 2 ->
      C1 K cj ps r c r' c' = if Nat.eqb r r' && Nat.eqb c c' then two K else zero K.

    (* sum_a P_a[r][c] conj(P_a[r'][c']) = 2^n delta_rr' delta_cc', every n *)
    Theorem pauli_basis_complete : forall n r c r' c', r < 2 ^ n -> c < 2 ^ n -> r' < 2 ^ n -> c' < 2 ^ n ->
      CS K cj ps po n r c r' c' = if Nat.eqb r r' && Nat.eqb c c' then twopow K n else zero K.
    Proof.
      intros. destruct po_perm as [P1 [P2 P3]].
      now apply (ProofsPauli.pauli_complete K cj SR cj1 cj_mul ps po P1 P2 P3 ps_complete).
    Qed.

    (* from_pauli after to_pauli is the identity up to the same factor *)
    Theorem from_pauli_to_pauli : forall o n L a b, odim o = 2 ^ n ->
      wf (4 ^ n) (4 ^ n) L -> a < 4 ^ n -> b < 4 ^ n ->
      mget K (pauli_to_liouville K cj ps po o n (liouville_to_pauli K cj ps po o n L)) a b
      = mul K (mul K (twopow K n) (mget K L a b)) (twopow K n).
    Proof.
      intros. destruct po_perm as [P1 [P2 P3]].
      now apply (ProofsPauli.from_pauli_to_pauli K cj SR cj0 cj1 cj_mul cj_cj ps po P1 P2 P3 ps_complete).
    Qed.

    (* pauli_acts: the Pauli-Liouville matrix U L U^dagger, read in the Pauli basis, acts on rho as L acts
       on |rho), up to the factor (2^n)^2 of the un-normalised basis -- every n, ordering, order *)
    Theorem pauli_acts : forall o n L rho i j, odim o = 2 ^ n -> wf (4 ^ n) (4 ^ n) L -> i < 2 ^ n -> j < 2 ^ n ->
      mget K (pauli_action K cj ps po n (liouville_to_pauli K cj ps po o n L) rho) i j
      = mul K (mul K (twopow K n) (twopow K n)) (mget K (liouville_action K o L rho) i j).
    Proof.
      intros. destruct po_perm as [P1 [P2 P3]].
      now apply (ProofsPauli.pauli_acts K cj SR cj0 cj1 cj_mul cj_cj ps po P1 P2 P3 ps_complete).
    Qed.

    (* hence kraus_to_pauli(Ks, order) represents rho -> sum K rho K^dagger (row and column) *)
    Theorem pauli_acts_channel : forall col n Ks rho i j, i < 2 ^ n -> j < 2 ^ n ->
      mget K (pauli_action K cj ps po n (kraus_to_pauli K cj ps po col n Ks) rho) i j
      = mul K (mul K (twopow K n) (twopow K n)) (kraus_entry K cj (2 ^ n) Ks rho i j).
    Proof.
      intros col n Ks rho i j Hi Hj.
      change (kraus_to_pauli K cj ps po col n Ks)
        with (liouville_to_pauli K cj ps po (ord col (2 ^ n)) n (kraus_to_liouville K cj col (2 ^ n) Ks)).
      rewrite pauli_acts; [| destruct col; reflexivity | | exact Hi | exact Hj].
      - now rewrite (ProofsVec.liouville_acts_entry K cj SR cj0 col (2 ^ n) Ks rho i j Hi Hj).
      - rewrite pow4_sq. unfold kraus_to_liouville, choi_to_liouville. apply (ProofsVec.wf_reshuffle K).
    Qed.

    (* chi_ok: the chi matrix of kraus_to_chi acts as sum_ab chi_ab P_a rho P_b^dagger = 4^n sum K rho K^dagger,
       every n, ordering, and all three vectorisation orders *)
    Theorem chi_ok : forall o n Ks rho i j, odim o = 2 ^ n -> wf (2 ^ n) (2 ^ n) rho -> i < 2 ^ n -> j < 2 ^ n ->
      mget K (chi_action K cj ps po n (kraus_to_chi K cj ps po o n Ks) rho) i j
      = mul K (mul K (twopow K n) (twopow K n)) (kraus_entry K cj (2 ^ n) Ks rho i j).
    Proof.
      intros. destruct po_perm as [P1 [P2 P3]].
      now apply (ProofsPauli.chi_ok K cj SR cj0 cj1 cj_add cj_mul ps po P1 P2 P3 ps_complete).
    Qed.

    (* path independence, every n: along ANY path through the table of conversion functions
       {choi, liouville, pauli, chi}^2 (row / column order, un-normalised basis), starting from the
       representation kraus_to_<a>(Ks), the result is kraus_to_<end>(Ks) scaled entrywise by
       (product of factors)^2, one factor 2^n for every step that leaves the Pauli basis *)
    Theorem path_independence : forall col n Ks a path,
      run_path K cj ps po col n a path (from_kraus_rep K cj ps po col n a Ks)
      = sc2 K n (path_fac K n a path) (from_kraus_rep K cj ps po col n (path_end a path) Ks).
    Proof.
      intros col n Ks a path. destruct po_perm as [P1 [P2 P3]].
      pose proof (ProofsPauli.path_independence K cj SR cj0 cj1 cj_add cj_mul cj_cj ps po P1 P2 P3 ps_complete
                    col n Ks path a (one K)) as H.
      rewrite (sc2_one K SR n _ (wf_from K cj SR cj0 cj_add cj_mul cj_cj ps po P2 col n Ks a)) in H.
      rewrite H. f_equal. apply (ARmul_1_l (SRth_ARth (Eqsth T) SR)).
    Qed.
  End PauliBasis.
End Generic.
Print Assumptions vec_unvec.
Print Assumptions stinespring_roundtrip.
Print Assumptions kraus_reproduce_choi.
Print Assumptions qchannel_semantics_ok.
Print Assumptions link_product_ok.
Print Assumptions qchannel_apply_pure_ok.
Print Assumptions qchannel_apply_nonpure_ok.
Print Assumptions to_pauli_liouville_ok.
Print Assumptions pauli_basis_orthogonal.
Print Assumptions basis_change_product.
Print Assumptions to_pauli_from_pauli.
Print Assumptions pauli_basis_complete.
Print Assumptions from_pauli_to_pauli.
Print Assumptions pauli_acts.
Print Assumptions pauli_acts_channel.
Print Assumptions chi_ok.
Print Assumptions path_independence.
Print Assumptions choi_to_kraus_rank_deficient.
Print Assumptions kraus_choi_kraus_roundtrip.
Print Assumptions reshuffle_involutive.
Print Assumptions choi_acts.
Print Assumptions choi_liouville_iso.
Print Assumptions liouville_acts.
Print Assumptions kraus_entry_is_matrix_expression.

(* non-vacuity: the hypotheses are satisfied by the Gaussian integers (the carrier of the runs) *)
Example liouville_acts_Zi : forall col d Ks rho x, x < d * d ->
  vget Ziops (mvmul Ziops (kraus_to_liouville Ziops zi_conj col d Ks) (vectorize Ziops (ord col d) rho)) x
  = kraus_entry Ziops zi_conj d Ks rho (fst (vun (ord col d) x)) (snd (vun (ord col d) x)).
Proof. intros. now apply (liouville_acts Ziops zi_conj Zi_SR zi_conj_0). Qed.

(* the concrete I, X, Y, Z over the Gaussian integers satisfy the table hypothesis, so the Pauli
   theorems hold for the model the correspondence runs use, for each of the 24 orderings *)
Lemma zP_orth : forall x y, x < 4 -> y < 4 ->
  H1 Ziops zi_conj zP x y = if Nat.eqb x y then two Ziops else zero Ziops.
Proof.
  intros x y Hx Hy.
  destruct x as [|[|[|[|x]]]]; try lia; destruct y as [|[|[|[|y]]]]; try lia; vm_compute; reflexivity.
Qed.
Lemma zP_complete : forall r c r' c', r < 2 -> c < 2 -> r' < 2 -> c' < 2 ->
  C1 Ziops zi_conj zP r c r' c' = if Nat.eqb r r' && Nat.eqb c c' then two Ziops else zero Ziops.
Proof.
  intros r c r' c' Hr Hc Hr' Hc'.
  destruct r as [|[|r]]; try lia; destruct c as [|[|c]]; try lia;
  destruct r' as [|[|r']]; try lia; destruct c' as [|[|c']]; try lia; vm_compute; reflexivity.
Qed.
Example from_pauli_to_pauli_Zi : forall po o n L a b,
  NoDup po /\ length po = 4 /\ (forall x, In x po -> x < 4) -> odim o = 2 ^ n ->
  wf (4 ^ n) (4 ^ n) L -> a < 4 ^ n -> b < 4 ^ n ->
  mget Ziops (z_pauli_to_liouville po o n (z_liouville_to_pauli po o n L)) a b
  = zi_mul (zi_mul (twopow Ziops n) (mget Ziops L a b)) (twopow Ziops n).
Proof.
  intros po o n L a b Hpo Ho HL Ha Hb.
  exact (from_pauli_to_pauli Ziops zi_conj Zi_SR zi_conj_0 zi_conj_mul zi_conj_invol zi_conj_1 zP po Hpo zP_complete o n L a b Ho HL Ha Hb).
Qed.
Example path_independence_Zi : forall po col n Ks a path,
  NoDup po /\ length po = 4 /\ (forall x, In x po -> x < 4) ->
  run_path Ziops zi_conj zP po col n a path (from_kraus_rep Ziops zi_conj zP po col n a Ks)
  = sc2 Ziops n (path_fac Ziops n a path) (from_kraus_rep Ziops zi_conj zP po col n (path_end a path) Ks).
Proof.
  intros po col n Ks a path Hpo.
  exact (path_independence Ziops zi_conj Zi_SR zi_conj_0 zi_conj_add zi_conj_mul zi_conj_invol zi_conj_1 zP po Hpo zP_complete col n Ks a path).
Qed.
Example pauli_basis_orthogonal_Zi : forall po n a b,
  NoDup po /\ length po = 4 /\ (forall x, In x po -> x < 4) -> a < 4 ^ n -> b < 4 ^ n ->
  hs Ziops zi_conj (2 ^ n) (z_pauli_mat po n a) (z_pauli_mat po n b)
  = if Nat.eqb a b then twopow Ziops n else zero Ziops.
Proof.
  intros po n a b Hpo Ha Hb.
  exact (pauli_basis_orthogonal Ziops zi_conj Zi_SR zi_conj_mul zi_conj_1 zP po zP_orth Hpo n a b Ha Hb).
Qed.



