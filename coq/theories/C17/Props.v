(* C17/Props.v : the property theorems (statements only; proofs live in Proofs*.v).
   Generic statements hold over every commutative semiring T with an involution cj that is
   additive and multiplicative (so over C with complex conjugation, and over the Gaussian
   integers used by the correspondence runs).  [wf r c M] = M is an r x c list matrix. *)
From Coq Require Import List Bool Arith Lia Ring ZArith.
From QV Require Import Base.Mat Base.Zi C17.Alg C17.Model C17.Spec C17.ZiInst
  C17.ProofsIdx C17.ProofsVec.
Import ListNotations.

(* ---- vectorisation orders are bijections (every dimension; system order: every n) *)
Theorem vec_index_roundtrip : forall o i j, i < odim o -> j < odim o ->
  vun o (vidx o i j) = (i, j) /\ vidx o i j < odim o * odim o.
Proof. intros. split; [now apply vun_vidx | now apply vidx_lt]. Qed.
Print Assumptions vec_index_roundtrip.

Theorem unvec_index_roundtrip : forall o k, k < odim o * odim o ->
  vidx o (fst (vun o k)) (snd (vun o k)) = k /\ fst (vun o k) < odim o /\ snd (vun o k) < odim o.
Proof. intros. split; [now apply vidx_vun | now apply vun_lt]. Qed.
Print Assumptions unvec_index_roundtrip.

Section Generic.
  Context {T : Type} (K : ops T) (cj : T -> T).
  Variable SR : semi_ring_theory (zero K) (one K) (add K) (mul K) (@eq T).
  Hypothesis cj0 : cj (zero K) = zero K.
  Hypothesis cj_add : forall a b, cj (add K a b) = add K (cj a) (cj b).
  Hypothesis cj_mul : forall a b, cj (mul K a b) = mul K (cj a) (cj b).

  (* unvectorization(vectorization(M)) = M and conversely, for row, column and system order *)
  Theorem vec_unvec : forall o M v,
    (wf (odim o) (odim o) M -> unvectorize K o (vectorize K o M) = M) /\
    (length v = odim o * odim o -> vectorize K o (unvectorize K o v) = v).
  Proof. intros. split; [apply unvec_vec | apply ProofsVec.vec_unvec]. Qed.

  (* _reshuffling is an involution: liouville_to_choi (choi_to_liouville C) = C *)
  Theorem reshuffle_involutive : forall col d M, wf (d * d) (d * d) M ->
    reshuffle K col d (reshuffle K col d M) = M.
  Proof. intros. now apply ProofsVec.reshuffle_involutive. Qed.

  (* the Choi matrix sum_K |K)(K| acts as rho -> sum_K K rho K^dagger, in all three orders *)
  Theorem choi_acts : forall o Ks rho m n, m < odim o -> n < odim o ->
    mget K (choi_action K o (kraus_to_choi K cj o Ks) rho) m n = kraus_entry K cj (odim o) Ks rho m n.
  Proof. intros. now apply (ProofsVec.choi_acts K cj SR cj0). Qed.

  (* Choi and Liouville carry the same map: reshuffling turns "acts as a Choi matrix" into
     "acts on |rho) by matrix-vector product" (row and column order; any matrix C) *)
  Theorem choi_liouville_iso : forall col d C rho m n, m < d -> n < d ->
    mget K (liouville_action K (ord col d) (reshuffle K col d C) rho) m n
    = mget K (choi_action K (ord col d) C rho) m n.
  Proof. intros. now apply (ProofsVec.choi_liouville_iso K SR). Qed.

  (* L |rho) = | sum_K K rho K^dagger )  for row and column order *)
  Theorem liouville_acts : forall col d Ks rho x, x < d * d ->
    vget K (mvmul K (kraus_to_liouville K cj col d Ks) (vectorize K (ord col d) rho)) x
    = kraus_entry K cj d Ks rho (fst (vun (ord col d) x)) (snd (vun (ord col d) x)).
  Proof. intros. now apply (ProofsVec.liouville_acts K cj SR cj0). Qed.

  (* kraus_entry is the entry of the matrix expression sum_K K . rho . K^dagger *)
  Theorem kraus_entry_is_matrix_expression : forall d Ks rho a b,
    d <> 0 -> Forall (wf d d) Ks -> wf d d rho -> a < d -> b < d ->
    mget K (kraus_action K cj d Ks rho) a b = kraus_entry K cj d Ks rho a b.
  Proof. intros. now apply (ProofsVec.mget_kraus_action K cj SR). Qed.
End Generic.
Print Assumptions vec_unvec.
Print Assumptions reshuffle_involutive.
Print Assumptions choi_acts.
Print Assumptions choi_liouville_iso.
Print Assumptions liouville_acts.
Print Assumptions kraus_entry_is_matrix_expression.

(* non-vacuity: the hypotheses are satisfied by the Gaussian integers (the carrier of the runs) *)
Example liouville_acts_Zi : forall col d Ks rho x, x < d * d ->
  vget Ziops (mvmul Ziops (kraus_to_liouville Ziops zi_conj col d Ks) (vectorize Ziops (ord col d) rho)) x
  = kraus_entry Ziops zi_conj d Ks rho (fst (vun (ord col d) x)) (snd (vun (ord col d) x)).
Proof. intros. now apply (liouville_acts Ziops zi_conj Zi_SR zi_conj_0). Qed.

(* ---- to_pauli_liouville ignores `order` when it builds the basis change: refuted by a 2x2 witness *)
Local Open Scope Z_scope.
Definition witness_U : mat Zi := [[(1,0); (2,0)]; [(0,3); (4,0)]].
Theorem to_pauli_liouville_column_refuted :
  exists U, wf 2 2 U /\
    z_to_pauli_liouville [0;1;2;3]%nat true 1%nat U <> z_kraus_to_pauli [0;1;2;3]%nat true 1%nat [U].
Proof.
  exists witness_U. split; [repeat constructor|]. vm_compute. intros H. discriminate H.
Qed.
Print Assumptions to_pauli_liouville_column_refuted.

(* with `order` forwarded the two functions agree on the witness (bounded instance check) *)
Example to_pauli_liouville_fixed_witness :
  z_to_pauli_liouville_fixed [0;1;2;3]%nat true 1%nat witness_U = z_kraus_to_pauli [0;1;2;3]%nat true 1%nat [witness_U].
Proof. vm_compute. reflexivity. Qed.
