(* C17/ProofsPath.v : path independence over the finite table of (non-spectral) conversion
   functions, as an exhaustive BOUNDED instance check (vm_compute) on asymmetric Gaussian-integer
   Kraus sets: for every pair / triple of representations, the composite along the path equals
   the direct conversion from the Kraus set, times d^2 for every step that leaves the
   un-normalised Pauli basis (the functions named pauli_to_X and chi_to_X).  Bounds: n = 1 (rank 2): all pairs and
   triples, all 24 Pauli orderings; n = 2 (rank 1, Kraus operator on permuted qubits): all pairs,
   two orderings; row and column order.  (All 24 orderings at n = 2 are exercised against the
   Spec by the correspondence run of every check.) *)
From Coq Require Import ZArith List Bool Arith Lia.
From QV Require Import Base.Mat Base.Zi C17.Alg C17.Model C17.Spec C17.ZiInst.
Import ListNotations.

Inductive rep := RChoi | RLiou | RPauli | RChi.
Definition reps := [RChoi; RLiou; RPauli; RChi].

Section Table.
  Variables (po : list nat) (col : bool) (n : nat).
  Let o := ord col (2 ^ n).
  Let d := 2 ^ n.
  Definition from_kraus (r : rep) (Ks : list (mat Zi)) : mat Zi :=
    match r with
    | RChoi => z_kraus_to_choi o Ks
    | RLiou => z_kraus_to_liouville col d Ks
    | RPauli => z_kraus_to_pauli po col n Ks
    | RChi => z_kraus_to_chi po o n Ks
    end.
  (* the function <a>_to_<b> of the source for every ordered pair *)
  Definition conv (a b : rep) (M : mat Zi) : mat Zi :=
    match a, b with
    | RChoi, RLiou => z_reshuffle col d M
    | RChoi, RPauli => z_choi_to_pauli po col n M
    | RChoi, RChi => z_choi_to_chi po o n M
    | RLiou, RChoi => z_reshuffle col d M
    | RLiou, RPauli => z_liouville_to_pauli po o n M
    | RLiou, RChi => z_liouville_to_chi po col n M
    | RPauli, RLiou => z_pauli_to_liouville po o n M
    | RPauli, RChoi => z_pauli_to_choi po col n M
    | RPauli, RChi => z_pauli_to_chi po col n M
    | RChi, RChoi => z_chi_to_choi po o n M
    | RChi, RLiou => z_chi_to_liouville po col n M
    | RChi, RPauli => z_chi_to_pauli po col n M
    | _, _ => M
    end.
  Definition leaves_pauli (a : rep) : bool := match a with RPauli | RChi => true | _ => false end.
  Definition fac (a b : rep) : Z :=
    match a, b with
    | RChoi, RChoi | RLiou, RLiou | RPauli, RPauli | RChi, RChi => 1%Z
    | _, _ => if leaves_pauli a then Z.of_nat (d * d) else 1%Z
    end.
  Definition pair_ok (Ks : list (mat Zi)) (a b : rep) : bool :=
    zmeqb (conv a b (from_kraus a Ks)) (zscal (fac a b) (from_kraus b Ks)).
  Definition triple_ok (Ks : list (mat Zi)) (a c b : rep) : bool :=
    zmeqb (conv c b (conv a c (from_kraus a Ks))) (zscal (fac a c * fac c b) (from_kraus b Ks)).
  Definition paths_ok (Ks : list (mat Zi)) : bool :=
    forallb (fun a => forallb (fun b => pair_ok Ks a b
                        && forallb (fun c => triple_ok Ks a c b) reps) reps) reps.
End Table.

Fixpoint insert_all {A} (x : A) (l : list A) : list (list A) :=
  match l with [] => [[x]] | y :: l' => (x :: l) :: map (cons y) (insert_all x l') end.
Fixpoint perms {A} (l : list A) : list (list A) :=
  match l with [] => [[]] | x :: l' => flat_map (insert_all x) (perms l') end.
Definition pauli_orders : list (list nat) := perms [0; 1; 2; 3].

Local Open Scope Z_scope.
Definition KA : mat Zi := [[(1,2); (3,-1)]; [(0,-2); (4,1)]].
Definition KB : mat Zi := [[(2,0); (-1,1)]; [(3,1); (0,-3)]].
Definition KC : mat Zi :=
  [[(1,1); (2,0); (0,-1); (3,0)]; [(0,2); (-1,0); (4,1); (1,-1)];
   [(2,-2); (0,3); (1,0); (-2,1)]; [(3,0); (1,1); (0,-4); (2,2)]].
Local Close Scope Z_scope.
Definition case1 : list (mat Zi) := [KA; KB].
Definition case2 : list (mat Zi) := z_kraus_full 2 [([1; 0], KC)].

Definition pairs_ok (po : list nat) (col : bool) (n : nat) (Ks : list (mat Zi)) : bool :=
  forallb (fun a => forallb (fun b => pair_ok po col n Ks a b) reps) reps.
(* two orderings for the two-qubit instance: IXYZ, XZIY *)
Definition pauli_orders_n2 : list (list nat) := [[0; 1; 2; 3]; [1; 3; 0; 2]].

(* n = 1: every ordered pair AND every triple, all 24 orderings, row and column;
   n = 2: every ordered pair, two orderings, row and column (kept small enough for coqchk,
   which re-checks vm_compute proofs with the standard conversion) *)
Definition all_paths_ok : bool :=
  forallb (fun po => forallb (fun col => paths_ok po col 1 case1) [false; true]) pauli_orders
  && forallb (fun po => forallb (fun col => pairs_ok po col 2 case2) [false; true]) pauli_orders_n2.

Lemma pauli_orders_24 : length pauli_orders = 24.
Proof. reflexivity. Qed.

Lemma all_paths_ok_true : all_paths_ok = true.
Proof. vm_compute. reflexivity. Qed.
