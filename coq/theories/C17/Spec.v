(* C17/Spec.v : what "the same linear map" means for every representation.
   Each [*_action] applies a representation to an operator rho using only the textbook
   definition of that representation (never a conversion function of the model).
   Un-normalised Pauli conventions: [pauli_action] and [chi_action] return d^2 * E(rho)
   (d = 2^n), which is the "fixed dimension factor" of the property text. *)
From Coq Require Import List Bool Arith Lia.
From QV Require Import Base.Mat C17.Alg C17.Model.
Import ListNotations.

Section Spec.
  Context {T : Type} (K : ops T) (cj : T -> T).
  Variable ps : nat -> mat T.
  Notation vget := (vget K).
  Notation mget := (mget K).

  (* E(rho) = sum_k K rho K^dagger *)
  Definition kraus_action (d : nat) (Ks : list (mat T)) (rho : mat T) : mat T :=
    msum K d d (map (fun Km => mmul3 K Km rho (dagger K cj d d Km)) Ks).
  (* the same, entry by entry (used in the theorems) *)
  Definition kraus_entry (d : nat) (Ks : list (mat T)) (rho : mat T) (a b : nat) : T :=
    lsum K (map (fun Km => bsum K d (fun c => bsum K d (fun e =>
      mul K (mul K (mget Km a c) (mget rho c e)) (cj (mget Km b e))))) Ks).

  (* Liouville: |E(rho)) = L |rho) *)
  Definition liouville_action (o : vorder) (L rho : mat T) : mat T :=
    unvectorize K o (mvmul K L (vectorize K o rho)).

  (* Choi = sum_K |K)(K| in the given vectorisation:  E(rho)[m][n] = sum_kl C[|mk)][|nl)] rho[k][l] *)
  Definition choi_action (o : vorder) (C rho : mat T) : mat T :=
    let d := odim o in
    mk d d (fun m n => bsum K d (fun k => bsum K d (fun l =>
      mul K (mget C (vidx o m k) (vidx o n l)) (mget rho k l)))).

  (* Hilbert-Schmidt product <A,B> = sum conj(A_rc) B_rc *)
  Definition hs (d : nat) (A B : mat T) : T :=
    bsum K d (fun r => bsum K d (fun c => mul K (cj (mget A r c)) (mget B r c))).
  Definition mlin (d : nat) (cs : vec T) (Ms : list (mat T)) : mat T :=
    mk d d (fun i j => lsum K (map (fun cM => mul K (fst cM) (mget (snd cM) i j)) (combine cs Ms))).

  Section Pauli.
    Variable po : list nat.
    Definition paulis (n : nat) : list (mat T) := tab (4 ^ n) (pauli_mat K ps po n).
    (* Pauli-Liouville (un-normalised): d^2 E(rho) = sum_a (R c)_a P_a,  c_b = <P_b,rho> *)
    Definition pauli_action (n : nat) (R rho : mat T) : mat T :=
      let d := 2 ^ n in
      let c := map (fun P => hs d P rho) (paulis n) in
      mlin d (mvmul K R c) (paulis n).
    (* chi (un-normalised): d^2 E(rho) = sum_ab X[a][b] P_a rho P_b^dagger *)
    Definition chi_action (n : nat) (X rho : mat T) : mat T :=
      let d := 2 ^ n in
      let Ps := paulis n in
      let Pd := map (dagger K cj d d) Ps in
      msum K d d (map (fun aP =>
         mmul3 K (snd aP) rho (mlin d (nth (fst aP) X []) Pd)) (combine (seq 0 (4 ^ n)) Ps)).
  End Pauli.

  (* Stinespring: E(rho) = Tr_env [ U0 (rho (x) |v0><v0|) U0^dagger ] *)
  Definition stinespring_action (d D : nat) (U0 : mat T) (v0 : vec T) (rho : mat T) : mat T :=
    let N := d * D in
    let big := kronI K D D d d rho (outer K v0 (vconj cj v0)) in
    let A := mmul3 K U0 big (dagger K cj N N U0) in
    mk d d (fun i i' => bsum K D (fun al => mget A (i * D + al) (i' * D + al))).

  (* channel network with partition (p_in, p_out): E(rho)[o][o'] = sum T[(i,i')][(o,o')] rho[i][i'] *)
  Definition network_action (pin pout : nat) (t rho : mat T) : mat T :=
    mk pout pout (fun o o' => bsum K pin (fun i => bsum K pin (fun i' =>
      mul K (mget t (i * pin + i') (o * pout + o')) (mget rho i i')))).
End Spec.
