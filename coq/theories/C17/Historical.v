(* C17/Historical.v : LABELLED HISTORICAL LEMMAS about formulas that are no longer in /repo.
   They document the two defects found by this check and repaired upstream of the model
   (2621e9186 to_pauli_liouville, d90e25ba4 QuantumChannel.apply).  They are statements about the
   *_prefix definitions of Model.v only -- NOT about the current tree, and they are not property
   theorems (Props.v states the positive theorems about the repaired functions). *)
From Coq Require Import ZArith List Bool Arith.
From QV Require Import Base.Mat Base.Zi C17.Alg C17.Model C17.Spec C17.ZiInst.
Import ListNotations.
Local Open Scope Z_scope.

Definition witness_U : mat Zi := [[(1,0); (2,0)]; [(0,3); (4,0)]].
Definition witness_rho : mat Zi := [[(1,0); (2,1)]; [(5,0); (7,0)]].

(* pre-repair to_pauli_liouville (row-order basis change whatever `order` is) differs from
   kraus_to_pauli in column order *)
Lemma historical_to_pauli_liouville_prefix_column_differs :
  z_to_pauli_liouville_prefix [0;1;2;3]%nat true 1%nat witness_U
  <> z_kraus_to_pauli [0;1;2;3]%nat true 1%nat [witness_U].
Proof. vm_compute. intros H. discriminate H. Qed.

(* pre-repair non-pure QuantumChannel.apply (einsum "ijkl,jl") is not K rho K^dagger *)
Lemma historical_qn_apply_prefix_differs :
  z_qn_apply_prefix 2 2 (z_qn_from_operator_inv 2 2 (z_kraus_to_choi (Row 2%nat) [witness_U])) witness_rho
  <> z_kraus_action 2 [witness_U] witness_rho.
Proof. vm_compute. intros H. discriminate H. Qed.

(* the repaired functions on the same witnesses *)
Example repaired_to_pauli_liouville_witness :
  z_to_pauli_liouville [0;1;2;3]%nat true 1%nat witness_U = z_kraus_to_pauli [0;1;2;3]%nat true 1%nat [witness_U].
Proof. vm_compute. reflexivity. Qed.
Example repaired_qn_apply_witness :
  z_qn_apply 2 2 (z_qn_from_operator_inv 2 2 (z_kraus_to_choi (Row 2%nat) [witness_U])) witness_rho
  = z_kraus_action 2 [witness_U] witness_rho.
Proof. vm_compute. reflexivity. Qed.
