(* C17/ProofsVec.v : vectorisation / un-vectorisation are mutually inverse, reshuffling is an
   involution, the Choi matrix built by kraus_to_choi acts as sum K rho K^dagger in every
   order, Choi and Liouville are the same data (reshuffling), hence L|rho) = |E(rho)).
   All over an arbitrary commutative semiring with an additive, multiplicative involution. *)
From Coq Require Import List Bool Arith Lia Ring.
From QV Require Import Base.Mat C17.Alg C17.Model C17.Spec C17.ProofsIdx.
Import ListNotations.

Section Proofs.
  Context {T : Type} (K : ops T) (cj : T -> T).
  Notation T0 := (zero K).
  Notation T1 := (one K).
  Infix "+!" := (add K) (at level 50, left associativity).
  Infix "*!" := (mul K) (at level 40, left associativity).
  Variable SR : semi_ring_theory T0 T1 (add K) (mul K) (@eq T).
  Add Ring TR2 : SR.
  Hypothesis cj0 : cj T0 = T0.
  Hypothesis cj_add : forall a b, cj (a +! b) = cj a +! cj b.
  Hypothesis cj_mul : forall a b, cj (a *! b) = cj a *! cj b.
  Hypothesis cj_cj : forall a, cj (cj a) = a.

  Notation vget := (vget K).
  Notation mget := (mget K).
  Notation bsum := (bsum K).
  Notation lsum := (lsum K).

  Lemma let_pair {A B C} (p : A * B) (f : A -> B -> C) :
    (let '(a, b) := p in f a b) = f (fst p) (snd p).
  Proof. now destruct p. Qed.

  (* ---------- small entry lemmas *)
  Lemma vget_vconj v j : vget (vconj cj v) j = cj (vget v j).
  Proof. unfold Alg.vget, vconj. rewrite <- cj0 at 1. apply map_nth. Qed.

  Lemma mget_outer u v i j : i < length u -> j < length v ->
    mget (outer K u v) i j = vget u i *! vget v j.
  Proof. intros. unfold outer. now rewrite (mget_mk K). Qed.

  Lemma wf_outer u v : wf (length u) (length v) (outer K u v).
  Proof. apply wf_mk. Qed.

  Lemma mget_msum r c Ms i j : i < r -> j < c ->
    mget (msum K r c Ms) i j = lsum (map (fun M => mget M i j) Ms).
  Proof. intros. unfold msum. now rewrite (mget_mk K). Qed.

  Lemma dot_bsum u : forall v,
    dot K u v = bsum (Nat.min (length u) (length v)) (fun k => nth k u T0 *! nth k v T0).
  Proof.
    induction u as [|x u IH]; intros [|y v]; cbn [dot length Nat.min]; try reflexivity.
    rewrite (bsum_shift K SR). cbn [nth]. now rewrite IH.
  Qed.

  Lemma vget_mvmul M v i : i < length M -> vget (mvmul K M v) i = dot K (nth i M []) v.
  Proof.
    intros H. unfold Alg.vget, mvmul.
    rewrite (nth_indep _ T0 (dot K [] v)) by (now rewrite map_length).
    exact (map_nth (fun row => dot K row v) M [] i).
  Qed.

  Lemma vget_mvmul_wf r n M v i : wf r n M -> length v = n -> i < r ->
    vget (mvmul K M v) i = bsum n (fun k => mget M i k *! vget v k).
  Proof.
    intros HM Hv Hi. rewrite vget_mvmul by (destruct HM; lia). rewrite dot_bsum.
    rewrite (wf_row r n M i HM Hi), Hv, Nat.min_id. reflexivity.
  Qed.

  Lemma length_vectorize o M : length (vectorize K o M) = odim o * odim o.
  Proof. unfold vectorize. apply tab_length. Qed.

  Lemma vget_vectorize o M k : k < odim o * odim o ->
    vget (vectorize K o M) k = mget M (fst (vun o k)) (snd (vun o k)).
  Proof. intros H. unfold vectorize. rewrite (vget_tab K) by exact H. apply let_pair. Qed.

  Lemma vget_vectorize_idx o M i j : i < odim o -> j < odim o ->
    vget (vectorize K o M) (vidx o i j) = mget M i j.
  Proof.
    intros Hi Hj. rewrite vget_vectorize by (now apply vidx_lt). now rewrite vun_vidx.
  Qed.

  (* ---------- vec / unvec *)
  Theorem unvec_vec o M : wf (odim o) (odim o) M -> unvectorize K o (vectorize K o M) = M.
  Proof.
    intros HM. unfold unvectorize. cbv zeta.
    transitivity (mk (odim o) (odim o) (fun i j => mget M i j)); [|now apply mk_mget].
    apply mk_ext. intros i j Hi Hj. now apply vget_vectorize_idx.
  Qed.

  Theorem vec_unvec o v : length v = odim o * odim o -> vectorize K o (unvectorize K o v) = v.
  Proof.
    intros Hv. unfold vectorize. cbv zeta.
    transitivity (tab (odim o * odim o) (fun k => nth k v T0)); [|rewrite <- Hv; apply tab_nth].
    apply tab_ext. intros k Hk. rewrite let_pair. destruct (vun_lt o k Hk) as [H1 H2].
    unfold unvectorize. rewrite (mget_mk K) by assumption. unfold Alg.vget. now rewrite vidx_vun.
  Qed.

  (* ---------- reshuffling *)
  Lemma mget_reshuffle col d M x y : x < d * d -> y < d * d ->
    mget (reshuffle K col d M) x y =
      if col then mget M ((y mod d) * d + x mod d) ((y / d) * d + x / d)
      else mget M ((x / d) * d + y / d) ((x mod d) * d + y mod d).
  Proof. intros. unfold reshuffle. now rewrite (mget_mk K). Qed.

  Theorem reshuffle_involutive col d M : wf (d * d) (d * d) M ->
    reshuffle K col d (reshuffle K col d M) = M.
  Proof.
    intros HM. transitivity (mk (d * d) (d * d) (fun i j => mget M i j)); [|now apply mk_mget].
    unfold reshuffle at 1. apply mk_ext. intros x y Hx Hy.
    assert (Hd : d <> 0) by (intros ->; cbn in Hx; lia).
    pose proof (div_lt_prod x d d Hx). pose proof (mod_lt_prod x d d Hx).
    pose proof (div_lt_prod y d d Hy). pose proof (mod_lt_prod y d d Hy).
    destruct col.
    - rewrite mget_reshuffle by (apply pair_lt; assumption).
      rewrite !div_pair, !mod_pair by assumption. now rewrite !divmod_eq.
    - rewrite mget_reshuffle by (apply pair_lt; assumption).
      rewrite !div_pair, !mod_pair by assumption. now rewrite !divmod_eq.
  Qed.

  (* ---------- the Choi matrix of a Kraus set acts as sum K rho K^dagger, in every order *)
  Lemma mget_to_choi o U x y : x < odim o * odim o -> y < odim o * odim o ->
    mget (to_choi K cj o U) x y =
    mget U (fst (vun o x)) (snd (vun o x)) *! cj (mget U (fst (vun o y)) (snd (vun o y))).
  Proof.
    intros Hx Hy. unfold to_choi. cbv zeta.
    rewrite mget_outer by (unfold vconj; rewrite ?map_length, length_vectorize; assumption).
    rewrite vget_vconj, !vget_vectorize by assumption. reflexivity.
  Qed.

  Lemma mget_kraus_to_choi o Ks x y : x < odim o * odim o -> y < odim o * odim o ->
    mget (kraus_to_choi K cj o Ks) x y =
    lsum (map (fun U => mget U (fst (vun o x)) (snd (vun o x))
                        *! cj (mget U (fst (vun o y)) (snd (vun o y)))) Ks).
  Proof.
    intros Hx Hy. unfold kraus_to_choi. cbv zeta. rewrite mget_msum by assumption.
    rewrite map_map. apply (lsum_map_ext K). intros U _. now apply mget_to_choi.
  Qed.

  Theorem choi_acts o Ks rho m n : m < odim o -> n < odim o ->
    mget (choi_action K o (kraus_to_choi K cj o Ks) rho) m n = kraus_entry K cj (odim o) Ks rho m n.
  Proof.
    intros Hm Hn. unfold choi_action, kraus_entry. cbv zeta. rewrite (mget_mk K) by assumption.
    rewrite (lsum_bsum_swap K SR). apply (bsum_ext K). intros k Hk.
    rewrite (lsum_bsum_swap K SR). apply (bsum_ext K). intros l Hl.
    rewrite mget_kraus_to_choi by (apply vidx_lt; assumption).
    rewrite !vun_vidx by assumption. cbn [fst snd].
    rewrite <- (lsum_map_mul_r K SR). apply (lsum_map_ext K). intros U _. ring.
  Qed.

  (* ---------- Choi <-> Liouville: the reshuffled matrix acts through |rho) as the Choi matrix acts *)
  Lemma wf_reshuffle col d M : wf (d * d) (d * d) (reshuffle K col d M).
  Proof. apply wf_mk. Qed.

  Theorem choi_liouville_iso col d C rho m n : m < d -> n < d ->
    mget (liouville_action K (ord col d) (reshuffle K col d C) rho) m n
    = mget (choi_action K (ord col d) C rho) m n.
  Proof.
    intros Hm Hn.
    assert (Ho : odim (ord col d) = d) by (destruct col; reflexivity).
    unfold liouville_action, unvectorize, choi_action. rewrite Ho.
    rewrite !(mget_mk K) by assumption.
    assert (Hx : vidx (ord col d) m n < d * d) by (rewrite <- Ho at 2 3; apply vidx_lt; rewrite Ho; assumption).
    rewrite (vget_mvmul_wf (d * d) (d * d)); [| apply wf_reshuffle | rewrite length_vectorize, Ho; reflexivity | exact Hx].
    rewrite (bsum_prod K SR).
    destruct col; cbn [ord vidx] in *.
    - (* column: x = n*d+m, y = c*d+e  ->  C[(e*d+m)][(c*d+n)] * rho[e][c] *)
      rewrite (bsum_swap K SR). apply (bsum_ext K). intros k Hk. apply (bsum_ext K). intros l Hl.
      assert (Hy : l * d + k < d * d) by (now apply pair_lt).
      rewrite mget_reshuffle by assumption.
      rewrite vget_vectorize by (cbn [odim]; exact Hy). cbn [vun fst snd].
      rewrite !div_pair, !mod_pair by assumption. reflexivity.
    - apply (bsum_ext K). intros k Hk. apply (bsum_ext K). intros l Hl.
      assert (Hy : k * d + l < d * d) by (now apply pair_lt).
      rewrite mget_reshuffle by assumption.
      rewrite vget_vectorize by (cbn [odim]; exact Hy). cbn [vun fst snd].
      rewrite !div_pair, !mod_pair by assumption. reflexivity.
  Qed.

  (* ---------- L |rho) = | sum_k K rho K^dagger ), row and column order *)
  Theorem liouville_acts_entry col d Ks rho m n : m < d -> n < d ->
    mget (liouville_action K (ord col d) (kraus_to_liouville K cj col d Ks) rho) m n
    = kraus_entry K cj d Ks rho m n.
  Proof.
    intros Hm Hn. unfold kraus_to_liouville, choi_to_liouville.
    rewrite choi_liouville_iso by assumption.
    assert (Ho : odim (ord col d) = d) by (destruct col; reflexivity).
    rewrite <- Ho at 3. apply choi_acts; rewrite Ho; assumption.
  Qed.

  Theorem liouville_acts col d Ks rho x : x < d * d ->
    vget (mvmul K (kraus_to_liouville K cj col d Ks) (vectorize K (ord col d) rho)) x
    = kraus_entry K cj d Ks rho (fst (vun (ord col d) x)) (snd (vun (ord col d) x)).
  Proof.
    intros Hx.
    assert (Ho : odim (ord col d) = d) by (destruct col; reflexivity).
    assert (Hx' : x < odim (ord col d) * odim (ord col d)) by (now rewrite Ho).
    destruct (vun_lt _ _ Hx') as [H1 H2]. rewrite Ho in H1, H2.
    rewrite <- (liouville_acts_entry col d Ks rho _ _ H1 H2).
    unfold liouville_action, unvectorize. rewrite Ho, (mget_mk K) by assumption.
    now rewrite vidx_vun.
  Qed.

  (* ---------- kraus_action (matrix products) has the entries kraus_entry *)
  Lemma mget_dagger r c M i j : i < c -> j < r -> mget (dagger K cj r c M) i j = cj (mget M j i).
  Proof. intros. unfold dagger. now rewrite (mget_mk K). Qed.

  Lemma mget_kraus_action d Ks rho a b :
    d <> 0 -> Forall (wf d d) Ks -> wf d d rho -> a < d -> b < d ->
    mget (kraus_action K cj d Ks rho) a b = kraus_entry K cj d Ks rho a b.
  Proof.
    intros Hd HK Hr Ha Hb. unfold kraus_action, kraus_entry. rewrite mget_msum by assumption.
    rewrite map_map. apply (lsum_map_ext K). intros U HU. rewrite Forall_forall in HK.
    specialize (HK U HU). unfold mmul3.
    assert (Hw : wf d d (mmul K U rho)) by (apply (wf_mmul K d d d); assumption).
    rewrite (mget_mmul_wf K SR d d) ; [| exact Hw | unfold dagger, mk; apply tab_length | exact Ha].
    transitivity (bsum d (fun e => bsum d (fun c => mget U a c *! mget rho c e *! cj (mget U b e)))).
    - apply (bsum_ext K). intros e He.
      rewrite (mget_mmul_wf K SR d d U rho a e HK (proj1 Hr) Ha).
      rewrite mget_dagger by assumption. apply (bsum_mul_r K SR).
    - apply (bsum_swap K SR).
  Qed.
End Proofs.
