(* C17/ProofsIdx.v : the three vectorisation orders are bijections between index pairs and
   positions, for every dimension (row, column) and every number of qubits (system). *)
From Coq Require Import List Bool Arith Lia.
From QV Require Import Base.Mat C17.Alg C17.Model.
Import ListNotations.

Lemma pow2_pos n : 0 < 2 ^ n.
Proof. induction n; cbn [Nat.pow]; lia. Qed.
Lemma pow4_pos n : 0 < 4 ^ n.
Proof. induction n; cbn [Nat.pow]; lia. Qed.
Lemma pow4_sq n : 4 ^ n = 2 ^ n * 2 ^ n.
Proof. induction n as [|n IH]; cbn [Nat.pow]; [reflexivity|]. rewrite IH. ring. Qed.

Lemma two_digit a b : b < 2 -> (2 * a + b) mod 2 = b /\ (2 * a + b) / 2 = a.
Proof.
  intros H. replace (2 * a + b) with (a * 2 + b) by lia. split; [now apply mod_pair|now apply div_pair].
Qed.

Lemma sys_idx_lt n : forall i j, i < 2 ^ n -> j < 2 ^ n -> sys_idx n i j < 4 ^ n.
Proof.
  induction n as [|n IH]; intros i j Hi Hj; cbn [sys_idx]; [cbn; lia|].
  cbn [Nat.pow] in Hi, Hj.
  pose proof (pow2_pos n) as Hh. set (h := 2 ^ n) in *.
  assert (Ha : i / h < 2) by (apply Nat.div_lt_upper_bound; lia).
  assert (Hb : j / h < 2) by (apply Nat.div_lt_upper_bound; lia).
  assert (Hr : sys_idx n (i mod h) (j mod h) < 4 ^ n)
    by (apply IH; apply Nat.mod_upper_bound; lia).
  cbn [Nat.pow]. set (q := 4 ^ n) in *. nia.
Qed.

Lemma sys_un_idx n : forall i j, i < 2 ^ n -> j < 2 ^ n -> sys_un n (sys_idx n i j) = (i, j).
Proof.
  induction n as [|n IH]; intros i j Hi Hj; cbn [sys_idx sys_un].
  - cbn in Hi, Hj. f_equal; lia.
  - cbn [Nat.pow] in Hi, Hj.
    pose proof (pow2_pos n) as Hh. set (h := 2 ^ n) in *.
    assert (Ha : i / h < 2) by (apply Nat.div_lt_upper_bound; lia).
    assert (Hb : j / h < 2) by (apply Nat.div_lt_upper_bound; lia).
    assert (Hih : i mod h < h) by (apply Nat.mod_upper_bound; lia).
    assert (Hjh : j mod h < h) by (apply Nat.mod_upper_bound; lia).
    pose proof (sys_idx_lt n _ _ Hih Hjh) as Hr. fold h in Hr.
    rewrite div_pair by exact Hr. rewrite mod_pair by exact Hr.
    rewrite IH by assumption.
    destruct (two_digit (j / h) (i / h) Ha) as [E1 E2]. rewrite E1, E2.
    f_equal; apply divmod_eq; lia.
Qed.

Lemma sys_un_lt n : forall k, k < 4 ^ n -> fst (sys_un n k) < 2 ^ n /\ snd (sys_un n k) < 2 ^ n.
Proof.
  induction n as [|n IH]; intros k Hk; cbn [sys_un]; [cbn; lia|].
  cbn [Nat.pow] in Hk. pose proof (pow4_pos n) as H4. pose proof (pow2_pos n) as Hh.
  assert (Hq : k / 4 ^ n < 4) by (apply Nat.div_lt_upper_bound; lia).
  assert (Hr : k mod 4 ^ n < 4 ^ n) by (apply Nat.mod_upper_bound; lia).
  destruct (IH _ Hr) as [H1 H2]. destruct (sys_un n (k mod 4 ^ n)) as [i' j']. cbn [fst snd] in *.
  assert (k / 4 ^ n mod 2 < 2) by (apply Nat.mod_upper_bound; lia).
  assert (k / 4 ^ n / 2 < 2) by (apply Nat.div_lt_upper_bound; lia).
  cbn [Nat.pow]. set (h := 2 ^ n) in *. nia.
Qed.

Lemma sys_idx_un n : forall k, k < 4 ^ n -> sys_idx n (fst (sys_un n k)) (snd (sys_un n k)) = k.
Proof.
  induction n as [|n IH]; intros k Hk; cbn [sys_un sys_idx]; [cbn in Hk; lia|].
  cbn [Nat.pow] in Hk. pose proof (pow4_pos n) as H4. pose proof (pow2_pos n) as Hh.
  assert (Hq : k / 4 ^ n < 4) by (apply Nat.div_lt_upper_bound; lia).
  assert (Hr : k mod 4 ^ n < 4 ^ n) by (apply Nat.mod_upper_bound; lia).
  pose proof (IH _ Hr) as E. destruct (sys_un_lt n _ Hr) as [H1 H2].
  destruct (sys_un n (k mod 4 ^ n)) as [i' j']. cbn [fst snd] in *.
  set (h := 2 ^ n) in *. set (q := k / 4 ^ n) in *.
  rewrite !div_pair by assumption. rewrite !mod_pair by assumption. rewrite E.
  assert (Eq : 2 * (q / 2) + q mod 2 = q) by (pose proof (Nat.div_mod q 2); lia).
  rewrite Eq. unfold q. apply divmod_eq. lia.
Qed.

(* ---------------- all three orders *)
Lemma odim_sq_pos_lt o i : i < odim o -> 0 < odim o.
Proof. lia. Qed.

Lemma vidx_lt o i j : i < odim o -> j < odim o -> vidx o i j < odim o * odim o.
Proof.
  destruct o as [d|d|n]; cbn [vidx odim]; intros Hi Hj.
  - now apply pair_lt.
  - now apply pair_lt.
  - rewrite <- pow4_sq. now apply sys_idx_lt.
Qed.

Lemma vun_vidx o i j : i < odim o -> j < odim o -> vun o (vidx o i j) = (i, j).
Proof.
  destruct o as [d|d|n]; cbn [vidx vun odim]; intros Hi Hj.
  - now rewrite div_pair, mod_pair.
  - now rewrite div_pair, mod_pair.
  - now apply sys_un_idx.
Qed.

Lemma vun_lt o k : k < odim o * odim o -> fst (vun o k) < odim o /\ snd (vun o k) < odim o.
Proof.
  destruct o as [d|d|n]; cbn [vun odim fst snd]; intros Hk.
  - split; [now apply div_lt_prod | now apply (mod_lt_prod k d d)].
  - split; [now apply (mod_lt_prod k d d) | now apply div_lt_prod].
  - rewrite <- pow4_sq in Hk. now apply sys_un_lt.
Qed.

Lemma vidx_vun o k : k < odim o * odim o -> vidx o (fst (vun o k)) (snd (vun o k)) = k.
Proof.
  destruct o as [d|d|n]; cbn [vidx vun odim fst snd]; intros Hk.
  - apply divmod_eq. lia.
  - apply divmod_eq. lia.
  - rewrite <- pow4_sq in Hk. now apply sys_idx_un.
Qed.

Lemma vidx_inj o i j i' j' : i < odim o -> j < odim o -> i' < odim o -> j' < odim o ->
  vidx o i j = vidx o i' j' -> i = i' /\ j = j'.
Proof.
  intros Hi Hj Hi' Hj' E.
  pose proof (vun_vidx o i j Hi Hj) as E1. pose proof (vun_vidx o i' j' Hi' Hj') as E2.
  rewrite E in E1. rewrite E1 in E2. now inversion E2.
Qed.
