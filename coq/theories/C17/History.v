(* C17/History.v : representation queries on ONE long-lived channel object, and repeated conversions of the same data.

   A channel object is its Kraus set; a query carries its own arguments (the vectorisation order, the kind of
   representation) and returns a NEW matrix computed from the Kraus set and those arguments only.  The model has no
   memo table: nothing a query computed is kept.  Hence, for every history of queries in every order,

     answers_are_fresh          each answer is the answer a brand-new object gives to the same query, and
     all_forms_same_output      after any history, the Choi matrix of ANY order and the Liouville matrix of row or
                                column order act on every operator rho as sum_k K rho K^dagger -- the forms obtained
                                from one object at different times, with different orders, all give the same output.

   A labelled counter-model (first order asked wins, as a memo table keyed without the order would do) shows that the
   statement is not vacuous.  Tie to the code: harness/c17.py, streams "object histories" (gate-level Channel objects
   and QuantumNetwork objects driven through seeded query / apply / compose histories, each observation compared
   exactly with a fresh object's and with the value the main stream verified against C17/Model.v) and "functional
   histories" (the converters of quantum_info called repeatedly on the SAME arrays with varying order / pauli_order;
   inputs never written, each result the first-call result). *)
From Coq Require Import List Bool Arith Lia Ring ZArith.
From QV Require Import Base.Mat Base.Zi C17.Alg C17.Model C17.Spec C17.ZiInst C17.ProofsIdx C17.ProofsVec.
Import ListNotations.

Section Hist.
  Context {T : Type} (K : ops T) (cj : T -> T).
  Variable SR : semi_ring_theory (zero K) (one K) (add K) (mul K) (@eq T).
  Hypothesis cj0 : cj (zero K) = zero K.

  Inductive query :=
  | QChoi (o : vorder)                 (* to_choi(order=o) / kraus_to_choi *)
  | QLiouville (col : bool) (d : nat). (* to_liouville(order=row|column) / kraus_to_liouville *)

  Definition answer (Ks : list (mat T)) (q : query) : mat T :=
    match q with
    | QChoi o => kraus_to_choi K cj o Ks
    | QLiouville col d => kraus_to_liouville K cj col d Ks
    end.
  (* a query leaves the object as it is *)
  Definition qstep (Ks : list (mat T)) (q : query) : list (mat T) := Ks.
  Definition qrun (Ks : list (mat T)) (qs : list query) : list (mat T) := fold_left qstep qs Ks.
  Fixpoint answers (Ks : list (mat T)) (qs : list query) : list (mat T) :=
    match qs with
    | [] => []
    | q :: rest => answer Ks q :: answers (qstep Ks q) rest
    end.

  Lemma qrun_id : forall qs Ks, qrun Ks qs = Ks.
  Proof. induction qs as [|q qs IH]; intros Ks; [reflexivity|]. cbn [qrun fold_left qstep]. apply IH. Qed.

  Lemma answers_are_fresh_l : forall qs Ks, answers Ks qs = map (answer Ks) qs.
  Proof. induction qs as [|q qs IH]; intros Ks; [reflexivity|]. cbn [answers map qstep]. now rewrite IH. Qed.

  Lemma all_forms_same_output_l : forall Ks h1 h2 rho,
    (forall o m n, m < odim o -> n < odim o ->
       mget K (choi_action K o (answer (qrun Ks h1) (QChoi o)) rho) m n = kraus_entry K cj (odim o) Ks rho m n)
    /\ (forall col d m n, m < d -> n < d ->
       mget K (liouville_action K (ord col d) (answer (qrun Ks h2) (QLiouville col d)) rho) m n
       = kraus_entry K cj d Ks rho m n).
  Proof.
    intros Ks h1 h2 rho. rewrite !qrun_id. split.
    - intros o m n Hm Hn. cbn [answer]. now apply (ProofsVec.choi_acts K cj SR cj0).
    - intros col d m n Hm Hn. cbn [answer]. now apply (ProofsVec.liouville_acts_entry K cj SR cj0).
  Qed.

  (* ---- labelled counter-model (NOT the current tree): a memo table for the Choi matrix keyed without the order *)
  Definition mstate := (list (mat T) * option (mat T))%type.
  Definition manswer (s : mstate) (q : query) : mat T :=
    match q, snd s with
    | QChoi o, Some C => C
    | _, _ => answer (fst s) q
    end.
  Definition mstep (s : mstate) (q : query) : mstate :=
    match q, snd s with
    | QChoi o, None => (fst s, Some (kraus_to_choi K cj o (fst s)))
    | _, _ => s
    end.
  Fixpoint manswers (s : mstate) (qs : list query) : list (mat T) :=
    match qs with [] => [] | q :: rest => manswer s q :: manswers (mstep s q) rest end.
End Hist.

(* the counter-model is history dependent on a concrete asymmetric Kraus operator over the Gaussian integers *)
Definition ex_K : mat Zi := [[(1,0); (2,0)]; [(0,1); (3,0)]]%Z.
Lemma memo_without_order_is_history_dependent :
  manswers Ziops zi_conj ([ex_K], None) [QChoi (Row 2); QChoi (Col 2)]
  <> map (manswer Ziops zi_conj ([ex_K], None)) [QChoi (Row 2); QChoi (Col 2)].
Proof. vm_compute. intros H. discriminate H. Qed.
Example answers_example :
  answers Ziops zi_conj [ex_K] [QChoi (Row 2); QChoi (Col 2); QLiouville true 2; QChoi (Row 2)]
  = map (answer Ziops zi_conj [ex_K]) [QChoi (Row 2); QChoi (Col 2); QLiouville true 2; QChoi (Row 2)]
  /\ answer Ziops zi_conj [ex_K] (QChoi (Row 2)) <> answer Ziops zi_conj [ex_K] (QChoi (Col 2)).
Proof. split; [apply answers_are_fresh_l|]. vm_compute. intros H. discriminate H. Qed.
