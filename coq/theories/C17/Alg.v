(* C17/Alg.v : shared algebra for C17 and C18.
   Finite sums over nat ranges in an arbitrary commutative semiring with an involution,
   tabulated list matrices (mk / mget), and the entry formula of Base.Mat.mmul.
   Everything here is generic: the executable models instantiate it with Gaussian integers
   (Base/Zi.v), the theorems hold over every commutative semiring (so also over C). *)
From Coq Require Import List Bool Arith Lia Ring.
From QV Require Import Base.Mat.
Import ListNotations.

(* ---------- plain list facts *)
Definition tab {A} (n : nat) (f : nat -> A) : list A := map f (seq 0 n).

Lemma tab_length {A} n (f : nat -> A) : length (tab n f) = n.
Proof. unfold tab. now rewrite map_length, seq_length. Qed.

Lemma nth_tab {A} n (f : nat -> A) i d : i < n -> nth i (tab n f) d = f i.
Proof.
  intros H. unfold tab. rewrite (nth_indep _ d (f 0)) by (now rewrite map_length, seq_length).
  rewrite map_nth. now rewrite seq_nth.
Qed.

Lemma tab_ext {A} n (f g : nat -> A) : (forall i, i < n -> f i = g i) -> tab n f = tab n g.
Proof. intros H. unfold tab. apply map_ext_in. intros i Hi. apply in_seq in Hi. apply H. lia. Qed.

Lemma tab_nth {A} (l : list A) d : tab (length l) (fun i => nth i l d) = l.
Proof.
  apply (nth_ext _ _ d d). - apply tab_length.
  - intros i Hi. rewrite tab_length in Hi. now rewrite nth_tab.
Qed.

Lemma tab_S {A} n (f : nat -> A) : tab (S n) f = tab n f ++ [f n].
Proof. unfold tab. rewrite seq_S, map_app. reflexivity. Qed.

(* ---------- arithmetic of mixed-radix indices *)
Lemma divmod_pair q r b : r < b -> (q * b + r) / b = q /\ (q * b + r) mod b = r.
Proof.
  intros H. split.
  - symmetry. apply (Nat.div_unique _ _ _ r); lia.
  - symmetry. apply (Nat.mod_unique _ _ q); lia.
Qed.
Lemma div_pair q r b : r < b -> (q * b + r) / b = q.
Proof. intros; now apply divmod_pair. Qed.
Lemma mod_pair q r b : r < b -> (q * b + r) mod b = r.
Proof. intros; now apply divmod_pair. Qed.
Lemma pair_lt q r a b : q < a -> r < b -> q * b + r < a * b.
Proof. intros. nia. Qed.
Lemma div_lt_prod k a b : k < a * b -> k / b < a.
Proof. intros H. apply Nat.div_lt_upper_bound; lia. Qed.
Lemma mod_lt_prod k a b : k < a * b -> k mod b < b.
Proof. intros H. apply Nat.mod_upper_bound. destruct b; lia. Qed.
Lemma divmod_eq k b : b <> 0 -> (k / b) * b + k mod b = k.
Proof. intros H. rewrite (Nat.div_mod k b) at 3 by exact H. lia. Qed.

Section Alg.
  Context {T : Type} (K : ops T).
  Notation "0" := (zero K).
  Notation "1" := (one K).
  Infix "+" := (add K).
  Infix "*" := (mul K).
  Variable SR : semi_ring_theory 0 1 (add K) (mul K) (@eq T).
  Add Ring TR : SR.

  (* ---------- sums  bsum n f = f 0 + ... + f (n-1) *)
  Fixpoint bsum (n : nat) (f : nat -> T) : T :=
    match n with O => 0 | S m => bsum m f + f m end.

  Lemma bsum_ext n f g : (forall i, i < n -> f i = g i) -> bsum n f = bsum n g.
  Proof.
    induction n as [|n IH]; intros H; cbn [bsum]; [reflexivity|].
    rewrite IH by (intros; apply H; lia). now rewrite H by lia.
  Qed.

  Lemma bsum_zero n : bsum n (fun _ => 0) = 0.
  Proof. induction n as [|n IH]; cbn [bsum]; [reflexivity|]. rewrite IH. ring. Qed.

  Lemma bsum_zero' n f : (forall i, i < n -> f i = 0) -> bsum n f = 0.
  Proof. intros H. rewrite (bsum_ext n f (fun _ => 0)) by exact H. apply bsum_zero. Qed.

  Lemma bsum_add n f g : bsum n (fun i => f i + g i) = bsum n f + bsum n g.
  Proof. induction n as [|n IH]; cbn [bsum]; [ring|]. rewrite IH. ring. Qed.

  Lemma bsum_mul_l n c f : c * bsum n f = bsum n (fun i => c * f i).
  Proof. induction n as [|n IH]; cbn [bsum]; [ring|]. rewrite <- IH. ring. Qed.

  Lemma bsum_mul_r n c f : bsum n f * c = bsum n (fun i => f i * c).
  Proof. induction n as [|n IH]; cbn [bsum]; [ring|]. rewrite <- IH. ring. Qed.

  Lemma bsum_swap n m (f : nat -> nat -> T) :
    bsum n (fun i => bsum m (fun j => f i j)) = bsum m (fun j => bsum n (fun i => f i j)).
  Proof.
    induction n as [|n IH]; cbn [bsum].
    - now rewrite bsum_zero.
    - rewrite IH. now rewrite <- bsum_add.
  Qed.

  Lemma bsum_shift n f : bsum (S n) f = f O + bsum n (fun i => f (S i)).
  Proof.
    induction n as [|n IH]; [cbn [bsum]; ring|].
    change (bsum (S (S n)) f) with (bsum (S n) f + f (S n)). rewrite IH. cbn [bsum]. ring.
  Qed.

  Lemma bsum_app n m f : bsum (n + m)%nat f = bsum n f + bsum m (fun j => f (n + j)%nat).
  Proof.
    induction m as [|m IH]; cbn [bsum].
    - rewrite Nat.add_0_r. ring.
    - rewrite Nat.add_succ_r. cbn [bsum]. rewrite IH. ring.
  Qed.

  (* a sum over a product range is a double sum *)
  Lemma bsum_prod n m f :
    bsum (n * m)%nat f = bsum n (fun i => bsum m (fun j => f (i * m + j)%nat)).
  Proof.
    induction n as [|n IH]; cbn [bsum]; [reflexivity|].
    replace (S n * m)%nat with (n * m + m)%nat by lia.
    rewrite bsum_app, IH. reflexivity.
  Qed.

  Lemma bsum_delta n i0 f : i0 < n ->
    bsum n (fun i => if Nat.eqb i i0 then f i else 0) = f i0.
  Proof.
    induction n as [|n IH]; intros H; [lia|]. cbn [bsum].
    destruct (Nat.eq_dec i0 n) as [->|Hne].
    - rewrite Nat.eqb_refl. rewrite bsum_zero'; [ring|].
      intros i Hi. destruct (Nat.eqb_spec i n); [lia|reflexivity].
    - rewrite IH by lia. destruct (Nat.eqb_spec n i0); [lia|ring].
  Qed.

  Lemma bsum_delta' n i0 f : i0 < n ->
    bsum n (fun i => if Nat.eqb i0 i then f i else 0) = f i0.
  Proof.
    intros H. rewrite <- (bsum_delta n i0 f H). apply bsum_ext. intros i _.
    now rewrite Nat.eqb_sym.
  Qed.

  Lemma bsum_hom (h : T -> T) n f :
    h 0 = 0 -> (forall a b, h (a + b) = h a + h b) -> h (bsum n f) = bsum n (fun i => h (f i)).
  Proof.
    intros h0 hadd. induction n as [|n IH]; cbn [bsum]; [exact h0|]. now rewrite hadd, IH.
  Qed.

  (* sum over a list of values *)
  Fixpoint lsum (l : list T) : T := match l with [] => 0 | x :: l' => x + lsum l' end.
  Lemma lsum_bsum l : lsum l = bsum (length l) (fun k => nth k l 0).
  Proof.
    induction l as [|x l IH]; [reflexivity|].
    cbn [lsum length]. rewrite bsum_shift. cbn [nth]. now rewrite IH.
  Qed.
  Lemma lsum_app l1 l2 : lsum (l1 ++ l2) = lsum l1 + lsum l2.
  Proof. induction l1 as [|x l IH]; cbn [lsum app]; [ring|]. rewrite IH. ring. Qed.
  Lemma lsum_map_add {A} (l : list A) f g :
    lsum (map (fun x => f x + g x) l) = lsum (map f l) + lsum (map g l).
  Proof. induction l as [|x l IH]; cbn [lsum map]; [ring|]. rewrite IH. ring. Qed.
  Lemma lsum_map_mul_l {A} (l : list A) c f : lsum (map (fun x => c * f x) l) = c * lsum (map f l).
  Proof. induction l as [|x l IH]; cbn [lsum map]; [ring|]. rewrite IH. ring. Qed.
  Lemma lsum_map_mul_r {A} (l : list A) c f : lsum (map (fun x => f x * c) l) = lsum (map f l) * c.
  Proof. induction l as [|x l IH]; cbn [lsum map]; [ring|]. rewrite IH. ring. Qed.
  Lemma lsum_map_ext {A} (l : list A) f g :
    (forall x, In x l -> f x = g x) -> lsum (map f l) = lsum (map g l).
  Proof. intros H. f_equal. now apply map_ext_in. Qed.
  Lemma lsum_map_zero {A} (l : list A) : lsum (map (fun _ => 0) l) = 0.
  Proof. induction l as [|x l IH]; cbn [lsum map]; [reflexivity|]. rewrite IH. ring. Qed.
  Lemma lsum_bsum_swap {A} (l : list A) n (f : A -> nat -> T) :
    lsum (map (fun x => bsum n (f x)) l) = bsum n (fun i => lsum (map (fun x => f x i) l)).
  Proof.
    induction l as [|x l IH]; cbn [lsum map].
    - now rewrite bsum_zero.
    - rewrite IH. now rewrite <- bsum_add.
  Qed.
  Lemma lsum_lsum_swap {A B} (l : list A) (m : list B) (f : A -> B -> T) :
    lsum (map (fun x => lsum (map (fun y => f x y) m)) l)
    = lsum (map (fun y => lsum (map (fun x => f x y) l)) m).
  Proof.
    induction l as [|x l IH]; cbn [lsum map].
    - now rewrite lsum_map_zero.
    - rewrite IH. now rewrite <- lsum_map_add.
  Qed.

  (* ---------- tabulated matrices *)
  Definition vget (v : vec T) (k : nat) : T := nth k v 0.
  Definition mk (r c : nat) (f : nat -> nat -> T) : mat T := tab r (fun i => tab c (fun j => f i j)).
  Definition wf (r c : nat) (M : mat T) : Prop :=
    length M = r /\ Forall (fun row => length row = c) M.

  Lemma mget_mk r c f i j : i < r -> j < c -> mget K (mk r c f) i j = f i j.
  Proof. intros Hi Hj. unfold mget, mk. rewrite nth_tab by exact Hi. now rewrite nth_tab. Qed.

  Lemma wf_mk r c f : wf r c (mk r c f).
  Proof.
    split; [apply tab_length|]. unfold mk, tab. apply Forall_forall. intros row Hr.
    apply in_map_iff in Hr. destruct Hr as [i [<- _]]. now rewrite map_length, seq_length.
  Qed.

  Lemma mk_ext r c f g : (forall i j, i < r -> j < c -> f i j = g i j) -> mk r c f = mk r c g.
  Proof. intros H. unfold mk. apply tab_ext. intros i Hi. apply tab_ext. intros j Hj. now apply H. Qed.

  Lemma wf_row r c M i : wf r c M -> i < r -> length (nth i M []) = c.
  Proof.
    intros [Hl Hf] Hi. rewrite Forall_forall in Hf. apply Hf. apply nth_In. lia.
  Qed.

  Lemma mk_mget r c M : wf r c M -> mk r c (fun i j => mget K M i j) = M.
  Proof.
    intros Hwf. destruct Hwf as [Hl Hf]. unfold mk, mget.
    apply (nth_ext _ _ [] []); [now rewrite tab_length|].
    intros i Hi. rewrite tab_length in Hi. rewrite nth_tab by exact Hi.
    assert (Hc : length (nth i M []) = c) by (apply (wf_row r c M i); [now split|exact Hi]).
    rewrite <- Hc. apply tab_nth.
  Qed.

  Lemma mat_ext r c A B : wf r c A -> wf r c B ->
    (forall i j, i < r -> j < c -> mget K A i j = mget K B i j) -> A = B.
  Proof.
    intros HA HB H. rewrite <- (mk_mget r c A HA), <- (mk_mget r c B HB). now apply mk_ext.
  Qed.

  Lemma vget_tab n f k : k < n -> vget (tab n f) k = f k.
  Proof. intros. unfold vget. now apply nth_tab. Qed.

  Lemma vec_ext n (u v : vec T) : length u = n -> length v = n ->
    (forall k, k < n -> vget u k = vget v k) -> u = v.
  Proof.
    intros Hu Hv H. apply (nth_ext _ _ 0 0); [lia|]. intros k Hk. apply H. lia.
  Qed.

  (* ---------- entry formula of Base.Mat.mmul (row-accumulating product) *)
  Lemma nth_vadd u : forall v j, nth j (vadd K u v) 0 = nth j u 0 + nth j v 0.
  Proof.
    induction u as [|x u IH]; intros [|y v] j; cbn [vadd].
    - destruct j; cbn; ring.
    - destruct j; cbn [nth]; ring.
    - destruct j; cbn [nth]; ring.
    - destruct j; cbn [nth]; [reflexivity|apply IH].
  Qed.

  Lemma nth_vscale x v j : nth j (vscale K x v) 0 = x * nth j v 0.
  Proof.
    unfold vscale. revert j. induction v as [|y v IH]; intros j; cbn [map].
    - destruct j; cbn; ring.
    - destruct j; cbn [nth]; [reflexivity|apply IH].
  Qed.

  Lemma nth_rowmul r : forall B j,
    nth j (rowmul K r B) 0 = bsum (Nat.min (length r) (length B)) (fun k => nth k r 0 * mget K B k j).
  Proof.
    induction r as [|x r IH]; intros B j.
    - cbn. destruct j; reflexivity.
    - destruct B as [|b B].
      + cbn. destruct j; reflexivity.
      + cbn [rowmul length Nat.min]. rewrite nth_vadd, nth_vscale, IH, bsum_shift.
        cbn [nth]. unfold mget at 2. cbn [nth]. f_equal.
  Qed.

  Lemma mget_mmul A B i j :
    mget K (mmul K A B) i j
    = bsum (Nat.min (length (nth i A [])) (length B)) (fun k => mget K A i k * mget K B k j).
  Proof.
    unfold mget at 1, mmul.
    pose proof (map_nth (fun r => rowmul K r B) A [] i) as E. cbn [rowmul] in E.
    transitivity (nth j (rowmul K (nth i A []) B) 0);
      [exact (f_equal (fun l => nth j l 0) E) | apply nth_rowmul].
  Qed.

  Lemma mget_mmul_wf r n A B i j : wf r n A -> length B = n -> i < r ->
    mget K (mmul K A B) i j = bsum n (fun k => mget K A i k * mget K B k j).
  Proof.
    intros HA HB Hi. rewrite mget_mmul. rewrite (wf_row r n A i HA Hi), HB, Nat.min_id. reflexivity.
  Qed.

  Lemma rowmul_length r : forall B c, Forall (fun row => length row = c) B ->
    r <> [] -> B <> [] -> length (rowmul K r B) = c.
  Proof.
    induction r as [|x r IH]; intros B c HB Hr HBn; [congruence|].
    destruct B as [|b B]; [congruence|]. cbn [rowmul].
    inversion HB as [|? ? Hb HB']; subst.
    assert (Hv : forall u v : vec T, length u = length b -> (v = [] \/ length v = length b) ->
                 length (vadd K u v) = length b).
    { clear. intros u. generalize (length b) as m. induction u as [|a u IHu]; intros m v Hu Hv.
      - cbn in Hu. subst m. destruct Hv as [->|Hv]; [reflexivity|]. cbn. destruct v; [reflexivity|discriminate].
      - destruct v as [|y v]; [exact Hu|]. cbn [vadd length]. destruct m; [discriminate|].
        f_equal. apply IHu; [cbn in Hu; lia|]. destruct Hv as [Hv|Hv]; [discriminate|]. right. cbn in Hv. lia. }
    apply Hv.
    - unfold vscale. now rewrite map_length.
    - destruct r as [|x' r']; [left; reflexivity|]. destruct B as [|b' B'].
      + left. reflexivity.
      + right. apply IH; [exact HB'|discriminate|discriminate].
  Qed.

  Lemma wf_mmul r n c A B : wf r n A -> wf n c B -> n <> O -> wf r c (mmul K A B).
  Proof.
    intros [HAl HAf] [HBl HBf] Hn. split; [unfold mmul; now rewrite map_length|].
    unfold mmul. apply Forall_forall. intros row Hrow. apply in_map_iff in Hrow.
    destruct Hrow as [ra [<- Hin]]. rewrite Forall_forall in HAf. specialize (HAf ra Hin).
    apply rowmul_length; [exact HBf| |].
    - destruct ra; [cbn in HAf; lia|discriminate].
    - destruct B; [cbn in HBl; lia|discriminate].
  Qed.
End Alg.

Arguments bsum {T} K n f.
Arguments lsum {T} K l.
Arguments vget {T} K v k.
Arguments mk {T} r c f.
Arguments wf {T} r c M.
