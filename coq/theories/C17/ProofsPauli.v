(* C17/ProofsPauli.v : the n-qubit Pauli basis built by pauli_basis (einsum over n single-qubit
   factors) is orthogonal, <P_a,P_b> = 2^n delta_ab, for EVERY n and every pauli_order that is a
   permutation of the four labels; hence comp_basis_to_pauli . pauli_to_comp_basis = 2^n I (every
   vectorisation order), and liouville_to_pauli (pauli_to_liouville P) = 4^n P for the
   un-normalised basis. *)
From Coq Require Import List Bool Arith Lia Ring Permutation.
From QV Require Import Base.Mat C17.Alg C17.Model C17.Spec C17.ProofsIdx C17.ProofsVec C17.ProofsPerm.
Import ListNotations.

Section Pauli.
  Context {T : Type} (K : ops T) (cj : T -> T).
  Notation T0 := (zero K).
  Notation T1 := (one K).
  Infix "+!" := (add K) (at level 50, left associativity).
  Infix "*!" := (mul K) (at level 40, left associativity).
  Variable SR : semi_ring_theory T0 T1 (add K) (mul K) (@eq T).
  Add Ring TR5 : SR.
  Hypothesis cj0 : cj T0 = T0.
  Hypothesis cj1 : cj T1 = T1.
  Hypothesis cj_add : forall a b, cj (a +! b) = cj a +! cj b.
  Hypothesis cj_mul : forall a b, cj (a *! b) = cj a *! cj b.
  Hypothesis cj_cj : forall a, cj (cj a) = a.
  Notation vget := (vget K).
  Notation mget := (mget K).
  Notation bsum := (bsum K).

  Variable ps : nat -> mat T.
  Variable po : list nat.
  Definition two : T := T1 +! T1.
  Fixpoint twopow (n : nat) : T := match n with O => T1 | S m => two *! twopow m end.

  (* Hilbert-Schmidt product of two 2x2 matrices of the table *)
  Definition H1 (x y : nat) : T :=
    bsum 2 (fun r => bsum 2 (fun c => cj (mget (ps x) r c) *! mget (ps y) r c)).
  (* the single-qubit table is orthogonal (checked by computation for the concrete I,X,Y,Z) *)
  Hypothesis ps_orth : forall x y, x < 4 -> y < 4 -> H1 x y = if Nat.eqb x y then two else T0.
  (* pauli_order is a permutation of the four labels *)
  Hypothesis po_nodup : NoDup po.
  Hypothesis po_len : length po = 4.
  Hypothesis po_range : forall x, In x po -> x < 4.

  Notation E := (pauli_entry K ps po).
  Definition HS (n a b : nat) : T :=
    bsum (2 ^ n) (fun r => bsum (2 ^ n) (fun c => cj (E n a r c) *! E n b r c)).

  Lemma single_orth a b : a < 4 -> b < 4 ->
    H1 (nth a po 0) (nth b po 0) = if Nat.eqb a b then two else T0.
  Proof.
    intros Ha Hb. rewrite ps_orth by (apply po_range, nth_In; lia).
    destruct (Nat.eqb_spec a b) as [->|Hne]; [now rewrite Nat.eqb_refl|].
    destruct (Nat.eqb_spec (nth a po 0) (nth b po 0)) as [E|_]; [|reflexivity].
    exfalso. apply Hne. apply (proj1 (NoDup_nth po 0) po_nodup); lia.
  Qed.

  Lemma sum4_factor n1 m1 n2 m2 (A B : nat -> nat -> T) :
    bsum n1 (fun r0 => bsum m1 (fun r1 => bsum n2 (fun c0 => bsum m2 (fun c1 => A r0 c0 *! B r1 c1))))
    = bsum n1 (fun r0 => bsum n2 (fun c0 => A r0 c0)) *! bsum m1 (fun r1 => bsum m2 (fun c1 => B r1 c1)).
  Proof.
    rewrite (bsum_mul_r K SR). apply (bsum_ext K). intros r0 _.
    rewrite (bsum_mul_l K SR). apply (bsum_ext K). intros r1 _.
    rewrite (bsum_mul_r K SR). apply (bsum_ext K). intros c0 _.
    rewrite (bsum_mul_l K SR). reflexivity.
  Qed.

  Lemma HS_step n a b :
    HS (S n) a b = H1 (nth (a / 4 ^ n) po 0) (nth (b / 4 ^ n) po 0) *! HS n (a mod 4 ^ n) (b mod 4 ^ n).
  Proof.
    unfold HS, H1. pose proof (pow2_pos n) as Hh.
    change (2 ^ S n) with (2 * 2 ^ n). set (h := 2 ^ n) in *.
    rewrite (bsum_prod K SR).
    rewrite <- sum4_factor. apply (bsum_ext K). intros r0 Hr0. apply (bsum_ext K). intros r1 Hr1.
    rewrite (bsum_prod K SR). apply (bsum_ext K). intros c0 Hc0. apply (bsum_ext K). intros c1 Hc1.
    cbn [pauli_entry]. fold h. unfold single.
    rewrite !div_pair, !mod_pair by assumption. rewrite cj_mul. ring.
  Qed.

  Theorem pauli_orth n : forall a b, a < 4 ^ n -> b < 4 ^ n ->
    HS n a b = if Nat.eqb a b then twopow n else T0.
  Proof.
    induction n as [|n IH]; intros a b Ha Hb.
    - cbn in Ha, Hb. assert (a = 0) by lia. assert (b = 0) by lia. subst.
      unfold HS. cbn [Nat.pow Alg.bsum pauli_entry Nat.eqb twopow]. rewrite cj1. ring.
    - rewrite HS_step. cbn [Nat.pow] in Ha, Hb. pose proof (pow4_pos n) as H4.
      assert (Ha0 : a / 4 ^ n < 4) by (apply Nat.div_lt_upper_bound; lia).
      assert (Hb0 : b / 4 ^ n < 4) by (apply Nat.div_lt_upper_bound; lia).
      assert (Ha1 : a mod 4 ^ n < 4 ^ n) by (apply Nat.mod_upper_bound; lia).
      assert (Hb1 : b mod 4 ^ n < 4 ^ n) by (apply Nat.mod_upper_bound; lia).
      rewrite single_orth by assumption. rewrite IH by assumption.
      pose proof (divmod_eq a (4 ^ n) ltac:(lia)) as Ea. pose proof (divmod_eq b (4 ^ n) ltac:(lia)) as Eb.
      cbn [twopow].
      destruct (Nat.eqb_spec a b) as [->|Hne].
      + rewrite !Nat.eqb_refl. reflexivity.
      + destruct (Nat.eqb_spec (a / 4 ^ n) (b / 4 ^ n)) as [E1|_]; [|ring].
        destruct (Nat.eqb_spec (a mod 4 ^ n) (b mod 4 ^ n)) as [E2|_]; [|ring].
        exfalso. apply Hne. rewrite <- Ea, <- Eb. now rewrite E1, E2.
  Qed.

  (* the same statement about the matrices returned by pauli_basis *)
  Theorem pauli_basis_orthogonal n a b : a < 4 ^ n -> b < 4 ^ n ->
    hs K cj (2 ^ n) (pauli_mat K ps po n a) (pauli_mat K ps po n b) = if Nat.eqb a b then twopow n else T0.
  Proof.
    intros Ha Hb. rewrite <- (pauli_orth n a b Ha Hb). unfold hs, HS.
    apply (bsum_ext K). intros r Hr. apply (bsum_ext K). intros c Hc.
    unfold pauli_mat. now rewrite !(mget_mk K).
  Qed.

  (* ---------- the basis-change matrices *)
  Section Basis.
    Variables (o : vorder) (n : nat).
    Hypothesis Ho : odim o = 2 ^ n.
    Let N := 4 ^ n.
    Let Bv := pauli_basis_vec K ps po o n.
    Let B := comp_basis_to_pauli K cj ps po o n.
    Let V := pauli_to_comp_basis K ps po o n.

    Lemma N_sq : N = odim o * odim o.
    Proof. unfold N. rewrite Ho. apply pow4_sq. Qed.
    Lemma N_pos : N <> 0.
    Proof. unfold N. pose proof (pow4_pos n). lia. Qed.

    Lemma wf_Bv : wf N N Bv.
    Proof.
      split; [apply tab_length|]. unfold Bv, pauli_basis_vec, tab. apply Forall_forall. intros row Hr.
      apply in_map_iff in Hr. destruct Hr as [a [<- _]]. rewrite (length_vectorize K). now rewrite <- N_sq.
    Qed.

    Lemma mget_Bv a k : a < N -> k < N ->
      mget Bv a k = E n a (fst (vun o k)) (snd (vun o k)).
    Proof.
      intros Ha Hk. unfold Mat.mget, Bv, pauli_basis_vec. rewrite nth_tab by exact Ha.
      fold (Alg.vget K (vectorize K o (pauli_mat K ps po n a)) k).
      rewrite (vget_vectorize K) by (now rewrite <- N_sq).
      rewrite N_sq in Hk. destruct (vun_lt o k Hk) as [H1' H2']. rewrite Ho in H1', H2'.
      unfold pauli_mat. now rewrite (mget_mk K).
    Qed.

    Lemma wf_B : wf N N B.
    Proof.
      destruct wf_Bv as [Hl Hf]. split; [unfold B, comp_basis_to_pauli, mconj; now rewrite map_length|].
      unfold B, comp_basis_to_pauli, mconj. apply Forall_forall. intros row Hr. apply in_map_iff in Hr.
      destruct Hr as [r0 [<- Hr0]]. rewrite map_length. rewrite Forall_forall in Hf. now apply Hf.
    Qed.

    Lemma mget_B a k : mget B a k = cj (mget Bv a k).
    Proof.
      unfold Mat.mget, B, comp_basis_to_pauli, mconj.
      pose proof (map_nth (map cj) Bv [] a) as E1. cbn [map] in E1.
      transitivity (nth k (map cj (nth a Bv [])) T0); [exact (f_equal (fun l => nth k l T0) E1)|].
      rewrite <- cj0 at 1. apply (map_nth cj).
    Qed.

    Lemma wf_V : wf N N V.
    Proof. apply wf_mk. Qed.
    Lemma mget_V k a : k < N -> a < N -> mget V k a = mget Bv a k.
    Proof. intros. unfold V, pauli_to_comp_basis, mtrans. fold N. now rewrite (mget_mk K). Qed.

    (* dagger exchanges the two basis-change matrices *)
    Lemma dagger_B : dagger K cj N N B = V.
    Proof.
      unfold dagger, V, pauli_to_comp_basis, mtrans. fold N. apply mk_ext. intros i j Hi Hj.
      now rewrite mget_B, cj_cj.
    Qed.
    Lemma dagger_V : dagger K cj N N V = B.
    Proof.
      apply (mat_ext K N N); [apply wf_mk|exact wf_B|]. intros i j Hi Hj.
      unfold dagger. rewrite (mget_mk K) by assumption. now rewrite mget_V, mget_B by assumption.
    Qed.

    (* orthogonality as a matrix identity: comp_basis_to_pauli . pauli_to_comp_basis = 2^n I *)
    Theorem basis_change_product : mmul K B V = smat K N (twopow n).
    Proof.
      apply (mat_ext K N N); [apply (wf_mmul K N N N); [exact wf_B|exact wf_V|exact N_pos]|apply wf_mk|].
      intros a b Ha Hb.
      rewrite (mget_mmul_wf K SR N N B V a b wf_B (proj1 wf_V) Ha).
      unfold smat. rewrite (mget_mk K) by assumption.
      rewrite <- (pauli_orth n a b Ha Hb). unfold HS.
      rewrite (bsum_ext K N _ (fun k => cj (E n a (fst (vun o k)) (snd (vun o k))) *! E n b (fst (vun o k)) (snd (vun o k)))).
      - rewrite N_sq. rewrite (bsum_vidx K SR o). rewrite Ho.
        apply (bsum_ext K). intros r Hr. apply (bsum_ext K). intros c Hc.
        rewrite vun_vidx by (rewrite Ho; assumption). reflexivity.
      - intros k Hk. rewrite mget_B, mget_V, !mget_Bv by assumption. reflexivity.
    Qed.

    Lemma cj_twopow m : cj (twopow m) = twopow m.
    Proof. induction m as [|m IH]; cbn [twopow]; [exact cj1|]. unfold two. now rewrite cj_mul, cj_add, cj1, IH. Qed.

    (* to_pauli after from_pauli, un-normalised: the identity up to the factor (2^n)^2 = 4^n *)
    Theorem to_pauli_from_pauli P a b : wf N N P -> a < N -> b < N ->
      mget (liouville_to_pauli K cj ps po o n (pauli_to_liouville K cj ps po o n P)) a b
      = twopow n *! mget P a b *! twopow n.
    Proof.
      intros HP Ha Hb. unfold liouville_to_pauli, pauli_to_liouville, mmul3. cbv zeta.
      fold N B V. rewrite dagger_B, dagger_V.
      pose proof wf_B as WB. pose proof wf_V as WV. pose proof N_pos as HN.
      assert (WVP : wf N N (mmul K V P)) by (now apply (wf_mmul K N N N)).
      assert (WPB : wf N N (mmul K P B)) by (now apply (wf_mmul K N N N)).
      (* B ((V P) B) V  =  (B V) ((P B) V)  =  (B V) (P (B V)) *)
      rewrite (mmul_assoc K SR N N N N V P B WV HP WB HN HN).
      rewrite <- (mmul_assoc K SR N N N N B V (mmul K P B) WB WV WPB HN HN).
      assert (WS : wf N N (mmul K B V)) by (now apply (wf_mmul K N N N)).
      rewrite (mmul_assoc K SR N N N N (mmul K B V) (mmul K P B) V WS WPB WV HN HN).
      rewrite (mmul_assoc K SR N N N N P B V HP WB WV HN HN).
      rewrite basis_change_product.
      assert (WPS : wf N N (mmul K P (smat K N (twopow n)))) by (apply (wf_mmul K N N N); [exact HP|apply wf_mk|exact HN]).
      rewrite (mget_smat_mul K SR N _ _ a b WPS Ha Hb).
      rewrite (mget_mul_smat K SR N _ P a b HP Ha Hb). ring.
    Qed.
  End Basis.

  (* ================= completeness: sum_a P_a[r][c] conj(P_a[r'][c']) = 2^n delta_rr' delta_cc' *)
  Definition C1 (r c r' c' : nat) : T :=
    bsum 4 (fun x => mget (ps x) r c *! cj (mget (ps x) r' c')).
  Hypothesis ps_complete : forall r c r' c', r < 2 -> c < 2 -> r' < 2 -> c' < 2 ->
    C1 r c r' c' = if Nat.eqb r r' && Nat.eqb c c' then two else T0.

  Definition CS (n r c r' c' : nat) : T :=
    bsum (4 ^ n) (fun a => E n a r c *! cj (E n a r' c')).

  Lemma single_sum (F : nat -> T) : bsum 4 (fun a => F (nth a po 0)) = bsum 4 F.
  Proof.
    apply (bsum_reindex K SR 4 (fun a => nth a po 0) F).
    - intros k Hk. apply po_range, nth_In. lia.
    - intros k k' Hk Hk' Ek. apply (proj1 (NoDup_nth po 0) po_nodup); lia.
  Qed.

  Lemma CS_step n r c r' c' :
    CS (S n) r c r' c'
    = C1 (r / 2 ^ n) (c / 2 ^ n) (r' / 2 ^ n) (c' / 2 ^ n)
      *! CS n (r mod 2 ^ n) (c mod 2 ^ n) (r' mod 2 ^ n) (c' mod 2 ^ n).
  Proof.
    unfold CS, C1. pose proof (pow4_pos n) as H4.
    change (4 ^ S n) with (4 * 4 ^ n). rewrite (bsum_prod K SR).
    rewrite <- (single_sum (fun x => mget (ps x) (r / 2 ^ n) (c / 2 ^ n) *! cj (mget (ps x) (r' / 2 ^ n) (c' / 2 ^ n)))).
    rewrite (bsum_mul_r K SR). apply (bsum_ext K). intros a0 Ha0.
    rewrite (bsum_mul_l K SR). apply (bsum_ext K). intros a1 Ha1.
    cbn [pauli_entry]. unfold single. rewrite !div_pair, !mod_pair by assumption. rewrite cj_mul. ring.
  Qed.

  Theorem pauli_complete n : forall r c r' c', r < 2 ^ n -> c < 2 ^ n -> r' < 2 ^ n -> c' < 2 ^ n ->
    CS n r c r' c' = if Nat.eqb r r' && Nat.eqb c c' then twopow n else T0.
  Proof.
    induction n as [|n IH]; intros r c r' c' Hr Hc Hr' Hc'.
    - cbn in Hr, Hc, Hr', Hc'. assert (r = 0) by lia. assert (c = 0) by lia.
      assert (r' = 0) by lia. assert (c' = 0) by lia. subst.
      unfold CS. cbn [Nat.pow Alg.bsum pauli_entry Nat.eqb andb twopow]. rewrite cj1. ring.
    - rewrite CS_step. cbn [Nat.pow] in Hr, Hc, Hr', Hc'. pose proof (pow2_pos n) as Hh.
      set (h := 2 ^ n) in *.
      assert (forall x, x < 2 * h -> x / h < 2) by (intros; apply Nat.div_lt_upper_bound; lia).
      assert (forall x, x mod h < h) by (intros; apply Nat.mod_upper_bound; lia).
      rewrite ps_complete by auto. rewrite IH by auto. cbn [twopow].
      pose proof (divmod_eq r h ltac:(lia)) as Er. pose proof (divmod_eq r' h ltac:(lia)) as Er'.
      pose proof (divmod_eq c h ltac:(lia)) as Ec. pose proof (divmod_eq c' h ltac:(lia)) as Ec'.
      destruct (Nat.eqb_spec (r / h) (r' / h)) as [A1|A1]; destruct (Nat.eqb_spec (r mod h) (r' mod h)) as [A2|A2];
        destruct (Nat.eqb_spec (c / h) (c' / h)) as [B1|B1]; destruct (Nat.eqb_spec (c mod h) (c' mod h)) as [B2|B2];
        destruct (Nat.eqb_spec r r') as [R|R]; destruct (Nat.eqb_spec c c') as [Cc|Cc]; cbn [andb];
        first [ring | exfalso; congruence].
  Qed.

  Section Basis2.
    Variables (o : vorder) (n : nat).
    Hypothesis Ho : odim o = 2 ^ n.
    Let N := 4 ^ n.
    Let B := comp_basis_to_pauli K cj ps po o n.
    Let V := pauli_to_comp_basis K ps po o n.

    (* pauli_to_comp_basis . comp_basis_to_pauli = 2^n I *)
    Theorem basis_change_product' : mmul K V B = smat K N (twopow n).
    Proof.
      pose proof (wf_B o n Ho) as WB. pose proof (wf_V o n) as WV. pose proof (N_pos o n Ho) as HN.
      fold N B V in WB, WV, HN.
      apply (mat_ext K N N); [now apply (wf_mmul K N N N)|apply wf_mk|].
      intros k k' Hk Hk'.
      rewrite (mget_mmul_wf K SR N N V B k k' WV (proj1 WB) Hk).
      unfold smat. rewrite (mget_mk K) by assumption.
      assert (Hk2 : k < odim o * odim o) by (rewrite <- (N_sq o n Ho); exact Hk).
      assert (Hk2' : k' < odim o * odim o) by (rewrite <- (N_sq o n Ho); exact Hk').
      destruct (vun_lt o k Hk2) as [X1 X2]. destruct (vun_lt o k' Hk2') as [Y1 Y2].
      rewrite Ho in X1, X2, Y1, Y2.
      transitivity (CS n (fst (vun o k)) (snd (vun o k)) (fst (vun o k')) (snd (vun o k'))).
      - unfold CS. apply (bsum_ext K). intros a Ha. unfold V, B.
        rewrite (mget_V o n) by assumption. rewrite (mget_B o n). now rewrite !(mget_Bv o n Ho) by assumption.
      - rewrite pauli_complete by assumption.
        destruct (Nat.eqb_spec k k') as [->|Hne]; [now rewrite !Nat.eqb_refl|].
        destruct (Nat.eqb_spec (fst (vun o k)) (fst (vun o k'))) as [E1|_]; [|reflexivity].
        destruct (Nat.eqb_spec (snd (vun o k)) (snd (vun o k'))) as [E2|_]; [|reflexivity].
        exfalso. apply Hne. rewrite <- (vidx_vun o k Hk2), <- (vidx_vun o k' Hk2'). now rewrite E1, E2.
    Qed.

    (* from_pauli after to_pauli, un-normalised: the identity up to the factor 4^n *)
    Theorem from_pauli_to_pauli L a b : wf N N L -> a < N -> b < N ->
      mget (pauli_to_liouville K cj ps po o n (liouville_to_pauli K cj ps po o n L)) a b
      = twopow n *! mget L a b *! twopow n.
    Proof.
      intros HL Ha Hb. unfold liouville_to_pauli, pauli_to_liouville, mmul3. cbv zeta.
      rewrite (dagger_B o n), (dagger_V o n Ho). fold N B V.
      pose proof (wf_B o n Ho) as WB. pose proof (wf_V o n) as WV. pose proof (N_pos o n Ho) as HN.
      fold N B V in WB, WV, HN.
      assert (WBL : wf N N (mmul K B L)) by (now apply (wf_mmul K N N N)).
      assert (WLV : wf N N (mmul K L V)) by (now apply (wf_mmul K N N N)).
      rewrite (mmul_assoc K SR N N N N B L V WB HL WV HN HN).
      rewrite <- (mmul_assoc K SR N N N N V B (mmul K L V) WV WB WLV HN HN).
      assert (WS : wf N N (mmul K V B)) by (now apply (wf_mmul K N N N)).
      rewrite (mmul_assoc K SR N N N N (mmul K V B) (mmul K L V) B WS WLV WB HN HN).
      rewrite (mmul_assoc K SR N N N N L V B HL WV WB HN HN).
      rewrite basis_change_product'.
      assert (WLS : wf N N (mmul K L (smat K N (twopow n)))) by (apply (wf_mmul K N N N); [exact HL|apply wf_mk|exact HN]).
      rewrite (mget_smat_mul K SR N _ _ a b WLS Ha Hb).
      rewrite (mget_mul_smat K SR N _ L a b HL Ha Hb). ring.
    Qed.
  End Basis2.

  (* ================= the Pauli-Liouville and the chi matrix ACT as the channel (every n, ordering, order) *)
  Notation lsum := (lsum K).

  Lemma length_mvmul M v : length (mvmul K M v) = length M.
  Proof. unfold mvmul. apply map_length. Qed.

  Lemma tab_S_cons {A} m (f : nat -> A) : tab (S m) f = f 0 :: tab m (fun a => f (S a)).
  Proof. unfold tab. cbn [seq map]. f_equal. rewrite <- seq_shift, map_map. reflexivity. Qed.

  Lemma lsum_combine_tab' {A} (g : T * A -> T) : forall (cs : list T) (f : nat -> A),
    lsum (map g (combine cs (tab (length cs) f))) = bsum (length cs) (fun a => g (nth a cs T0, f a)).
  Proof.
    induction cs as [|x cs IH]; intros f; [reflexivity|].
    cbn [length]. rewrite tab_S_cons. cbn [combine map Alg.lsum]. rewrite (bsum_shift K SR). cbn [nth].
    f_equal. apply IH.
  Qed.
  Lemma lsum_combine_tab {A} (cs : list T) (N : nat) (f : nat -> A) (g : T * A -> T) : length cs = N ->
    lsum (map g (combine cs (tab N f))) = bsum N (fun a => g (nth a cs T0, f a)).
  Proof. intros <-. apply lsum_combine_tab'. Qed.

  Section Acts.
    Variables (o : vorder) (n : nat).
    Hypothesis Ho : odim o = 2 ^ n.
    Let N := 4 ^ n.
    Let d := 2 ^ n.
    Let B := comp_basis_to_pauli K cj ps po o n.
    Let V := pauli_to_comp_basis K ps po o n.
    Let tw := twopow n.

    (* reconstruction: sum_a (B v)_a P_a[i][j] = 2^n v[|i,j)] *)
    Lemma recon v i j : length v = N -> i < d -> j < d ->
      bsum N (fun a => vget (mvmul K B v) a *! E n a i j) = tw *! vget v (vidx o i j).
    Proof.
      intros Hv Hi Hj. pose proof (wf_B o n Ho) as WB. pose proof (wf_V o n) as WV. fold N B in WB. fold N V in WV.
      assert (Hx : vidx o i j < N) by (unfold N; rewrite (N_sq o n Ho); apply vidx_lt; rewrite Ho; assumption).
      transitivity (bsum N (fun k => mget (mmul K V B) (vidx o i j) k *! vget v k)).
      - transitivity (bsum N (fun a => bsum N (fun k => mget V (vidx o i j) a *! mget B a k *! vget v k))).
        + apply (bsum_ext K). intros a Ha.
          rewrite (vget_mvmul_wf K SR N N B v a WB Hv Ha). rewrite (bsum_mul_r K SR).
          apply (bsum_ext K). intros k Hk. unfold V. rewrite (mget_V o n) by assumption.
          rewrite (mget_Bv o n Ho) by assumption.
          rewrite vun_vidx by (rewrite Ho; assumption). cbn [fst snd]. ring.
        + rewrite (bsum_swap K SR). apply (bsum_ext K). intros k Hk.
          rewrite (mget_mmul_wf K SR N N V B _ k WV (proj1 WB) Hx). symmetry. apply (bsum_mul_r K SR).
      - unfold V, B. rewrite (basis_change_product' o n Ho). fold N tw.
        rewrite (bsum_ext K N _ (fun k => if Nat.eqb k (vidx o i j) then tw *! vget v k else T0)).
        + now rewrite (bsum_delta K SR) by exact Hx.
        + intros k Hk. unfold smat. rewrite (mget_mk K) by assumption. rewrite (Nat.eqb_sym k).
          destruct (Nat.eqb (vidx o i j) k); ring.
    Qed.

    (* Pauli coefficients of rho are B |rho) *)
    Lemma coeffs_are_B_vec rho b : b < N ->
      hs K cj d (pauli_mat K ps po n b) rho = vget (mvmul K B (vectorize K o rho)) b.
    Proof.
      intros Hb. pose proof (wf_B o n Ho) as WB. fold N B in WB.
      rewrite (vget_mvmul_wf K SR N N B _ b WB) by (try exact Hb; rewrite (length_vectorize K); unfold N; now rewrite (N_sq o n Ho)).
      unfold N. rewrite (N_sq o n Ho). rewrite (bsum_vidx K SR o). rewrite Ho. fold d. unfold hs.
      apply (bsum_ext K). intros r Hr. apply (bsum_ext K). intros c Hc.
      assert (Hk : vidx o r c < N) by (unfold N; rewrite (N_sq o n Ho); apply vidx_lt; rewrite Ho; assumption).
      unfold B. rewrite (mget_B o n). rewrite (mget_Bv o n Ho) by assumption.
      rewrite (vget_vectorize K) by (rewrite <- (N_sq o n Ho); exact Hk).
      rewrite vun_vidx by (rewrite Ho; assumption). cbn [fst snd].
      unfold pauli_mat. now rewrite (mget_mk K) by assumption.
    Qed.

    (* (B L V)(B u) = 2^n B (L u), entry by entry *)
    Lemma BLV_B L u a : wf N N L -> length u = N -> a < N ->
      vget (mvmul K (mmul3 K B L V) (mvmul K B u)) a = tw *! vget (mvmul K B (mvmul K L u)) a.
    Proof.
      intros HL Hu Ha. pose proof (wf_B o n Ho) as WB. pose proof (wf_V o n) as WV. pose proof (N_pos o n Ho) as HN.
      fold N B in WB. fold N V in WV. fold N in HN.
      assert (WBL : wf N N (mmul K B L)) by (now apply (wf_mmul K N N N)).
      unfold mmul3. rewrite (mmul_assoc K SR N N N N B L V WB HL WV HN HN).
      assert (WLV : wf N N (mmul K L V)) by (now apply (wf_mmul K N N N)).
      assert (WBLV : wf N N (mmul K B (mmul K L V))) by (now apply (wf_mmul K N N N)).
      assert (Lc : length (mvmul K B u) = N) by (rewrite length_mvmul; apply WB).
      assert (Lw : length (mvmul K L u) = N) by (rewrite length_mvmul; apply HL).
      rewrite (vget_mvmul_wf K SR N N _ _ a WBLV Lc Ha).
      rewrite (vget_mvmul_wf K SR N N B _ a WB Lw Ha). rewrite (bsum_mul_l K SR).
      (* expand everything to sums over the entries *)
      transitivity (bsum N (fun x => mget B a x *! bsum N (fun y => mget L x y *! (tw *! vget u y)))).
      - transitivity (bsum N (fun b => bsum N (fun x => mget B a x *! bsum N (fun y => mget L x y *! mget V y b)) *! vget (mvmul K B u) b)).
        + apply (bsum_ext K). intros b Hb. f_equal.
          rewrite (mget_mmul_wf K SR N N B _ a b WB (proj1 WLV) Ha). apply (bsum_ext K). intros x Hx. f_equal.
          apply (mget_mmul_wf K SR N N L V x b HL (proj1 WV) Hx).
        + transitivity (bsum N (fun x => bsum N (fun b => mget B a x *! bsum N (fun y => mget L x y *! mget V y b) *! vget (mvmul K B u) b))).
          * rewrite (bsum_swap K SR). apply (bsum_ext K). intros b _. apply (bsum_mul_r K SR).
          * apply (bsum_ext K). intros x Hx.
            transitivity (mget B a x *! bsum N (fun y => mget L x y *! bsum N (fun b => mget V y b *! vget (mvmul K B u) b))).
            -- rewrite (bsum_mul_l K SR).
               transitivity (bsum N (fun b => bsum N (fun y => mget B a x *! (mget L x y *! (mget V y b *! vget (mvmul K B u) b))))).
               ++ apply (bsum_ext K). intros b _. rewrite (bsum_mul_l K SR), (bsum_mul_r K SR).
                  apply (bsum_ext K). intros y _. ring.
               ++ rewrite (bsum_swap K SR). apply (bsum_ext K). intros y _.
                  rewrite !(bsum_mul_l K SR). apply (bsum_ext K). intros b _. ring.
            -- f_equal. apply (bsum_ext K). intros y Hy. f_equal.
               (* sum_b V[y][b] (B u)_b = tw u_y : recon read backwards through V[y][b] = E b (vun y) *)
               assert (Hy2 : y < odim o * odim o) by (rewrite <- (N_sq o n Ho); exact Hy).
               destruct (vun_lt o y Hy2) as [Y1 Y2]. rewrite Ho in Y1, Y2.
               transitivity (tw *! vget u (vidx o (fst (vun o y)) (snd (vun o y)))); [|now rewrite (vidx_vun o y Hy2)].
               rewrite <- (recon u _ _ Hu Y1 Y2).
               apply (bsum_ext K). intros b Hb. unfold V. rewrite (mget_V o n) by assumption.
               rewrite (mget_Bv o n Ho) by assumption. ring.
      - apply (bsum_ext K). intros x Hx.
        rewrite (vget_mvmul_wf K SR N N L u x HL Hu Hx). rewrite !(bsum_mul_l K SR).
        apply (bsum_ext K). intros y _. ring.
    Qed.

    (* ---- pauli_acts: the (un-normalised) Pauli-Liouville matrix of L acts as 4^n times L acts *)
    Theorem pauli_acts L rho i j : wf N N L -> i < d -> j < d ->
      mget (pauli_action K cj ps po n (liouville_to_pauli K cj ps po o n L) rho) i j
      = tw *! tw *! mget (liouville_action K o L rho) i j.
    Proof.
      intros HL Hi Hj. unfold pauli_action, mlin. fold d. rewrite (mget_mk K) by assumption.
      unfold paulis. fold N.
      set (c := map (fun P => hs K cj d P rho) (tab N (pauli_mat K ps po n))).
      set (R := liouville_to_pauli K cj ps po o n L).
      assert (Lu : length (vectorize K o rho) = N) by (rewrite (length_vectorize K); unfold N; now rewrite (N_sq o n Ho)).
      assert (Ec : c = mvmul K B (vectorize K o rho)).
      { apply (vec_ext K N); [unfold c; now rewrite map_length, tab_length|rewrite length_mvmul; apply (wf_B o n Ho)|].
        intros b Hb. unfold c, Alg.vget.
        rewrite (nth_indep _ T0 (hs K cj d (pauli_mat K ps po n 0) rho)) by (now rewrite map_length, tab_length).
        rewrite (map_nth (fun P => hs K cj d P rho)). rewrite nth_tab by exact Hb. now apply coeffs_are_B_vec. }
      assert (LR : length (mvmul K R c) = N).
      { rewrite length_mvmul. unfold R, liouville_to_pauli, mmul3, mmul. cbv zeta. rewrite !map_length.
        exact (proj1 (wf_B o n Ho)). }
      rewrite (lsum_combine_tab (mvmul K R c) N (pauli_mat K ps po n) _ LR). cbn [fst snd].
      rewrite (bsum_ext K N _ (fun a => tw *! (vget (mvmul K B (mvmul K L (vectorize K o rho))) a *! E n a i j))).
      - rewrite <- (bsum_mul_l K SR). rewrite recon; [|rewrite length_mvmul; apply HL|exact Hi|exact Hj].
        unfold liouville_action, unvectorize. rewrite Ho. fold d. rewrite (mget_mk K) by assumption. ring.
      - intros a Ha. unfold pauli_mat. rewrite (mget_mk K) by assumption.
        change (nth a (mvmul K R c) T0) with (vget (mvmul K R c) a).
        unfold R, liouville_to_pauli. cbv zeta. rewrite (dagger_B o n). fold B V. rewrite Ec.
        rewrite (BLV_B L _ a HL Lu Ha). ring.
    Qed.

    (* ---- chi_ok: the (un-normalised) chi matrix built by kraus_to_chi acts as 4^n times the channel *)
    Let w (Km : mat T) (a : nat) : T := vget (mvmul K B (vectorize K o Km)) a.

    Lemma w_recon Km i r : i < d -> r < d -> bsum N (fun a => w Km a *! E n a i r) = tw *! mget Km i r.
    Proof.
      intros Hi Hr. unfold w. rewrite recon; [|rewrite (length_vectorize K); unfold N; now rewrite (N_sq o n Ho)|exact Hi|exact Hr].
      now rewrite (vget_vectorize_idx K) by (rewrite Ho; assumption).
    Qed.

    Lemma chi_entry Ks a b : a < N -> b < N ->
      mget (kraus_to_chi K cj ps po o n Ks) a b = lsum (map (fun Km => w Km a *! cj (w Km b)) Ks).
    Proof.
      intros Ha Hb. unfold kraus_to_chi. cbv zeta. fold N B. rewrite (mget_msum K) by assumption.
      rewrite map_map. apply (lsum_map_ext K). intros Km _.
      assert (Lw : length (mvmul K B (vectorize K o Km)) = N) by (rewrite length_mvmul; apply (wf_B o n Ho)).
      rewrite (mget_outer K) by (unfold vconj; rewrite ?map_length, Lw; assumption).
      now rewrite (vget_vconj K cj cj0).
    Qed.

    Lemma combine_seq_tab {A} (f : nat -> A) m : forall s0,
      combine (seq s0 m) (map f (seq s0 m)) = map (fun a => (a, f a)) (seq s0 m).
    Proof. induction m as [|m IH]; intros s0; [reflexivity|]. cbn [seq map combine]. now rewrite IH. Qed.

    Lemma chi_Q Ks a s j : a < N -> s < d -> j < d ->
      mget (mlin K d (nth a (kraus_to_chi K cj ps po o n Ks) []) (map (dagger K cj d d) (paulis K ps po n))) s j
      = bsum N (fun b => mget (kraus_to_chi K cj ps po o n Ks) a b *! cj (E n b j s)).
    Proof.
      intros Ha Hs Hj. unfold mlin. rewrite (mget_mk K) by assumption.
      unfold paulis. fold N. unfold tab at 1. rewrite map_map. fold (tab N (fun b => dagger K cj d d (pauli_mat K ps po n b))).
      assert (Lrow : length (nth a (kraus_to_chi K cj ps po o n Ks) []) = N).
      { apply (wf_row N N); [unfold kraus_to_chi; cbv zeta; fold N; apply wf_mk|exact Ha]. }
      rewrite (lsum_combine_tab _ N _ _ Lrow). cbn [fst snd]. apply (bsum_ext K). intros b Hb.
      unfold dagger. rewrite (mget_mk K) by assumption. unfold pauli_mat. now rewrite (mget_mk K) by assumption.
    Qed.

    Theorem chi_ok Ks rho i j : wf d d rho -> i < d -> j < d ->
      mget (chi_action K cj ps po n (kraus_to_chi K cj ps po o n Ks) rho) i j
      = tw *! tw *! kraus_entry K cj d Ks rho i j.
    Proof.
      intros Hrho Hi Hj. set (X := kraus_to_chi K cj ps po o n Ks).
      assert (Hd : d <> 0) by (unfold d; pose proof (pow2_pos n); lia).
      unfold chi_action. cbv zeta. fold d. rewrite (mget_msum K) by assumption. rewrite map_map.
      unfold paulis. fold N. unfold tab. rewrite combine_seq_tab, map_map. cbn [fst snd].
      rewrite <- (bsum_lsum K SR N (fun a => mget (mmul3 K (pauli_mat K ps po n a) rho
                 (mlin K d (nth a X []) (map (dagger K cj d d) (map (pauli_mat K ps po n) (seq 0 N))))) i j)).
      (* entries of the triple products *)
      transitivity (bsum N (fun a => bsum d (fun s => bsum d (fun r =>
                      E n a i r *! mget rho r s *! bsum N (fun b => mget X a b *! cj (E n b j s)))))).
      { apply (bsum_ext K). intros a Ha. unfold mmul3.
        assert (WP : wf d d (pauli_mat K ps po n a)) by apply wf_mk.
        assert (WPr : wf d d (mmul K (pauli_mat K ps po n a) rho)) by (now apply (wf_mmul K d d d)).
        rewrite (mget_mmul_wf K SR d d _ _ i j WPr) by (try exact Hi; unfold mlin, mk; apply tab_length).
        apply (bsum_ext K). intros s Hs.
        rewrite (mget_mmul_wf K SR d d _ rho i s WP (proj1 Hrho) Hi).
        unfold X. change (map (pauli_mat K ps po n) (seq 0 N)) with (paulis K ps po n).
        rewrite (chi_Q Ks a s j Ha Hs Hj). fold X. rewrite (bsum_mul_r K SR).
        apply (bsum_ext K). intros r Hr. unfold pauli_mat. now rewrite (mget_mk K) by assumption. }
      (* insert the entries of chi and collect the two reconstructions *)
      transitivity (lsum (map (fun Km => bsum d (fun r => bsum d (fun s =>
                      (tw *! mget Km i r) *! mget rho r s *! cj (tw *! mget Km j s)))) Ks)).
      2:{ unfold kraus_entry. rewrite <- (lsum_map_mul_l K SR). apply (lsum_map_ext K). intros Km _.
          rewrite (bsum_mul_l K SR). apply (bsum_ext K). intros r _. rewrite (bsum_mul_l K SR).
          apply (bsum_ext K). intros s _. rewrite cj_mul. unfold tw. rewrite (cj_twopow n). ring. }
      transitivity (bsum N (fun a => bsum d (fun s => bsum d (fun r =>
                      lsum (map (fun Km => E n a i r *! mget rho r s *! (w Km a *! cj (tw *! mget Km j s))) Ks))))).
      { apply (bsum_ext K). intros a Ha. apply (bsum_ext K). intros s Hs. apply (bsum_ext K). intros r Hr.
        rewrite (lsum_map_mul_l K SR). f_equal.
        rewrite (bsum_ext K N _ (fun b => lsum (map (fun Km => w Km a *! (cj (w Km b) *! cj (E n b j s))) Ks))).
        - rewrite <- (lsum_bsum_swap K SR). apply (lsum_map_ext K). intros Km _.
          rewrite <- (w_recon Km j s Hj Hs). rewrite (bsum_hom K cj N _ cj0 cj_add). rewrite (bsum_mul_l K SR).
          apply (bsum_ext K). intros b _. now rewrite cj_mul.
        - intros b Hb. unfold X. rewrite (chi_entry Ks a b Ha Hb). rewrite <- (lsum_map_mul_r K SR).
          apply (lsum_map_ext K). intros Km _. ring. }
      (* move the sum over the Kraus operators outside and the sum over a inside *)
      rewrite (bsum_ext K N _ (fun a => lsum (map (fun Km => bsum d (fun s => bsum d (fun r =>
                 E n a i r *! mget rho r s *! (w Km a *! cj (tw *! mget Km j s))))) Ks))).
      2:{ intros a _. rewrite (lsum_bsum_swap K SR). apply (bsum_ext K). intros s _. now rewrite (lsum_bsum_swap K SR). }
      rewrite <- (lsum_bsum_swap K SR). apply (lsum_map_ext K). intros Km _.
      transitivity (bsum d (fun s => bsum d (fun r => bsum N (fun a =>
                      E n a i r *! mget rho r s *! (w Km a *! cj (tw *! mget Km j s)))))).
      { rewrite (bsum_swap K SR). apply (bsum_ext K). intros s _. apply (bsum_swap K SR). }
      rewrite (bsum_swap K SR). apply (bsum_ext K). intros r Hr. apply (bsum_ext K). intros s Hs.
      rewrite <- (w_recon Km i r Hi Hr). rewrite !(bsum_mul_r K SR). apply (bsum_ext K). intros a _. ring.
    Qed.
  End Acts.

  (* ================= path independence over the table of conversion functions, every n *)
  Section PathInd.
    Variables (col : bool) (n : nat).
    Let d := 2 ^ n.
    Let N := 4 ^ n.
    Let o := ord col (2 ^ n).
    Let B := comp_basis_to_pauli K cj ps po o n.
    Let V := pauli_to_comp_basis K ps po o n.
    Let tw := twopow n.
    Notation LP := (liouville_to_pauli K cj ps po o n).
    Notation PL := (pauli_to_liouville K cj ps po o n).
    Notation RS := (reshuffle K col (2 ^ n)).

    Lemma Ho' : odim o = 2 ^ n.
    Proof. unfold o. destruct col; reflexivity. Qed.
    Lemma Ndd : N = 2 ^ n * 2 ^ n.
    Proof. apply pow4_sq. Qed.
    Lemma d_pos : 2 ^ n <> 0.
    Proof. pose proof (pow2_pos n). lia. Qed.

    (* entrywise scaling x . M . x  (x central) *)
    Definition sc2 (x : T) (M : mat T) : mat T := mk N N (fun i j => x *! mget M i j *! x).
    Lemma wf_sc2 x M : wf N N (sc2 x M).
    Proof. apply wf_mk. Qed.
    Lemma sc2_one M : wf N N M -> sc2 T1 M = M.
    Proof.
      intros HM. apply (mat_ext K N N); [apply wf_mk|exact HM|]. intros i j Hi Hj.
      unfold sc2. rewrite (mget_mk K) by assumption. ring.
    Qed.
    Lemma sc2_sc2 x y M : sc2 x (sc2 y M) = sc2 (x *! y) M.
    Proof. unfold sc2. apply mk_ext. intros i j Hi Hj. rewrite (mget_mk K) by assumption. ring. Qed.

    Lemma wf_RS M : wf N N (RS M).
    Proof. unfold N. rewrite pow4_sq. apply wf_mk. Qed.
    Lemma wf_LP M : wf N N M -> wf N N (LP M).
    Proof.
      intros HM. pose proof (wf_B o n Ho') as WB. pose proof (N_pos o n Ho') as HN.
      unfold liouville_to_pauli, mmul3. cbv zeta. rewrite (dagger_B o n).
      apply (wf_mmul K N N N); [apply (wf_mmul K N N N); assumption|apply (wf_V o n)|exact HN].
    Qed.
    Lemma wf_PL M : wf N N M -> wf N N (PL M).
    Proof.
      intros HM. pose proof (wf_B o n Ho') as WB. pose proof (N_pos o n Ho') as HN.
      unfold pauli_to_liouville, mmul3. cbv zeta. rewrite (dagger_V o n Ho').
      apply (wf_mmul K N N N); [apply (wf_mmul K N N N); [apply (wf_V o n)|assumption|assumption]|exact WB|exact HN].
    Qed.

    (* A (x M x) C = x (A M C) x *)
    Lemma mmul3_sc2 A C M x a b : wf N N A -> wf N N M -> wf N N C -> a < N -> b < N ->
      mget (mmul3 K A (sc2 x M) C) a b = x *! mget (mmul3 K A M C) a b *! x.
    Proof.
      intros HA HM HC Ha Hb. pose proof (N_pos o n Ho') as HN. unfold mmul3.
      assert (W1 : wf N N (mmul K A (sc2 x M))) by (apply (wf_mmul K N N N); [exact HA|apply wf_sc2|exact HN]).
      assert (W2 : wf N N (mmul K A M)) by (now apply (wf_mmul K N N N)).
      rewrite (mget_mmul_wf K SR N N _ C a b W1 (proj1 HC) Ha).
      rewrite (mget_mmul_wf K SR N N _ C a b W2 (proj1 HC) Ha).
      rewrite (bsum_mul_l K SR N x (fun k => mget (mmul K A M) a k *! mget C k b)). rewrite (bsum_mul_r K SR). apply (bsum_ext K). intros l Hl.
      rewrite (mget_mmul_wf K SR N N A _ a l HA (proj1 (wf_sc2 x M)) Ha).
      rewrite (mget_mmul_wf K SR N N A M a l HA (proj1 HM) Ha).
      assert (E : bsum N (fun k => mget A a k *! mget (sc2 x M) k l) = x *! bsum N (fun k => mget A a k *! mget M k l) *! x).
      { rewrite (bsum_mul_l K SR), (bsum_mul_r K SR). apply (bsum_ext K). intros k Hk.
        unfold sc2. rewrite (mget_mk K) by assumption. ring. }
      rewrite E. ring.
    Qed.

    Lemma LP_sc2 x M : wf N N M -> LP (sc2 x M) = sc2 x (LP M).
    Proof.
      intros HM. apply (mat_ext K N N); [apply wf_LP, wf_sc2|apply wf_sc2|]. intros a b Ha Hb.
      unfold sc2 at 2. rewrite (mget_mk K) by assumption.
      unfold liouville_to_pauli. cbv zeta. rewrite (dagger_B o n).
      apply mmul3_sc2; [apply (wf_B o n Ho')|exact HM|apply (wf_V o n)|exact Ha|exact Hb].
    Qed.
    Lemma PL_sc2 x M : wf N N M -> PL (sc2 x M) = sc2 x (PL M).
    Proof.
      intros HM. apply (mat_ext K N N); [apply wf_PL, wf_sc2|apply wf_sc2|]. intros a b Ha Hb.
      unfold sc2 at 2. rewrite (mget_mk K) by assumption.
      unfold pauli_to_liouville. cbv zeta. rewrite (dagger_V o n Ho').
      apply mmul3_sc2; [apply (wf_V o n)|exact HM|apply (wf_B o n Ho')|exact Ha|exact Hb].
    Qed.
    Lemma RS_sc2 x M : RS (sc2 x M) = sc2 x (RS M).
    Proof.
      apply (mat_ext K N N); [apply wf_RS|apply wf_sc2|]. intros i j Hi Hj.
      unfold sc2 at 2. rewrite (mget_mk K) by assumption.
      assert (Hi' : i < 2 ^ n * 2 ^ n) by (rewrite <- Ndd; exact Hi).
      assert (Hj' : j < 2 ^ n * 2 ^ n) by (rewrite <- Ndd; exact Hj).
      rewrite !(mget_reshuffle K) by assumption.
      pose proof (div_lt_prod i _ _ Hi'). pose proof (mod_lt_prod i _ _ Hi').
      pose proof (div_lt_prod j _ _ Hj'). pose proof (mod_lt_prod j _ _ Hj').
      destruct col; unfold sc2; rewrite (mget_mk K) by (unfold N; rewrite pow4_sq; apply pair_lt; assumption); reflexivity.
    Qed.

    (* PL (LP M) = 2^n M 2^n  as matrices *)
    Lemma PL_LP M : wf N N M -> PL (LP M) = sc2 tw M.
    Proof.
      intros HM. apply (mat_ext K N N); [apply wf_PL, wf_LP, HM|apply wf_sc2|]. intros a b Ha Hb.
      unfold sc2. rewrite (mget_mk K) by assumption. now apply (from_pauli_to_pauli o n Ho').
    Qed.

    Section Channel.
      Variable Ks : list (mat T).
      Let C := kraus_to_choi K cj o Ks.
      Let L := kraus_to_liouville K cj col (2 ^ n) Ks.
      Let P := kraus_to_pauli K cj ps po col n Ks.
      Let X := kraus_to_chi K cj ps po o n Ks.

      Lemma wf_C : wf N N C.
      Proof. unfold C, kraus_to_choi. cbv zeta. rewrite Ho'. unfold N. rewrite pow4_sq. apply wf_mk. Qed.
      Lemma L_is : L = RS C.
      Proof. reflexivity. Qed.
      Lemma P_is : P = LP L.
      Proof. reflexivity. Qed.
      Lemma wf_L : wf N N L.
      Proof. rewrite L_is. apply wf_RS. Qed.
      Lemma RS_L : RS L = C.
      Proof. rewrite L_is. apply (reshuffle_involutive K). rewrite <- Ndd. exact wf_C. Qed.

      (* the chi matrix is the basis change of the Choi matrix: B (sum |K)(K|) B^dagger = sum |BK)(BK| *)
      Lemma X_is : X = LP C.
      Proof.
        pose proof (wf_B o n Ho') as WB. pose proof (wf_V o n) as WV. pose proof (N_pos o n Ho') as HN.
        apply (mat_ext K N N); [unfold X, kraus_to_chi; cbv zeta; apply wf_mk|apply wf_LP, wf_C|].
        intros a b Ha Hb. unfold X. rewrite (chi_entry o n Ho' Ks a b Ha Hb).
        unfold liouville_to_pauli, mmul3. cbv zeta. rewrite (dagger_B o n).
        assert (WBC : wf N N (mmul K (comp_basis_to_pauli K cj ps po o n) C)) by (apply (wf_mmul K N N N); [exact WB|exact wf_C|exact HN]).
        rewrite (mget_mmul_wf K SR N N _ _ a b WBC (proj1 WV) Ha).
        set (vK := fun Km k => vget (vectorize K o Km) k).
        transitivity (lsum (map (fun Km => bsum N (fun l => bsum N (fun k =>
                        mget (comp_basis_to_pauli K cj ps po o n) a k *! vK Km k *! cj (vK Km l)
                        *! cj (mget (comp_basis_to_pauli K cj ps po o n) b l)))) Ks)).
        - apply (lsum_map_ext K). intros Km _.
          assert (Lv : length (vectorize K o Km) = N) by (rewrite (length_vectorize K); unfold N; now rewrite (N_sq o n Ho')).
          rewrite !(vget_mvmul_wf K SR N N _ _ _ WB Lv) by assumption.
          rewrite (bsum_hom K cj N _ cj0 cj_add). rewrite (bsum_mul_l K SR).
          apply (bsum_ext K). intros l Hl. rewrite (bsum_mul_r K SR). apply (bsum_ext K). intros k Hk.
          rewrite cj_mul. unfold vK. ring.
        - rewrite (lsum_bsum_swap K SR). apply (bsum_ext K). intros l Hl.
          rewrite (mget_mmul_wf K SR N N _ C a l WB (proj1 wf_C) Ha).
          rewrite (lsum_bsum_swap K SR). rewrite (bsum_mul_r K SR). apply (bsum_ext K). intros k Hk.
          assert (Hk' : k < odim o * odim o) by (rewrite <- (N_sq o n Ho'); exact Hk).
          assert (Hl' : l < odim o * odim o) by (rewrite <- (N_sq o n Ho'); exact Hl).
          unfold C. rewrite (mget_kraus_to_choi K cj cj0 o Ks k l Hk' Hl').
          rewrite (mget_V o n) by assumption. 
          replace (mget (pauli_basis_vec K ps po o n) b l) with (cj (mget (comp_basis_to_pauli K cj ps po o n) b l))
            by (rewrite (mget_B o n); apply cj_cj).
          rewrite <- (lsum_map_mul_l K SR), <- (lsum_map_mul_r K SR). apply (lsum_map_ext K). intros Km _.
          unfold vK. rewrite !(vget_vectorize K) by assumption. ring.
      Qed.
      Lemma wf_X : wf N N X.
      Proof. rewrite X_is. apply wf_LP, wf_C. Qed.
      Lemma wf_P : wf N N P.
      Proof. rewrite P_is. apply wf_LP, wf_L. Qed.

      Definition fac (a b : rep) : T := if rep_eqb a b then T1 else if leaves_pauli a then tw else T1.
      Notation from := (from_kraus_rep K cj ps po col n).
      Notation conv := (conv_rep K cj ps po col n).

      Lemma wf_from r : wf N N (from r Ks).
      Proof. destruct r; [exact wf_C|exact wf_L|exact wf_P|exact wf_X]. Qed.

      (* every function of the table, applied to the representation obtained from the Kraus set, gives
         the representation the direct conversion gives -- times 2^n . 2^n when it leaves the un-normalised Pauli basis *)
      Theorem path_pair a b : conv a b (from a Ks) = sc2 (fac a b) (from b Ks).
      Proof.
        destruct a, b; unfold fac; cbn [rep_eqb leaves_pauli from_kraus_rep conv_rep];
          fold o; fold C L P X; rewrite ?sc2_one by (first [exact wf_C|exact wf_L|exact wf_P|exact wf_X]);
          try reflexivity.
        - (* choi -> chi *) unfold choi_to_chi. now rewrite X_is.
        - (* liouville -> choi *) unfold liouville_to_choi. apply RS_L.
        - (* liouville -> chi *) unfold liouville_to_chi, liouville_to_choi. fold o. now rewrite RS_L, X_is.
        - (* pauli -> choi *) unfold pauli_to_choi, liouville_to_choi. fold o. rewrite P_is, (PL_LP L wf_L), RS_sc2. now rewrite RS_L.
        - (* pauli -> liouville *) rewrite P_is. apply (PL_LP L wf_L).
        - (* pauli -> chi *) unfold pauli_to_chi, liouville_to_chi, liouville_to_choi. fold o.
          rewrite P_is, (PL_LP L wf_L), RS_sc2, RS_L, (LP_sc2 tw C wf_C). now rewrite X_is.
        - (* chi -> choi *) unfold chi_to_choi. rewrite X_is. apply (PL_LP C wf_C).
        - (* chi -> liouville *) unfold chi_to_liouville, choi_to_liouville. fold o. rewrite X_is, (PL_LP C wf_C), RS_sc2. reflexivity.
        - (* chi -> pauli *) unfold chi_to_pauli, choi_to_pauli, choi_to_liouville. fold o.
          rewrite X_is, (PL_LP C wf_C), RS_sc2. rewrite <- L_is. rewrite (LP_sc2 tw L wf_L). reflexivity.
      Qed.

      (* every function of the table is linear in the scaling *)
      Lemma conv_sc2 a b x M : wf N N M -> conv a b (sc2 x M) = sc2 x (conv a b M).
      Proof.
        intros HM.
        assert (E1 : LP (RS (sc2 x M)) = sc2 x (LP (RS M))) by (rewrite RS_sc2; apply LP_sc2, wf_RS).
        assert (E2 : RS (PL (sc2 x M)) = sc2 x (RS (PL M))) by (rewrite (PL_sc2 x M HM); apply RS_sc2).
        assert (E3 : LP (RS (PL (sc2 x M))) = sc2 x (LP (RS (PL M)))) by (rewrite E2; apply LP_sc2, wf_RS).
        destruct a, b; cbn [conv_rep]; try reflexivity;
          unfold choi_to_liouville, choi_to_pauli, choi_to_chi, liouville_to_chi, pauli_to_choi,
                 pauli_to_chi, chi_to_choi, chi_to_liouville, chi_to_pauli, liouville_to_choi, choi_to_liouville; fold o;
          first [ exact E1 | exact E2 | exact E3 | apply RS_sc2 | apply (LP_sc2 x M HM) | apply (PL_sc2 x M HM) ].
      Qed.

      Lemma wf_conv a b M : wf N N M -> wf N N (conv a b M).
      Proof.
        intros HM. destruct a, b; cbn [conv_rep]; try exact HM;
          unfold choi_to_liouville, liouville_to_choi, choi_to_pauli, choi_to_chi, liouville_to_chi, pauli_to_choi,
                 pauli_to_chi, chi_to_choi, chi_to_liouville, chi_to_pauli, liouville_to_choi, choi_to_liouville; fold o;
          repeat first [apply wf_RS | apply wf_LP | apply wf_PL | exact HM].
      Qed.

      Fixpoint path_fac (a : rep) (path : list rep) : T :=
        match path with [] => T1 | b :: rest => fac a b *! path_fac b rest end.

      (* path independence: along ANY path through the table, starting from the representation of the
         Kraus set, the result is the direct conversion to the end point times the product of the factors *)
      Theorem path_independence path : forall a x,
        run_path K cj ps po col n a path (sc2 x (from a Ks)) = sc2 (x *! path_fac a path) (from (path_end a path) Ks).
      Proof.
        induction path as [|b rest IH]; intros a x; cbn [run_path path_end path_fac].
        - f_equal. ring.
        - rewrite (conv_sc2 a b x _ (wf_from a)), path_pair, sc2_sc2, IH. f_equal. ring.
      Qed.
    End Channel.
  End PathInd.
End Pauli.
