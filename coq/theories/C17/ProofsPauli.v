(* C17/ProofsPauli.v : the n-qubit Pauli basis built by pauli_basis (einsum over n single-qubit
   factors) is orthogonal, <P_a,P_b> = 2^n delta_ab, for EVERY n and every pauli_order that is a
   permutation of the four labels; hence comp_basis_to_pauli . pauli_to_comp_basis = 2^n I (every
   vectorisation order), and liouville_to_pauli (pauli_to_liouville P) = 4^n P for the
   un-normalised basis. *)
From Coq Require Import List Bool Arith Lia Ring Permutation.
From QV Require Import Base.Mat C17.Alg C17.Model C17.Spec C17.ProofsIdx C17.ProofsVec C17.ProofsPerm.
Import ListNotations.

Section Pauli.
  Context {T : Type} (K : ops T) (cj : T -> T).
  Notation T0 := (zero K).
  Notation T1 := (one K).
  Infix "+!" := (add K) (at level 50, left associativity).
  Infix "*!" := (mul K) (at level 40, left associativity).
  Variable SR : semi_ring_theory T0 T1 (add K) (mul K) (@eq T).
  Add Ring TR5 : SR.
  Hypothesis cj0 : cj T0 = T0.
  Hypothesis cj1 : cj T1 = T1.
  Hypothesis cj_add : forall a b, cj (a +! b) = cj a +! cj b.
  Hypothesis cj_mul : forall a b, cj (a *! b) = cj a *! cj b.
  Hypothesis cj_cj : forall a, cj (cj a) = a.
  Notation vget := (vget K).
  Notation mget := (mget K).
  Notation bsum := (bsum K).

  Variable ps : nat -> mat T.
  Variable po : list nat.
  Definition two : T := T1 +! T1.
  Fixpoint twopow (n : nat) : T := match n with O => T1 | S m => two *! twopow m end.

  (* Hilbert-Schmidt product of two 2x2 matrices of the table *)
  Definition H1 (x y : nat) : T :=
    bsum 2 (fun r => bsum 2 (fun c => cj (mget (ps x) r c) *! mget (ps y) r c)).
  (* the single-qubit table is orthogonal (checked by computation for the concrete I,X,Y,Z) *)
  Hypothesis ps_orth : forall x y, x < 4 -> y < 4 -> H1 x y = if Nat.eqb x y then two else T0.
  (* pauli_order is a permutation of the four labels *)
  Hypothesis po_nodup : NoDup po.
  Hypothesis po_len : length po = 4.
  Hypothesis po_range : forall x, In x po -> x < 4.

  Notation E := (pauli_entry K ps po).
  Definition HS (n a b : nat) : T :=
    bsum (2 ^ n) (fun r => bsum (2 ^ n) (fun c => cj (E n a r c) *! E n b r c)).

  Lemma single_orth a b : a < 4 -> b < 4 ->
    H1 (nth a po 0) (nth b po 0) = if Nat.eqb a b then two else T0.
  Proof.
    intros Ha Hb. rewrite ps_orth by (apply po_range, nth_In; lia).
    destruct (Nat.eqb_spec a b) as [->|Hne]; [now rewrite Nat.eqb_refl|].
    destruct (Nat.eqb_spec (nth a po 0) (nth b po 0)) as [E|_]; [|reflexivity].
    exfalso. apply Hne. apply (proj1 (NoDup_nth po 0) po_nodup); lia.
  Qed.

  Lemma sum4_factor n1 m1 n2 m2 (A B : nat -> nat -> T) :
    bsum n1 (fun r0 => bsum m1 (fun r1 => bsum n2 (fun c0 => bsum m2 (fun c1 => A r0 c0 *! B r1 c1))))
    = bsum n1 (fun r0 => bsum n2 (fun c0 => A r0 c0)) *! bsum m1 (fun r1 => bsum m2 (fun c1 => B r1 c1)).
  Proof.
    rewrite (bsum_mul_r K SR). apply (bsum_ext K). intros r0 _.
    rewrite (bsum_mul_l K SR). apply (bsum_ext K). intros r1 _.
    rewrite (bsum_mul_r K SR). apply (bsum_ext K). intros c0 _.
    rewrite (bsum_mul_l K SR). reflexivity.
  Qed.

  Lemma HS_step n a b :
    HS (S n) a b = H1 (nth (a / 4 ^ n) po 0) (nth (b / 4 ^ n) po 0) *! HS n (a mod 4 ^ n) (b mod 4 ^ n).
  Proof.
    unfold HS, H1. pose proof (pow2_pos n) as Hh.
    change (2 ^ S n) with (2 * 2 ^ n). set (h := 2 ^ n) in *.
    rewrite (bsum_prod K SR).
    rewrite <- sum4_factor. apply (bsum_ext K). intros r0 Hr0. apply (bsum_ext K). intros r1 Hr1.
    rewrite (bsum_prod K SR). apply (bsum_ext K). intros c0 Hc0. apply (bsum_ext K). intros c1 Hc1.
    cbn [pauli_entry]. fold h. unfold single.
    rewrite !div_pair, !mod_pair by assumption. rewrite cj_mul. ring.
  Qed.

  Theorem pauli_orth n : forall a b, a < 4 ^ n -> b < 4 ^ n ->
    HS n a b = if Nat.eqb a b then twopow n else T0.
  Proof.
    induction n as [|n IH]; intros a b Ha Hb.
    - cbn in Ha, Hb. assert (a = 0) by lia. assert (b = 0) by lia. subst.
      unfold HS. cbn [Nat.pow Alg.bsum pauli_entry Nat.eqb twopow]. rewrite cj1. ring.
    - rewrite HS_step. cbn [Nat.pow] in Ha, Hb. pose proof (pow4_pos n) as H4.
      assert (Ha0 : a / 4 ^ n < 4) by (apply Nat.div_lt_upper_bound; lia).
      assert (Hb0 : b / 4 ^ n < 4) by (apply Nat.div_lt_upper_bound; lia).
      assert (Ha1 : a mod 4 ^ n < 4 ^ n) by (apply Nat.mod_upper_bound; lia).
      assert (Hb1 : b mod 4 ^ n < 4 ^ n) by (apply Nat.mod_upper_bound; lia).
      rewrite single_orth by assumption. rewrite IH by assumption.
      pose proof (divmod_eq a (4 ^ n) ltac:(lia)) as Ea. pose proof (divmod_eq b (4 ^ n) ltac:(lia)) as Eb.
      cbn [twopow].
      destruct (Nat.eqb_spec a b) as [->|Hne].
      + rewrite !Nat.eqb_refl. reflexivity.
      + destruct (Nat.eqb_spec (a / 4 ^ n) (b / 4 ^ n)) as [E1|_]; [|ring].
        destruct (Nat.eqb_spec (a mod 4 ^ n) (b mod 4 ^ n)) as [E2|_]; [|ring].
        exfalso. apply Hne. rewrite <- Ea, <- Eb. now rewrite E1, E2.
  Qed.

  (* the same statement about the matrices returned by pauli_basis *)
  Theorem pauli_basis_orthogonal n a b : a < 4 ^ n -> b < 4 ^ n ->
    hs K cj (2 ^ n) (pauli_mat K ps po n a) (pauli_mat K ps po n b) = if Nat.eqb a b then twopow n else T0.
  Proof.
    intros Ha Hb. rewrite <- (pauli_orth n a b Ha Hb). unfold hs, HS.
    apply (bsum_ext K). intros r Hr. apply (bsum_ext K). intros c Hc.
    unfold pauli_mat. now rewrite !(mget_mk K).
  Qed.

  (* ---------- the basis-change matrices *)
  Section Basis.
    Variables (o : vorder) (n : nat).
    Hypothesis Ho : odim o = 2 ^ n.
    Let N := 4 ^ n.
    Let Bv := pauli_basis_vec K ps po o n.
    Let B := comp_basis_to_pauli K cj ps po o n.
    Let V := pauli_to_comp_basis K ps po o n.

    Lemma N_sq : N = odim o * odim o.
    Proof. unfold N. rewrite Ho. apply pow4_sq. Qed.
    Lemma N_pos : N <> 0.
    Proof. unfold N. pose proof (pow4_pos n). lia. Qed.

    Lemma wf_Bv : wf N N Bv.
    Proof.
      split; [apply tab_length|]. unfold Bv, pauli_basis_vec, tab. apply Forall_forall. intros row Hr.
      apply in_map_iff in Hr. destruct Hr as [a [<- _]]. rewrite (length_vectorize K). now rewrite <- N_sq.
    Qed.

    Lemma mget_Bv a k : a < N -> k < N ->
      mget Bv a k = E n a (fst (vun o k)) (snd (vun o k)).
    Proof.
      intros Ha Hk. unfold Mat.mget, Bv, pauli_basis_vec. rewrite nth_tab by exact Ha.
      fold (Alg.vget K (vectorize K o (pauli_mat K ps po n a)) k).
      rewrite (vget_vectorize K) by (now rewrite <- N_sq).
      rewrite N_sq in Hk. destruct (vun_lt o k Hk) as [H1' H2']. rewrite Ho in H1', H2'.
      unfold pauli_mat. now rewrite (mget_mk K).
    Qed.

    Lemma wf_B : wf N N B.
    Proof.
      destruct wf_Bv as [Hl Hf]. split; [unfold B, comp_basis_to_pauli, mconj; now rewrite map_length|].
      unfold B, comp_basis_to_pauli, mconj. apply Forall_forall. intros row Hr. apply in_map_iff in Hr.
      destruct Hr as [r0 [<- Hr0]]. rewrite map_length. rewrite Forall_forall in Hf. now apply Hf.
    Qed.

    Lemma mget_B a k : mget B a k = cj (mget Bv a k).
    Proof.
      unfold Mat.mget, B, comp_basis_to_pauli, mconj.
      pose proof (map_nth (map cj) Bv [] a) as E1. cbn [map] in E1.
      transitivity (nth k (map cj (nth a Bv [])) T0); [exact (f_equal (fun l => nth k l T0) E1)|].
      rewrite <- cj0 at 1. apply (map_nth cj).
    Qed.

    Lemma wf_V : wf N N V.
    Proof. apply wf_mk. Qed.
    Lemma mget_V k a : k < N -> a < N -> mget V k a = mget Bv a k.
    Proof. intros. unfold V, pauli_to_comp_basis, mtrans. fold N. now rewrite (mget_mk K). Qed.

    (* dagger exchanges the two basis-change matrices *)
    Lemma dagger_B : dagger K cj N N B = V.
    Proof.
      unfold dagger, V, pauli_to_comp_basis, mtrans. fold N. apply mk_ext. intros i j Hi Hj.
      now rewrite mget_B, cj_cj.
    Qed.
    Lemma dagger_V : dagger K cj N N V = B.
    Proof.
      apply (mat_ext K N N); [apply wf_mk|exact wf_B|]. intros i j Hi Hj.
      unfold dagger. rewrite (mget_mk K) by assumption. now rewrite mget_V, mget_B by assumption.
    Qed.

    (* orthogonality as a matrix identity: comp_basis_to_pauli . pauli_to_comp_basis = 2^n I *)
    Theorem basis_change_product : mmul K B V = smat K N (twopow n).
    Proof.
      apply (mat_ext K N N); [apply (wf_mmul K N N N); [exact wf_B|exact wf_V|exact N_pos]|apply wf_mk|].
      intros a b Ha Hb.
      rewrite (mget_mmul_wf K SR N N B V a b wf_B (proj1 wf_V) Ha).
      unfold smat. rewrite (mget_mk K) by assumption.
      rewrite <- (pauli_orth n a b Ha Hb). unfold HS.
      rewrite (bsum_ext K N _ (fun k => cj (E n a (fst (vun o k)) (snd (vun o k))) *! E n b (fst (vun o k)) (snd (vun o k)))).
      - rewrite N_sq. rewrite (bsum_vidx K SR o). rewrite Ho.
        apply (bsum_ext K). intros r Hr. apply (bsum_ext K). intros c Hc.
        rewrite vun_vidx by (rewrite Ho; assumption). reflexivity.
      - intros k Hk. rewrite mget_B, mget_V, !mget_Bv by assumption. reflexivity.
    Qed.

    Lemma cj_twopow m : cj (twopow m) = twopow m.
    Proof. induction m as [|m IH]; cbn [twopow]; [exact cj1|]. unfold two. now rewrite cj_mul, cj_add, cj1, IH. Qed.

    (* to_pauli after from_pauli, un-normalised: the identity up to the factor (2^n)^2 = 4^n *)
    Theorem to_pauli_from_pauli P a b : wf N N P -> a < N -> b < N ->
      mget (liouville_to_pauli K cj ps po o n (pauli_to_liouville K cj ps po o n P)) a b
      = twopow n *! mget P a b *! twopow n.
    Proof.
      intros HP Ha Hb. unfold liouville_to_pauli, pauli_to_liouville, mmul3. cbv zeta.
      fold N B V. rewrite dagger_B, dagger_V.
      pose proof wf_B as WB. pose proof wf_V as WV. pose proof N_pos as HN.
      assert (WVP : wf N N (mmul K V P)) by (now apply (wf_mmul K N N N)).
      assert (WPB : wf N N (mmul K P B)) by (now apply (wf_mmul K N N N)).
      (* B ((V P) B) V  =  (B V) ((P B) V)  =  (B V) (P (B V)) *)
      rewrite (mmul_assoc K SR N N N N V P B WV HP WB HN HN).
      rewrite <- (mmul_assoc K SR N N N N B V (mmul K P B) WB WV WPB HN HN).
      assert (WS : wf N N (mmul K B V)) by (now apply (wf_mmul K N N N)).
      rewrite (mmul_assoc K SR N N N N (mmul K B V) (mmul K P B) V WS WPB WV HN HN).
      rewrite (mmul_assoc K SR N N N N P B V HP WB WV HN HN).
      rewrite basis_change_product.
      assert (WPS : wf N N (mmul K P (smat K N (twopow n)))) by (apply (wf_mmul K N N N); [exact HP|apply wf_mk|exact HN]).
      rewrite (mget_smat_mul K SR N _ _ a b WPS Ha Hb).
      rewrite (mget_mul_smat K SR N _ P a b HP Ha Hb). ring.
    Qed.
  End Basis.

  (* ================= completeness: sum_a P_a[r][c] conj(P_a[r'][c']) = 2^n delta_rr' delta_cc' *)
  Definition C1 (r c r' c' : nat) : T :=
    bsum 4 (fun x => mget (ps x) r c *! cj (mget (ps x) r' c')).
  Hypothesis ps_complete : forall r c r' c', r < 2 -> c < 2 -> r' < 2 -> c' < 2 ->
    C1 r c r' c' = if Nat.eqb r r' && Nat.eqb c c' then two else T0.

  Definition CS (n r c r' c' : nat) : T :=
    bsum (4 ^ n) (fun a => E n a r c *! cj (E n a r' c')).

  Lemma single_sum (F : nat -> T) : bsum 4 (fun a => F (nth a po 0)) = bsum 4 F.
  Proof.
    apply (bsum_reindex K SR 4 (fun a => nth a po 0) F).
    - intros k Hk. apply po_range, nth_In. lia.
    - intros k k' Hk Hk' Ek. apply (proj1 (NoDup_nth po 0) po_nodup); lia.
  Qed.

  Lemma CS_step n r c r' c' :
    CS (S n) r c r' c'
    = C1 (r / 2 ^ n) (c / 2 ^ n) (r' / 2 ^ n) (c' / 2 ^ n)
      *! CS n (r mod 2 ^ n) (c mod 2 ^ n) (r' mod 2 ^ n) (c' mod 2 ^ n).
  Proof.
    unfold CS, C1. pose proof (pow4_pos n) as H4.
    change (4 ^ S n) with (4 * 4 ^ n). rewrite (bsum_prod K SR).
    rewrite <- (single_sum (fun x => mget (ps x) (r / 2 ^ n) (c / 2 ^ n) *! cj (mget (ps x) (r' / 2 ^ n) (c' / 2 ^ n)))).
    rewrite (bsum_mul_r K SR). apply (bsum_ext K). intros a0 Ha0.
    rewrite (bsum_mul_l K SR). apply (bsum_ext K). intros a1 Ha1.
    cbn [pauli_entry]. unfold single. rewrite !div_pair, !mod_pair by assumption. rewrite cj_mul. ring.
  Qed.

  Theorem pauli_complete n : forall r c r' c', r < 2 ^ n -> c < 2 ^ n -> r' < 2 ^ n -> c' < 2 ^ n ->
    CS n r c r' c' = if Nat.eqb r r' && Nat.eqb c c' then twopow n else T0.
  Proof.
    induction n as [|n IH]; intros r c r' c' Hr Hc Hr' Hc'.
    - cbn in Hr, Hc, Hr', Hc'. assert (r = 0) by lia. assert (c = 0) by lia.
      assert (r' = 0) by lia. assert (c' = 0) by lia. subst.
      unfold CS. cbn [Nat.pow Alg.bsum pauli_entry Nat.eqb andb twopow]. rewrite cj1. ring.
    - rewrite CS_step. cbn [Nat.pow] in Hr, Hc, Hr', Hc'. pose proof (pow2_pos n) as Hh.
      set (h := 2 ^ n) in *.
      assert (forall x, x < 2 * h -> x / h < 2) by (intros; apply Nat.div_lt_upper_bound; lia).
      assert (forall x, x mod h < h) by (intros; apply Nat.mod_upper_bound; lia).
      rewrite ps_complete by auto. rewrite IH by auto. cbn [twopow].
      pose proof (divmod_eq r h ltac:(lia)) as Er. pose proof (divmod_eq r' h ltac:(lia)) as Er'.
      pose proof (divmod_eq c h ltac:(lia)) as Ec. pose proof (divmod_eq c' h ltac:(lia)) as Ec'.
      destruct (Nat.eqb_spec (r / h) (r' / h)) as [A1|A1]; destruct (Nat.eqb_spec (r mod h) (r' mod h)) as [A2|A2];
        destruct (Nat.eqb_spec (c / h) (c' / h)) as [B1|B1]; destruct (Nat.eqb_spec (c mod h) (c' mod h)) as [B2|B2];
        destruct (Nat.eqb_spec r r') as [R|R]; destruct (Nat.eqb_spec c c') as [Cc|Cc]; cbn [andb];
        first [ring | exfalso; congruence].
  Qed.

  Section Basis2.
    Variables (o : vorder) (n : nat).
    Hypothesis Ho : odim o = 2 ^ n.
    Let N := 4 ^ n.
    Let B := comp_basis_to_pauli K cj ps po o n.
    Let V := pauli_to_comp_basis K ps po o n.

    (* pauli_to_comp_basis . comp_basis_to_pauli = 2^n I *)
    Theorem basis_change_product' : mmul K V B = smat K N (twopow n).
    Proof.
      pose proof (wf_B o n Ho) as WB. pose proof (wf_V o n) as WV. pose proof (N_pos o n Ho) as HN.
      fold N B V in WB, WV, HN.
      apply (mat_ext K N N); [now apply (wf_mmul K N N N)|apply wf_mk|].
      intros k k' Hk Hk'.
      rewrite (mget_mmul_wf K SR N N V B k k' WV (proj1 WB) Hk).
      unfold smat. rewrite (mget_mk K) by assumption.
      assert (Hk2 : k < odim o * odim o) by (rewrite <- (N_sq o n Ho); exact Hk).
      assert (Hk2' : k' < odim o * odim o) by (rewrite <- (N_sq o n Ho); exact Hk').
      destruct (vun_lt o k Hk2) as [X1 X2]. destruct (vun_lt o k' Hk2') as [Y1 Y2].
      rewrite Ho in X1, X2, Y1, Y2.
      transitivity (CS n (fst (vun o k)) (snd (vun o k)) (fst (vun o k')) (snd (vun o k'))).
      - unfold CS. apply (bsum_ext K). intros a Ha. unfold V, B.
        rewrite (mget_V o n) by assumption. rewrite (mget_B o n). now rewrite !(mget_Bv o n Ho) by assumption.
      - rewrite pauli_complete by assumption.
        destruct (Nat.eqb_spec k k') as [->|Hne]; [now rewrite !Nat.eqb_refl|].
        destruct (Nat.eqb_spec (fst (vun o k)) (fst (vun o k'))) as [E1|_]; [|reflexivity].
        destruct (Nat.eqb_spec (snd (vun o k)) (snd (vun o k'))) as [E2|_]; [|reflexivity].
        exfalso. apply Hne. rewrite <- (vidx_vun o k Hk2), <- (vidx_vun o k' Hk2'). now rewrite E1, E2.
    Qed.

    (* from_pauli after to_pauli, un-normalised: the identity up to the factor 4^n *)
    Theorem from_pauli_to_pauli L a b : wf N N L -> a < N -> b < N ->
      mget (pauli_to_liouville K cj ps po o n (liouville_to_pauli K cj ps po o n L)) a b
      = twopow n *! mget L a b *! twopow n.
    Proof.
      intros HL Ha Hb. unfold liouville_to_pauli, pauli_to_liouville, mmul3. cbv zeta.
      rewrite (dagger_B o n), (dagger_V o n Ho). fold N B V.
      pose proof (wf_B o n Ho) as WB. pose proof (wf_V o n) as WV. pose proof (N_pos o n Ho) as HN.
      fold N B V in WB, WV, HN.
      assert (WBL : wf N N (mmul K B L)) by (now apply (wf_mmul K N N N)).
      assert (WLV : wf N N (mmul K L V)) by (now apply (wf_mmul K N N N)).
      rewrite (mmul_assoc K SR N N N N B L V WB HL WV HN HN).
      rewrite <- (mmul_assoc K SR N N N N V B (mmul K L V) WV WB WLV HN HN).
      assert (WS : wf N N (mmul K V B)) by (now apply (wf_mmul K N N N)).
      rewrite (mmul_assoc K SR N N N N (mmul K V B) (mmul K L V) B WS WLV WB HN HN).
      rewrite (mmul_assoc K SR N N N N L V B HL WV WB HN HN).
      rewrite basis_change_product'.
      assert (WLS : wf N N (mmul K L (smat K N (twopow n)))) by (apply (wf_mmul K N N N); [exact HL|apply wf_mk|exact HN]).
      rewrite (mget_smat_mul K SR N _ _ a b WLS Ha Hb).
      rewrite (mget_mul_smat K SR N _ L a b HL Ha Hb). ring.
    Qed.
  End Basis2.
End Pauli.
