(* C13/Model.v : executable abstract-syntax model of qibo's export / import code.
   No proofs here (they are in C13/Proofs.v), so the model still runs when a proof breaks.

   Modelled (file -> definition):
     python call binding  C( *pos, **kw)                        -> bind
     gates/*.py constructors' bookkeeping (init_args, init_kwargs,
       _target_qubits, _control_qubits, parameters), driven by per-class rows that the
       harness regenerates from /repo by introspection on every run   -> mk, construct
     gates/measurements.py  M.__init__                          -> mk_M
     gates/abstract.py      Gate.raw / Gate.from_dict            -> raw, from_dict
     models/circuit.py      Circuit.add / raw / from_dict        -> add, craw, cfrom_dict
     models/circuit.py      Circuit.to_qasm                      -> write
     models/_openqasm.py    _qibo_gate_name, QASMParser.to_circuit, _get_gate,
                            _get_measurement, _merge_measurements -> qibo_gate_name, read
     result.py              to_dict / from_dict field maps        -> mo_to_dict ... cr_from_dict

   NOT modelled (exercised by the real round-trip sweep of harness/c13.py only):
     the concrete text (str(float(x)), the openqasm3 lexer/parser, json, np.save), custom
     `gate` definitions (CustomQASMGate), parameter expressions, value constraints checked by
     individual constructors (e.g. MS theta range, bit-flip maps).  A float is represented by
     its binary64 bit pattern, so "the same parameter" means bit-for-bit. *)
From Coq Require Import String Ascii List ZArith Bool Lia.
From Coq Require Import DecimalString.
Import ListNotations.
Local Open Scope string_scope.
Local Open Scope Z_scope.

(* ------------------------------------------------------------------ values *)
Inductive atom :=
| AInt (z : Z)        (* python int *)
| AFlt (bits : Z)     (* binary64, by its 64-bit pattern *)
| ABool (b : bool)
| ANone
| AStr (s : string)
| ASym (s : string).  (* opaque object (matrix, callback, ...) identified by a name *)

Inductive val := VA (a : atom) | VL (l : list atom).
Inductive bound := BOne (v : val) | BStar (l : list val).

Inductive err :=
| ETypeError | EValueError | ENotImplemented | ENameError | ERuntime | EKeyError | EIndexError
| EUnmodelled.  (* the model declines: input outside the modelled fragment *)

Inductive res (A : Type) := OK (a : A) | Err (e : err).
Arguments OK {A} a.
Arguments Err {A} e.

Definition rbind {A B} (x : res A) (f : A -> res B) : res B :=
  match x with OK a => f a | Err e => Err e end.
Notation "x <- e ; k" := (rbind e (fun x => k)) (at level 61, e at next level, right associativity).

Fixpoint mapM {A B} (f : A -> res B) (l : list A) : res (list B) :=
  match l with
  | [] => OK []
  | a :: l' => b <- f a; bs <- mapM f l'; OK (b :: bs)
  end.

Fixpoint foldM {A B} (f : B -> A -> res B) (l : list A) (b : B) : res B :=
  match l with
  | [] => OK b
  | a :: l' => b' <- f b a; foldM f l' b'
  end.

(* ------------------------------------------------------------------ equality tests *)
Definition atom_eqb (a b : atom) : bool :=
  match a, b with
  | AInt x, AInt y => x =? y
  | AFlt x, AFlt y => x =? y
  | ABool x, ABool y => Bool.eqb x y
  | ANone, ANone => true
  | AStr x, AStr y => String.eqb x y
  | ASym x, ASym y => String.eqb x y
  | _, _ => false
  end.

Fixpoint list_eqb {A} (eqb : A -> A -> bool) (l1 l2 : list A) : bool :=
  match l1, l2 with
  | [], [] => true
  | a :: l1', b :: l2' => eqb a b && list_eqb eqb l1' l2'
  | _, _ => false
  end.

Definition val_eqb (a b : val) : bool :=
  match a, b with
  | VA x, VA y => atom_eqb x y
  | VL x, VL y => list_eqb atom_eqb x y
  | _, _ => false
  end.

Definition option_eqb {A} (eqb : A -> A -> bool) (a b : option A) : bool :=
  match a, b with
  | None, None => true
  | Some x, Some y => eqb x y
  | _, _ => false
  end.

Definition kv_eqb (a b : string * val) : bool := String.eqb (fst a) (fst b) && val_eqb (snd a) (snd b).

Definition err_eqb (a b : err) : bool :=
  match a, b with
  | ETypeError, ETypeError | EValueError, EValueError | ENotImplemented, ENotImplemented
  | ENameError, ENameError | ERuntime, ERuntime | EKeyError, EKeyError | EIndexError, EIndexError
  | EUnmodelled, EUnmodelled => true
  | _, _ => false
  end.

Definition res_eqb {A} (eqb : A -> A -> bool) (a b : res A) : bool :=
  match a, b with
  | OK x, OK y => eqb x y
  | Err x, Err y => err_eqb x y
  | _, _ => false
  end.

Definition is_err {A} (e : err) (a : res A) : bool :=
  match a with Err x => err_eqb x e | OK _ => false end.

(* ------------------------------------------------------------------ small list helpers *)
Fixpoint memZ (x : Z) (l : list Z) : bool :=
  match l with [] => false | y :: l' => (x =? y) || memZ x l' end.
Fixpoint nodupZ (l : list Z) : bool :=
  match l with [] => true | x :: l' => negb (memZ x l') && nodupZ l' end.
Definition overlapZ (a b : list Z) : bool := existsb (fun x => memZ x b) a.
Fixpoint mem_str (x : string) (l : list string) : bool :=
  match l with [] => false | y :: l' => String.eqb x y || mem_str x l' end.

Fixpoint insertZ (x : Z) (l : list Z) : list Z :=
  match l with
  | [] => [x]
  | y :: l' => if x <=? y then x :: l else y :: insertZ x l'
  end.
Definition sortZ (l : list Z) : list Z := fold_right insertZ [] l.   (* python sorted() on ints *)

Fixpoint lookup {A} (k : string) (l : list (string * A)) : option A :=
  match l with
  | [] => None
  | (k', v) :: l' => if String.eqb k k' then Some v else lookup k l'
  end.

(* dict assignment d[k] = v : keeps the position of an existing key *)
Fixpoint dict_set {A} (k : string) (v : A) (l : list (string * A)) : list (string * A) :=
  match l with
  | [] => [(k, v)]
  | (k', v') :: l' => if String.eqb k k' then (k, v) :: l' else (k', v') :: dict_set k v l'
  end.
Fixpoint dict_del {A} (k : string) (l : list (string * A)) : list (string * A) :=
  match l with
  | [] => []
  | (k', v') :: l' => if String.eqb k k' then l' else (k', v') :: dict_del k l'
  end.

Fixpoint set_nth {A} (n : nat) (x : A) (l : list A) : list A :=
  match l, n with
  | [], _ => []
  | _ :: l', O => x :: l'
  | a :: l', S n' => a :: set_nth n' x l'
  end.

Definition string_of_nat (n : nat) : string := NilEmpty.string_of_uint (Nat.to_uint n).

(* ------------------------------------------------------------------ float(x) on the values the writer meets *)
Definition two53 : Z := 9007199254740992.
(* binary64 pattern of a non-zero integer of magnitude < 2^53 (exactly representable) *)
Definition bits_of_int (z : Z) : Z :=
  if z =? 0 then 0
  else let m := Z.abs z in
       let e := Z.log2 m in
       (if z <? 0 then 2 ^ 63 else 0) + (e + 1023) * 2 ^ 52 + (m * 2 ^ (52 - e) - 2 ^ 52).

Definition float_of (a : atom) : res atom :=
  match a with
  | AFlt b => OK (AFlt b)
  | AInt z => if Z.abs z <? two53 then OK (AFlt (bits_of_int z)) else Err EUnmodelled
  | ABool b => OK (AFlt (if b then bits_of_int 1 else 0))
  | _ => Err ETypeError
  end.
Definition float_of_val (v : val) : res atom :=
  match v with VA a => float_of a | VL _ => Err ETypeError end.

(* ------------------------------------------------------------------ python call binding *)
Inductive fk := FPos | FVar | FKw.
Record formal := mkF { fname : string; fkind : fk; fdef : option val }.
Definition env := list (string * bound).

Fixpoint kw_has (k : string) (kw : list (string * val)) : bool :=
  match kw with [] => false | (k', _) :: kw' => String.eqb k k' || kw_has k kw' end.

(* C( *pos, **kw) against the signature fs (no **kwargs, no positional-only parameters):
   TypeError for a missing argument, too many positionals, an unexpected keyword or a
   parameter given both ways. *)
Fixpoint bind (fs : list formal) (pos : list val) (kw : list (string * val)) : res env :=
  match fs with
  | [] => match pos, kw with
          | [], [] => OK []
          | _, _ => Err ETypeError
          end
  | f :: fs' =>
      let from_kw (pos' : list val) :=
        match lookup (fname f) kw with
        | Some v => x <- bind fs' pos' (dict_del (fname f) kw); OK ((fname f, BOne v) :: x)
        | None => match fdef f with
                  | Some d => x <- bind fs' pos' kw; OK ((fname f, BOne d) :: x)
                  | None => Err ETypeError
                  end
        end in
      match fkind f with
      | FPos => match pos with
                | p :: pos' => if kw_has (fname f) kw then Err ETypeError
                               else x <- bind fs' pos' kw; OK ((fname f, BOne p) :: x)
                | [] => from_kw []
                end
      | FVar => x <- bind fs' [] kw; OK ((fname f, BStar pos) :: x)
      | FKw => from_kw pos
      end
  end.

(* ------------------------------------------------------------------ gates *)
Record gate := mkGate {
  gcls : string;                      (* type(gate).__name__ *)
  gargs : list val;                   (* init_args *)
  gkw : list (string * val);          (* init_kwargs, insertion order *)
  gtargets : list Z;                  (* _target_qubits *)
  gcontrols : list Z;                 (* _control_qubits as stored (the property sorts them) *)
  gparams : list val;                 (* parameters *)
  gcb : bool;                         (* is_controlled_by *)
  greg : option string;               (* M: register_name attribute *)
  gcollapse : bool;                   (* M: collapse attribute *)
  gbasis : list string;               (* M: names of the basis gates *)
  gsamples : option (list (list Z))   (* M: result samples registered in the gate *)
}.

Definition gate_eqb (a b : gate) : bool :=
  String.eqb (gcls a) (gcls b) && list_eqb val_eqb (gargs a) (gargs b)
  && list_eqb kv_eqb (gkw a) (gkw b) && list_eqb Z.eqb (gtargets a) (gtargets b)
  && list_eqb Z.eqb (gcontrols a) (gcontrols b) && list_eqb val_eqb (gparams a) (gparams b)
  && Bool.eqb (gcb a) (gcb b) && option_eqb String.eqb (greg a) (greg b)
  && Bool.eqb (gcollapse a) (gcollapse b) && list_eqb String.eqb (gbasis a) (gbasis b)
  && option_eqb (list_eqb (list_eqb Z.eqb)) (gsamples a) (gsamples b).

(* gate.qubits = sorted(controls) + targets *)
Definition gqubits (g : gate) : list Z := sortZ (gcontrols g) ++ gtargets g.
Definition is_M (g : gate) : bool := String.eqb (gcls g) "M".

(* where the pieces of a gate come from in the constructor's environment *)
Inductive qsrc := QOne (f : string) | QStar (f : string) | QList (f : string).
Inductive asrc := AOne (f : string) | AStar (f : string) | AOpaque (s : string).
Inductive ksrc := KF (f : string) | KC (v : val).   (* init_kwargs value: a formal / a constant *)
Inductive cbk := CBGate | CBChannel.   (* what gate.controlled_by() does: Gate's / Channel's *)

Record row := mkRow {
  rname : string;
  rformals : list formal;
  rargs : list asrc;                  (* init_args *)
  rkw : list (string * ksrc);         (* init_kwargs: key -> formal or constant *)
  rtargets : list qsrc;
  rcontrols : list qsrc;
  rparams : list string;              (* formals that make up gate.parameters, in order *)
  rlabel : option string;             (* qasm_label, None = NotImplementedError *)
  rparametrized : bool;               (* isinstance(gate, ParametrizedGate) *)
  rdispatch : list Z;                 (* numbers of controls for which controlled_by returns another class *)
  rcb : cbk;
  rmodelled : bool                    (* false: constructor bookkeeping not expressible by templates (channels) *)
}.

Definition as_int (v : val) : res Z :=
  match v with VA (AInt z) => OK z | _ => Err EUnmodelled end.
Definition as_ints (v : val) : res (list Z) :=
  match v with
  | VL l => mapM (fun a => as_int (VA a)) l
  | VA (AInt z) => OK [z]
  | _ => Err EUnmodelled
  end.

Definition qubits_of (e : env) (s : qsrc) : res (list Z) :=
  match s with
  | QOne f => match lookup f e with Some (BOne v) => z <- as_int v; OK [z] | _ => Err EUnmodelled end
  | QStar f => match lookup f e with Some (BStar vs) => mapM as_int vs | _ => Err EUnmodelled end
  | QList f => match lookup f e with Some (BOne v) => as_ints v | _ => Err EUnmodelled end
  end.
Definition qubits_all (e : env) (l : list qsrc) : res (list Z) :=
  x <- mapM (qubits_of e) l; OK (concat x).

Definition args_of (e : env) (s : asrc) : res (list val) :=
  match s with
  | AOne f => match lookup f e with Some (BOne v) => OK [v] | _ => Err EUnmodelled end
  | AStar f => match lookup f e with Some (BStar vs) => OK vs | _ => Err EUnmodelled end
  | AOpaque s => OK [VA (ASym s)]
  end.
Definition one_of (e : env) (f : string) : res val :=
  match lookup f e with Some (BOne v) => OK v | _ => Err EUnmodelled end.

(* Gate._set_target_qubits / _set_control_qubits / _check_control_target_overlap *)
Definition check_qubits (ts cs : list Z) : bool := nodupZ ts && nodupZ cs && negb (overlapZ ts cs).

Definition mk (r : row) (e : env) : res gate :=
  ts <- qubits_all e (rtargets r);
  cs <- qubits_all e (rcontrols r);
  a <- mapM (args_of e) (rargs r);
  k <- mapM (fun kf => v <- match snd kf with KF f => one_of e f | KC v => OK v end; OK (fst kf, v)) (rkw r);
  p <- mapM (one_of e) (rparams r);
  if check_qubits ts cs
  then OK (mkGate (rname r) (concat a) k ts cs p false None false [] None)
  else Err EValueError.

(* M( *q, register_name=None, collapse=False, basis=Z, p0=None, p1=None).  The basis is encoded by
   class names (AStr "X" stands for gates.X as well as for the string "X").  `bases` is the generated
   list of names for which Gate.basis_rotation is implemented; others raise NotImplementedError. *)
Definition str_of_atom (a : atom) : res string :=
  match a with AStr s => OK s | _ => Err EUnmodelled end.

(* M._get_bitflip_tuple: None, one probability, or a list with one entry per qubit (ValueError
   otherwise); dictionaries and the range check of the probabilities are not modelled *)
Definition bitflip_ok (nq : nat) (p : val) : res unit :=
  match p with
  | VA ANone | VA (AFlt _) => OK tt
  | VL l => if Nat.eqb (length l) nq then OK tt else Err EValueError
  | _ => Err EUnmodelled
  end.

Definition mk_M (bases : list string) (e : env) : res gate :=
  match lookup "q" e, lookup "register_name" e, lookup "collapse" e,
        lookup "basis" e, lookup "p0" e, lookup "p1" e with
  | Some (BStar qs), Some (BOne rn), Some (BOne (VA (ABool col))), Some (BOne bs), Some (BOne p0), Some (BOne p1) =>
      ts <- mapM as_int qs;
      if negb (nodupZ ts) then Err EValueError else
      reg <- match rn with
             | VA ANone => OK None
             | VA (AStr s) => OK (Some s)
             | _ => Err EUnmodelled
             end;
      names <- match bs with
               | VA a => s <- str_of_atom a; OK (repeat s (length ts))
               | VL l => if Nat.eqb (length l) (length ts) then mapM str_of_atom l else Err EValueError
               end;
      if negb (forallb (fun s => mem_str s bases) names) then Err ENotImplemented else
      if col && negb (val_eqb p0 (VA ANone) && val_eqb p1 (VA ANone)) then Err ENotImplemented else
      _ <- bitflip_ok (length ts) p0; _ <- bitflip_ok (length ts) p1;
      OK (mkGate "M" qs
            [("register_name", rn); ("collapse", VA (ABool col)); ("basis", VL (map AStr names));
             ("p0", p0); ("p1", p1)]
            ts [] [] false reg col names None)
  | _, _, _, _, _, _ => Err EUnmodelled
  end.

Section Tables.
  Variable rows : list row.                 (* generated: one row per class reachable as getattr(qibo.gates, name) *)
  Variable bases : list string.             (* generated: classes with a basis_rotation *)
  Variable required_kw : list string.       (* generated: REQUIRED_FIELDS_INIT_KWARGS *)
  Variable specials : list (string * string). (* generated: the literal cases of _qibo_gate_name *)
  (* generated: basis name -> the gate that M adds in front of itself (None: no rotation, e.g. Z) *)
  Variable rotation : string -> Z -> option gate.

  Fixpoint find_row (n : string) (l : list row) : option row :=
    match l with
    | [] => None
    | r :: l' => if String.eqb n (rname r) then Some r else find_row n l'
    end.

  (* cls( *pos, **kw) *)
  Definition construct (r : row) (pos : list val) (kw : list (string * val)) : res gate :=
    e <- bind (rformals r) pos kw;
    if String.eqb (rname r) "M" then mk_M bases e
    else if rmodelled r then mk r e else Err EUnmodelled.

  (* ---------------------------------------------------------------- Gate.raw / Gate.from_dict *)
  Record graw := mkRaw {
    w_cls : string; w_args : list val; w_kw : list (string * val);
    w_targets : list Z; w_controls : list Z; w_samples : option (list (list Z)) }.

  Definition raw (g : gate) : graw :=
    mkRaw (gcls g) (gargs g) (filter (fun kv => mem_str (fst kv) required_kw) (gkw g))
          (gtargets g) (gcontrols g) (gsamples g).

  (* Gate.raw on the repaired tree (commit "Gate.raw dropped trainable"): besides the required keywords,
     `trainable` is exported iff the class takes a `trainable` argument, the gate's init_kwargs has it and its
     value differs from the default of the class (`formal.default`; a formal without default compares unequal to
     everything).  The key is assigned after the filter, so it comes last -- unless it is a required keyword
     already.  `raw` above is the pre-repair rule; raw_t = raw whenever the flag has its default (raw_t_default). *)
  Fixpoint find_formal (n : string) (l : list formal) : option formal :=
    match l with
    | [] => None
    | f :: l' => if String.eqb n (fname f) then Some f else find_formal n l'
    end.
  Definition trainable_extra (g : gate) : list (string * val) :=
    if mem_str "trainable" required_kw then [] else
    match find_row (gcls g) rows with
    | Some r =>
        match find_formal "trainable" (rformals r), lookup "trainable" (gkw g) with
        | Some f, Some v =>
            match fdef f with
            | Some d => if val_eqb v d then [] else [("trainable", v)]
            | None => [("trainable", v)]
            end
        | _, _ => []
        end
    | None => []
    end.
  Definition raw_t (g : gate) : graw :=
    mkRaw (gcls g) (gargs g) (filter (fun kv => mem_str (fst kv) required_kw) (gkw g) ++ trainable_extra g)
          (gtargets g) (gcontrols g) (gsamples g).

  (* gate.controlled_by( *cs) as used by from_dict, including its `except RuntimeError` clause *)
  Definition controlled_by_dance (r : row) (g : gate) (cs : list Z) : res gate :=
    match rcb r with
    | CBChannel => Err EValueError                 (* "Noise channel cannot be controlled" propagates *)
    | CBGate =>
        match gcontrols g with
        | _ :: _ => OK g                           (* check_controls: RuntimeError '...controlled...' is caught *)
        | [] => match cs with
                | [] => OK g
                | _ => if memZ (Z.of_nat (length cs)) (rdispatch r) then Err EUnmodelled
                       else if nodupZ cs && negb (overlapZ (gtargets g) cs)
                            then OK (mkGate (gcls g) (gargs g) (gkw g) (gtargets g) cs (gparams g) true
                                            (greg g) (gcollapse g) (gbasis g) (gsamples g))
                            else Err EValueError
                end
        end
    end.

  Definition with_samples (g : gate) (s : option (list (list Z))) : gate :=
    match s with
    | None => g
    | Some _ => mkGate (gcls g) (gargs g) (gkw g) (gtargets g) (gcontrols g) (gparams g) (gcb g)
                       (greg g) (gcollapse g) (gbasis g) s
    end.

  Definition from_dict (d : graw) : res gate :=
    match find_row (w_cls d) rows with
    | None => Err EValueError                       (* "Unknown gate" *)
    | Some r =>
        g <- construct r (w_args d) (w_kw d);
        if String.eqb (w_cls d) "M" then OK (with_samples g (w_samples d))
        else controlled_by_dance r g (w_controls d)
    end.

  (* ---------------------------------------------------------------- Circuit.add *)
  Record circuit := mkC {
    cn : Z;
    cdm : bool;                (* density_matrix *)
    cqueue : list gate;
    cmeas : list nat           (* positions in cqueue of the gates of circuit.measurements, in order *)
  }.
  Definition cinit (n : Z) (dm : bool) : circuit := mkC n dm [] [].

  Definition set_collapse (g : gate) : gate :=
    mkGate (gcls g) (gargs g) (gkw g) (gtargets g) (gcontrols g) (gparams g) (gcb g)
           (greg g) true (gbasis g) (gsamples g).
  Definition set_reg (g : gate) (s : string) : gate :=
    mkGate (gcls g) (gargs g) (gkw g) (gtargets g) (gcontrols g) (gparams g) (gcb g)
           (Some s) (gcollapse g) (gbasis g) (gsamples g).

  Definition nth_gate (q : list gate) (i : nat) : option gate := nth_error q i.

  (* a non-measurement gate: appended; every pending measurement it touches becomes a collapse *)
  Definition add_plain (c : circuit) (g : gate) : res circuit :=
    if existsb (fun q => cn c <=? q) (gtargets g) then Err EValueError else
    let touched (i : nat) := match nth_gate (cqueue c) i with
                             | Some m => overlapZ (gqubits m) (gqubits g)
                             | None => false end in
    let q1 := fold_left (fun q i => if touched i
                                    then match nth_gate q i with Some m => set_nth i (set_collapse m) q | None => q end
                                    else q) (cmeas c) (cqueue c) in
    OK (mkC (cn c) (cdm c) (q1 ++ [g]) (filter (fun i => negb (touched i)) (cmeas c))).

  Definition count_M (q : list gate) : nat := length (filter is_M q).
  Definition reg_names (c : circuit) : list string :=
    flat_map (fun i => match nth_gate (cqueue c) i with
                       | Some m => match greg m with Some s => [s] | None => [] end
                       | None => [] end) (cmeas c).

  Definition basis_gates (g : gate) : list gate :=
    flat_map (fun qb => match rotation (snd qb) (fst qb) with Some r => [r] | None => [] end)
             (combine (gtargets g) (gbasis g)).

  Definition add (c : circuit) (g : gate) : res circuit :=
    if negb (is_M g) then add_plain c g else
    if existsb (fun q => cn c <=? q) (gtargets g) then Err EValueError else
    c1 <- foldM add_plain (basis_gates g) c;      (* freshly built rotations are never `in self.queue` *)
    let pos := length (cqueue c1) in
    g1 <- match greg g with
          | None => OK (set_reg g ("register" ++ string_of_nat (count_M (cqueue c1))))
          | Some s => if mem_str s (reg_names c1) then Err EKeyError else OK g
          end;
    OK (mkC (cn c1) (cdm c1) (cqueue c1 ++ [g1])
            (if gcollapse g then cmeas c1 else cmeas c1 ++ [pos])).

  Definition build (n : Z) (dm : bool) (gs : list gate) : res circuit := foldM add gs (cinit n dm).

  (* measurement_tuples: {m.register_name: m.target_qubits for m in measurements} (a dict) *)
  Definition measurement_tuples (c : circuit) : list (string * list Z) :=
    fold_left (fun d i => match nth_gate (cqueue c) i with
                          | Some m => match greg m with Some s => dict_set s (gtargets m) d | None => d end
                          | None => d end) (cmeas c) [].

  (* ---------------------------------------------------------------- Circuit.raw / from_dict *)
  Definition craw (c : circuit) : Z * bool * list graw := (cn c, cdm c, map raw (cqueue c)).
  Definition craw_t (c : circuit) : Z * bool * list graw := (cn c, cdm c, map raw_t (cqueue c)).
  Definition cfrom_dict (d : Z * bool * list graw) : res circuit :=
    let '(n, dm, q) := d in
    foldM (fun c w => g <- from_dict w; add c g) q (cinit n dm).

  (* ---------------------------------------------------------------- Circuit.to_qasm *)
  Inductive stmt :=
  | SQreg (name : string) (size : Z)
  | SCreg (name : string) (size : Z)
  | SGate (label : string) (params : list atom) (qubits : list (string * Z))
  | SMeasure (q : string * Z) (reg : string) (idx : Z).

  Definition is_lower_ascii (c : ascii) : bool := let n := nat_of_ascii c in Nat.leb 97 n && Nat.leb n 122.
  Definition is_upper_ascii (c : ascii) : bool := let n := nat_of_ascii c in Nat.leb 65 n && Nat.leb n 90.
  Definition is_ascii (c : ascii) : bool := Nat.ltb (nat_of_ascii c) 128.
  (* str.islower() on ASCII strings; non-ASCII strings are outside the model *)
  Definition py_islower (s : string) : res bool :=
    let l := list_ascii_of_string s in
    if forallb is_ascii l then OK (existsb is_lower_ascii l && negb (existsb is_upper_ascii l))
    else Err EUnmodelled.
  Definition upper_ascii (c : ascii) : ascii :=
    if is_lower_ascii c then ascii_of_nat (nat_of_ascii c - 32) else c.
  Definition py_upper (s : string) : string := string_of_list_ascii (map upper_ascii (list_ascii_of_string s)).

  Definition write_gate (g : gate) : res stmt :=
    if gcb g then Err EValueError else
    match find_row (gcls g) rows with
    | None => Err EUnmodelled
    | Some r =>
        match rlabel r with
        | None => Err ENotImplemented
        | Some l =>
            ps <- (if rparametrized r then mapM float_of_val (gparams g) else OK []);
            OK (SGate l ps (map (fun q => ("q", q)) (gqubits g)))
        end
    end.

  Definition write (c : circuit) : res (list stmt) :=
    let mt := measurement_tuples c in
    cregs <- mapM (fun rq => b <- py_islower (fst rq);
                             if b then OK (SCreg (fst rq) (Z.of_nat (length (snd rq)))) else Err ENameError) mt;
    gs <- mapM write_gate (filter (fun g => negb (is_M g)) (cqueue c));
    let ms := flat_map (fun rq => map (fun iq => SMeasure ("q", snd iq) (fst rq) (Z.of_nat (fst iq)))
                                      (combine (seq 0 (length (snd rq))) (snd rq))) mt in
    OK (SQreg "q" (cn c) :: cregs ++ gs ++ ms).

  (* ---------------------------------------------------------------- QASMParser.to_circuit *)
  Definition qibo_gate_name (l : string) : string :=
    match lookup l specials with Some n => n | None => py_upper l end.

  Record rstate := mkRS {
    s_n : Z;
    s_q : list (string * list Z);       (* q_registers *)
    s_c : list (string * list Z);       (* c_registers *)
    s_gates : list gate }.

  Definition nthZ (l : list Z) (i : Z) : option Z := if i <? 0 then None else nth_error l (Z.to_nat i).
  Definition get_qubit (s : rstate) (q : string * Z) : res Z :=
    match lookup (fst q) (s_q s) with
    | None => Err EKeyError
    | Some l => if snd q <? 0 then Err EUnmodelled
                else match nthZ l (snd q) with Some x => OK x | None => Err EIndexError end
    end.

  Definition m_of (qs : list Z) (reg : string) : res gate :=
    match find_row "M" rows with
    | None => Err EUnmodelled
    | Some r => construct r (map (fun q => VA (AInt q)) qs) [("register_name", VA (AStr reg))]
    end.

  Definition read_gate (s : rstate) (label : string) (ps : list atom) (qs : list (string * Z)) : res gate :=
    qubits <- mapM (get_qubit s) qs;
    match find_row (qibo_gate_name label) rows with
    | Some r =>
        match construct r (map (fun q => VA (AInt q)) qubits ++ map VA ps) [] with
        | Err ETypeError => Err EValueError           (* "Invalid gate declaration" *)
        | x => x
        end
    | None => Err EValueError                         (* custom definitions are not modelled: "Undefined gate" *)
    end.

  Definition read_stmt (s : rstate) (st : stmt) : res rstate :=
    match st with
    | SQreg name size =>
        if size <? 0 then Err EUnmodelled else
        OK (mkRS (s_n s + size) (dict_set name (map (fun i => s_n s + Z.of_nat i) (seq 0 (Z.to_nat size))) (s_q s))
                 (s_c s) (s_gates s))
    | SCreg name size =>
        if size <? 0 then Err EUnmodelled else
        OK (mkRS (s_n s) (s_q s) (dict_set name (map Z.of_nat (seq 0 (Z.to_nat size))) (s_c s)) (s_gates s))
    | SGate l ps qs =>
        g <- read_gate s l ps qs; OK (mkRS (s_n s) (s_q s) (s_c s) (s_gates s ++ [g]))
    | SMeasure q reg idx =>
        qubit <- get_qubit s q;
        match lookup reg (s_c s) with
        | None => Err EValueError
        | Some l =>
            if idx <? 0 then Err EUnmodelled else
            if Z.of_nat (length l) <=? idx then Err EIndexError else
            g <- m_of [qubit] reg;
            OK (mkRS (s_n s) (s_q s) (dict_set reg (set_nth (Z.to_nat idx) qubit l) (s_c s)) (s_gates s ++ [g]))
        end
    end.

  (* _merge_measurements: the first measurement of a register is replaced by one M over the whole
     register, the others are dropped *)
  Fixpoint merge (cregs : list (string * list Z)) (gs : list gate) : res (list gate) :=
    match gs with
    | [] => OK []
    | g :: gs' =>
        if is_M g then
          match greg g with
          | Some rn =>
              match lookup rn cregs with
              | Some qs => m <- m_of qs rn; rest <- merge (dict_del rn cregs) gs'; OK (m :: rest)
              | None => merge cregs gs'
              end
          | None => merge cregs gs'
          end
        else rest <- merge cregs gs'; OK (g :: rest)
    end.

  Definition read (p : list stmt) : res circuit :=
    s <- foldM read_stmt p (mkRS 0 [] [] []);
    gs <- merge (s_c s) (s_gates s);
    build (s_n s) false gs.
End Tables.

Arguments mkC cn cdm cqueue cmeas : assert.

(* ------------------------------------------------------------------ comparison of circuits *)
Definition circuit_eqb (a b : circuit) : bool :=
  (cn a =? cn b) && Bool.eqb (cdm a) (cdm b) && list_eqb gate_eqb (cqueue a) (cqueue b)
  && list_eqb Nat.eqb (cmeas a) (cmeas b).

Definition graw_eqb (a b : graw) : bool :=
  String.eqb (w_cls a) (w_cls b) && list_eqb val_eqb (w_args a) (w_args b)
  && list_eqb kv_eqb (w_kw a) (w_kw b) && list_eqb Z.eqb (w_targets a) (w_targets b)
  && list_eqb Z.eqb (w_controls a) (w_controls b)
  && option_eqb (list_eqb (list_eqb Z.eqb)) (w_samples a) (w_samples b).

Definition qref_eqb (a b : string * Z) : bool := String.eqb (fst a) (fst b) && (snd a =? snd b).
Definition stmt_eqb (a b : stmt) : bool :=
  match a, b with
  | SQreg n s, SQreg n' s' => String.eqb n n' && (s =? s')
  | SCreg n s, SCreg n' s' => String.eqb n n' && (s =? s')
  | SGate l p q, SGate l' p' q' => String.eqb l l' && list_eqb atom_eqb p p' && list_eqb qref_eqb q q'
  | SMeasure q r i, SMeasure q' r' i' => qref_eqb q q' && String.eqb r r' && (i =? i')
  | _, _ => false
  end.

(* what an observer of the operator sees of a gate: class, targets, sorted controls, parameters
   (as floats when the gate is exported through text), controlled flag *)
Definition gate_view (g : gate) := (gcls g, gtargets g, sortZ (gcontrols g), gparams g, gcb g).
Definition gate_view_eqb (a b : gate) : bool :=
  String.eqb (gcls a) (gcls b) && list_eqb Z.eqb (gtargets a) (gtargets b)
  && list_eqb Z.eqb (sortZ (gcontrols a)) (sortZ (gcontrols b))
  && list_eqb val_eqb (gparams a) (gparams b) && Bool.eqb (gcb a) (gcb b).

(* ------------------------------------------------------------------ results (field maps of result.py) *)
Section Results.
  Variables (St Pr Sa Fr : Type).     (* state array, probabilities, samples, frequencies: opaque data *)
  Variable draw : Pr -> Z -> Sa.      (* backend.sample_shots + samples_to_binary : the sampling oracle *)
  Variable probs_of : St -> list Z -> Pr.   (* QuantumState.probabilities(qubits) *)

  Record mo := mkMO {                 (* MeasurementOutcomes *)
    mo_meas : list gate; mo_probs : option Pr; mo_samples : option Sa; mo_nshots : Z;
    mo_freq : option Fr }.            (* _frequencies: computed lazily, NOT part of to_dict *)
  Record mo_dict := mkMOD { d_meas : list gate; d_probs : option Pr; d_samples : option Sa; d_nshots : Z }.

  Definition mo_to_dict (r : mo) : mo_dict := mkMOD (mo_meas r) (mo_probs r) (mo_samples r) (mo_nshots r).
  Definition mo_from_dict (d : mo_dict) : mo :=
    let p := match d_probs d, d_samples d with Some _, Some _ => None | p, _ => p end in
    mkMO (d_meas d) p (d_samples d) (d_nshots d) None.

  Record cr := mkCR { cr_state : St; cr_mo : mo }.      (* CircuitResult *)
  Definition cr_to_dict (r : cr) : St * mo_dict := (cr_state r, mo_to_dict (cr_mo r)).
  (* CircuitResult.from_dict: samples = measurements.samples() draws when none were stored;
     probabilities are recomputed from the state iff no samples are passed (never here) *)
  Definition cr_from_dict (d : St * mo_dict) : option cr :=
    let m := mo_from_dict (snd d) in
    match mo_samples m, mo_probs m with
    | Some s, _ => Some (mkCR (fst d) (mkMO (mo_meas m) None (Some s) (mo_nshots m) None))
    | None, Some p => Some (mkCR (fst d) (mkMO (mo_meas m) None (Some (draw p (mo_nshots m))) (mo_nshots m) None))
    | None, None => None      (* sample_shots(None, ...) fails *)
    end.
End Results.
