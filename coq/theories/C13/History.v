(* C13/History.v : history models behind the streams hist_result / hist_circuit of harness/c13_hist.py.

   Part R (results).  One circuit object is executed several times; its measurement gates -- and the
   shots registered on them by whichever result was sampled last -- are SHARED by all its results.
   MeasurementOutcomes.to_dict serialises the gates with M.to_json, so a dump of result i carries
   (own state, own probabilities, own samples, nshots) AND the shots cached on the shared gates.
   The loader (result.py: MeasurementOutcomes.from_dict / samples / has_samples, CircuitResult.from_dict)
   is modelled field by field, including the fall-back "no probabilities -> adopt the shots found on the
   gates".  Theorem: what is loaded is a function of the dumped result's OWN fields -- independent of the
   history of the circuit object (other executions, which of them were sampled, parameter updates).
   The correspondence run (hist_result) compares, for generated histories, the real load against the real
   load of a single from-scratch execution.

   Part C (circuits).  Gate objects live in a heap; a circuit is a queue of object ids (the same id may
   occur twice; a copied / fused circuit holds the same ids).  Export reads the current heap; import
   allocates one new object per entry.  Functional values cannot be mutated, so the non-mutation and
   object-independence checks of the harness have no counterpart here (coverage extension only). *)
From Coq Require Import List ZArith Bool Lia.
Import ListNotations.

Section ResultHistory.
  Variables (St Pr Sa : Type).
  Variable draw : Pr -> Z -> Sa.          (* backend.sample_shots + samples_to_binary *)
  Variable probs_of : St -> Pr.           (* QuantumState.probabilities(measured qubits) *)

  Record res := mkRes { r_state : St; r_probs : option Pr; r_samples : option Sa; r_nshots : Z }.
  (* the circuit object: results in execution order, shots registered on the shared measurement gates *)
  Record hst := mkH { results : list res; gcache : option Sa }.
  Definition init : hst := mkH [] None.

  Inductive op :=
  | Exec (st : St) (n : Z)     (* circuit(nshots=n) with the parameters currently set: final state st *)
  | Sample (i : nat)           (* results[i].samples() / frequencies() after samples / apply_bitflips *)
  | SetP.                      (* circuit.set_parameters / gate.parameters = ... : existing results untouched *)

  Fixpoint upd {A} (l : list A) (i : nat) (x : A) : list A :=
    match l, i with
    | [], _ => []
    | _ :: t, O => x :: t
    | a :: t, S k => a :: upd t k x
    end.

  Definition sample_res (r : res) (gc : option Sa) : res * option Sa :=
    match r_samples r with
    | Some _ => (r, gc)
    | None =>
      match r_probs r with
      | Some p => let s := draw p (r_nshots r) in (mkRes (r_state r) (r_probs r) (Some s) (r_nshots r), Some s)
      | None => match gc with
                | Some g => (mkRes (r_state r) None (Some g) (r_nshots r), gc)    (* hardware-style fall-back *)
                | None => (r, gc)
                end
      end
    end.

  Definition step (h : hst) (o : op) : hst :=
    match o with
    | Exec st n => mkH (results h ++ [mkRes st (Some (probs_of st)) None n]) (gcache h)
    | Sample i => match nth_error (results h) i with
                  | Some r => let '(r', gc') := sample_res r (gcache h) in mkH (upd (results h) i r') gc'
                  | None => h
                  end
    | SetP => h
    end.
  Definition run (ops : list op) (h : hst) : hst := fold_left step ops h.

  (* CircuitResult.to_dict *)
  Record rdict := mkD { d_state : St; d_probs : option Pr; d_samples : option Sa; d_nshots : Z;
                        d_gshots : option Sa (* measurement_result.samples inside the M.to_json strings *) }.
  Definition dump (h : hst) (i : nat) : option rdict :=
    match nth_error (results h) i with
    | Some r => Some (mkD (r_state r) (r_probs r) (r_samples r) (r_nshots r) (gcache h))
    | None => None
    end.
  Definition own (d : rdict) := (d_state d, d_probs d, d_samples d, d_nshots d).

  (* MeasurementOutcomes.from_dict, then .samples() as called by CircuitResult.from_dict *)
  Definition mo_samples_call (p : option Pr) (s : option Sa) (n : Z) (gc : option Sa) : option Sa :=
    match s with
    | Some s => Some s
    | None => match p with
              | Some p => Some (draw p n)
              | None => gc                   (* adopt the shots found on the gates; sample_shots(None) fails *)
              end
    end.
  Definition cr_load_with (keep_probs : bool) (d : rdict) : option (res * option Sa) :=
    let p := if keep_probs then match d_probs d, d_samples d with Some _, Some _ => None | p, _ => p end else None in
    let gc := match d_samples d with Some s => Some s | None => d_gshots d end in   (* M.load, then __init__ *)
    match mo_samples_call p (d_samples d) (d_nshots d) gc with
    | Some s => Some (mkRes (d_state d) None (Some s) (d_nshots d), Some s)
    | None => None
    end.
  Definition cr_load := cr_load_with true.            (* the loader of result.py *)
  Definition cr_load_drop_probs := cr_load_with false. (* a loader that discards the stored probabilities *)

  Definition wf_res (r : res) : Prop := r_probs r <> None \/ r_samples r <> None.
  Definition wf (h : hst) : Prop := Forall wf_res (results h).

  Lemma upd_Forall : forall (P : res -> Prop) l i x, Forall P l -> P x -> Forall P (upd l i x).
  Proof.
    induction l as [|a t IH]; intros i x Hl Hx; simpl.
    - destruct i; constructor.
    - inversion Hl; subst. destruct i; constructor; auto.
  Qed.

  Lemma sample_res_wf : forall r gc, wf_res r -> wf_res (fst (sample_res r gc)).
  Proof.
    intros r gc H. unfold sample_res.
    destruct (r_samples r) eqn:Es; [exact H|].
    destruct (r_probs r) eqn:Ep.
    - right; simpl; discriminate.
    - destruct gc; [right; simpl; discriminate | exact H].
  Qed.

  Lemma step_wf : forall h o, wf h -> wf (step h o).
  Proof.
    intros h o H. destruct o as [st n|i|]; simpl; [| |exact H].
    - unfold wf in *. simpl. apply Forall_app. split; [exact H|]. constructor; [|constructor].
      left. simpl. discriminate.
    - destruct (nth_error (results h) i) eqn:E; [|exact H].
      destruct (sample_res r (gcache h)) as [r' gc'] eqn:Es. unfold wf in *. simpl.
      apply upd_Forall; [exact H|].
      assert (Hr : wf_res r) by (eapply Forall_forall; [exact H | eapply nth_error_In; exact E]).
      pose proof (sample_res_wf r (gcache h) Hr) as W. rewrite Es in W. exact W.
  Qed.

  Lemma run_wf : forall ops h, wf h -> wf (run ops h).
  Proof. induction ops as [|o t IH]; intros h H; simpl; [exact H | apply IH, step_wf, H]. Qed.

  Lemma init_wf : wf init.
  Proof. constructor. Qed.

  Lemma dump_wf : forall h i d, wf h -> dump h i = Some d -> d_probs d <> None \/ d_samples d <> None.
  Proof.
    intros h i d H E. unfold dump in E. destruct (nth_error (results h) i) eqn:En; [|discriminate].
    injection E as <-. simpl. eapply Forall_forall in H; [exact H | eapply nth_error_In; exact En].
  Qed.

  Lemma cr_load_own : forall d1 d2, own d1 = own d2 ->
    (d_probs d1 <> None \/ d_samples d1 <> None) -> cr_load d1 = cr_load d2.
  Proof.
    intros [s1 p1 sa1 n1 g1] [s2 p2 sa2 n2 g2] E H. unfold own in E. simpl in E. injection E as -> -> -> ->.
    unfold cr_load, cr_load_with, mo_samples_call. simpl in *.
    destruct sa2 as [s|]; [reflexivity|]. destruct p2 as [p|]; [reflexivity|].
    destruct H as [H|H]; exfalso; apply H; reflexivity.
  Qed.

  (* MAIN: the loaded object is a function of the dumped result's own fields, whatever the two histories
     of the circuit object were (other executions, sampling of other results, parameter updates) *)
  Theorem dump_load_function_of_result : forall ops1 ops2 i j d1 d2,
    dump (run ops1 init) i = Some d1 -> dump (run ops2 init) j = Some d2 -> own d1 = own d2 ->
    cr_load d1 = cr_load d2.
  Proof.
    intros ops1 ops2 i j d1 d2 E1 E2 Eo. apply cr_load_own; [exact Eo|].
    eapply dump_wf; [apply run_wf, init_wf | exact E1].
  Qed.

  (* history vs fresh: result i of any history against the single from-scratch execution in the same state *)
  Corollary dump_load_history_vs_fresh : forall ops i d st n,
    dump (run ops init) i = Some d -> d_state d = st -> d_probs d = Some (probs_of st) -> d_samples d = None -> d_nshots d = n ->
    exists dfresh, dump (run [Exec st n] init) 0 = Some dfresh /\ cr_load d = cr_load dfresh.
  Proof.
    intros ops i d st n E Hs Hp Hsa Hn. eexists. split; [reflexivity|].
    eapply (dump_load_function_of_result ops [Exec st n] i 0%nat); [exact E | reflexivity |].
    unfold own. simpl. rewrite Hs, Hp, Hsa, Hn. reflexivity.
  Qed.

  (* a loaded result always owns samples, and they are the stored ones when there were any *)
  Theorem cr_load_keeps_stored_samples : forall d s, d_samples d = Some s ->
    cr_load d = Some (mkRes (d_state d) None (Some s) (d_nshots d), Some s).
  Proof. intros d s E. unfold cr_load, cr_load_with, mo_samples_call. rewrite E. reflexivity. Qed.
End ResultHistory.

(* the statement is not vacuous and it discriminates: a loader that discards the stored probabilities
   (so that the gate-shot fall-back is taken) depends on the history *)
Definition drawZ (p n : Z) : Z := (p + n)%Z.
Definition idZ (s : Z) : Z := s.
Definition runZ (ops : list (op Z)) := run Z Z Z drawZ idZ ops (init Z Z Z).
Definition hist_a : list (op Z) := [Exec Z 0%Z 5%Z; Sample Z 0; SetP Z; Exec Z 1%Z 5%Z].
Definition hist_b : list (op Z) := [Exec Z 1%Z 5%Z].

Example history_dump_nonvacuous :
  exists d, dump Z Z Z (runZ hist_a) 1 = Some d
            /\ own Z Z Z d = (1, Some 1, None, 5)%Z /\ d_gshots Z Z Z d = Some 5%Z.
Proof. eexists. split; [reflexivity | split; reflexivity]. Qed.

Example history_load_agrees :
  exists d1 d2, dump Z Z Z (runZ hist_a) 1 = Some d1 /\ dump Z Z Z (runZ hist_b) 0 = Some d2 /\
    cr_load Z Z Z drawZ d1 = cr_load Z Z Z drawZ d2 /\ cr_load Z Z Z drawZ d1 <> None.
Proof. eexists. eexists. split; [reflexivity|]. split; [reflexivity|]. split; [reflexivity|]. vm_compute. discriminate. Qed.

Theorem drop_probs_loader_depends_on_history :
  exists ops1 ops2 i j d1 d2,
    dump Z Z Z (runZ ops1) i = Some d1 /\ dump Z Z Z (runZ ops2) j = Some d2 /\
    own Z Z Z d1 = own Z Z Z d2 /\
    cr_load_drop_probs Z Z Z drawZ d1 <> cr_load_drop_probs Z Z Z drawZ d2.
Proof.
  exists hist_a, hist_b, 1%nat, 0%nat.
  eexists. eexists. split; [reflexivity|]. split; [reflexivity|]. split; [reflexivity|].
  vm_compute. discriminate.
Qed.

(* ------------------------------------------------------------------------------------------------ *)
Section CircuitHeap.
  (* gate object: class code, positional arguments, keyword arguments (name code, value), trainable *)
  Record gst := mkG { g_cls : nat; g_args : list Z; g_kw : list (nat * Z); g_trainable : bool }.
  Variable required : nat -> bool.              (* REQUIRED_FIELDS_INIT_KWARGS *)
  Variable tdefault : nat -> bool.              (* default of the class's `trainable` argument (False for Align) *)
  (* exported entry: class, args, required kwargs, and `trainable` iff it differs from the class default
     (Gate.raw after the repair "Gate.raw dropped trainable") *)
  Definition rawd := (nat * list Z * list (nat * Z) * option bool)%type.
  Definition graw (g : gst) : rawd :=
    (g_cls g, g_args g, filter (fun kv => required (fst kv)) (g_kw g),
     if Bool.eqb (g_trainable g) (tdefault (g_cls g)) then None else Some (g_trainable g)).
  Definition heap := list gst.
  Definition circuit := list nat.               (* queue of object ids; aliases hold the same ids *)

  Definition export (h : heap) (c : circuit) : list (option rawd) :=
    map (fun id => option_map graw (nth_error h id)) c.

  (* set_parameters through ANY circuit holding the ids (the circuit itself, a shallow copy, a fused circuit):
     values are consumed over the trainable objects in queue order and written to the heap *)
  Definition set_kw (g : gst) (v : Z) : gst :=
    mkG (g_cls g) (g_args g) (map (fun kv => (fst kv, v)) (g_kw g)) (g_trainable g).
  Fixpoint set_params (h : heap) (a : circuit) (vals : list Z) : heap :=
    match a, vals with
    | id :: t, v :: vs =>
      match nth_error h id with
      | Some g => if g_trainable g then set_params (upd h id (set_kw g v)) t vs else set_params h t (v :: vs)
      | None => set_params h t (v :: vs)
      end
    | _, _ => h
    end.

  (* export is a function of the current state of the objects in the queue only *)
  Theorem export_current_state_only : forall h1 h2 c,
    (forall id, In id c -> nth_error h1 id = nth_error h2 id) -> export h1 c = export h2 c.
  Proof.
    intros h1 h2 c H. unfold export. apply map_ext_in. intros id Hin. rewrite (H id Hin). reflexivity.
  Qed.

  (* an update made through an alias is what the next export of the circuit shows: export after the history
     = export of whatever heap agrees with the current one on the queue (in particular a from-scratch build) *)
  Corollary export_after_alias_update : forall h a vals c hfresh,
    (forall id, In id c -> nth_error hfresh id = nth_error (set_params h a vals) id) ->
    export (set_params h a vals) c = export hfresh c.
  Proof. intros. apply export_current_state_only. intros id Hin. symmetry. auto. Qed.

  Definition gimport (r : rawd) : gst :=
    let '(c, a, k, t) := r in mkG c a k (match t with Some b => b | None => tdefault c end).
  Definition import (d : list rawd) : heap * circuit := (map gimport d, seq 0 (length d)).

  Lemma filter_idem : forall (k : list (nat * Z)),
    filter (fun kv => required (fst kv)) (filter (fun kv => required (fst kv)) k) = filter (fun kv => required (fst kv)) k.
  Proof.
    induction k as [|a t IH]; simpl; [reflexivity|].
    destruct (required (fst a)) eqn:E; simpl; [rewrite E, IH|]; auto.
  Qed.

  Lemma graw_gimport_graw : forall g, graw (gimport (graw g)) = graw g.
  Proof.
    intros g. unfold graw, gimport. simpl. rewrite filter_idem.
    destruct (Bool.eqb (g_trainable g) (tdefault (g_cls g))) eqn:E; simpl.
    - rewrite Bool.eqb_reflx. reflexivity.
    - rewrite E. reflexivity.
  Qed.

  (* the import has the trainable flag of the exported object *)
  Theorem trainable_roundtrip : forall g, g_trainable (gimport (graw g)) = g_trainable g.
  Proof.
    intros g. unfold graw, gimport. simpl.
    destruct (Bool.eqb (g_trainable g) (tdefault (g_cls g))) eqn:E; simpl; [|reflexivity].
    apply Bool.eqb_prop in E. symmetry. exact E.
  Qed.

  (* the exporter before the repair (trainable never exported, import takes the constructor default True) *)
  Definition graw_old (g : gst) := (g_cls g, g_args g, filter (fun kv => required (fst kv)) (g_kw g)).
  Definition gimport_old (r : nat * list Z * list (nat * Z)) : gst := let '(c, a, k) := r in mkG c a k true.

  Lemma export_import_gen : forall (d : list rawd) k pre,
    length pre = k ->
    map (fun id => option_map graw (nth_error (pre ++ map gimport d) id)) (seq k (length d)) = map (fun r => Some (graw (gimport r))) d.
  Proof.
    induction d as [|r t IH]; intros k pre Hk; simpl; [reflexivity|].
    f_equal.
    - rewrite nth_error_app2 by lia. rewrite Hk, Nat.sub_diag. reflexivity.
    - specialize (IH (S k) (pre ++ [gimport r])). rewrite <- app_assoc in IH. simpl in IH. apply IH.
      rewrite app_length. simpl. lia.
  Qed.

  Lemma exported_entries_fixed : forall h d c, export h c = map Some d ->
    map (fun r => Some (graw (gimport r))) d = map Some d.
  Proof.
    intros h. induction d as [|r t IH]; intros c E; simpl; [reflexivity|].
    destruct c as [|id c']; simpl in E; [discriminate|]. injection E as E1 E2.
    f_equal; [|eapply IH; exact E2].
    destruct (nth_error h id) as [g|]; simpl in E1; [|discriminate]. injection E1 as <-.
    rewrite graw_gimport_graw. reflexivity.
  Qed.

  (* re-export of the import of an export is that export: the from-scratch object in the same state exports identically *)
  Theorem reexport_stable : forall h c d, export h c = map Some d ->
    export (fst (import d)) (snd (import d)) = map Some d.
  Proof.
    intros h c d E. unfold import, export. simpl.
    pose proof (export_import_gen d 0 [] eq_refl) as G. simpl in G. rewrite G.
    eapply exported_entries_fixed. exact E.
  Qed.

  (* the same gate object twice in the queue is imported as two distinct objects *)
  Theorem import_objects_distinct : forall d, NoDup (snd (import d)).
  Proof. intros d. simpl. apply seq_NoDup. Qed.

  (* historical (pre-repair exporter): trainable did not survive *)
  Theorem historical_trainable_roundtrip_refuted : exists g, g_trainable (gimport_old (graw_old g)) <> g_trainable g.
  Proof. exists (mkG 0 [] [] false). simpl. discriminate. Qed.
End CircuitHeap.

Example export_alias_nonvacuous :
  let h := [mkG 1 [0%Z] [(7%nat, 10%Z)] true; mkG 2 [1%Z] [] false; mkG 1 [1%Z] [(7%nat, 20%Z)] false] in
  export (fun _ => true) (fun _ => true) (set_params h [0; 1; 2; 0]%nat [5; 6]%Z) [0; 0; 2]%nat
  = [Some (1%nat, [0%Z], [(7%nat, 6%Z)], None); Some (1%nat, [0%Z], [(7%nat, 6%Z)], None); Some (1%nat, [1%Z], [(7%nat, 20%Z)], Some false)].
Proof. vm_compute. reflexivity. Qed.
