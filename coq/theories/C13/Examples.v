(* C13/Examples.v : a small fixed table (five rows copied from a generated Gen.v) on which the
   hypotheses of the theorems of C13/Props.v are shown satisfiable, and on which the statements
   that are false of the faithful model are refuted by concrete witnesses.  The run-time theorems
   use the tables regenerated from /repo; this file is only for non-vacuity / refutation. *)
From Coq Require Import String Ascii List ZArith Bool Lia.
From QV Require Import C13.Model C13.Proofs.
Import ListNotations.
Local Open Scope string_scope.
Local Open Scope Z_scope.

Ltac wit := repeat match goal with |- _ /\ _ => split end; vm_compute; reflexivity.

Definition ex_H : row := mkRow "H" [mkF "q" FPos None] [AOne "q"] [] [QOne "q"] [] [] (Some "h") false [] CBGate true.
Definition ex_RX : row := mkRow "RX" [mkF "q" FPos None; mkF "theta" FPos None; mkF "trainable" FPos (Some (VA (ABool true)))]
  [AOne "q"] [("theta", KF "theta"); ("trainable", KF "trainable")] [QOne "q"] [] ["theta"] (Some "rx") true [1] CBGate true.
Definition ex_CNOT : row := mkRow "CNOT" [mkF "q0" FPos None; mkF "q1" FPos None] [AOne "q0"; AOne "q1"] []
  [QOne "q1"] [QOne "q0"] [] (Some "cx") false [] CBGate true.
Definition ex_iSWAP : row := mkRow "iSWAP" [mkF "q0" FPos None; mkF "q1" FPos None] [AOne "q0"; AOne "q1"] []
  [QOne "q0"; QOne "q1"] [] [] (Some "iswap") false [] CBGate true.
Definition ex_I : row := mkRow "I" [mkF "q" FVar None] [AStar "q"] [] [QStar "q"] [] [] (Some "id") false [] CBGate true.
Definition ex_Align : row := mkRow "Align" [mkF "q" FPos None; mkF "delay" FPos (Some (VA (AInt 0))); mkF "trainable" FPos (Some (VA (ABool false)))]
  [AOne "q"] [("name", KC (VA (AStr "align"))); ("delay", KF "delay"); ("trainable", KF "trainable")] [QOne "q"] [] ["delay"] None true [] CBGate true.
Definition ex_M : row := mkRow "M" M_formals [] [] [] [] [] None false [] CBGate false.
Definition ex_rows : list row := [ex_H; ex_RX; ex_CNOT; ex_iSWAP; ex_I; ex_Align; ex_M].
Definition ex_bases : list string := ["X"; "Y"; "Z"].
(* the tables as they are on the current tree (after the repairs of _qibo_gate_name("iswap") and of
   REQUIRED_FIELDS_INIT_KWARGS: "unitary" added), and as they were before (prefix old_), kept only for the historical lemmas *)
Definition old_required : list string :=
  ["theta"; "phi"; "lam"; "phi0"; "phi1"; "register_name"; "collapse"; "basis"; "p0"; "p1"].
Definition ex_required : list string := (old_required ++ ["unitary"])%list.
Definition old_specials : list (string * string) := [("cx", "CNOT"); ("id", "I"); ("ccx", "TOFFOLI"); ("u", "U3"); ("U", "U3")].
Definition ex_specials : list (string * string) :=
  [("cx", "CNOT"); ("id", "I"); ("ccx", "TOFFOLI"); ("iswap", "iSWAP"); ("u", "U3"); ("U", "U3")].
Definition ex_rotation (b : string) (q : Z) : option gate :=
  if String.eqb b "X" then Some (mkGate "H" [VA (AInt q)] [] [q] [] [] false None false [] None) else None.

Lemma ex_M_tables : M_tables_ok ex_rows ex_bases ex_rotation.
Proof. split; [exists ex_M; repeat split; reflexivity | split; [reflexivity | intro q; reflexivity]]. Qed.

Lemma ex_class_facts : forall r, In r ex_rows -> label_row_ok ex_rows ex_specials r = true ->
  class_fact ex_rows ex_bases ex_specials r.
Proof.
  intros r Hin H.
  repeat (destruct Hin as [<-|Hin]);
    try (vm_compute in H; discriminate H);
    try (split; [vm_compute; reflexivity | split; [intro E; try discriminate E | intro E; try discriminate E]]).
  - std_ctor_tac.
  - std_ctor_tac.
  - std_ctor_tac.
  - std_ctor_tac.
  - eexists; repeat split; reflexivity.
  - destruct Hin.
Qed.

(* gates and circuits used as witnesses: built through the model's own constructor and Circuit.add *)
Definition fl (z : Z) : val := VA (AFlt z).
Definition ex_gates : list (res gate) :=
  [construct ex_bases ex_RX [VA (AInt 2); VA (AInt 3)] [];            (* RX(2, theta=3) : a python int *)
   construct ex_bases ex_CNOT [VA (AInt 2); VA (AInt 0)] [];
   construct ex_bases ex_M [VA (AInt 2); VA (AInt 0)] [("register_name", VA (AStr "a"))];
   construct ex_bases ex_H [VA (AInt 1)] [];
   construct ex_bases ex_M [VA (AInt 1)] [("register_name", VA (AStr "b"))]].

Definition unwrap {A} (d : A) (x : res A) : A := match x with OK a => a | Err _ => d end.
Definition dummy_gate : gate := mkGate "" [] [] [] [] [] false None false [] None.
Definition ex_circuit : res circuit := build ex_rotation 3 false (map (unwrap dummy_gate) ex_gates).
Definition ex_c : circuit := unwrap (cinit 0 false) ex_circuit.
Definition ex_mt : list (string * list Z) := [("a", [2; 0]); ("b", [1])].

Lemma ex_circuit_ok : ex_circuit = OK ex_c /\ forallb (fun g => match g with OK _ => true | Err _ => false end) ex_gates = true.
Proof. split; vm_compute; reflexivity. Qed.

Lemma ex_exportable : qasm_exportable ex_rows ex_specials ex_c ex_mt.
Proof.
  constructor.
  - vm_compute. discriminate.
  - vm_compute. repeat constructor; try discriminate.
  - vm_compute. reflexivity.
  - vm_compute. reflexivity.
  - repeat constructor; simpl; intuition discriminate.
  - repeat constructor; try discriminate; try (vm_compute; discriminate).
Qed.

Lemma ex_write_ok : exists s, write ex_rows ex_c = OK s.
Proof. exists (unwrap [] (write ex_rows ex_c)). vm_compute. reflexivity. Qed.

Definition dc : circuit := cinit 0 false.
Definition wc (x : res circuit) : circuit := unwrap dc x.
Definition ws (c : circuit) : list stmt := unwrap [] (write ex_rows c).
Definition rc (s : list stmt) : circuit := unwrap dc (read ex_rows ex_bases ex_specials ex_rotation s).

(* --- refutation witnesses (the real code has the same defects, see known_findings.d/C13.json) --- *)
Definition ex_collapse_circuit : res circuit :=
  g1 <- construct ex_bases ex_M [VA (AInt 0)] [("collapse", VA (ABool true))];
  g2 <- construct ex_bases ex_H [VA (AInt 0)] [];
  build ex_rotation 2 false [g1; g2].

Lemma ex_collapse_dropped : exists c s c',
  ex_collapse_circuit = OK c /\ write ex_rows c = OK s
  /\ read ex_rows ex_bases ex_specials ex_rotation s = OK c'
  /\ length (filter is_M (cqueue c)) = 1%nat /\ length (filter is_M (cqueue c')) = 0%nat.
Proof. exists (wc ex_collapse_circuit), (ws (wc ex_collapse_circuit)), (rc (ws (wc ex_collapse_circuit))). wit. Qed.

Definition ex_implicit_collapse_circuit : res circuit :=
  g1 <- construct ex_bases ex_M [VA (AInt 0)] [("register_name", VA (AStr "a"))];
  g2 <- construct ex_bases ex_H [VA (AInt 0)] [];
  build ex_rotation 2 false [g1; g2].

Lemma ex_implicit_collapse_dropped : exists c s c',
  ex_implicit_collapse_circuit = OK c /\ write ex_rows c = OK s
  /\ read ex_rows ex_bases ex_specials ex_rotation s = OK c'
  /\ length (filter is_M (cqueue c)) = 1%nat /\ length (filter is_M (cqueue c')) = 0%nat.
Proof. exists (wc ex_implicit_collapse_circuit), (ws (wc ex_implicit_collapse_circuit)), (rc (ws (wc ex_implicit_collapse_circuit))). wit. Qed.

Definition ex_iswap_circuit : res circuit :=
  g1 <- construct ex_bases ex_iSWAP [VA (AInt 0); VA (AInt 1)] [];
  build ex_rotation 2 false [g1].

(* current tree: the iSWAP label is read back as iSWAP *)
Lemma ex_iswap_roundtrips : exists c s c',
  ex_iswap_circuit = OK c /\ write ex_rows c = OK s
  /\ read ex_rows ex_bases ex_specials ex_rotation s = OK c'
  /\ map gcls (cqueue c') = ["iSWAP"] /\ map gtargets (cqueue c') = map gtargets (cqueue c).
Proof. exists (wc ex_iswap_circuit), (ws (wc ex_iswap_circuit)), (rc (ws (wc ex_iswap_circuit))). wit. Qed.

(* HISTORICAL (before the repair of _qibo_gate_name): without the special case "iswap" -> "iSWAP" the
   exported text `iswap q[0],q[1];` was rejected ("ISWAP" is not a class) *)
Lemma historical_iswap_rejected_without_special_case : exists c s,
  ex_iswap_circuit = OK c /\ write ex_rows c = OK s
  /\ read ex_rows ex_bases old_specials ex_rotation s = Err EValueError.
Proof. exists (wc ex_iswap_circuit), (ws (wc ex_iswap_circuit)). wit. Qed.

Definition ex_dupreg_circuit : res circuit :=
  g1 <- construct ex_bases ex_M [VA (AInt 2); VA (AInt 0)] [("register_name", VA (AStr "register1"))];
  g2 <- construct ex_bases ex_M [VA (AInt 1)] [];
  build ex_rotation 3 false [g1; g2].

Lemma ex_dupreg_merged : exists c s c',
  ex_dupreg_circuit = OK c /\ write ex_rows c = OK s
  /\ read ex_rows ex_bases ex_specials ex_rotation s = OK c'
  /\ length (cmeas c) = 2%nat /\ length (cmeas c') = 1%nat.
Proof. exists (wc ex_dupreg_circuit), (ws (wc ex_dupreg_circuit)), (rc (ws (wc ex_dupreg_circuit))). wit. Qed.

(* Circuit.raw / from_dict with a measurement in the X basis: the rotations are inserted twice *)
Definition ex_basis_circuit : res circuit :=
  g1 <- construct ex_bases ex_M [VA (AInt 2); VA (AInt 0)] [("register_name", VA (AStr "a")); ("basis", VA (AStr "X"))];
  build ex_rotation 3 false [g1].

Lemma ex_basis_duplicated : exists c c',
  ex_basis_circuit = OK c
  /\ cfrom_dict ex_rows ex_bases ex_rotation (craw ex_required c) = OK c'
  /\ length (cqueue c) = 3%nat /\ length (cqueue c') = 5%nat.
Proof.
  exists (wc ex_basis_circuit), (unwrap dc (cfrom_dict ex_rows ex_bases ex_rotation (craw ex_required (wc ex_basis_circuit)))).
  wit.
Qed.

(* Gate.raw drops Align's `delay` (still open on the current tree: "delay" is not a required kwarg) *)
Definition ex_align : gate := unwrap dummy_gate (construct ex_bases ex_Align [VA (AInt 1); VA (AInt 3)] []).
Lemma ex_align_delay_lost : exists g',
  construct ex_bases ex_Align [VA (AInt 1); VA (AInt 3)] [] = OK ex_align
  /\ from_dict ex_rows ex_bases (raw ex_required ex_align) = OK g'
  /\ gparams ex_align = [VA (AInt 3)] /\ gparams g' = [VA (AInt 0)].
Proof.
  exists (unwrap dummy_gate (from_dict ex_rows ex_bases (raw ex_required ex_align))). wit.
Qed.

(* non-vacuity of circuit_dict_roundtrip_partial: the example circuit's gates satisfy its hypothesis *)
Definition gsame_b (g g' : gate) : bool :=
  String.eqb (gcls g) (gcls g') && list_eqb Z.eqb (gtargets g) (gtargets g') && list_eqb Z.eqb (gcontrols g) (gcontrols g')
  && list_eqb val_eqb (gparams g) (gparams g') && Bool.eqb (gcb g) (gcb g') && option_eqb String.eqb (greg g) (greg g')
  && Bool.eqb (gcollapse g) (gcollapse g') && list_eqb String.eqb (gbasis g) (gbasis g').

Definition ex_gs : list gate := map (unwrap dummy_gate) ex_gates.

Lemma ex_dict_hyp :
  build ex_rotation 3 false ex_gs = OK ex_c
  /\ Forall (fun g => basis_gates ex_rotation g = []
                      /\ exists g', from_dict ex_rows ex_bases (raw ex_required g) = OK g' /\ gsame g g') ex_gs.
Proof.
  split; [vm_compute; reflexivity|].
  repeat constructor; try (vm_compute; reflexivity);
    match goal with |- exists g', from_dict ?r ?b ?w = OK g' /\ _ =>
      exists (unwrap dummy_gate (from_dict r b w)); split; [vm_compute; reflexivity | repeat split; vm_compute; reflexivity] end.
Qed.

(* non-vacuity of raw_roundtrip_controlled_by: RX(2, theta).controlled_by(0, 1) on the example tables *)
Definition ex_rx : gate := unwrap dummy_gate (construct ex_bases ex_RX [VA (AInt 2); fl 4607182418800017408] []).
Lemma ex_controlled_hyp :
  find_row (gcls ex_rx) ex_rows = Some ex_RX /\ rcb ex_RX = CBGate /\ String.eqb (gcls ex_rx) "M" = false
  /\ gcontrols ex_rx = [] /\ [0; 1] <> [] /\ memZ (Z.of_nat (length [0; 1])) (rdispatch ex_RX) = false
  /\ nodupZ [0; 1] = true /\ overlapZ (gtargets ex_rx) [0; 1] = false
  /\ from_dict ex_rows ex_bases (raw ex_required ex_rx) = OK ex_rx /\ raw_rt_ok (OK ex_rx) ex_rx.
Proof. repeat split; try (vm_compute; reflexivity); discriminate. Qed.

(* ---------------------------------------------------------------- text layer *)
From QV Require Import C13.TextModel C13.TextProofs.
Definition ex_reserved : list string := ["OPENQASM"; "include"; "qreg"; "creg"; "measure"; "gate"; "if"; "reset"; "barrier"].

Lemma ex_text_hyps :
  forallb (fun k => mem_str k ex_reserved) grammar_keywords = true
  /\ name_ok ex_reserved "q" = true
  /\ (forall r l, In r ex_rows -> rlabel r = Some l -> name_ok ex_reserved l = true).
Proof.
  split; [reflexivity|]. split; [reflexivity|].
  intros r l Hin Hl. repeat (destruct Hin as [<-|Hin]; [try discriminate Hl; injection Hl as <-; reflexivity|]). destruct Hin.
Qed.

Lemma ex_text_exportable : text_exportable ex_reserved ex_c.
Proof.
  constructor.
  - vm_compute. discriminate.
  - vm_compute. repeat constructor; try discriminate.
  - vm_compute. repeat constructor; try discriminate.
Qed.

Lemma ex_print_ok : exists toks, print_qasm ex_rows ex_c = OK toks.
Proof. exists (unwrap [] (print_qasm ex_rows ex_c)). vm_compute. reflexivity. Qed.

(* register names that are lower case (all the writer checks) but no identifiers / reserved words:
   the text is produced and the parser rejects it *)
Definition ex_badname_circuit (name : string) : res circuit :=
  g1 <- construct ex_bases ex_M [VA (AInt 2); VA (AInt 0)] [("register_name", VA (AStr name))];
  build ex_rotation 3 false [g1].

Lemma ex_badname_rejected : forall name, In name ["1a"; "a b"; "measure"; "a-b"; "if"] ->
  exists c toks, ex_badname_circuit name = OK c /\ print_qasm ex_rows c = OK toks
                 /\ parse_qasm ex_reserved toks = Err EValueError.
Proof.
  intros name Hin.
  exists (wc (ex_badname_circuit name)), (unwrap [] (print_qasm ex_rows (wc (ex_badname_circuit name)))).
  repeat (destruct Hin as [<-|Hin]; [wit|]). destruct Hin.
Qed.
