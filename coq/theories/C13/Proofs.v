(* C13/Proofs.v : definitions of the table checks, tactics used by the theorems that the harness
   generates over the regenerated tables, and the proofs behind C13/Props.v. *)
From Coq Require Import String Ascii List ZArith Bool Lia.
From QV Require Import C13.Model.
Import ListNotations.
Local Open Scope string_scope.
Local Open Scope Z_scope.

Definition q2v (q : Z) : val := VA (AInt q).

(* ------------------------------------------------------------------ table checks (boolean, run on the generated rows) *)
Definition src_name (s : qsrc) : string := match s with QOne f | QStar f | QList f => f end.
Definition is_one (s : qsrc) : bool := match s with QOne _ => true | _ => false end.

(* constructor order = (controls, targets, parameters), everything after that optional *)
Definition std_shape (r : row) : bool :=
  let qn := map src_name (rcontrols r ++ rtargets r) in
  let k := (length qn + length (rparams r))%nat in
  forallb is_one (rcontrols r ++ rtargets r)
  && forallb (fun f => match fkind f with FPos => true | _ => false end) (rformals r)
  && list_eqb String.eqb (firstn k (map fname (rformals r))) (qn ++ rparams r)
  && forallb (fun f => match fdef f with Some _ => true | None => false end) (skipn k (rformals r)).

Definition star_shape (r : row) : bool :=
  match rformals r, rtargets r, rcontrols r, rparams r with
  | [f], [QStar q], [], [] => match fkind f with FVar => String.eqb (fname f) q | _ => false end
  | _, _, _, _ => false
  end.

(* the label of the class is read back as the class itself, and what the writer prints after the
   label (sorted controls, targets, parameters) is what the constructor takes, in that order *)
Definition label_row_ok (rows : list row) (specials : list (string * string)) (r : row) : bool :=
  match rlabel r with
  | None => false
  | Some l =>
      match find_row (qibo_gate_name specials l) rows with
      | Some r' => String.eqb (rname r') (rname r)
      | None => false
      end
      && (std_shape r || star_shape r) && rmodelled r
      && (rparametrized r || Nat.eqb (length (rparams r)) 0)
      && negb (String.eqb (rname r) "M")
  end.

Definition label_resolves (rows : list row) (specials : list (string * string)) (r : row) : Prop :=
  match rlabel r with
  | Some l => find_row (qibo_gate_name specials l) rows = Some r
  | None => False
  end.

(* the constructor of class r, called with nq qubits (the first nc are controls) and np parameters,
   builds the gate with exactly these controls, targets and parameters *)
Definition std_ctor (bases : list string) (r : row) (nc nq np : nat) : Prop :=
  forall (qs : list Z) (ps : list val), length qs = nq -> length ps = np ->
    check_qubits (skipn nc qs) (firstn nc qs) = true ->
    exists g, construct bases r (map q2v qs ++ ps) [] = OK g /\ gcls g = rname r
              /\ gtargets g = skipn nc qs /\ gcontrols g = firstn nc qs /\ gparams g = ps /\ gcb g = false.

Definition star_row (r : row) : Prop :=
  exists q, rformals r = [mkF q FVar None] /\ rtargets r = [QStar q] /\ rcontrols r = []
            /\ rparams r = [] /\ rargs r = [AStar q] /\ rkw r = [] /\ rmodelled r = true
            /\ String.eqb (rname r) "M" = false.

Ltac std_ctor_tac :=
  let qs := fresh "qs" in let ps := fresh "ps" in
  let Hq := fresh "Hq" in let Hp := fresh "Hp" in let Hc := fresh "Hc" in
  intros qs ps Hq Hp Hc; cbn in Hq, Hp;
  destruct qs as [|? [|? [|? [|? qs]]]]; simpl in Hq; try discriminate Hq;
  destruct ps as [|? [|? [|? [|? ps]]]]; simpl in Hp; try discriminate Hp;
  cbv -[check_qubits] in Hc;
  eexists; split; [cbv -[check_qubits]; rewrite Hc; reflexivity | repeat split; reflexivity].

Ltac class_fact_tac :=
  split; [vm_compute; reflexivity
         | split; [let E := fresh "E" in intro E; first [vm_compute in E; discriminate E | eexists; repeat split; reflexivity]
                  | let E := fresh "E" in intro E; first [vm_compute in E; discriminate E | clear E; std_ctor_tac]]].

(* Gate.from_dict (Gate.raw g) gives back the class, the qubits and the parameters of g *)
Definition raw_rt_ok (r : res gate) (g : gate) : Prop :=
  match r with
  | OK g' => gcls g' = gcls g /\ gtargets g' = gtargets g /\ gcontrols g' = gcontrols g
             /\ gparams g' = gparams g /\ gcb g' = gcb g
  | Err _ => False
  end.

Ltac raw_rt_tac :=
  intros;
  match goal with
  | H : _ = OK _ |- _ =>
      cbv -[check_qubits] in H;
      match type of H with
      | (if ?b then _ else _) = _ =>
          let E := fresh "E" in
          destruct b eqn:E; [| discriminate H];
          injection H as <-;
          cbv -[check_qubits]; rewrite ?E; cbv -[check_qubits]; repeat split; reflexivity
      end
  end.

(* ------------------------------------------------------------------ small facts *)
Lemma mapM_as_int_q2v : forall qs, mapM as_int (map q2v qs) = OK qs.
Proof. induction qs as [|q qs IH]; simpl; [reflexivity|]. rewrite IH. reflexivity. Qed.

Lemma star_row_std : forall bases r, star_row r -> forall nq, std_ctor bases r 0 nq 0.
Proof.
  intros bases r (q & Hf & Ht & Hc & Hp & Ha & Hk & Hm & Hn) nq qs ps Hq Hps Hchk.
  destruct ps; [|discriminate Hps].
  rewrite app_nil_r. simpl in Hchk.
  unfold construct. rewrite Hf. simpl. rewrite Hn, Hm.
  unfold mk, qubits_all. rewrite Ht, Hc, Ha, Hk, Hp. simpl.
  rewrite String.eqb_refl. rewrite mapM_as_int_q2v. simpl.
  rewrite app_nil_r. rewrite Hchk.
  eexists; split; [reflexivity|]. simpl. repeat split; reflexivity.
Qed.

(* ------------------------------------------------------------------ monadic helpers *)
Lemma rbind_ok : forall A B (x : res A) (f : A -> res B) b,
  rbind x f = OK b -> exists a, x = OK a /\ f a = OK b.
Proof. intros A B [a|e] f b H; simpl in H; [eauto | discriminate]. Qed.

Lemma foldM_app : forall A B (f : B -> A -> res B) l1 l2 b,
  foldM f (l1 ++ l2)%list b = rbind (foldM f l1 b) (foldM f l2).
Proof.
  induction l1 as [|a l1 IH]; intros l2 b; simpl; [reflexivity|].
  destruct (f b a) as [b'|e]; simpl; [apply IH | reflexivity].
Qed.

Lemma mapM_app : forall A B (f : A -> res B) l1 l2 r1 r2,
  mapM f l1 = OK r1 -> mapM f l2 = OK r2 -> mapM f (l1 ++ l2)%list = OK (r1 ++ r2)%list.
Proof.
  induction l1 as [|a l1 IH]; intros l2 r1 r2 H1 H2; simpl in *.
  - injection H1 as <-. exact H2.
  - destruct (f a) as [b|e]; simpl in *; [|discriminate].
    destruct (mapM f l1) as [bs|e] eqn:E; simpl in *; [|discriminate].
    injection H1 as <-. rewrite (IH l2 bs r2 eq_refl H2). reflexivity.
Qed.

Lemma mapM_length : forall A B (f : A -> res B) l r, mapM f l = OK r -> length r = length l.
Proof.
  induction l as [|a l IH]; intros r H; simpl in H.
  - injection H as <-. reflexivity.
  - destruct (f a); simpl in H; [|discriminate]. destruct (mapM f l) eqn:E; simpl in H; [|discriminate].
    injection H as <-. simpl. f_equal. apply IH. reflexivity.
Qed.

(* ------------------------------------------------------------------ sorted() *)
Lemma memZ_insertZ : forall x y l, memZ x (insertZ y l) = (x =? y) || memZ x l.
Proof.
  induction l as [|z l IH]; simpl; [reflexivity|].
  destruct (y <=? z); simpl; [reflexivity|]. rewrite IH.
  destruct (x =? z), (x =? y); reflexivity.
Qed.
Lemma memZ_sortZ : forall x l, memZ x (sortZ l) = memZ x l.
Proof.
  induction l as [|y l IH]; simpl; [reflexivity|]. unfold sortZ in *. simpl.
  rewrite memZ_insertZ, IH. reflexivity.
Qed.
Lemma nodupZ_insertZ : forall y l, nodupZ (insertZ y l) = negb (memZ y l) && nodupZ l.
Proof.
  induction l as [|z l IH]; simpl; [reflexivity|].
  destruct (y <=? z); simpl; [reflexivity|]. rewrite IH, memZ_insertZ.
  rewrite (Z.eqb_sym z y).
  destruct (y =? z), (memZ y l), (memZ z l), (nodupZ l); reflexivity.
Qed.
Lemma nodupZ_sortZ : forall l, nodupZ (sortZ l) = nodupZ l.
Proof.
  induction l as [|y l IH]; simpl; [reflexivity|]. unfold sortZ in *. simpl.
  rewrite nodupZ_insertZ, IH. fold (sortZ l). rewrite memZ_sortZ. reflexivity.
Qed.
Lemma insertZ_length : forall y l, length (insertZ y l) = S (length l).
Proof. induction l as [|z l IH]; simpl; [reflexivity|]. destruct (y <=? z); simpl; [reflexivity|]. rewrite IH. reflexivity. Qed.
Lemma sortZ_length : forall l, length (sortZ l) = length l.
Proof. induction l as [|y l IH]; simpl; [reflexivity|]. unfold sortZ in *. simpl. rewrite insertZ_length, IH. reflexivity. Qed.
Lemma overlapZ_sortZ : forall a l, overlapZ a (sortZ l) = overlapZ a l.
Proof.
  intros a l. unfold overlapZ. induction a as [|x a IH]; simpl; [reflexivity|].
  rewrite memZ_sortZ, IH. reflexivity.
Qed.
Lemma check_qubits_sortZ : forall ts cs, check_qubits ts (sortZ cs) = check_qubits ts cs.
Proof. intros. unfold check_qubits. rewrite nodupZ_sortZ, overlapZ_sortZ. reflexivity. Qed.
Lemma In_sortZ : forall x l, In x (sortZ l) <-> In x l.
Proof.
  assert (HI : forall x y l, In x (insertZ y l) <-> x = y \/ In x l).
  { induction l as [|z l IH]; simpl; [intuition|]. destruct (y <=? z); simpl; [intuition|]. rewrite IH. intuition. }
  intros x l. induction l as [|y l IH]; simpl; [tauto|]. unfold sortZ in *. simpl. rewrite HI, IH. intuition.
Qed.

(* ------------------------------------------------------------------ dictionaries *)
Lemma lookup_app_notin : forall A k (l1 l2 : list (string * A)),
  lookup k l1 = None -> lookup k (l1 ++ l2)%list = lookup k l2.
Proof.
  induction l1 as [|[k' v] l1 IH]; intros l2 H; simpl in *; [reflexivity|].
  destruct (String.eqb k k'); [discriminate | apply IH, H].
Qed.
Lemma dict_set_mid : forall A k (v v' : A) l1 l2,
  lookup k l1 = None -> dict_set k v' (l1 ++ (k, v) :: l2)%list = (l1 ++ (k, v') :: l2)%list.
Proof.
  induction l1 as [|[k' w] l1 IH]; intros l2 H; simpl in *.
  - rewrite String.eqb_refl. reflexivity.
  - destruct (String.eqb k k'); [discriminate|]. rewrite IH; [reflexivity | exact H].
Qed.
Lemma dict_set_notin : forall A k (v : A) l, lookup k l = None -> dict_set k v l = (l ++ [(k, v)])%list.
Proof.
  induction l as [|[k' w] l IH]; intros H; simpl in *; [reflexivity|].
  destruct (String.eqb k k'); [discriminate|]. rewrite IH; [reflexivity | exact H].
Qed.
Lemma lookup_map_fst : forall A B (f : A -> B) k (l : list (string * A)),
  lookup k (map (fun kv => (fst kv, f (snd kv))) l) = option_map f (lookup k l).
Proof.
  induction l as [|[k' v] l IH]; simpl; [reflexivity|]. destruct (String.eqb k k'); [reflexivity | apply IH].
Qed.
Lemma lookup_none_notin : forall A k (l : list (string * A)), lookup k l = None <-> ~ In k (map fst l).
Proof.
  induction l as [|[k' v] l IH]; simpl; [tauto|].
  destruct (String.eqb k k') eqn:E.
  - apply String.eqb_eq in E. subst. split; [discriminate | intros H; exfalso; apply H; left; reflexivity].
  - apply String.eqb_neq in E. rewrite IH. split; [intros H [H1|H1]; [congruence | tauto] | tauto].
Qed.
Lemma mem_str_In : forall x l, mem_str x l = true <-> In x l.
Proof.
  induction l as [|y l IH]; simpl; [split; [discriminate | tauto]|].
  rewrite orb_true_iff, IH, String.eqb_eq. split; intros [H|H]; auto.
Qed.

(* ================================================================== QASM round trip *)
Local Open Scope list_scope.
Definition M_formals : list formal :=
  [mkF "q" FVar None; mkF "register_name" FKw (Some (VA ANone)); mkF "collapse" FKw (Some (VA (ABool false)));
   mkF "basis" FKw (Some (VA (AStr "Z"))); mkF "p0" FKw (Some (VA ANone)); mkF "p1" FKw (Some (VA ANone))].

(* what the reader needs of the generated tables about the measurement gate *)
Definition M_tables_ok (rows : list row) (bases : list string) (rotation : string -> Z -> option gate) : Prop :=
  (exists r, find_row "M" rows = Some r /\ rname r = "M" /\ rformals r = M_formals)
  /\ mem_str "Z" bases = true /\ (forall q, rotation "Z" q = None).

(* M( *qs, register_name=reg) as the constructor builds it *)
Definition Mgate (qs : list Z) (reg : string) : gate :=
  mkGate "M" (map q2v qs)
    [("register_name", VA (AStr reg)); ("collapse", VA (ABool false));
     ("basis", VL (map AStr (repeat "Z" (length qs)))); ("p0", VA ANone); ("p1", VA ANone)]
    qs [] [] false (Some reg) false (repeat "Z" (length qs)) None.

Lemma mapM_str_of_atom : forall l, mapM str_of_atom (map AStr l) = OK l.
Proof. induction l as [|s l IH]; simpl; [reflexivity|]. rewrite IH. reflexivity. Qed.

Lemma forallb_repeat : forall A (f : A -> bool) x n, f x = true -> forallb f (repeat x n) = true.
Proof. induction n; intros H; simpl; [reflexivity|]. rewrite H, IHn; auto. Qed.

Section Qasm.
  Variables (rows : list row) (bases : list string) (specials : list (string * string)).
  Variable rotation : string -> Z -> option gate.
  Hypothesis HM : M_tables_ok rows bases rotation.

  Lemma m_of_ok : forall qs reg, nodupZ qs = true -> m_of rows bases qs reg = OK (Mgate qs reg).
  Proof.
    intros qs reg Hnd. destruct HM as [(r & Hf & Hn & Hfs) [HZ _]].
    unfold m_of. rewrite Hf. unfold construct. rewrite Hfs. simpl. rewrite Hn. simpl.
    unfold mk_M. simpl.
    change (map (fun q : Z => VA (AInt q)) qs) with (map q2v qs).
    rewrite mapM_as_int_q2v. simpl. rewrite Hnd. simpl.
    rewrite forallb_repeat by exact HZ. simpl.
    reflexivity.
  Qed.

  (* ---------------------------------------------------------------- one gate *)
  Definition gate_fact (g : gate) : Prop :=
    exists r l, find_row (gcls g) rows = Some r /\ rlabel r = Some l
      /\ find_row (qibo_gate_name specials l) rows = Some r
      /\ std_ctor bases r (length (gcontrols g)) (length (gcontrols g) + length (gtargets g)) (length (gparams g))
      /\ (rparametrized r = true \/ gparams g = [])
      /\ rname r = gcls g /\ is_M g = false.

  (* g' is g as an observer of the operator sees it after the text round trip: parameters became floats,
     controls are in ascending order *)
  Definition gate_equiv (g g' : gate) : Prop :=
    gcls g' = gcls g /\ gtargets g' = gtargets g /\ gcontrols g' = sortZ (gcontrols g) /\ gcb g' = false
    /\ exists fs, mapM float_of_val (gparams g) = OK fs /\ gparams g' = map VA fs.

  Definition qref (q : Z) : string * Z := ("q", q).

  Lemma mapM_get_qubit : forall s qs,
    (forall q, In q qs -> get_qubit s (qref q) = OK q) -> mapM (get_qubit s) (map qref qs) = OK qs.
  Proof.
    induction qs as [|q qs IH]; intros H; simpl; [reflexivity|].
    rewrite (H q) by (left; reflexivity). simpl. rewrite IH; [reflexivity|]. intros; apply H; right; assumption.
  Qed.

  Lemma gate_roundtrip : forall g st s,
    gate_fact g -> check_qubits (gtargets g) (gcontrols g) = true ->
    write_gate rows g = OK st ->
    (forall q, In q (gqubits g) -> get_qubit s (qref q) = OK q) ->
    exists l fs g', st = SGate l fs (map qref (gqubits g))
      /\ read_gate rows bases specials s l fs (map qref (gqubits g)) = OK g'
      /\ gate_equiv g g' /\ is_M g' = false.
  Proof.
    intros g st s (r & l & Hr & Hl & Hres & Hctor & Hpar & Hname & HnM) Hchk Hw Hq.
    unfold write_gate in Hw. destruct (gcb g) eqn:Hcb; [discriminate|].
    rewrite Hr, Hl in Hw.
    apply rbind_ok in Hw. destruct Hw as (fs & Hfs & Hst). injection Hst as <-.
    assert (Hfs' : mapM float_of_val (gparams g) = OK fs /\ length fs = length (gparams g)).
    { destruct (rparametrized r) eqn:Hp.
      - split; [exact Hfs | eapply mapM_length; exact Hfs].
      - destruct Hpar as [Hpar|Hpar]; [discriminate|]. injection Hfs as <-. rewrite Hpar. split; reflexivity. }
    destruct Hfs' as [Hfl Hlen].
    exists l, fs.
    unfold read_gate. rewrite (mapM_get_qubit s (gqubits g) Hq). simpl. rewrite Hres.
    change (map (fun q : Z => VA (AInt q)) (gqubits g)) with (map q2v (gqubits g)).
    destruct (Hctor (gqubits g) (map VA fs)) as (g' & Hc & Hcls & Ht & Hcs & Hps & Hcb').
    - unfold gqubits. rewrite app_length, sortZ_length. reflexivity.
    - rewrite map_length. exact Hlen.
    - unfold gqubits. rewrite <- (sortZ_length (gcontrols g)).
      rewrite skipn_app, skipn_all, Nat.sub_diag, firstn_app, firstn_all, Nat.sub_diag. simpl.
      rewrite app_nil_r. rewrite check_qubits_sortZ. exact Hchk.
    - exists g'. rewrite Hc. split; [reflexivity|]. split; [reflexivity|].
      unfold gqubits in Ht, Hcs. rewrite <- (sortZ_length (gcontrols g)) in Ht, Hcs.
      rewrite skipn_app, skipn_all, Nat.sub_diag in Ht. simpl in Ht.
      rewrite firstn_app, firstn_all, Nat.sub_diag in Hcs. simpl in Hcs. rewrite app_nil_r in Hcs.
      split.
      + unfold gate_equiv. rewrite Hcls, Hname. repeat split; auto. exists fs. split; assumption.
      + unfold is_M in *. rewrite Hcls, Hname. exact HnM.
  Qed.

  (* ---------------------------------------------------------------- the reader on the writer's statements *)
  Definition iota (k : nat) : list Z := map Z.of_nat (seq 0 k).
  Definition creg_of (rq : string * list Z) : stmt := SCreg (fst rq) (Z.of_nat (length (snd rq))).
  Definition meas_from (name : string) (i : nat) (qs : list Z) : list stmt :=
    map (fun iq : nat * Z => SMeasure ("q", snd iq) name (Z.of_nat (fst iq))) (combine (seq i (length qs)) qs).
  Definition meas_of (rq : string * list Z) : list stmt := meas_from (fst rq) 0 (snd rq).
  Definition unfilled (rq : string * list Z) : string * list Z := (fst rq, iota (length (snd rq))).
  Definition MG (rq : string * list Z) : gate := Mgate (snd rq) (fst rq).
  Definition M1s (rq : string * list Z) : list gate := map (fun q => Mgate [q] (fst rq)) (snd rq).
  Definition qreg_list (n : Z) : list Z := map (fun i => 0 + Z.of_nat i) (seq 0 (Z.to_nat n)).
  Definition Q0 (n : Z) : list (string * list Z) := [("q", qreg_list n)].

  Lemma nth_error_seq : forall k a i, (i < k)%nat -> nth_error (seq a k) i = Some (a + i)%nat.
  Proof.
    induction k as [|k IH]; intros a i Hi; [lia|]. destruct i; simpl; [f_equal; lia|].
    rewrite IH by lia. f_equal. lia.
  Qed.

  Lemma get_qubit_Q0 : forall n C G q, 0 <= q < n -> get_qubit (mkRS n (Q0 n) C G) (qref q) = OK q.
  Proof.
    intros n C G q Hq. unfold get_qubit, qref, Q0. simpl.
    destruct (q <? 0) eqn:E; [apply Z.ltb_lt in E; lia|].
    unfold nthZ. rewrite E. unfold qreg_list.
    rewrite nth_error_map, nth_error_seq by lia. simpl. f_equal. lia.
  Qed.

  Lemma map_fst_unfilled : forall l, map fst (map unfilled l) = map fst l.
  Proof. induction l as [|x l IH]; simpl; [reflexivity|]. rewrite IH. reflexivity. Qed.

  Lemma read_cregs : forall mt2 mt1 n Q G,
    NoDup (map fst (mt1 ++ mt2)) ->
    foldM (read_stmt rows bases specials) (map creg_of mt2) (mkRS n Q (map unfilled mt1) G)
    = OK (mkRS n Q (map unfilled (mt1 ++ mt2)) G).
  Proof.
    induction mt2 as [|[name qs] mt2 IH]; intros mt1 n Q G Hnd; simpl.
    - rewrite app_nil_r. reflexivity.
    - destruct (Z.of_nat (length qs) <? 0) eqn:E; [apply Z.ltb_lt in E; lia|].
      rewrite Nat2Z.id.
      assert (Hno : lookup name (map unfilled mt1) = None).
      { apply lookup_none_notin. rewrite map_fst_unfilled. rewrite map_app in Hnd. simpl in Hnd.
        apply NoDup_remove_2 in Hnd. intro Hin. apply Hnd. apply in_or_app. left. exact Hin. }
      rewrite dict_set_notin by exact Hno.
      change ((map unfilled mt1 ++ [(name, map Z.of_nat (seq 0 (length qs)))])%list)
        with ((map unfilled mt1 ++ map unfilled [(name, qs)])%list).
      rewrite <- map_app. cbn [rbind].
      rewrite IH.
      + rewrite <- app_assoc. reflexivity.
      + rewrite <- app_assoc. exact Hnd.
  Qed.

  Definition gate_ok (n : Z) (g : gate) : Prop :=
    gate_fact g /\ check_qubits (gtargets g) (gcontrols g) = true /\ Forall (fun q => 0 <= q < n) (gqubits g).

  Lemma read_gates : forall gs sts n C G,
    Forall (gate_ok n) gs -> mapM (write_gate rows) gs = OK sts ->
    exists gs', foldM (read_stmt rows bases specials) sts (mkRS n (Q0 n) C G) = OK (mkRS n (Q0 n) C (G ++ gs'))
      /\ Forall2 gate_equiv gs gs' /\ Forall (fun g' => is_M g' = false) gs'.
  Proof.
    induction gs as [|g gs IH]; intros sts n C G Hok Hw; simpl in Hw.
    - injection Hw as <-. exists []. simpl. rewrite app_nil_r. repeat split; constructor.
    - apply rbind_ok in Hw. destruct Hw as (st & Hst & Hw).
      apply rbind_ok in Hw. destruct Hw as (sts' & Hsts & Hw). injection Hw as <-.
      inversion Hok as [|? ? [Hf [Hc Hr]] Hok']; subst.
      destruct (gate_roundtrip g st (mkRS n (Q0 n) C G) Hf Hc Hst) as (l & fs & g' & Heq & Hrd & Hequiv & HnM).
      { intros q Hq. apply get_qubit_Q0. rewrite Forall_forall in Hr. apply Hr, Hq. }
      subst st. simpl. rewrite Hrd. simpl.
      destruct (IH sts' n C (G ++ [g']) Hok' Hsts) as (gs' & Hfold & H2 & HM').
      exists (g' :: gs'). rewrite Hfold. rewrite <- app_assoc. simpl.
      repeat split; constructor; assumption.
  Qed.

  Lemma set_nth_app : forall A (x y : A) l r, set_nth (length l) x (l ++ y :: r) = (l ++ x :: r)%list.
  Proof. induction l as [|a l IH]; intros r; simpl; [reflexivity|]. rewrite IH. reflexivity. Qed.

  Lemma read_meas_reg : forall name qs done rest pre post n C' G i,
    C' = (pre ++ (name, (done ++ rest)%list) :: post)%list ->
    lookup name pre = None -> length done = i -> length rest = length qs ->
    Forall (fun q => 0 <= q < n) qs ->
    foldM (read_stmt rows bases specials) (meas_from name i qs) (mkRS n (Q0 n) C' G)
    = OK (mkRS n (Q0 n) (pre ++ (name, (done ++ qs)%list) :: post)
               (G ++ map (fun q => Mgate [q] name) qs)).
  Proof.
    induction qs as [|q qs IH]; intros done rest pre post n C' G i HC Hpre Hdone Hrest Hr; subst C'.
    - destruct rest; [|discriminate]. simpl. rewrite !app_nil_r. reflexivity.
    - destruct rest as [|y rest]; [discriminate|]. simpl in Hrest. injection Hrest as Hrest.
      inversion Hr as [|? ? Hq Hr']; subst.
      unfold meas_from. simpl.
      rewrite (get_qubit_Q0 n _ G q Hq). simpl.
      rewrite lookup_app_notin by exact Hpre. simpl. rewrite String.eqb_refl.
      destruct (Z.of_nat (length done) <? 0) eqn:E0; [apply Z.ltb_lt in E0; lia|].
      destruct (Z.of_nat (length (done ++ y :: rest)) <=? Z.of_nat (length done)) eqn:E1.
      { apply Z.leb_le in E1. rewrite app_length in E1. simpl in E1. lia. }
      rewrite m_of_ok by reflexivity. simpl.
      rewrite Nat2Z.id, set_nth_app, dict_set_mid by exact Hpre.
      change (seq (S (length done)) (length qs)) with (seq (S (length done)) (length qs)).
      specialize (IH (done ++ [q])%list rest pre post n
                     (pre ++ (name, ((done ++ [q]) ++ rest)%list) :: post)%list
                     (G ++ [Mgate [q] name])%list (S (length done)) eq_refl Hpre).
      rewrite <- app_assoc in IH. simpl in IH.
      unfold meas_from in IH. rewrite IH.
      + rewrite <- !app_assoc. reflexivity.
      + rewrite app_length. simpl. lia.
      + exact Hrest.
      + exact Hr'.
  Qed.

  Lemma read_meas_all : forall mt2 mt1 n G,
    NoDup (map fst (mt1 ++ mt2)) ->
    Forall (fun rq => Forall (fun q => 0 <= q < n) (snd rq)) mt2 ->
    foldM (read_stmt rows bases specials) (flat_map meas_of mt2) (mkRS n (Q0 n) (mt1 ++ map unfilled mt2) G)
    = OK (mkRS n (Q0 n) (mt1 ++ mt2) (G ++ flat_map M1s mt2)).
  Proof.
    induction mt2 as [|[name qs] mt2 IH]; intros mt1 n G Hnd Hr.
    - simpl. rewrite !app_nil_r. reflexivity.
    - cbn [flat_map]. rewrite foldM_app. inversion Hr as [|? ? Hq Hr']; subst. simpl in Hq.
      assert (Hno : lookup name mt1 = None).
      { apply lookup_none_notin. rewrite map_app in Hnd. simpl in Hnd.
        apply NoDup_remove_2 in Hnd. intro Hin. apply Hnd. apply in_or_app. left. exact Hin. }
      change (meas_of (name, qs)) with (meas_from name 0 qs).
      rewrite (read_meas_reg name qs [] (iota (length qs)) mt1 (map unfilled mt2) n
                 (mt1 ++ map unfilled ((name, qs) :: mt2)) G 0%nat eq_refl Hno eq_refl).
      + cbn [rbind app].
        replace (mt1 ++ (name, qs) :: map unfilled mt2) with ((mt1 ++ [(name, qs)]) ++ map unfilled mt2)
          by (rewrite <- app_assoc; reflexivity).
        rewrite IH.
        * rewrite <- !app_assoc. reflexivity.
        * rewrite <- app_assoc. exact Hnd.
        * exact Hr'.
      + unfold iota. rewrite map_length, seq_length. reflexivity.
      + exact Hq.
  Qed.

  (* ---------------------------------------------------------------- _merge_measurements *)
  Lemma merge_nonM : forall gs cregs rest,
    Forall (fun g => is_M g = false) gs ->
    merge rows bases cregs (gs ++ rest) = rbind (merge rows bases cregs rest) (fun r => OK (gs ++ r)%list).
  Proof.
    induction gs as [|g gs IH]; intros cregs rest H; simpl.
    - destruct (merge rows bases cregs rest); reflexivity.
    - inversion H as [|? ? Hg H']; subst. rewrite Hg. rewrite IH by exact H'.
      destruct (merge rows bases cregs rest); reflexivity.
  Qed.

  Lemma merge_drop : forall name l cregs rest,
    lookup name cregs = None ->
    merge rows bases cregs (map (fun q => Mgate [q] name) l ++ rest) = merge rows bases cregs rest.
  Proof.
    induction l as [|q l IH]; intros cregs rest H; simpl; [reflexivity|].
    rewrite H. apply IH, H.
  Qed.

  Lemma merge_regs : forall mt,
    NoDup (map fst mt) -> Forall (fun rq => snd rq <> [] /\ nodupZ (snd rq) = true) mt ->
    merge rows bases mt (flat_map M1s mt) = OK (map MG mt).
  Proof.
    induction mt as [|[name qs] mt IH]; intros Hnd Hq; simpl; [reflexivity|].
    inversion Hq as [|? ? [Hne Hndq] Hq']; subst. simpl in Hne, Hndq.
    inversion Hnd as [|? ? Hnotin Hnd']; subst.
    destruct qs as [|q qs]; [congruence|].
    unfold M1s at 1. simpl. rewrite String.eqb_refl.
    rewrite m_of_ok by exact Hndq. simpl.
    rewrite merge_drop by (apply lookup_none_notin; exact Hnotin).
    rewrite IH by assumption. reflexivity.
  Qed.

  (* ---------------------------------------------------------------- Circuit.add on the re-imported gate list *)
  Lemma build_plain : forall gs n dm acc,
    Forall (fun g => is_M g = false /\ Forall (fun q => q < n) (gtargets g)) gs ->
    foldM (add rotation) gs (mkC n dm acc []) = OK (mkC n dm (acc ++ gs) []).
  Proof.
    induction gs as [|g gs IH]; intros n dm acc H; simpl.
    - rewrite app_nil_r. reflexivity.
    - inversion H as [|? ? [HnM Hr] H']; subst.
      unfold add. rewrite HnM. simpl. unfold add_plain. simpl.
      assert (E : existsb (fun q : Z => n <=? q) (gtargets g) = false).
      { clear -Hr. induction Hr as [|q l Hq Hl IHl]; simpl; [reflexivity|].
        rewrite IHl. destruct (n <=? q) eqn:E; [apply Z.leb_le in E; lia | reflexivity]. }
      rewrite E. simpl. rewrite IH by exact H'. rewrite <- app_assoc. reflexivity.
  Qed.

  Lemma flat_map_seq_nth : forall A B (f : A -> list B) (l acc : list A) a,
    length acc = a ->
    flat_map (fun i => match nth_error (acc ++ l) i with Some m => f m | None => [] end) (seq a (length l))
    = flat_map f l.
  Proof.
    induction l as [|x l IH]; intros acc a Ha; simpl; [reflexivity|].
    rewrite nth_error_app2 by lia. rewrite Ha, Nat.sub_diag. simpl. f_equal.
    replace (acc ++ x :: l) with ((acc ++ [x]) ++ l) by (rewrite <- app_assoc; reflexivity).
    apply IH. rewrite app_length. simpl. lia.
  Qed.

  Lemma basis_gates_MG : forall rq, basis_gates rotation (MG rq) = [].
  Proof.
    intros [name qs]. unfold basis_gates, MG, Mgate. simpl.
    destruct HM as [_ [_ HZ]].
    induction qs as [|q qs IH]; simpl; [reflexivity|]. rewrite HZ. simpl. exact IH.
  Qed.

  Lemma reg_names_MG : forall n dm acc mt,
    reg_names (mkC n dm (acc ++ map MG mt) (seq (length acc) (length mt))) = map fst mt.
  Proof.
    intros. unfold reg_names, nth_gate. simpl.
    rewrite <- (map_length MG mt).
    rewrite (flat_map_seq_nth gate string (fun m => match greg m with Some s => [s] | None => [] end)
               (map MG mt) acc (length acc) eq_refl).
    induction mt as [|[name qs] mt IH]; simpl; [reflexivity|]. rewrite IH. reflexivity.
  Qed.

  Lemma build_meas : forall mt2 mt1 n dm acc,
    NoDup (map fst (mt1 ++ mt2)) ->
    Forall (fun rq => Forall (fun q => q < n) (snd rq)) mt2 ->
    foldM (add rotation) (map MG mt2) (mkC n dm (acc ++ map MG mt1) (seq (length acc) (length mt1)))
    = OK (mkC n dm (acc ++ map MG (mt1 ++ mt2)) (seq (length acc) (length (mt1 ++ mt2)))).
  Proof.
    induction mt2 as [|[name qs] mt2 IH]; intros mt1 n dm acc Hnd Hr.
    - simpl. rewrite app_nil_r. reflexivity.
    - inversion Hr as [|? ? Hq Hr']; subst. simpl in Hq.
      cbn [map foldM]. unfold add at 1.
      change (is_M (MG (name, qs))) with true. cbn [negb].
      assert (E : existsb (fun q : Z => n <=? q) (gtargets (MG (name, qs))) = false).
      { simpl. clear -Hq. induction Hq as [|q l Hq Hl IHl]; simpl; [reflexivity|].
        rewrite IHl. destruct (n <=? q) eqn:E; [apply Z.leb_le in E; lia | reflexivity]. }
      cbn [cn]. rewrite E. rewrite basis_gates_MG. cbn [foldM rbind].
      change (greg (MG (name, qs))) with (Some name).
      rewrite reg_names_MG.
      assert (Hmem : mem_str name (map fst mt1) = false).
      { destruct (mem_str name (map fst mt1)) eqn:Em; [|reflexivity]. apply mem_str_In in Em.
        rewrite map_app in Hnd. simpl in Hnd. apply NoDup_remove_2 in Hnd. exfalso. apply Hnd.
        apply in_or_app. left. exact Em. }
      rewrite Hmem. cbn [rbind cn cdm cqueue cmeas]. change (gcollapse (MG (name, qs))) with false. cbn iota.
      rewrite app_length, map_length.
      replace ((acc ++ map MG mt1) ++ [MG (name, qs)]) with (acc ++ map MG (mt1 ++ [(name, qs)]))
        by (rewrite map_app, app_assoc; reflexivity).
      replace (seq (length acc) (length mt1) ++ [(length acc + length mt1)%nat])
        with (seq (length acc) (length (mt1 ++ [(name, qs)])))
        by (rewrite app_length; simpl; rewrite seq_app; reflexivity).
      rewrite IH.
      + rewrite <- app_assoc. reflexivity.
      + rewrite <- app_assoc. exact Hnd.
      + exact Hr'.
  Qed.

  Lemma measurement_tuples_MG : forall n dm acc mt,
    NoDup (map fst mt) ->
    measurement_tuples (mkC n dm (acc ++ map MG mt) (seq (length acc) (length mt))) = mt.
  Proof.
    intros n dm acc mt Hnd. unfold measurement_tuples, nth_gate. simpl.
    assert (G : forall (l : list gate) (acc : list gate) a d, length acc = a ->
              fold_left (fun d i => match nth_error (acc ++ l) i with
                                    | Some m => match greg m with Some s => dict_set s (gtargets m) d | None => d end
                                    | None => d end) (seq a (length l)) d
              = fold_left (fun d m => match greg m with Some s => dict_set s (gtargets m) d | None => d end) l d).
    { induction l as [|x l IH]; intros acc0 a d Ha; simpl; [reflexivity|].
      rewrite nth_error_app2 by lia. rewrite Ha, Nat.sub_diag. simpl.
      replace (acc0 ++ x :: l) with ((acc0 ++ [x]) ++ l) by (rewrite <- app_assoc; reflexivity).
      apply IH. rewrite app_length. simpl. lia. }
    rewrite <- (map_length MG mt). rewrite (G (map MG mt) acc (length acc) [] eq_refl).
    assert (G2 : forall mt2 mt1, NoDup (map fst (mt1 ++ mt2)) ->
              fold_left (fun d m => match greg m with Some s => dict_set s (gtargets m) d | None => d end) (map MG mt2) mt1
              = mt1 ++ mt2).
    { induction mt2 as [|[name qs] mt2 IH]; intros mt1 Hn; simpl; [rewrite app_nil_r; reflexivity|].
      rewrite dict_set_notin.
      - rewrite IH; rewrite <- app_assoc; [reflexivity | exact Hn].
      - apply lookup_none_notin. rewrite map_app in Hn. simpl in Hn. apply NoDup_remove_2 in Hn.
        intro Hin. apply Hn. apply in_or_app. left. exact Hin. }
    apply (G2 mt []). exact Hnd.
  Qed.

  (* ---------------------------------------------------------------- the theorem *)
  Definition measured (c : circuit) : list gate :=
    flat_map (fun i => match nth_gate (cqueue c) i with Some m => [m] | None => [] end) (cmeas c).
  Definition reg_of (m : gate) : option string * list Z := (greg m, gtargets m).
  Definition nonM (g : gate) : bool := negb (is_M g).

  (* c is a well-formed circuit whose pending measurements are the registers mt, none collapsed *)
  Record wf_for_qasm (c : circuit) (mt : list (string * list Z)) : Prop := {
    wf_n : 0 <= cn c;
    wf_gates : Forall (gate_ok (cn c)) (filter nonM (cqueue c));
    wf_nocollapse : filter is_M (cqueue c) = measured c;
    wf_regs : map reg_of (measured c) = map (fun rq => (Some (fst rq), snd rq)) mt;
    wf_names : NoDup (map fst mt);
    wf_mq : Forall (fun rq => snd rq <> [] /\ nodupZ (snd rq) = true /\ Forall (fun q => 0 <= q < cn c) (snd rq)) mt
  }.

  Definition mstep (d : list (string * list Z)) (m : gate) : list (string * list Z) :=
    match greg m with Some s => dict_set s (gtargets m) d | None => d end.

  Lemma measurement_tuples_measured : forall c, measurement_tuples c = fold_left mstep (measured c) [].
  Proof.
    intros c. unfold measurement_tuples, measured. generalize (@nil (string * list Z)).
    induction (cmeas c) as [|i l IH]; intros d; simpl; [reflexivity|].
    rewrite fold_left_app. rewrite <- IH. destruct (nth_gate (cqueue c) i); reflexivity.
  Qed.

  Lemma measurement_tuples_wf : forall c mt, wf_for_qasm c mt -> measurement_tuples c = mt.
  Proof.
    intros c mt W. rewrite measurement_tuples_measured.
    assert (G : forall ms mt2 mt1, map reg_of ms = map (fun rq => (Some (fst rq), snd rq)) mt2 ->
              NoDup (map fst (mt1 ++ mt2)) -> fold_left mstep ms mt1 = mt1 ++ mt2).
    { induction ms as [|m ms IH]; intros [|[name qs] mt2] mt1 He Hn; simpl in He; try discriminate.
      - simpl. rewrite app_nil_r. reflexivity.
      - unfold reg_of in He at 1. injection He as Hg Ht He. simpl in Hg, Ht. simpl.
        unfold mstep at 2. rewrite Hg, Ht. rewrite dict_set_notin.
        + rewrite (IH mt2 (mt1 ++ [(name, qs)]) He); rewrite <- app_assoc; [reflexivity | exact Hn].
        + apply lookup_none_notin. rewrite map_app in Hn. simpl in Hn. apply NoDup_remove_2 in Hn.
          intro Hin. apply Hn. apply in_or_app. left. exact Hin. }
    apply (G (measured c) mt []); [apply (wf_regs c mt W) | apply (wf_names c mt W)].
  Qed.

  Lemma mapM_cregs : forall mt cregs,
    mapM (fun rq : string * list Z => b <- py_islower (fst rq);
            if b then OK (SCreg (fst rq) (Z.of_nat (length (snd rq)))) else Err ENameError) mt = OK cregs ->
    cregs = map creg_of mt.
  Proof.
    induction mt as [|rq mt IH]; intros cregs H; simpl in H.
    - injection H as <-. reflexivity.
    - apply rbind_ok in H. destruct H as (st & Hst & H).
      apply rbind_ok in H. destruct H as (rest & Hrest & H). injection H as <-.
      apply rbind_ok in Hst. destruct Hst as (b & _ & Hb). destruct b; [|discriminate].
      injection Hb as <-. simpl. f_equal. apply IH, Hrest.
  Qed.

  Theorem qasm_roundtrip_main : forall c mt s,
    wf_for_qasm c mt -> write rows c = OK s ->
    exists c' gs', read rows bases specials rotation s = OK c' /\ cn c' = cn c
      /\ cqueue c' = gs' ++ map MG mt /\ cmeas c' = seq (length gs') (length mt)
      /\ Forall2 gate_equiv (filter nonM (cqueue c)) gs' /\ Forall (fun g => is_M g = false) gs'
      /\ measurement_tuples c' = measurement_tuples c.
  Proof.
    intros c mt s W Hw. unfold write in Hw.
    rewrite (measurement_tuples_wf c mt W) in Hw.
    apply rbind_ok in Hw. destruct Hw as (cregs & Hcregs & Hw).
    apply rbind_ok in Hw. destruct Hw as (gs & Hgs & Hw). injection Hw as <-.
    apply mapM_cregs in Hcregs. subst cregs.
    change (filter (fun g : gate => negb (is_M g)) (cqueue c)) with (filter nonM (cqueue c)) in Hgs.
    set (n := cn c) in *.
    assert (Hn : 0 <= n) by apply (wf_n c mt W).
    pose proof (wf_gates c mt W) as Hok. fold n in Hok.
    pose proof (wf_mq c mt W) as Hmq. fold n in Hmq.
    pose proof (wf_names c mt W) as Hnd.
    destruct (read_gates (filter nonM (cqueue c)) gs n (map unfilled mt) [] Hok Hgs) as (gs' & Hrg & H2 & HnM).
    assert (Htargets : Forall (fun g => is_M g = false /\ Forall (fun q => q < n) (gtargets g)) gs').
    { clear -H2 HnM Hok. revert HnM Hok. induction H2 as [|g g' l l' He Hl IH]; intros HnM Hok; constructor.
      - inversion HnM; subst. inversion Hok as [|? ? [_ [_ Hr]] ?]; subst. split; [assumption|].
        destruct He as (_ & Ht & _). rewrite Ht. unfold gqubits in Hr. apply Forall_app in Hr.
        destruct Hr as [_ Hr]. eapply Forall_impl; [|exact Hr]. simpl. intros; lia.
      - inversion HnM; subst. inversion Hok; subst. apply IH; assumption. }
    exists (mkC n false (gs' ++ map MG mt) (seq (length gs') (length mt))), gs'.
    split.
    - unfold read. cbn [foldM]. unfold read_stmt at 1.
      destruct (n <? 0) eqn:E; [apply Z.ltb_lt in E; lia|].
      cbn [rbind s_n s_q s_c s_gates dict_set]. change (0 + n) with n.
      change [("q", map (fun i : nat => 0 + Z.of_nat i) (seq 0 (Z.to_nat n)))] with (Q0 n).
      rewrite foldM_app.
      change (@nil (string * list Z)) with (map unfilled []) at 1.
      rewrite (read_cregs mt [] n (Q0 n) []) by exact Hnd.
      cbn [rbind app]. rewrite foldM_app. rewrite Hrg. cbn [rbind app].
      change (flat_map (fun rq : string * list Z =>
                 map (fun iq : nat * Z => SMeasure ("q", snd iq) (fst rq) (Z.of_nat (fst iq)))
                     (combine (seq 0 (length (snd rq))) (snd rq))) mt) with (flat_map meas_of mt).
      assert (HR : Forall (fun rq : string * list Z => Forall (fun q => 0 <= q < n) (snd rq)) mt).
      { eapply Forall_impl; [|exact Hmq]. intros rq (_ & _ & Hr). exact Hr. }
      pose proof (read_meas_all mt [] n gs' Hnd HR) as Hm. cbn [app] in Hm. rewrite Hm. clear Hm.
      cbn [rbind app s_c s_gates s_n].
      rewrite merge_nonM by exact HnM.
      rewrite merge_regs.
      + cbn [rbind]. unfold build. rewrite foldM_app. unfold cinit.
        rewrite (build_plain gs' n false [] Htargets). cbn [rbind app].
        pose proof (build_meas mt [] n false gs') as Hb. cbn [map app length seq] in Hb.
        rewrite app_nil_r in Hb. apply Hb; [exact Hnd|].
        eapply Forall_impl; [|exact Hmq]. intros rq (_ & _ & Hr). eapply Forall_impl; [|exact Hr].
        simpl. intros; lia.
      + exact Hnd.
      + eapply Forall_impl; [|exact Hmq]. intros rq (Ha & Hb & _). split; assumption.
    - repeat split; try assumption; try reflexivity.
      rewrite (measurement_tuples_wf c mt W). apply measurement_tuples_MG. exact Hnd.
  Qed.
End Qasm.

(* ------------------------------------------------------------------ from the boolean table checks to gate_fact *)
Lemma find_row_name : forall n rows r, find_row n rows = Some r -> rname r = n.
Proof.
  induction rows as [|r0 rows IH]; intros r H; simpl in H; [discriminate|].
  destruct (String.eqb n (rname r0)) eqn:E; [|apply IH, H].
  injection H as <-. apply String.eqb_eq in E. symmetry. exact E.
Qed.
Lemma find_row_In : forall n rows r, find_row n rows = Some r -> In r rows.
Proof.
  induction rows as [|r0 rows IH]; intros r H; simpl in H; [discriminate|].
  destruct (String.eqb n (rname r0)); [injection H as <-; left; reflexivity | right; apply IH, H].
Qed.

(* what the per-class theorems generated over the regenerated tables establish for a labelled class *)
Definition class_fact (rows : list row) (bases : list string) (specials : list (string * string)) (r : row) : Prop :=
  label_resolves rows specials r
  /\ (star_shape r = true -> star_row r)
  /\ (star_shape r = false ->
      std_ctor bases r (length (rcontrols r)) (length (rcontrols r) + length (rtargets r)) (length (rparams r))).

(* checkable condition on a gate: its class has a label that passes the table check and the gate has the
   numbers of controls / targets / parameters of its class *)
Definition gate_check (rows : list row) (specials : list (string * string)) (g : gate) : bool :=
  match find_row (gcls g) rows with
  | Some r =>
      label_row_ok rows specials r && negb (is_M g)
      && (if star_shape r
          then Nat.eqb (length (gcontrols g)) 0 && Nat.eqb (length (gparams g)) 0
          else Nat.eqb (length (gcontrols g)) (length (rcontrols r))
               && Nat.eqb (length (gtargets g)) (length (rtargets r))
               && Nat.eqb (length (gparams g)) (length (rparams r)))
  | None => false
  end.

Lemma gate_fact_of_check : forall rows bases specials,
  (forall r, In r rows -> label_row_ok rows specials r = true -> class_fact rows bases specials r) ->
  forall g, gate_check rows specials g = true -> gate_fact rows bases specials g.
Proof.
  intros rows bases specials Hall g Hc. unfold gate_check in Hc.
  destruct (find_row (gcls g) rows) as [r|] eqn:Hr; [|discriminate].
  apply andb_true_iff in Hc. destruct Hc as [Hc Hshape]. apply andb_true_iff in Hc. destruct Hc as [Hl HnM].
  destruct (Hall r (find_row_In _ _ _ Hr) Hl) as (Hres & Hstar & Hstd).
  unfold label_resolves in Hres. unfold label_row_ok in Hl.
  destruct (rlabel r) as [l|] eqn:El; [|discriminate].
  apply andb_true_iff in Hl. destruct Hl as [Hl _]. apply andb_true_iff in Hl. destruct Hl as [Hl Hpar].
  exists r, l. split; [exact Hr|]. split; [exact El|]. split; [exact Hres|].
  apply negb_true_iff in HnM.
  destruct (star_shape r) eqn:Es.
  - apply andb_true_iff in Hshape. destruct Hshape as [H1 H2].
    apply Nat.eqb_eq in H1. apply Nat.eqb_eq in H2.
    split; [rewrite H1, H2; apply star_row_std; apply Hstar; reflexivity|].
    split; [right; destruct (gparams g); [reflexivity | discriminate H2]|].
    split; [apply (find_row_name _ _ _ Hr) | exact HnM].
  - apply andb_true_iff in Hshape. destruct Hshape as [H12 H3]. apply andb_true_iff in H12. destruct H12 as [H1 H2].
    apply Nat.eqb_eq in H1. apply Nat.eqb_eq in H2. apply Nat.eqb_eq in H3.
    split; [rewrite H1, H2, H3; apply Hstd; reflexivity|].
    split.
    + apply orb_true_iff in Hpar. destruct Hpar as [Hp|Hp]; [left; exact Hp|].
      right. apply Nat.eqb_eq in Hp. rewrite Hp in H3. destruct (gparams g); [reflexivity | discriminate H3].
    + split; [apply (find_row_name _ _ _ Hr) | exact HnM].
Qed.

(* well-formedness of a circuit for the QASM theorem, with checkable conditions only *)
Record qasm_exportable (rows : list row) (specials : list (string * string)) (c : circuit)
       (mt : list (string * list Z)) : Prop := {
  qe_n : 0 <= cn c;
  qe_gates : Forall (fun g => gate_check rows specials g = true
                              /\ check_qubits (gtargets g) (gcontrols g) = true
                              /\ Forall (fun q => 0 <= q < cn c) (gqubits g)) (filter nonM (cqueue c));
  qe_nocollapse : filter is_M (cqueue c) = measured c;
  qe_regs : map reg_of (measured c) = map (fun rq => (Some (fst rq), snd rq)) mt;
  qe_names : NoDup (map fst mt);
  qe_mq : Forall (fun rq => snd rq <> [] /\ nodupZ (snd rq) = true /\ Forall (fun q => 0 <= q < cn c) (snd rq)) mt
}.

Theorem qasm_roundtrip_checked : forall rows bases specials rotation,
  M_tables_ok rows bases rotation ->
  (forall r, In r rows -> label_row_ok rows specials r = true -> class_fact rows bases specials r) ->
  forall c mt s, qasm_exportable rows specials c mt -> write rows c = OK s ->
  exists c' gs', read rows bases specials rotation s = OK c' /\ cn c' = cn c
    /\ cqueue c' = gs' ++ map MG mt /\ cmeas c' = seq (length gs') (length mt)
    /\ Forall2 gate_equiv (filter nonM (cqueue c)) gs' /\ Forall (fun g => is_M g = false) gs'
    /\ measurement_tuples c' = measurement_tuples c.
Proof.
  intros rows bases specials rotation HM Hall c mt s E Hw.
  apply (qasm_roundtrip_main rows bases specials rotation HM c mt s); [|exact Hw].
  destruct E as [En Eg Enc Er Enm Emq].
  constructor; try assumption.
  eapply Forall_impl; [|exact Eg]. intros g (Hc & Hq & Hr). split; [|split; assumption].
  apply (gate_fact_of_check rows bases specials Hall g Hc).
Qed.

(* ================================================================== results *)
Section ResultProofs.
  Variables (St Pr Sa Fr : Type).
  Variable draw : Pr -> Z -> Sa.
  Variable freq_of : Sa -> Fr.       (* backend.calculate_frequencies: frequencies are a function of the samples *)

  (* what r.frequencies() returns without drawing anything new *)
  Definition obs_freq (r : mo Pr Sa Fr) : option Fr :=
    match mo_freq _ _ _ r with
    | Some f => Some f
    | None => option_map freq_of (mo_samples _ _ _ r)
    end.
  (* invariant of real objects: cached frequencies agree with the samples when both exist *)
  Definition mo_consistent (r : mo Pr Sa Fr) : Prop :=
    forall s f, mo_samples _ _ _ r = Some s -> mo_freq _ _ _ r = Some f -> f = freq_of s.

  Lemma mo_roundtrip : forall r : mo Pr Sa Fr,
    mo_consistent r ->
    (mo_freq _ _ _ r = None \/ exists s, mo_samples _ _ _ r = Some s) ->
    let r' := mo_from_dict _ _ _ (mo_to_dict _ _ _ r) in
    mo_meas _ _ _ r' = mo_meas _ _ _ r /\ mo_nshots _ _ _ r' = mo_nshots _ _ _ r
    /\ mo_samples _ _ _ r' = mo_samples _ _ _ r
    /\ (mo_samples _ _ _ r = None -> mo_probs _ _ _ r' = mo_probs _ _ _ r)
    /\ obs_freq r' = obs_freq r.
  Proof.
    intros [ms p s n f] Hc Hor. unfold mo_consistent in Hc. simpl in *.
    unfold mo_from_dict, mo_to_dict, obs_freq. simpl.
    repeat split.
    - intros ->. destruct p; reflexivity.
    - destruct f as [f|]; [|reflexivity].
      destruct Hor as [Hf|[s0 Hs]]; [discriminate|]. subst s. simpl. f_equal. symmetry. apply Hc; reflexivity.
  Qed.

  Lemma mo_roundtrip_refuted_witness : forall (p : Pr) (f : Fr),
    let r := mkMO Pr Sa Fr [] (Some p) None 10 (Some f) in
    obs_freq r = Some f /\ obs_freq (mo_from_dict _ _ _ (mo_to_dict _ _ _ r)) = None.
  Proof. intros. split; reflexivity. Qed.

  Lemma cr_roundtrip : forall (r : cr St Pr Sa Fr) r',
    cr_from_dict St Pr Sa Fr draw (cr_to_dict St Pr Sa Fr r) = Some r' ->
    cr_state _ _ _ _ r' = cr_state _ _ _ _ r
    /\ mo_meas _ _ _ (cr_mo _ _ _ _ r') = mo_meas _ _ _ (cr_mo _ _ _ _ r)
    /\ mo_nshots _ _ _ (cr_mo _ _ _ _ r') = mo_nshots _ _ _ (cr_mo _ _ _ _ r)
    /\ (forall s, mo_samples _ _ _ (cr_mo _ _ _ _ r) = Some s -> mo_samples _ _ _ (cr_mo _ _ _ _ r') = Some s).
  Proof.
    intros [st [ms p s n f]] r' H. unfold cr_from_dict, cr_to_dict, mo_from_dict, mo_to_dict in H. simpl in H.
    destruct s as [s|]; simpl in H.
    - destruct p; simpl in H; injection H as <-; simpl; repeat split; auto.
    - destruct p as [p|]; simpl in H; [|discriminate]. injection H as <-. simpl. repeat split; auto. discriminate.
  Qed.
End ResultProofs.

(* ================================================================== the writer refuses what it cannot express *)
Lemma mapM_Forall : forall A B (f : A -> res B) l r,
  mapM f l = OK r -> Forall (fun a => exists b, f a = OK b) l.
Proof.
  induction l as [|a l IH]; intros r H; simpl in H; [constructor|].
  apply rbind_ok in H. destruct H as (b & Hb & H). apply rbind_ok in H. destruct H as (bs & Hbs & _).
  constructor; [exists b; exact Hb | apply (IH bs Hbs)].
Qed.

Lemma write_ok_inv : forall rows c s,
  write rows c = OK s ->
  Forall (fun g => is_M g = false ->
                   gcb g = false /\ exists r l, find_row (gcls g) rows = Some r /\ rlabel r = Some l) (cqueue c)
  /\ Forall (fun rq => py_islower (fst rq) = OK true) (measurement_tuples c).
Proof.
  intros rows c s H. unfold write in H.
  apply rbind_ok in H. destruct H as (cregs & Hc & H). apply rbind_ok in H. destruct H as (gs & Hg & _).
  split.
  - apply mapM_Forall in Hg. rewrite Forall_forall in *. intros g Hin HnM.
    assert (Hin' : In g (filter (fun g0 : gate => negb (is_M g0)) (cqueue c))).
    { apply filter_In. split; [exact Hin | rewrite HnM; reflexivity]. }
    destruct (Hg g Hin') as (st & Hst). unfold write_gate in Hst.
    destruct (gcb g); [discriminate|]. split; [reflexivity|].
    destruct (find_row (gcls g) rows) as [r|]; [|discriminate].
    destruct (rlabel r) as [l|] eqn:El; [|discriminate]. exists r, l. split; [reflexivity | exact El].
  - apply mapM_Forall in Hc. eapply Forall_impl; [|exact Hc].
    intros rq (st & Hst). apply rbind_ok in Hst. destruct Hst as (b & Hb & Hst).
    destruct b; [exact Hb | discriminate].
Qed.

(* ================================================================== Gate.raw / from_dict with controlled_by *)
Definition with_controls (g : gate) (cs : list Z) : gate :=
  mkGate (gcls g) (gargs g) (gkw g) (gtargets g) cs (gparams g) true (greg g) (gcollapse g) (gbasis g) (gsamples g).

(* if the plain gate g survives raw/from_dict then so does g.controlled_by( *cs ), for every set of
   controls for which controlled_by does not switch to another class *)
Lemma raw_roundtrip_controlled : forall rows bases required g g' r cs,
  find_row (gcls g) rows = Some r -> rcb r = CBGate -> String.eqb (gcls g) "M" = false ->
  gcontrols g = [] -> cs <> [] -> memZ (Z.of_nat (length cs)) (rdispatch r) = false ->
  nodupZ cs = true -> overlapZ (gtargets g) cs = false ->
  from_dict rows bases (raw required g) = OK g' -> raw_rt_ok (OK g') g ->
  from_dict rows bases (raw required (with_controls g cs)) = OK (with_controls g' cs)
  /\ raw_rt_ok (OK (with_controls g' cs)) (with_controls g cs).
Proof.
  intros rows bases required g g' r cs Hr Hcb HnM Hc Hne Hd Hnd Hov Hfd (Hcls & Ht & Hcs & Hp & Hb).
  unfold from_dict, raw in *. simpl in *. rewrite Hr in *. rewrite HnM in *.
  apply rbind_ok in Hfd. destruct Hfd as (g0 & Hg0 & Hdance).
  rewrite Hg0. simpl.
  unfold controlled_by_dance in *. rewrite Hcb in *. rewrite Hc in Hdance.
  assert (Hg0c : gcontrols g0 = []).
  { destruct (gcontrols g0) eqn:E; [reflexivity|]. injection Hdance as <-. rewrite Hcs in E. rewrite Hc in E. discriminate. }
  rewrite Hg0c in *. injection Hdance as <-.
  destruct cs as [|c0 cs]; [congruence|].
  rewrite Hd. rewrite <- Ht in Hov. rewrite Hnd, Hov. cbn [negb andb].
  split; [reflexivity|]. unfold with_controls. simpl. repeat split; auto.
Qed.

(* ================================================================== Circuit.raw / Circuit.from_dict *)
(* everything of a gate except the constructor-argument bookkeeping (init_args / init_kwargs / samples) *)
Definition gsame (g g' : gate) : Prop :=
  gcls g = gcls g' /\ gtargets g = gtargets g' /\ gcontrols g = gcontrols g' /\ gparams g = gparams g'
  /\ gcb g = gcb g' /\ greg g = greg g' /\ gcollapse g = gcollapse g' /\ gbasis g = gbasis g'.

Definition circ_rel (c c' : circuit) : Prop :=
  cn c = cn c' /\ cdm c = cdm c' /\ cmeas c = cmeas c' /\ Forall2 gsame (cqueue c) (cqueue c').

Lemma gsame_refl : forall g, gsame g g.
Proof. intro g. repeat split; reflexivity. Qed.
Lemma gsame_qubits : forall g g', gsame g g' -> gqubits g = gqubits g'.
Proof. intros g g' (_ & Ht & Hc & _). unfold gqubits. rewrite Ht, Hc. reflexivity. Qed.
Lemma gsame_isM : forall g g', gsame g g' -> is_M g = is_M g'.
Proof. intros g g' (Hc & _). unfold is_M. rewrite Hc. reflexivity. Qed.
Lemma gsame_set_collapse : forall g g', gsame g g' -> gsame (set_collapse g) (set_collapse g').
Proof. intros g g' (H1 & H2 & H3 & H4 & H5 & H6 & H7 & H8). repeat split; simpl; assumption. Qed.
Lemma gsame_set_reg : forall g g' s, gsame g g' -> gsame (set_reg g s) (set_reg g' s).
Proof. intros g g' s (H1 & H2 & H3 & H4 & H5 & H6 & H7 & H8). repeat split; simpl; assumption. Qed.

Lemma Forall2_nth_error : forall A B (R : A -> B -> Prop) l l' i,
  Forall2 R l l' ->
  match nth_error l i, nth_error l' i with
  | Some a, Some b => R a b
  | None, None => True
  | _, _ => False
  end.
Proof.
  intros A B R l l' i H. revert i. induction H as [|a b l l' Hab H IH]; intros [|i]; simpl; auto. apply IH.
Qed.
Lemma Forall2_set_nth : forall A B (R : A -> B -> Prop) l l' i a b,
  Forall2 R l l' -> R a b -> Forall2 R (set_nth i a l) (set_nth i b l').
Proof.
  intros A B R l l' i a b H Hab. revert i. induction H as [|x y l l' Hxy H IH]; intros [|i]; simpl; constructor; auto.
Qed.
Lemma Forall2_app_one : forall A B (R : A -> B -> Prop) l l' a b,
  Forall2 R l l' -> R a b -> Forall2 R (l ++ [a]) (l' ++ [b]).
Proof. intros. apply Forall2_app; [assumption | constructor; [assumption | constructor]]. Qed.
Lemma Forall2_length : forall A B (R : A -> B -> Prop) l l', Forall2 R l l' -> length l = length l'.
Proof. intros A B R l l' H. induction H; simpl; congruence. Qed.

Section CircuitDict.
  Variable rotation : string -> Z -> option gate.

  Lemma add_plain_rel : forall c c' g g' c1,
    circ_rel c c' -> gsame g g' -> add_plain c g = OK c1 ->
    exists c1', add_plain c' g' = OK c1' /\ circ_rel c1 c1'.
  Proof.
    intros c c' g g' c1 (Hn & Hdm & Hm & Hq) Hg H. unfold add_plain in *.
    pose proof Hg as (_ & Ht & _).
    rewrite <- Hn, <- Ht, <- Hm, <- Hdm.
    destruct (existsb (fun q : Z => cn c <=? q) (gtargets g)); [discriminate|].
    injection H as <-.
    assert (Htouch : forall i,
      match nth_gate (cqueue c) i with Some m => overlapZ (gqubits m) (gqubits g) | None => false end
      = match nth_gate (cqueue c') i with Some m => overlapZ (gqubits m) (gqubits g') | None => false end).
    { intro i. pose proof (Forall2_nth_error _ _ gsame _ _ i Hq) as Hi. unfold nth_gate.
      destruct (nth_error (cqueue c) i), (nth_error (cqueue c') i); try contradiction; [|reflexivity].
      rewrite (gsame_qubits _ _ Hi), (gsame_qubits _ _ Hg). reflexivity. }
    eexists. split; [reflexivity|].
    unfold circ_rel. simpl. repeat split; try assumption.
    - apply filter_ext. intro i. rewrite Htouch. reflexivity.
    - apply Forall2_app_one; [|exact Hg].
      generalize (cmeas c). intro l. revert Hq. generalize (cqueue c) at 1 3. generalize (cqueue c') at 1 3.
      induction l as [|i l IH]; intros q' q Hqq; simpl; [exact Hqq|].
      apply IH. rewrite <- Htouch.
      destruct (match nth_gate (cqueue c) i with Some m => overlapZ (gqubits m) (gqubits g) | None => false end); [|exact Hqq].
      pose proof (Forall2_nth_error _ _ gsame _ _ i Hqq) as Hi. unfold nth_gate.
      destruct (nth_error q i), (nth_error q' i); try contradiction; [|exact Hqq].
      apply Forall2_set_nth; [exact Hqq | apply gsame_set_collapse, Hi].
  Qed.

  Lemma foldM_add_plain_rel : forall gs c c' c1,
    circ_rel c c' -> foldM add_plain gs c = OK c1 ->
    exists c1', foldM add_plain gs c' = OK c1' /\ circ_rel c1 c1'.
  Proof.
    induction gs as [|g gs IH]; intros c c' c1 Hr H; simpl in *.
    - injection H as <-. exists c'. split; [reflexivity | exact Hr].
    - apply rbind_ok in H. destruct H as (c2 & H2 & H).
      destruct (add_plain_rel c c' g g c2 Hr (gsame_refl g) H2) as (c2' & H2' & Hr2).
      rewrite H2'. simpl. apply (IH c2 c2' c1 Hr2 H).
  Qed.

  Lemma count_M_rel : forall q q', Forall2 gsame q q' -> count_M q = count_M q'.
  Proof.
    intros q q' H. unfold count_M. induction H as [|g g' q q' Hg H IH]; simpl; [reflexivity|].
    rewrite (gsame_isM _ _ Hg). destruct (is_M g'); simpl; congruence.
  Qed.

  Lemma reg_names_rel : forall c c', circ_rel c c' -> reg_names c = reg_names c'.
  Proof.
    intros c c' (_ & _ & Hm & Hq). unfold reg_names. rewrite <- Hm. clear Hm.
    generalize (cmeas c). intro l.
    induction l as [|i l IH]; simpl; [reflexivity|]. rewrite IH. f_equal.
    pose proof (Forall2_nth_error _ _ gsame _ _ i Hq) as Hi. unfold nth_gate.
    destruct (nth_error (cqueue c) i), (nth_error (cqueue c') i); try contradiction; [|reflexivity].
    destruct Hi as (_ & _ & _ & _ & _ & Hreg & _). rewrite Hreg. reflexivity.
  Qed.

  Lemma basis_gates_rel : forall g g', gsame g g' -> basis_gates rotation g = basis_gates rotation g'.
  Proof. intros g g' (_ & Ht & _ & _ & _ & _ & _ & Hb). unfold basis_gates. rewrite Ht, Hb. reflexivity. Qed.

  Lemma add_rel : forall c c' g g' c1,
    circ_rel c c' -> gsame g g' -> add rotation c g = OK c1 ->
    exists c1', add rotation c' g' = OK c1' /\ circ_rel c1 c1'.
  Proof.
    intros c c' g g' c1 Hr Hg H. unfold add in *.
    rewrite <- (gsame_isM _ _ Hg). destruct (is_M g) eqn:EM; simpl in *.
    2:{ apply (add_plain_rel c c' g g' c1 Hr Hg H). }
    pose proof Hr as (Hn & _). pose proof Hg as (_ & Ht & _ & _ & _ & Hreg & Hcol & _).
    rewrite <- Hn, <- Ht. destruct (existsb (fun q : Z => cn c <=? q) (gtargets g)); [discriminate|].
    apply rbind_ok in H. destruct H as (c2 & H2 & H).
    rewrite <- (basis_gates_rel _ _ Hg).
    destruct (foldM_add_plain_rel _ c c' c2 Hr H2) as (c2' & H2' & Hr2).
    rewrite H2'. simpl.
    pose proof Hr2 as (Hn2 & Hdm2 & Hm2 & Hq2).
    rewrite <- (reg_names_rel _ _ Hr2), <- (count_M_rel _ _ Hq2), <- Hreg.
    apply rbind_ok in H. destruct H as (g1 & Hg1 & H). injection H as <-.
    destruct (greg g) as [s|] eqn:Eg.
    - destruct (mem_str s (reg_names c2)); [discriminate|]. injection Hg1 as <-. simpl.
      eexists. split; [reflexivity|]. unfold circ_rel. simpl.
      rewrite <- Hcol, <- Hm2, <- (Forall2_length _ _ _ _ _ Hq2).
      repeat split; try assumption. apply Forall2_app_one; assumption.
    - injection Hg1 as <-. simpl.
      eexists. split; [reflexivity|]. unfold circ_rel. simpl.
      rewrite <- Hcol, <- Hm2, <- (Forall2_length _ _ _ _ _ Hq2).
      repeat split; try assumption. apply Forall2_app_one; [assumption | apply gsame_set_reg, Hg].
  Qed.

  (* ---- Circuit.add never changes what Gate.raw reads of a gate that is already in the queue *)
  Variable required : list string.

  Lemma raw_set_collapse : forall g, raw required (set_collapse g) = raw required g.
  Proof. reflexivity. Qed.
  Lemma raw_set_reg : forall g s, raw required (set_reg g s) = raw required g.
  Proof. reflexivity. Qed.

  Lemma map_raw_set_nth : forall q i m,
    nth_error q i = Some m -> map (raw required) (set_nth i (set_collapse m) q) = map (raw required) q.
  Proof.
    induction q as [|g q IH]; intros [|i] m H; simpl in *; try discriminate.
    - injection H as <-. reflexivity.
    - rewrite (IH i m H). reflexivity.
  Qed.

  Lemma fold_collapse_raw : forall (t : nat -> bool) l q,
    map (raw required)
        (fold_left (fun (q : list gate) (i : nat) =>
                      if t i then match nth_gate q i with Some m => set_nth i (set_collapse m) q | None => q end
                      else q) l q)
    = map (raw required) q.
  Proof.
    intros t l. induction l as [|i l IH]; intro q; simpl; [reflexivity|].
    rewrite IH. destruct (t i); [|reflexivity]. unfold nth_gate.
    destruct (nth_error q i) eqn:E; [apply (map_raw_set_nth q i g E) | reflexivity].
  Qed.

  Lemma add_plain_raw : forall c g c1,
    add_plain c g = OK c1 -> map (raw required) (cqueue c1) = map (raw required) (cqueue c) ++ [raw required g].
  Proof.
    intros c g c1 H. unfold add_plain in H.
    destruct (existsb (fun q : Z => cn c <=? q) (gtargets g)); [discriminate|]. injection H as <-. simpl.
    rewrite map_app. simpl. f_equal.
    apply (fold_collapse_raw (fun i : nat => match nth_gate (cqueue c) i with
                                             | Some m => overlapZ (gqubits m) (gqubits g) | None => false end)).
  Qed.

  Lemma add_raw : forall c g c1,
    add rotation c g = OK c1 -> basis_gates rotation g = [] ->
    map (raw required) (cqueue c1) = map (raw required) (cqueue c) ++ [raw required g].
  Proof.
    intros c g c1 H Hb. unfold add in H. destruct (is_M g); simpl in H.
    2:{ apply add_plain_raw, H. }
    destruct (existsb (fun q : Z => cn c <=? q) (gtargets g)); [discriminate|].
    rewrite Hb in H. simpl in H.
    apply rbind_ok in H. destruct H as (g1 & Hg1 & H). injection H as <-. simpl.
    rewrite map_app. simpl. f_equal. f_equal.
    destruct (greg g); [destruct (mem_str s (reg_names c)); [discriminate|] |]; injection Hg1 as <-; reflexivity.
  Qed.

  Lemma build_raw : forall gs c0 c,
    foldM (add rotation) gs c0 = OK c -> Forall (fun g => basis_gates rotation g = []) gs ->
    map (raw required) (cqueue c) = map (raw required) (cqueue c0) ++ map (raw required) gs.
  Proof.
    induction gs as [|g gs IH]; intros c0 c H Hb; simpl in *.
    - injection H as <-. rewrite app_nil_r. reflexivity.
    - apply rbind_ok in H. destruct H as (c1 & H1 & H). inversion Hb; subst.
      rewrite (IH c1 c H) by assumption. rewrite (add_raw c0 g c1 H1) by assumption.
      rewrite <- app_assoc. reflexivity.
  Qed.

  Variables (rows : list row) (bases : list string).

  Theorem circuit_dict_roundtrip_main : forall n dm gs c,
    build rotation n dm gs = OK c ->
    Forall (fun g => basis_gates rotation g = []
                     /\ exists g', from_dict rows bases (raw required g) = OK g' /\ gsame g g') gs ->
    exists c', cfrom_dict rows bases rotation (craw required c) = OK c' /\ circ_rel c c'.
  Proof.
    intros n dm gs c Hb Hall. unfold cfrom_dict, craw.
    assert (Hraw : map (raw required) (cqueue c) = map (raw required) gs).
    { unfold build in Hb. rewrite (build_raw gs (cinit n dm) c Hb); [reflexivity|].
      eapply Forall_impl; [|exact Hall]. intros g [H _]. exact H. }
    rewrite Hraw.
    assert (Hn : cn c = n /\ cdm c = dm).
    { unfold build in Hb. clear Hraw Hall.
      assert (G : forall gs c0 c, foldM (add rotation) gs c0 = OK c -> cn c = cn c0 /\ cdm c = cdm c0).
      { induction gs0 as [|g gs0 IH]; intros c0 c2 H; simpl in H; [injection H as <-; split; reflexivity|].
        apply rbind_ok in H. destruct H as (c1 & H1 & H). destruct (IH c1 c2 H) as [E1 E2]. rewrite E1, E2.
        clear -H1. unfold add in H1. destruct (is_M g); simpl in H1.
        - destruct (existsb (fun q : Z => cn c0 <=? q) (gtargets g)); [discriminate|].
          apply rbind_ok in H1. destruct H1 as (c3 & H3 & H1).
          apply rbind_ok in H1. destruct H1 as (g1 & _ & H1). injection H1 as <-. simpl.
          clear -H3. revert c0 c3 H3. induction (basis_gates rotation g) as [|b l IHl]; intros c0 c3 H3; simpl in H3.
          + injection H3 as <-. split; reflexivity.
          + apply rbind_ok in H3. destruct H3 as (c4 & H4 & H3). destruct (IHl c4 c3 H3) as [E1 E2]. rewrite E1, E2.
            unfold add_plain in H4. destruct (existsb (fun q : Z => cn c0 <=? q) (gtargets b)); [discriminate|].
            injection H4 as <-. split; reflexivity.
        - unfold add_plain in H1. destruct (existsb (fun q : Z => cn c0 <=? q) (gtargets g)); [discriminate|].
          injection H1 as <-. split; reflexivity. }
      apply (G gs (cinit n dm) c Hb). }
    destruct Hn as [-> ->].
    unfold build in Hb.
    assert (G : forall gs c0 c0' c, circ_rel c0 c0' -> foldM (add rotation) gs c0 = OK c ->
              Forall (fun g => exists g', from_dict rows bases (raw required g) = OK g' /\ gsame g g') gs ->
              exists c', foldM (fun c w => g <- from_dict rows bases w; add rotation c g) (map (raw required) gs) c0' = OK c'
                         /\ circ_rel c c').
    { induction gs0 as [|g gs0 IH]; intros c0 c0' c2 Hr H HF; simpl in *.
      - injection H as <-. exists c0'. split; [reflexivity | exact Hr].
      - apply rbind_ok in H. destruct H as (c1 & H1 & H). inversion HF as [|? ? (g' & Hfd & Hg) HF']; subst.
        rewrite Hfd. simpl.
        destruct (add_rel c0 c0' g g' c1 Hr Hg H1) as (c1' & H1' & Hr1). rewrite H1'. simpl.
        apply (IH c1 c1' c2 Hr1 H HF'). }
    apply (G gs (cinit n dm) (cinit n dm) c).
    - repeat split; constructor.
    - exact Hb.
    - eapply Forall_impl; [|exact Hall]. intros g [_ H]. exact H.
  Qed.
End CircuitDict.

(* ================================================================== M.raw / from_dict (used for the M gates of circuit_dict_roundtrip) *)
Definition M_keys : list string := ["register_name"; "collapse"; "basis"; "p0"; "p1"].

Lemma mapM_str_of_atom_length : forall l names, mapM str_of_atom l = OK names -> length names = length l.
Proof. intros. eapply mapM_length; eassumption. Qed.

Lemma M_raw_roundtrip : forall rows bases required rotation,
  M_tables_ok rows bases rotation -> forallb (fun k => mem_str k required) M_keys = true ->
  forall r pos kw g, find_row "M" rows = Some r -> construct bases r pos kw = OK g ->
  from_dict rows bases (raw required g) = OK g.
Proof.
  intros rows bases required rotation [(r0 & Hf0 & Hn0 & Hfs0) _] Hreq r pos kw g Hr Hc.
  rewrite Hf0 in Hr. injection Hr as <-.
  unfold construct in Hc. apply rbind_ok in Hc. destruct Hc as (e & _ & Hmk).
  rewrite Hn0 in Hmk. simpl in Hmk.
  unfold mk_M in Hmk.
  destruct (lookup "q" e) as [[?|qs]|]; try discriminate.
  destruct (lookup "register_name" e) as [[rn|?]|]; try discriminate.
  destruct (lookup "collapse" e) as [[[[| |col| | |]|?]|?]|]; try discriminate.
  destruct (lookup "basis" e) as [[bs|?]|]; try discriminate.
  destruct (lookup "p0" e) as [[p0|?]|]; try discriminate.
  destruct (lookup "p1" e) as [[p1|?]|]; try discriminate.
  apply rbind_ok in Hmk. destruct Hmk as (ts & Hts & Hmk).
  destruct (negb (nodupZ ts)) eqn:End; [discriminate|].
  apply rbind_ok in Hmk. destruct Hmk as (reg & Hreg & Hmk).
  apply rbind_ok in Hmk. destruct Hmk as (names & Hnames & Hmk).
  destruct (negb (forallb (fun s : string => mem_str s bases) names)) eqn:Eb; [discriminate|].
  destruct (col && negb (val_eqb p0 (VA ANone) && val_eqb p1 (VA ANone))) eqn:Ecol; [discriminate|].
  apply rbind_ok in Hmk. destruct Hmk as ([] & Hb0 & Hmk).
  apply rbind_ok in Hmk. destruct Hmk as ([] & Hb1 & Hmk).
  injection Hmk as <-.
  assert (Hlen : length names = length ts).
  { destruct bs as [a|l].
    - apply rbind_ok in Hnames. destruct Hnames as (s & _ & Hn). injection Hn as <-. apply repeat_length.
    - destruct (Nat.eqb (length l) (length ts)) eqn:El; [|discriminate]. apply Nat.eqb_eq in El.
      rewrite (mapM_str_of_atom_length l names Hnames). exact El. }
  unfold from_dict, raw. simpl.
  simpl in Hreq. repeat rewrite andb_true_iff in Hreq. destruct Hreq as (K1 & K2 & K3 & K4 & K5 & _).
  rewrite K1, K2, K3, K4, K5. simpl. rewrite Hf0. unfold construct. rewrite Hfs0, Hn0. simpl.
  unfold mk_M. simpl. rewrite Hts. simpl. rewrite End. rewrite Hreg. simpl.
  rewrite map_length, Hlen, Nat.eqb_refl. rewrite mapM_str_of_atom. simpl.
  rewrite Eb, Ecol, Hb0, Hb1. simpl. reflexivity.
Qed.
