(* C13/Proofs.v : definitions of the table checks, tactics used by the theorems that the harness
   generates over the regenerated tables, and the proofs behind C13/Props.v. *)
From Coq Require Import String Ascii List ZArith Bool Lia.
From QV Require Import C13.Model.
Import ListNotations.
Local Open Scope string_scope.
Local Open Scope Z_scope.

Definition q2v (q : Z) : val := VA (AInt q).

(* ------------------------------------------------------------------ table checks (boolean, run on the generated rows) *)
Definition src_name (s : qsrc) : string := match s with QOne f | QStar f | QList f => f end.
Definition is_one (s : qsrc) : bool := match s with QOne _ => true | _ => false end.

(* constructor order = (controls, targets, parameters), everything after that optional *)
Definition std_shape (r : row) : bool :=
  let qn := map src_name (rcontrols r ++ rtargets r) in
  let k := (length qn + length (rparams r))%nat in
  forallb is_one (rcontrols r ++ rtargets r)
  && forallb (fun f => match fkind f with FPos => true | _ => false end) (rformals r)
  && list_eqb String.eqb (firstn k (map fname (rformals r))) (qn ++ rparams r)
  && forallb (fun f => match fdef f with Some _ => true | None => false end) (skipn k (rformals r)).

Definition star_shape (r : row) : bool :=
  match rformals r, rtargets r, rcontrols r, rparams r with
  | [f], [QStar q], [], [] => match fkind f with FVar => String.eqb (fname f) q | _ => false end
  | _, _, _, _ => false
  end.

(* the label of the class is read back as the class itself, and what the writer prints after the
   label (sorted controls, targets, parameters) is what the constructor takes, in that order *)
Definition label_row_ok (rows : list row) (specials : list (string * string)) (r : row) : bool :=
  match rlabel r with
  | None => false
  | Some l =>
      match find_row (qibo_gate_name specials l) rows with
      | Some r' => String.eqb (rname r') (rname r)
      | None => false
      end
      && (std_shape r || star_shape r) && rmodelled r
      && (rparametrized r || Nat.eqb (length (rparams r)) 0)
      && negb (String.eqb (rname r) "M")
  end.

Definition label_resolves (rows : list row) (specials : list (string * string)) (r : row) : Prop :=
  match rlabel r with
  | Some l => find_row (qibo_gate_name specials l) rows = Some r
  | None => False
  end.

(* the constructor of class r, called with nq qubits (the first nc are controls) and np parameters,
   builds the gate with exactly these controls, targets and parameters *)
Definition std_ctor (bases : list string) (r : row) (nc nq np : nat) : Prop :=
  forall (qs : list Z) (ps : list val), length qs = nq -> length ps = np ->
    check_qubits (skipn nc qs) (firstn nc qs) = true ->
    exists g, construct bases r (map q2v qs ++ ps) [] = OK g /\ gcls g = rname r
              /\ gtargets g = skipn nc qs /\ gcontrols g = firstn nc qs /\ gparams g = ps /\ gcb g = false.

Definition star_row (r : row) : Prop :=
  exists q, rformals r = [mkF q FVar None] /\ rtargets r = [QStar q] /\ rcontrols r = []
            /\ rparams r = [] /\ rargs r = [AStar q] /\ rkw r = [] /\ rmodelled r = true
            /\ String.eqb (rname r) "M" = false.

Ltac std_ctor_tac :=
  let qs := fresh "qs" in let ps := fresh "ps" in
  let Hq := fresh "Hq" in let Hp := fresh "Hp" in let Hc := fresh "Hc" in
  intros qs ps Hq Hp Hc;
  destruct qs as [|? [|? [|? [|? qs]]]]; simpl in Hq; try discriminate Hq;
  destruct ps as [|? [|? [|? [|? ps]]]]; simpl in Hp; try discriminate Hp;
  cbv -[check_qubits] in Hc;
  eexists; split; [cbv -[check_qubits]; rewrite Hc; reflexivity | repeat split; reflexivity].

(* Gate.from_dict (Gate.raw g) gives back the class, the qubits and the parameters of g *)
Definition raw_rt_ok (r : res gate) (g : gate) : Prop :=
  match r with
  | OK g' => gcls g' = gcls g /\ gtargets g' = gtargets g /\ gcontrols g' = gcontrols g
             /\ gparams g' = gparams g /\ gcb g' = gcb g
  | Err _ => False
  end.

Ltac raw_rt_tac :=
  intros;
  match goal with
  | H : _ = OK _ |- _ =>
      cbv -[check_qubits] in H;
      match type of H with
      | (if ?b then _ else _) = _ =>
          let E := fresh "E" in
          destruct b eqn:E; [| discriminate H];
          injection H as <-;
          cbv -[check_qubits]; rewrite ?E; cbv -[check_qubits]; repeat split; reflexivity
      end
  end.

(* ------------------------------------------------------------------ small facts *)
Lemma mapM_as_int_q2v : forall qs, mapM as_int (map q2v qs) = OK qs.
Proof. induction qs as [|q qs IH]; simpl; [reflexivity|]. rewrite IH. reflexivity. Qed.

Lemma star_row_std : forall bases r, star_row r -> forall nq, std_ctor bases r 0 nq 0.
Proof.
  intros bases r (q & Hf & Ht & Hc & Hp & Ha & Hk & Hm & Hn) nq qs ps Hq Hps Hchk.
  destruct ps; [|discriminate Hps].
  rewrite app_nil_r. simpl in Hchk.
  unfold construct. rewrite Hf. simpl. rewrite Hn, Hm.
  unfold mk, qubits_all. rewrite Ht, Hc, Ha, Hk, Hp. simpl.
  rewrite String.eqb_refl. rewrite mapM_as_int_q2v. simpl.
  rewrite app_nil_r. rewrite Hchk.
  eexists; split; [reflexivity|]. simpl. repeat split; reflexivity.
Qed.

(* ------------------------------------------------------------------ monadic helpers *)
Lemma rbind_ok : forall A B (x : res A) (f : A -> res B) b,
  rbind x f = OK b -> exists a, x = OK a /\ f a = OK b.
Proof. intros A B [a|e] f b H; simpl in H; [eauto | discriminate]. Qed.

Lemma foldM_app : forall A B (f : B -> A -> res B) l1 l2 b,
  foldM f (l1 ++ l2)%list b = rbind (foldM f l1 b) (foldM f l2).
Proof.
  induction l1 as [|a l1 IH]; intros l2 b; simpl; [reflexivity|].
  destruct (f b a) as [b'|e]; simpl; [apply IH | reflexivity].
Qed.

Lemma mapM_app : forall A B (f : A -> res B) l1 l2 r1 r2,
  mapM f l1 = OK r1 -> mapM f l2 = OK r2 -> mapM f (l1 ++ l2)%list = OK (r1 ++ r2)%list.
Proof.
  induction l1 as [|a l1 IH]; intros l2 r1 r2 H1 H2; simpl in *.
  - injection H1 as <-. exact H2.
  - destruct (f a) as [b|e]; simpl in *; [|discriminate].
    destruct (mapM f l1) as [bs|e] eqn:E; simpl in *; [|discriminate].
    injection H1 as <-. rewrite (IH l2 bs r2 eq_refl H2). reflexivity.
Qed.

Lemma mapM_length : forall A B (f : A -> res B) l r, mapM f l = OK r -> length r = length l.
Proof.
  induction l as [|a l IH]; intros r H; simpl in H.
  - injection H as <-. reflexivity.
  - destruct (f a); simpl in H; [|discriminate]. destruct (mapM f l) eqn:E; simpl in H; [|discriminate].
    injection H as <-. simpl. f_equal. apply IH. reflexivity.
Qed.

(* ------------------------------------------------------------------ sorted() *)
Lemma memZ_insertZ : forall x y l, memZ x (insertZ y l) = (x =? y) || memZ x l.
Proof.
  induction l as [|z l IH]; simpl; [reflexivity|].
  destruct (y <=? z); simpl; [reflexivity|]. rewrite IH.
  destruct (x =? z), (x =? y); reflexivity.
Qed.
Lemma memZ_sortZ : forall x l, memZ x (sortZ l) = memZ x l.
Proof.
  induction l as [|y l IH]; simpl; [reflexivity|]. unfold sortZ in *. simpl.
  rewrite memZ_insertZ, IH. reflexivity.
Qed.
Lemma nodupZ_insertZ : forall y l, nodupZ (insertZ y l) = negb (memZ y l) && nodupZ l.
Proof.
  induction l as [|z l IH]; simpl; [reflexivity|].
  destruct (y <=? z); simpl; [reflexivity|]. rewrite IH, memZ_insertZ.
  rewrite (Z.eqb_sym z y).
  destruct (y =? z), (memZ y l), (memZ z l), (nodupZ l); reflexivity.
Qed.
Lemma nodupZ_sortZ : forall l, nodupZ (sortZ l) = nodupZ l.
Proof.
  induction l as [|y l IH]; simpl; [reflexivity|]. unfold sortZ in *. simpl.
  rewrite nodupZ_insertZ, IH. fold (sortZ l). rewrite memZ_sortZ. reflexivity.
Qed.
Lemma insertZ_length : forall y l, length (insertZ y l) = S (length l).
Proof. induction l as [|z l IH]; simpl; [reflexivity|]. destruct (y <=? z); simpl; [reflexivity|]. rewrite IH. reflexivity. Qed.
Lemma sortZ_length : forall l, length (sortZ l) = length l.
Proof. induction l as [|y l IH]; simpl; [reflexivity|]. unfold sortZ in *. simpl. rewrite insertZ_length, IH. reflexivity. Qed.
Lemma overlapZ_sortZ : forall a l, overlapZ a (sortZ l) = overlapZ a l.
Proof.
  intros a l. unfold overlapZ. induction a as [|x a IH]; simpl; [reflexivity|].
  rewrite memZ_sortZ, IH. reflexivity.
Qed.
Lemma check_qubits_sortZ : forall ts cs, check_qubits ts (sortZ cs) = check_qubits ts cs.
Proof. intros. unfold check_qubits. rewrite nodupZ_sortZ, overlapZ_sortZ. reflexivity. Qed.
Lemma In_sortZ : forall x l, In x (sortZ l) <-> In x l.
Proof.
  assert (HI : forall x y l, In x (insertZ y l) <-> x = y \/ In x l).
  { induction l as [|z l IH]; simpl; [intuition|]. destruct (y <=? z); simpl; [intuition|]. rewrite IH. intuition. }
  intros x l. induction l as [|y l IH]; simpl; [tauto|]. unfold sortZ in *. simpl. rewrite HI, IH. intuition.
Qed.

(* ------------------------------------------------------------------ dictionaries *)
Lemma lookup_app_notin : forall A k (l1 l2 : list (string * A)),
  lookup k l1 = None -> lookup k (l1 ++ l2)%list = lookup k l2.
Proof.
  induction l1 as [|[k' v] l1 IH]; intros l2 H; simpl in *; [reflexivity|].
  destruct (String.eqb k k'); [discriminate | apply IH, H].
Qed.
Lemma dict_set_mid : forall A k (v v' : A) l1 l2,
  lookup k l1 = None -> dict_set k v' (l1 ++ (k, v) :: l2)%list = (l1 ++ (k, v') :: l2)%list.
Proof.
  induction l1 as [|[k' w] l1 IH]; intros l2 H; simpl in *.
  - rewrite String.eqb_refl. reflexivity.
  - destruct (String.eqb k k'); [discriminate|]. rewrite IH; [reflexivity | exact H].
Qed.
Lemma dict_set_notin : forall A k (v : A) l, lookup k l = None -> dict_set k v l = (l ++ [(k, v)])%list.
Proof.
  induction l as [|[k' w] l IH]; intros H; simpl in *; [reflexivity|].
  destruct (String.eqb k k'); [discriminate|]. rewrite IH; [reflexivity | exact H].
Qed.
Lemma lookup_map_fst : forall A B (f : A -> B) k (l : list (string * A)),
  lookup k (map (fun kv => (fst kv, f (snd kv))) l) = option_map f (lookup k l).
Proof.
  induction l as [|[k' v] l IH]; simpl; [reflexivity|]. destruct (String.eqb k k'); [reflexivity | apply IH].
Qed.
Lemma lookup_none_notin : forall A k (l : list (string * A)), lookup k l = None <-> ~ In k (map fst l).
Proof.
  induction l as [|[k' v] l IH]; simpl; [tauto|].
  destruct (String.eqb k k') eqn:E.
  - apply String.eqb_eq in E. subst. split; [discriminate | intros H; exfalso; apply H; left; reflexivity].
  - apply String.eqb_neq in E. rewrite IH. split; [intros H [H1|H1]; [congruence | tauto] | tauto].
Qed.
Lemma mem_str_In : forall x l, mem_str x l = true <-> In x l.
Proof.
  induction l as [|y l IH]; simpl; [split; [discriminate | tauto]|].
  rewrite orb_true_iff, IH, String.eqb_eq. split; intros [H|H]; auto.
Qed.

(* ================================================================== QASM round trip *)
Definition M_formals : list formal :=
  [mkF "q" FVar None; mkF "register_name" FKw (Some (VA ANone)); mkF "collapse" FKw (Some (VA (ABool false)));
   mkF "basis" FKw (Some (VA (AStr "Z"))); mkF "p0" FKw (Some (VA ANone)); mkF "p1" FKw (Some (VA ANone))].

(* what the reader needs of the generated tables about the measurement gate *)
Definition M_tables_ok (rows : list row) (bases : list string) (rotation : string -> Z -> option gate) : Prop :=
  (exists r, find_row "M" rows = Some r /\ rname r = "M" /\ rformals r = M_formals)
  /\ mem_str "Z" bases = true /\ (forall q, rotation "Z" q = None).

(* M( *qs, register_name=reg) as the constructor builds it *)
Definition Mgate (qs : list Z) (reg : string) : gate :=
  mkGate "M" (map q2v qs)
    [("register_name", VA (AStr reg)); ("collapse", VA (ABool false));
     ("basis", VL (map AStr (repeat "Z" (length qs)))); ("p0", VA ANone); ("p1", VA ANone)]
    qs [] [] false (Some reg) false (repeat "Z" (length qs)) None.

Lemma mapM_str_of_atom : forall l, mapM str_of_atom (map AStr l) = OK l.
Proof. induction l as [|s l IH]; simpl; [reflexivity|]. rewrite IH. reflexivity. Qed.

Lemma forallb_repeat : forall A (f : A -> bool) x n, f x = true -> forallb f (repeat x n) = true.
Proof. induction n; intros H; simpl; [reflexivity|]. rewrite H, IHn; auto. Qed.

Section Qasm.
  Variables (rows : list row) (bases : list string) (specials : list (string * string)).
  Variable rotation : string -> Z -> option gate.
  Hypothesis HM : M_tables_ok rows bases rotation.

  Lemma m_of_ok : forall qs reg, nodupZ qs = true -> m_of rows bases qs reg = OK (Mgate qs reg).
  Proof.
    intros qs reg Hnd. destruct HM as [(r & Hf & Hn & Hfs) [HZ _]].
    unfold m_of. rewrite Hf. unfold construct. rewrite Hfs. simpl. rewrite Hn. simpl.
    unfold mk_M. simpl.
    change (map (fun q : Z => VA (AInt q)) qs) with (map q2v qs).
    rewrite mapM_as_int_q2v. simpl. rewrite Hnd. simpl.
    rewrite forallb_repeat by exact HZ. simpl.
    reflexivity.
  Qed.

  (* ---------------------------------------------------------------- one gate *)
  Definition gate_fact (g : gate) : Prop :=
    exists r l, find_row (gcls g) rows = Some r /\ rlabel r = Some l
      /\ find_row (qibo_gate_name specials l) rows = Some r
      /\ std_ctor bases r (length (gcontrols g)) (length (gcontrols g) + length (gtargets g)) (length (gparams g))
      /\ (rparametrized r = true \/ gparams g = [])
      /\ rname r = gcls g /\ is_M g = false.

  (* g' is g as an observer of the operator sees it after the text round trip: parameters became floats,
     controls are in ascending order *)
  Definition gate_equiv (g g' : gate) : Prop :=
    gcls g' = gcls g /\ gtargets g' = gtargets g /\ gcontrols g' = sortZ (gcontrols g) /\ gcb g' = false
    /\ exists fs, mapM float_of_val (gparams g) = OK fs /\ gparams g' = map VA fs.

  Definition qref (q : Z) : string * Z := ("q", q).

  Lemma mapM_get_qubit : forall s qs,
    (forall q, In q qs -> get_qubit s (qref q) = OK q) -> mapM (get_qubit s) (map qref qs) = OK qs.
  Proof.
    induction qs as [|q qs IH]; intros H; simpl; [reflexivity|].
    rewrite (H q) by (left; reflexivity). simpl. rewrite IH; [reflexivity|]. intros; apply H; right; assumption.
  Qed.

  Lemma gate_roundtrip : forall g st s,
    gate_fact g -> check_qubits (gtargets g) (gcontrols g) = true ->
    write_gate rows g = OK st ->
    (forall q, In q (gqubits g) -> get_qubit s (qref q) = OK q) ->
    exists l fs g', st = SGate l fs (map qref (gqubits g))
      /\ read_gate rows bases specials s l fs (map qref (gqubits g)) = OK g'
      /\ gate_equiv g g' /\ is_M g' = false.
  Proof.
    intros g st s (r & l & Hr & Hl & Hres & Hctor & Hpar & Hname & HnM) Hchk Hw Hq.
    unfold write_gate in Hw. destruct (gcb g) eqn:Hcb; [discriminate|].
    rewrite Hr, Hl in Hw.
    apply rbind_ok in Hw. destruct Hw as (fs & Hfs & Hst). injection Hst as <-.
    assert (Hfs' : mapM float_of_val (gparams g) = OK fs /\ length fs = length (gparams g)).
    { destruct (rparametrized r) eqn:Hp.
      - split; [exact Hfs | eapply mapM_length; exact Hfs].
      - destruct Hpar as [Hpar|Hpar]; [discriminate|]. injection Hfs as <-. rewrite Hpar. split; reflexivity. }
    destruct Hfs' as [Hfl Hlen].
    exists l, fs.
    unfold read_gate. rewrite (mapM_get_qubit s (gqubits g) Hq). simpl. rewrite Hres.
    change (map (fun q : Z => VA (AInt q)) (gqubits g)) with (map q2v (gqubits g)).
    destruct (Hctor (gqubits g) (map VA fs)) as (g' & Hc & Hcls & Ht & Hcs & Hps & Hcb').
    - unfold gqubits. rewrite app_length, sortZ_length. reflexivity.
    - rewrite map_length. exact Hlen.
    - unfold gqubits. rewrite <- (sortZ_length (gcontrols g)).
      rewrite skipn_app, skipn_all, Nat.sub_diag, firstn_app, firstn_all, Nat.sub_diag. simpl.
      rewrite app_nil_r. rewrite check_qubits_sortZ. exact Hchk.
    - exists g'. rewrite Hc. split; [reflexivity|]. split; [reflexivity|].
      unfold gqubits in Ht, Hcs. rewrite <- (sortZ_length (gcontrols g)) in Ht, Hcs.
      rewrite skipn_app, skipn_all, Nat.sub_diag in Ht. simpl in Ht.
      rewrite firstn_app, firstn_all, Nat.sub_diag in Hcs. simpl in Hcs. rewrite app_nil_r in Hcs.
      split.
      + unfold gate_equiv. rewrite Hcls, Hname. repeat split; auto. exists fs. split; assumption.
      + unfold is_M in *. rewrite Hcls, Hname. exact HnM.
  Qed.
End Qasm.
