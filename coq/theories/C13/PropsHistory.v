(* C13/PropsHistory.v : property theorems for the history streams (models and proofs: C13/History.v).
   Tied to the implementation by harness/c13_hist.py (hist_result, hist_circuit, hist_gate, opt). *)
From Coq Require Import List ZArith Bool.
From QV Require Import C13.History.
Import ListNotations.

(* A result dumped after ANY history of its circuit object (other executions, sampling of other results --
   whose shots sit on the shared measurement gates and are embedded in the dump --, parameter updates)
   loads to the same object as any other dump with the same own fields (state, probabilities, samples, nshots). *)
Theorem dump_load_function_of_result : forall (St Pr Sa : Type) (draw : Pr -> Z -> Sa) (probs_of : St -> Pr)
  ops1 ops2 i j d1 d2,
  dump St Pr Sa (run St Pr Sa draw probs_of ops1 (init St Pr Sa)) i = Some d1 ->
  dump St Pr Sa (run St Pr Sa draw probs_of ops2 (init St Pr Sa)) j = Some d2 ->
  own St Pr Sa d1 = own St Pr Sa d2 ->
  cr_load St Pr Sa draw d1 = cr_load St Pr Sa draw d2.
Proof. exact History.dump_load_function_of_result. Qed.
Print Assumptions dump_load_function_of_result.

Example dump_load_function_of_result_nonvacuous :
  exists d1 d2, dump Z Z Z (runZ hist_a) 1 = Some d1 /\ dump Z Z Z (runZ hist_b) 0 = Some d2 /\
    cr_load Z Z Z drawZ d1 = cr_load Z Z Z drawZ d2 /\ cr_load Z Z Z drawZ d1 <> None.
Proof. exact History.history_load_agrees. Qed.

(* history vs fresh: an unsampled result of any history against the single from-scratch execution *)
Theorem dump_load_history_vs_fresh : forall (St Pr Sa : Type) (draw : Pr -> Z -> Sa) (probs_of : St -> Pr) ops i d st n,
  dump St Pr Sa (run St Pr Sa draw probs_of ops (init St Pr Sa)) i = Some d ->
  d_state St Pr Sa d = st -> d_probs St Pr Sa d = Some (probs_of st) -> d_samples St Pr Sa d = None -> d_nshots St Pr Sa d = n ->
  exists dfresh, dump St Pr Sa (run St Pr Sa draw probs_of [Exec St st n] (init St Pr Sa)) 0 = Some dfresh
                 /\ cr_load St Pr Sa draw d = cr_load St Pr Sa draw dfresh.
Proof. exact History.dump_load_history_vs_fresh. Qed.
Print Assumptions dump_load_history_vs_fresh.

(* stored samples are the loaded samples *)
Theorem cr_load_keeps_stored_samples : forall (St Pr Sa : Type) (draw : Pr -> Z -> Sa) d s, d_samples St Pr Sa d = Some s ->
  cr_load St Pr Sa draw d = Some (mkRes St Pr Sa (d_state St Pr Sa d) None (Some s) (d_nshots St Pr Sa d), Some s).
Proof. exact History.cr_load_keeps_stored_samples. Qed.
Print Assumptions cr_load_keeps_stored_samples.

(* sensitivity: a loader that discards the stored probabilities does depend on the history (bounded witness) *)
Theorem drop_probs_loader_depends_on_history :
  exists ops1 ops2 i j d1 d2,
    dump Z Z Z (runZ ops1) i = Some d1 /\ dump Z Z Z (runZ ops2) j = Some d2 /\
    own Z Z Z d1 = own Z Z Z d2 /\
    cr_load_drop_probs Z Z Z drawZ d1 <> cr_load_drop_probs Z Z Z drawZ d2.
Proof. exact History.drop_probs_loader_depends_on_history. Qed.
Print Assumptions drop_probs_loader_depends_on_history.

(* circuits: export reads the current state of the queue's objects only (so an update through any alias is
   what the next export shows, and equals the export of a from-scratch build in that state) *)
Theorem export_current_state_only : forall required tdefault h1 h2 c,
  (forall id, In id c -> nth_error h1 id = nth_error h2 id) -> export required tdefault h1 c = export required tdefault h2 c.
Proof. exact History.export_current_state_only. Qed.
Print Assumptions export_current_state_only.

Theorem export_after_alias_update : forall required tdefault h a vals c hfresh,
  (forall id, In id c -> nth_error hfresh id = nth_error (set_params h a vals) id) ->
  export required tdefault (set_params h a vals) c = export required tdefault hfresh c.
Proof. exact History.export_after_alias_update. Qed.
Print Assumptions export_after_alias_update.

Example export_after_alias_update_nonvacuous :
  let h := [mkG 1 [0%Z] [(7%nat, 10%Z)] true; mkG 2 [1%Z] [] false; mkG 1 [1%Z] [(7%nat, 20%Z)] false] in
  export (fun _ => true) (fun _ => true) (set_params h [0; 1; 2; 0]%nat [5; 6]%Z) [0; 0; 2]%nat
  = [Some (1%nat, [0%Z], [(7%nat, 6%Z)], None); Some (1%nat, [0%Z], [(7%nat, 6%Z)], None); Some (1%nat, [1%Z], [(7%nat, 20%Z)], Some false)].
Proof. exact History.export_alias_nonvacuous. Qed.

Theorem reexport_stable : forall required tdefault h c d, export required tdefault h c = map Some d ->
  export required tdefault (fst (import tdefault d)) (snd (import tdefault d)) = map Some d.
Proof. exact History.reexport_stable. Qed.
Print Assumptions reexport_stable.

Theorem import_objects_distinct : forall tdefault d, NoDup (snd (import tdefault d)).
Proof. exact History.import_objects_distinct. Qed.
Print Assumptions import_objects_distinct.

(* repaired tree: `trainable` is exported iff it differs from the class default, so the import has the flag of the
   exported object (tied to the implementation by the direct comparisons of hist_gate / opt, which include trainable
   and get_parameters(), and at the level of the full model by Model.raw_t: see C13/PropsTrainable.v) *)
Theorem trainable_roundtrip : forall required tdefault g,
  g_trainable (gimport tdefault (graw required tdefault g)) = g_trainable g.
Proof. exact History.trainable_roundtrip. Qed.
Print Assumptions trainable_roundtrip.

(* historical: of the exporter before the repair the statement was false *)
Theorem historical_trainable_roundtrip_refuted : forall required,
  exists g, g_trainable (gimport_old (graw_old required g)) <> g_trainable g.
Proof. exact History.historical_trainable_roundtrip_refuted. Qed.
Print Assumptions historical_trainable_roundtrip_refuted.
