(* C13/PropsTrainable.v : Gate.raw / Circuit.raw of the repaired tree (Model.raw_t, craw_t: `trainable` exported iff
   it differs from the class default).  Proofs: C13/Trainable.v.  The per-class statements
   raw_roundtrip_<C> and raw_roundtrip_<C>_nontrainable (import of raw_t reproduces class, qubits, parameters AND the
   trainable keyword) are proved on every run over the regenerated tables (_build/C13/table_theorems.v). *)
From Coq Require Import String List ZArith Bool.
From QV Require Import C13.Model C13.Proofs C13.Trainable.
Import ListNotations.
Local Open Scope string_scope.

(* the repaired exporter coincides with the old one on gates whose flag has the class default: every theorem of
   C13/Props.v stated with `raw` applies to them verbatim *)
Theorem raw_t_default : forall rows required g,
  trainable_extra rows required g = [] -> raw_t rows required g = raw required g.
Proof. exact Trainable.raw_t_default. Qed.
Print Assumptions raw_t_default.

(* otherwise exactly one key is appended: `trainable` with the gate's own value, which is not the class default *)
Theorem trainable_extra_spec : forall rows required g,
  trainable_extra rows required g = []
  \/ exists v, trainable_extra rows required g = [("trainable", v)] /\ lookup "trainable" (gkw g) = Some v
               /\ mem_str "trainable" required = false
               /\ exists r f, find_row (gcls g) rows = Some r /\ find_formal "trainable" (rformals r) = Some f
                              /\ (forall d, fdef f = Some d -> val_eqb v d = false).
Proof. exact Trainable.trainable_extra_spec. Qed.
Print Assumptions trainable_extra_spec.

(* circuit dictionaries with the repaired exporter.  PARTIAL: gates keep the default flag (gates with a non-default
   flag: per-class theorems raw_roundtrip_<C>_nontrainable + the exact correspondence of craw_t / cfrom_dict on every
   run; a circuit-level theorem for them needs circuit_dict_roundtrip_main generalised over the exporter) and basis Z *)
Theorem circuit_dict_roundtrip_t_partial : forall rotation required rows bases n dm gs c,
  build rotation n dm gs = OK c ->
  Forall (fun g => trainable_extra rows required g = []) (cqueue c) ->
  Forall (fun g => basis_gates rotation g = []
                   /\ exists g', from_dict rows bases (raw_t rows required g) = OK g' /\ gsame g g') gs ->
  Forall (fun g => trainable_extra rows required g = []) gs ->
  exists c', cfrom_dict rows bases rotation (craw_t rows required c) = OK c' /\ circ_rel c c'.
Proof. exact Trainable.circuit_dict_roundtrip_t_main. Qed.
Print Assumptions circuit_dict_roundtrip_t_partial.

(* non-vacuity / positive instance: a non-trainable RX is exported with the key and re-imported identically
   (with the pre-repair `raw` the import is a trainable gate: second conjunct) *)
From QV Require Import C13.Examples.
Local Open Scope Z_scope.
Example raw_t_nontrainable_roundtrip :
  exists g, construct ex_bases ex_RX [VA (AInt 0); VA (AFlt 5)] [("trainable", VA (ABool false))] = OK g
    /\ trainable_extra ex_rows ex_required g = [("trainable", VA (ABool false))]
    /\ from_dict ex_rows ex_bases (raw_t ex_rows ex_required g) = OK g
    /\ (exists g', from_dict ex_rows ex_bases (raw ex_required g) = OK g'
                   /\ lookup "trainable" (gkw g') = Some (VA (ABool true))).
Proof.
  eexists. split; [vm_compute; reflexivity|]. split; [vm_compute; reflexivity|]. split; [vm_compute; reflexivity|].
  eexists. split; vm_compute; reflexivity.
Qed.
