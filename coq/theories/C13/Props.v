(* C13/Props.v : the property theorems of C13 (statements; proofs are in C13/Proofs.v, witnesses
   in C13/Examples.v).  The finite table theorems name_table_ok(_partial/_refuted), label_class_<C>,
   raw_roundtrip_<C>(_refuted) are stated and proved on every run over the tables regenerated from
   /repo (_build/C13/table_theorems.v), because they are statements about those tables. *)
From Coq Require Import String List ZArith Bool.
From QV Require Import C13.Model C13.Proofs C13.Examples.
Import ListNotations.
Local Open Scope string_scope.
Local Open Scope Z_scope.

(* ---- OpenQASM ------------------------------------------------------------------------------- *)
(* One gate: what write_gate prints is read back by read_gate as the same class on the same targets,
   the same control set (ascending), the parameters as floats.  Hypothesis gate_fact is what the
   per-class theorems label_class_<C> establish for the class of g. *)
Theorem gate_qasm_roundtrip : forall rows bases specials rotation, M_tables_ok rows bases rotation ->
  forall g st s, gate_fact rows bases specials g -> check_qubits (gtargets g) (gcontrols g) = true ->
    write_gate rows g = OK st ->
    (forall q, In q (gqubits g) -> get_qubit s (qref q) = OK q) ->
    exists l fs g', st = SGate l fs (map qref (gqubits g))
      /\ read_gate rows bases specials s l fs (map qref (gqubits g)) = OK g'
      /\ gate_equiv g g' /\ is_M g' = false.
Proof. intros rows bases specials rotation HM. exact (gate_roundtrip rows bases specials). Qed.
Print Assumptions gate_qasm_roundtrip.

(* Whole circuits (all n, all gate lists, all register layouts).  PARTIAL with respect to the property
   text: excluded are (1) collapsed measurements (qe_nocollapse), (2) classes whose label fails the
   table check -- none on the current tree: name_table_ok holds in full since the iSWAP repair (inside
   gate_check), (3) two measurements with the same
   register name (qe_names), (4) measurements of no qubits (qe_mq) -- each excluded case is refuted
   below.  Conclusion: the re-imported circuit has the same n, the non-measurement gates are
   gate_equiv to the original ones in the same order, followed by one measurement per register with
   the same name and the same qubit order; measurement_tuples are equal. *)
Theorem qasm_roundtrip_partial : forall rows bases specials rotation,
  M_tables_ok rows bases rotation ->
  (forall r, In r rows -> label_row_ok rows specials r = true -> class_fact rows bases specials r) ->
  forall c mt s, qasm_exportable rows specials c mt -> write rows c = OK s ->
  exists c' gs', read rows bases specials rotation s = OK c' /\ cn c' = cn c
    /\ cqueue c' = (gs' ++ map MG mt)%list /\ cmeas c' = seq (length gs') (length mt)
    /\ Forall2 gate_equiv (filter nonM (cqueue c)) gs' /\ Forall (fun g => is_M g = false) gs'
    /\ measurement_tuples c' = measurement_tuples c.
Proof. exact qasm_roundtrip_checked. Qed.
Print Assumptions qasm_roundtrip_partial.

(* non-vacuity: a circuit with an int-parameter RX, a CNOT on (2,0), H and two registers (2,0), (1)
   satisfies every hypothesis on the example tables, and its export succeeds *)
Example qasm_roundtrip_partial_nonvacuous :
  M_tables_ok ex_rows ex_bases ex_rotation
  /\ (forall r, In r ex_rows -> label_row_ok ex_rows ex_specials r = true -> class_fact ex_rows ex_bases ex_specials r)
  /\ qasm_exportable ex_rows ex_specials ex_c ex_mt /\ exists s, write ex_rows ex_c = OK s.
Proof. exact (conj ex_M_tables (conj ex_class_facts (conj ex_exportable ex_write_ok))). Qed.

(* the full statement (no side conditions) is false of the faithful model: *)
Theorem qasm_roundtrip_refuted : exists c s c',
  ex_collapse_circuit = OK c /\ write ex_rows c = OK s
  /\ read ex_rows ex_bases ex_specials ex_rotation s = OK c'
  /\ length (filter is_M (cqueue c)) = 1%nat /\ length (filter is_M (cqueue c')) = 0%nat.
Proof. exact ex_collapse_dropped. Qed.
Print Assumptions qasm_roundtrip_refuted.

Theorem qasm_roundtrip_refuted_implicit_collapse : exists c s c',
  ex_implicit_collapse_circuit = OK c /\ write ex_rows c = OK s
  /\ read ex_rows ex_bases ex_specials ex_rotation s = OK c'
  /\ length (filter is_M (cqueue c)) = 1%nat /\ length (filter is_M (cqueue c')) = 0%nat.
Proof. exact ex_implicit_collapse_dropped. Qed.

(* repaired on the current tree (formerly refuted): the iSWAP label round-trips; the pre-repair behaviour is
   kept as a labelled historical lemma *)
Example qasm_iswap_roundtrips : exists c s c',
  ex_iswap_circuit = OK c /\ write ex_rows c = OK s
  /\ read ex_rows ex_bases ex_specials ex_rotation s = OK c'
  /\ map gcls (cqueue c') = ["iSWAP"] /\ map gtargets (cqueue c') = map gtargets (cqueue c).
Proof. exact ex_iswap_roundtrips. Qed.

Theorem historical_iswap_rejected_before_repair : exists c s,
  ex_iswap_circuit = OK c /\ write ex_rows c = OK s
  /\ read ex_rows ex_bases old_specials ex_rotation s = Err EValueError.
Proof. exact historical_iswap_rejected_without_special_case. Qed.

Theorem qasm_roundtrip_refuted_duplicate_register : exists c s c',
  ex_dupreg_circuit = OK c /\ write ex_rows c = OK s
  /\ read ex_rows ex_bases ex_specials ex_rotation s = OK c'
  /\ length (cmeas c) = 2%nat /\ length (cmeas c') = 1%nat.
Proof. exact ex_dupreg_merged. Qed.

(* the writer succeeds only on circuits without controlled_by gates, whose classes all have a label and
   whose register names are lower case: everything else is an error at export time *)
Theorem writer_total_or_error : forall rows c s,
  write rows c = OK s ->
  Forall (fun g => is_M g = false ->
                   gcb g = false /\ exists r l, find_row (gcls g) rows = Some r /\ rlabel r = Some l) (cqueue c)
  /\ Forall (fun rq => py_islower (fst rq) = OK true) (measurement_tuples c).
Proof. exact write_ok_inv. Qed.
Print Assumptions writer_total_or_error.

(* a class whose constructor is `C( *q )` takes any number of qubits in the order the writer prints them *)
Theorem star_class_any_arity : forall bases r, star_row r -> forall nq, std_ctor bases r 0 nq 0.
Proof. exact star_row_std. Qed.

(* ---- dictionaries ----------------------------------------------------------------------------- *)
(* controlled_by on top of a class that round-trips (raw_roundtrip_<C>, generated) also round-trips *)
Theorem raw_roundtrip_controlled_by : forall rows bases required g g' r cs,
  find_row (gcls g) rows = Some r -> rcb r = CBGate -> String.eqb (gcls g) "M" = false ->
  gcontrols g = [] -> cs <> [] -> memZ (Z.of_nat (length cs)) (rdispatch r) = false ->
  nodupZ cs = true -> overlapZ (gtargets g) cs = false ->
  from_dict rows bases (raw required g) = OK g' -> raw_rt_ok (OK g') g ->
  from_dict rows bases (raw required (with_controls g cs)) = OK (with_controls g' cs)
  /\ raw_rt_ok (OK (with_controls g' cs)) (with_controls g cs).
Proof. exact raw_roundtrip_controlled. Qed.
Print Assumptions raw_roundtrip_controlled_by.

Example raw_roundtrip_controlled_by_nonvacuous :
  find_row (gcls ex_rx) ex_rows = Some ex_RX /\ rcb ex_RX = CBGate /\ String.eqb (gcls ex_rx) "M" = false
  /\ gcontrols ex_rx = [] /\ [0; 1] <> [] /\ memZ (Z.of_nat (length [0; 1])) (rdispatch ex_RX) = false
  /\ nodupZ [0; 1] = true /\ overlapZ (gtargets ex_rx) [0; 1] = false
  /\ from_dict ex_rows ex_bases (raw ex_required ex_rx) = OK ex_rx /\ raw_rt_ok (OK ex_rx) ex_rx.
Proof. exact ex_controlled_hyp. Qed.

(* still false on the current tree: Gate.raw drops Align's `delay` (open known finding raw:differs:Align) *)
Theorem raw_roundtrip_refuted_Align : exists g',
  construct ex_bases ex_Align [VA (AInt 1); VA (AInt 3)] [] = OK ex_align
  /\ from_dict ex_rows ex_bases (raw ex_required ex_align) = OK g'
  /\ gparams ex_align = [VA (AInt 3)] /\ gparams g' = [VA (AInt 0)].
Proof. exact ex_align_delay_lost. Qed.

Theorem circuit_dict_roundtrip_refuted : exists c c',
  ex_basis_circuit = OK c
  /\ cfrom_dict ex_rows ex_bases ex_rotation (craw ex_required c) = OK c'
  /\ length (cqueue c) = 3%nat /\ length (cqueue c') = 5%nat.
Proof. exact ex_basis_duplicated. Qed.
Print Assumptions circuit_dict_roundtrip_refuted.

(* ---- results ---------------------------------------------------------------------------------- *)
(* MeasurementOutcomes.to_dict / from_dict keep measurements, nshots, stored samples, the probabilities
   when no samples are stored, and the observable frequencies -- PARTIAL: unless frequencies were drawn
   without samples (then they are not part of the dictionary: result_roundtrip_refuted) *)
Theorem result_roundtrip_partial : forall (Pr Sa Fr : Type) (freq_of : Sa -> Fr) (r : mo Pr Sa Fr),
  mo_consistent Pr Sa Fr freq_of r ->
  (mo_freq _ _ _ r = None \/ exists s, mo_samples _ _ _ r = Some s) ->
  let r' := mo_from_dict _ _ _ (mo_to_dict _ _ _ r) in
  mo_meas _ _ _ r' = mo_meas _ _ _ r /\ mo_nshots _ _ _ r' = mo_nshots _ _ _ r
  /\ mo_samples _ _ _ r' = mo_samples _ _ _ r
  /\ (mo_samples _ _ _ r = None -> mo_probs _ _ _ r' = mo_probs _ _ _ r)
  /\ obs_freq Pr Sa Fr freq_of r' = obs_freq Pr Sa Fr freq_of r.
Proof. exact mo_roundtrip. Qed.
Print Assumptions result_roundtrip_partial.

Example result_roundtrip_partial_nonvacuous :
  let r := mkMO nat (list nat) nat [] (Some 5%nat) (Some [1%nat; 0%nat]) 2 (Some 1%nat) in
  mo_consistent nat (list nat) nat (@length nat) (mkMO nat (list nat) nat [] None (Some [1%nat; 0%nat]) 2 (Some 2%nat))
  /\ (mo_freq _ _ _ r = None \/ exists s, mo_samples _ _ _ r = Some s).
Proof. split; [intros s f Hs Hf; simpl in *; injection Hs as <-; injection Hf as <-; reflexivity | right; eexists; reflexivity]. Qed.

Theorem result_roundtrip_refuted : forall (Pr Sa Fr : Type) (freq_of : Sa -> Fr) (p : Pr) (f : Fr),
  let r := mkMO Pr Sa Fr [] (Some p) None 10 (Some f) in
  obs_freq Pr Sa Fr freq_of r = Some f
  /\ obs_freq Pr Sa Fr freq_of (mo_from_dict _ _ _ (mo_to_dict _ _ _ r)) = None.
Proof. exact mo_roundtrip_refuted_witness. Qed.

(* CircuitResult: the state, the measurements, nshots and stored samples survive; samples that were not
   stored are drawn by the loader (oracle `draw`) *)
Theorem circuit_result_roundtrip : forall (St Pr Sa Fr : Type) (draw : Pr -> Z -> Sa) (r r' : cr St Pr Sa Fr),
  cr_from_dict St Pr Sa Fr draw (cr_to_dict St Pr Sa Fr r) = Some r' ->
  cr_state _ _ _ _ r' = cr_state _ _ _ _ r
  /\ mo_meas _ _ _ (cr_mo _ _ _ _ r') = mo_meas _ _ _ (cr_mo _ _ _ _ r)
  /\ mo_nshots _ _ _ (cr_mo _ _ _ _ r') = mo_nshots _ _ _ (cr_mo _ _ _ _ r)
  /\ (forall s, mo_samples _ _ _ (cr_mo _ _ _ _ r) = Some s -> mo_samples _ _ _ (cr_mo _ _ _ _ r') = Some s).
Proof. exact cr_roundtrip. Qed.
Print Assumptions circuit_result_roundtrip.

(* ---- Circuit.raw / Circuit.from_dict ------------------------------------------------------------ *)
(* For every circuit built by Circuit.add from gates whose own dictionary round-trips (raw_roundtrip_<C>,
   generated; measurement gates: M_raw_dict_roundtrip below) the dictionary of the circuit is re-imported to
   the same queue (class, qubits, parameters, register names, collapse flags), the same pending
   measurements, n and density_matrix.  PARTIAL: measurement gates must not add basis rotations
   (basis Z only) -- refuted otherwise (circuit_dict_roundtrip_refuted). *)
Theorem circuit_dict_roundtrip_partial : forall rotation required rows bases n dm gs c,
  build rotation n dm gs = OK c ->
  Forall (fun g => basis_gates rotation g = []
                   /\ exists g', from_dict rows bases (raw required g) = OK g' /\ gsame g g') gs ->
  exists c', cfrom_dict rows bases rotation (craw required c) = OK c' /\ circ_rel c c'.
Proof. exact circuit_dict_roundtrip_main. Qed.
Print Assumptions circuit_dict_roundtrip_partial.

Example circuit_dict_roundtrip_partial_nonvacuous :
  build ex_rotation 3 false ex_gs = OK ex_c
  /\ Forall (fun g => basis_gates ex_rotation g = []
                      /\ exists g', from_dict ex_rows ex_bases (raw ex_required g) = OK g' /\ gsame g g') ex_gs.
Proof. exact ex_dict_hyp. Qed.

(* a measurement gate as its constructor builds it is reproduced exactly by from_dict (raw g) *)
Theorem M_raw_dict_roundtrip : forall rows bases required rotation,
  M_tables_ok rows bases rotation -> forallb (fun k => mem_str k required) M_keys = true ->
  forall r pos kw g, find_row "M" rows = Some r -> construct bases r pos kw = OK g ->
  from_dict rows bases (raw required g) = OK g.
Proof. exact M_raw_roundtrip. Qed.
Print Assumptions M_raw_dict_roundtrip.

(* ---- the QASM text (token stream) ------------------------------------------------------------------ *)
From QV Require Import C13.TextModel C13.TextProofs.

(* parse (print stmts) = stmts for every list of printable statements: identifiers that are identifiers and
   not reserved, non-negative indices, positive creg sizes, gates with at least one qubit.  Float literals are
   opaque tokens (that printing and re-reading a float is the identity is checked per case at run time). *)
Theorem qasm_text_parse_print : forall reserved,
  forallb (fun k => mem_str k reserved) grammar_keywords = true ->
  forall stmts toks, Forall (printable reserved) stmts -> print_stmts stmts = OK toks ->
  parse_qasm reserved (header ++ toks)%list = OK stmts.
Proof. exact parse_print_stmts. Qed.
Print Assumptions qasm_text_parse_print.

(* text-level sibling of qasm_roundtrip_partial: for every exportable circuit (all n, gate lists, register
   layouts) whose register names are identifiers, the token stream of Circuit.to_qasm is parsed back to the
   writer's statements, and reading them gives the equivalent circuit.  PARTIAL: the writer only checks
   islower(), names such as "1a", "a b", "measure" are refuted below. *)
Theorem qasm_text_roundtrip_partial : forall reserved rows bases specials rotation,
  forallb (fun k => mem_str k reserved) grammar_keywords = true ->
  name_ok reserved "q" = true ->
  (forall r l, In r rows -> rlabel r = Some l -> name_ok reserved l = true) ->
  M_tables_ok rows bases rotation ->
  (forall r, In r rows -> label_row_ok rows specials r = true -> class_fact rows bases specials r) ->
  forall c mt toks, qasm_exportable rows specials c mt -> text_exportable reserved c ->
  print_qasm rows c = OK toks ->
  exists s c' gs', parse_qasm reserved toks = OK s /\ read rows bases specials rotation s = OK c' /\ cn c' = cn c
    /\ cqueue c' = (gs' ++ map MG mt)%list /\ cmeas c' = seq (length gs') (length mt)
    /\ Forall2 gate_equiv (filter nonM (cqueue c)) gs' /\ Forall (fun g => is_M g = false) gs'
    /\ measurement_tuples c' = measurement_tuples c.
Proof.
  intros reserved rows bases specials rotation Hkw Hq Hl HM Hall c mt toks E T Hp.
  destruct (parse_print_qasm reserved rows Hkw Hq Hl c toks T Hp) as (s & Hw & Hparse).
  destruct (qasm_roundtrip_checked rows bases specials rotation HM Hall c mt s E Hw) as (c' & gs' & H).
  exists s, c', gs'. split; [exact Hparse | exact H].
Qed.
Print Assumptions qasm_text_roundtrip_partial.

Example qasm_text_roundtrip_partial_nonvacuous :
  (forallb (fun k => mem_str k ex_reserved) grammar_keywords = true
   /\ name_ok ex_reserved "q" = true
   /\ (forall r l, In r ex_rows -> rlabel r = Some l -> name_ok ex_reserved l = true))
  /\ text_exportable ex_reserved ex_c /\ exists toks, print_qasm ex_rows ex_c = OK toks.
Proof. exact (conj ex_text_hyps (conj ex_text_exportable ex_print_ok)). Qed.

Theorem qasm_text_roundtrip_refuted_register_name : forall name, In name ["1a"; "a b"; "measure"; "a-b"; "if"] ->
  exists c toks, ex_badname_circuit name = OK c /\ print_qasm ex_rows c = OK toks
                 /\ parse_qasm ex_reserved toks = Err EValueError.
Proof. exact ex_badname_rejected. Qed.
Print Assumptions qasm_text_roundtrip_refuted_register_name.

(* every key that Gate.from_dict / Circuit.from_dict reads is a key that raw writes *)
Theorem dict_keys_read_are_written : forall required_fields,
  keys_subset ["init_args"; "init_kwargs"; "_control_qubits"] required_fields = true ->
  forall is_m, keys_subset (from_dict_reads is_m) (gate_raw_keys required_fields is_m) = true.
Proof.
  intros rf H is_m. unfold keys_subset, from_dict_reads, gate_raw_keys in *.
  rewrite forallb_forall in *. intros k Hin.
  assert (A : forall a b, mem_str k a = true \/ mem_str k b = true -> mem_str k (a ++ b)%list = true).
  { induction a as [|x a IH]; intros b [Ha|Hb]; simpl in *; try discriminate; auto.
    - apply orb_true_iff in Ha. destruct Ha as [Ha|Ha]; [rewrite Ha; reflexivity|]. rewrite (IH b (or_introl Ha)). apply orb_true_r.
    - rewrite (IH b (or_intror Hb)). apply orb_true_r. }
  simpl in Hin. destruct Hin as [<-|[<-|[<-|Hin]]].
  - apply A. right. reflexivity.
  - apply A. left. apply H. simpl. tauto.
  - apply A. left. apply H. simpl. tauto.
  - destruct is_m; simpl in Hin; destruct Hin as [<-|[]].
    + apply A. right. reflexivity.
    + apply A. left. apply H. simpl. tauto.
Qed.
