(* C13/Props.v : the property theorems (statements only; proofs are in C13/Proofs.v). *)
From Coq Require Import String List ZArith Bool.
From QV Require Import C13.Model C13.Proofs.
Import ListNotations.
Local Open Scope string_scope.
Local Open Scope Z_scope.

(* a class whose constructor is `C( *q )` takes any number of qubits in the order the writer prints them *)
Theorem star_class_any_arity : forall bases r, star_row r -> forall nq, std_ctor bases r 0 nq 0.
Proof. exact star_row_std. Qed.
Print Assumptions star_class_any_arity.
