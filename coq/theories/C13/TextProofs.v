(* C13/TextProofs.v : parse_qasm (print ...) gives back the writer's statements. *)
From Coq Require Import String Ascii List ZArith Bool Lia.
From QV Require Import C13.Model C13.Proofs C13.TextModel.
Import ListNotations.
Local Open Scope string_scope.
Local Open Scope Z_scope.
Local Open Scope list_scope.

Definition grammar_keywords : list string := ["OPENQASM"; "include"; "qreg"; "creg"; "measure"].

Section TextProofs.
  Variable reserved : list string.
  Hypothesis Hkw : forallb (fun k => mem_str k reserved) grammar_keywords = true.

  Notation name_ok := (name_ok reserved).

  Lemma name_ok_not_kw : forall s k, name_ok s = true -> In k grammar_keywords -> String.eqb s k = false.
  Proof.
    intros s k H Hin. unfold TextModel.name_ok in H. apply andb_true_iff in H. destruct H as [_ H].
    apply negb_true_iff in H. destruct (String.eqb s k) eqn:E; [|reflexivity].
    apply String.eqb_eq in E. subst k.
    rewrite forallb_forall in Hkw. rewrite (Hkw s Hin) in H. discriminate.
  Qed.

  (* statements whose printed form the parser reads back *)
  Definition qref_ok (q : string * Z) : Prop := name_ok (fst q) = true /\ 0 <= snd q.
  Definition printable (s : stmt) : Prop :=
    match s with
    | SQreg name size => name_ok name = true /\ 0 <= size
    | SCreg name size => name_ok name = true /\ 0 < size
    | SGate l ps qs => name_ok l = true /\ qs <> [] /\ Forall qref_ok qs
    | SMeasure q reg idx => qref_ok q /\ name_ok reg = true /\ 0 <= idx
    end.

  Definition nosemi (l : list tok) : Prop := forallb (fun t => negb (is_semi t)) l = true.

  (* ---------------------------------------------------------------- splitting at `;` *)
  Lemma split_semi_seg : forall seg acc rest,
    nosemi seg ->
    split_semi acc (seg ++ TSemi :: rest) =
    (let '(s, r) := split_semi [] rest in ((rev acc ++ seg) :: s, r)).
  Proof.
    induction seg as [|t seg IH]; intros acc rest H; simpl.
    - rewrite app_nil_r. reflexivity.
    - unfold nosemi in H. simpl in H. apply andb_true_iff in H. destruct H as [Ht H].
      apply negb_true_iff in Ht. rewrite Ht. rewrite (IH (t :: acc) rest H). simpl.
      rewrite <- app_assoc. reflexivity.
  Qed.

  Lemma split_semi_all : forall segs, Forall nosemi segs ->
    split_semi [] (flat_map (fun t => t ++ [TSemi]) segs) = (segs, []).
  Proof.
    induction segs as [|seg segs IH]; intros H; simpl; [reflexivity|].
    inversion H; subst. rewrite <- app_assoc. simpl. rewrite split_semi_seg by assumption.
    rewrite IH by assumption. reflexivity.
  Qed.

  (* ---------------------------------------------------------------- pieces *)
  Lemma parse_qref_print : forall q rest, qref_ok q ->
    parse_qref reserved (print_qref q ++ rest) = OK (q, rest).
  Proof.
    intros [name i] rest [Hn Hi]. simpl in *. rewrite Hn. rewrite Z2Nat.id by exact Hi. reflexivity.
  Qed.

  Lemma parse_decl_print : forall q, qref_ok q -> parse_decl reserved (print_qref q) = OK q.
  Proof.
    intros q Hq. unfold parse_decl. pose proof (parse_qref_print q [] Hq) as E. rewrite app_nil_r in E.
    rewrite E. reflexivity.
  Qed.

  Lemma nosemi_app : forall a b, nosemi a -> nosemi b -> nosemi (a ++ b).
  Proof. intros a b Ha Hb. unfold nosemi in *. rewrite forallb_app, Ha, Hb. reflexivity. Qed.

  Lemma nosemi_sep_by : forall l, Forall nosemi l -> nosemi (sep_by [TComma] l).
  Proof.
    induction l as [|x l IH]; intros H; [reflexivity|]. inversion H; subst.
    destruct l as [|y l]; [simpl; assumption|].
    change (sep_by [TComma] (x :: y :: l)) with (x ++ [TComma] ++ sep_by [TComma] (y :: l)).
    apply nosemi_app; [assumption|]. apply nosemi_app; [reflexivity | apply IH; assumption].
  Qed.

  Lemma parse_qrefs_print : forall qs fuel,
    qs <> [] -> Forall qref_ok qs -> (length qs <= fuel)%nat ->
    parse_qrefs reserved fuel (sep_by [TComma] (map print_qref qs)) = OK qs.
  Proof.
    induction qs as [|q qs IH]; intros fuel Hne Hok Hf; [congruence|].
    inversion Hok as [|? ? Hq Hok']; subst.
    destruct fuel as [|fuel]; [simpl in Hf; lia|].
    destruct qs as [|q2 qs].
    - cbn [map sep_by parse_qrefs]. rewrite <- (app_nil_r (print_qref q)). rewrite parse_qref_print by assumption. reflexivity.
    - change (sep_by [TComma] (map print_qref (q :: q2 :: qs)))
        with (print_qref q ++ TComma :: sep_by [TComma] (map print_qref (q2 :: qs))).
      cbn [parse_qrefs]. rewrite parse_qref_print by assumption. cbn [rbind snd fst].
      rewrite IH; [reflexivity | discriminate | assumption | simpl in *; lia].
  Qed.

  Lemma length_sep_by_qrefs : forall qs, (length qs <= length (sep_by [TComma] (map print_qref qs)))%nat.
  Proof.
    induction qs as [|q qs IH]; [simpl; lia|]. destruct qs as [|q2 qs]; [simpl; lia|].
    change (sep_by [TComma] (map print_qref (q :: q2 :: qs)))
      with (print_qref q ++ TComma :: sep_by [TComma] (map print_qref (q2 :: qs))).
    rewrite app_length. simpl in *. lia.
  Qed.

  Lemma mapM_print_param : forall ps pt, mapM print_param ps = OK pt ->
    exists bs, ps = map AFlt bs /\ pt = map TFlt bs.
  Proof.
    induction ps as [|a ps IH]; intros pt H; simpl in H.
    - injection H as <-. exists []. split; reflexivity.
    - apply rbind_ok in H. destruct H as (t & Ht & H). apply rbind_ok in H. destruct H as (ts & Hts & H).
      injection H as <-. destruct a; try discriminate. injection Ht as <-.
      destruct (IH ts Hts) as (bs & -> & ->). exists (bits :: bs). split; reflexivity.
  Qed.

  Lemma parse_params_print : forall bs rest, bs <> [] ->
    parse_params (sep_by [TComma] (map (fun t => [t]) (map TFlt bs)) ++ TRPar :: rest) = OK (map AFlt bs, rest).
  Proof.
    induction bs as [|b bs IH]; intros rest Hne; [congruence|].
    destruct bs as [|b2 bs]; [reflexivity|].
    change (sep_by [TComma] (map (fun t => [t]) (map TFlt (b :: b2 :: bs))))
      with ([TFlt b] ++ TComma :: sep_by [TComma] (map (fun t => [t]) (map TFlt (b2 :: bs)))).
    rewrite <- app_assoc. cbn [app parse_params].
    rewrite IH by discriminate. reflexivity.
  Qed.

  Lemma nosemi_params : forall bs, nosemi (sep_by [TComma] (map (fun t => [t]) (map TFlt bs))).
  Proof. intro bs. apply nosemi_sep_by. induction bs; constructor; [reflexivity | assumption]. Qed.

  Lemma nosemi_qrefs : forall qs, nosemi (sep_by [TComma] (map print_qref qs)).
  Proof. intro qs. apply nosemi_sep_by. induction qs; constructor; [reflexivity | assumption]. Qed.

  (* ---------------------------------------------------------------- one statement *)
  Lemma print_stmt_nosemi : forall s t, print_stmt s = OK t -> nosemi t.
  Proof.
    intros [name size|name size|l ps qs|q reg idx] t H; simpl in H.
    - injection H as <-. reflexivity.
    - injection H as <-. reflexivity.
    - apply rbind_ok in H. destruct H as (pt & Hpt & H). injection H as <-.
      destruct (mapM_print_param ps pt Hpt) as (bs & -> & ->).
      apply (nosemi_app [TId l]); [reflexivity|].
      destruct bs as [|b bs].
      + cbn [map app]. apply nosemi_qrefs.
      + cbn [map]. cbn iota.
        apply nosemi_app; [|apply nosemi_qrefs].
        apply (nosemi_app [TLPar]); [reflexivity|].
        apply nosemi_app; [apply (nosemi_params (b :: bs)) | reflexivity].
    - injection H as <-. reflexivity.
  Qed.

  Lemma parse_print_stmt : forall s t, printable s -> print_stmt s = OK t ->
    parse_segment reserved t = OK (Some s).
  Proof.
    intros [name size|name size|l ps qs|q reg idx] t Hp H; simpl in H, Hp.
    - injection H as <-. destruct Hp as [Hn Hs].
      change ((d <- parse_decl reserved (print_qref (name, size)); OK (Some (SQreg (fst d) (snd d))))
              = OK (Some (SQreg name size))).
      rewrite (parse_decl_print (name, size) (conj Hn Hs)). reflexivity.
    - injection H as <-. destruct Hp as [Hn Hs].
      change ((d <- parse_decl reserved (print_qref (name, size));
               if snd d <=? 0 then Err EValueError else OK (Some (SCreg (fst d) (snd d))))
              = OK (Some (SCreg name size))).
      assert (Hs' : 0 <= size) by lia.
      rewrite (parse_decl_print (name, size) (conj Hn Hs')). cbn [rbind snd fst].
      destruct (size <=? 0) eqn:E0; [apply Z.leb_le in E0; lia | reflexivity].
    - apply rbind_ok in H. destruct H as (pt & Hpt & H). injection H as <-.
      destruct Hp as (Hl & Hne & Hq).
      destruct (mapM_print_param ps pt Hpt) as (bs & -> & ->).
      cbn [app parse_segment].
      rewrite (name_ok_not_kw l "OPENQASM"), (name_ok_not_kw l "include"), (name_ok_not_kw l "qreg"),
              (name_ok_not_kw l "creg"), (name_ok_not_kw l "measure") by (try exact Hl; simpl; tauto).
      rewrite Hl. cbn [negb].
      destruct bs as [|b bs].
      + simpl map. cbn [app].
        assert (Hhead : exists n0 t0, sep_by [TComma] (map print_qref qs) = TId n0 :: t0).
        { destruct qs as [|[n0 i0] qs0]; [congruence|]. destruct qs0; eexists; eexists; reflexivity. }
        destruct Hhead as (n0 & t0 & Eb). rewrite Eb. cbn beta iota. rewrite <- Eb.
        rewrite parse_qrefs_print; [reflexivity | assumption | assumption |].
        pose proof (length_sep_by_qrefs qs). lia.
      + change (match map AFlt (b :: bs) with [] => false | _ :: _ => true end) with true. cbn iota.
        set (body := sep_by [TComma] (map (fun t => [t]) (map TFlt (b :: bs)))).
        set (Q := sep_by [TComma] (map print_qref qs)).
        change ((TLPar :: body ++ [TRPar]) ++ Q) with (TLPar :: ((body ++ [TRPar]) ++ Q)).
        cbn beta iota. rewrite <- app_assoc. change ([TRPar] ++ Q) with (TRPar :: Q).
        unfold body. rewrite parse_params_print by discriminate. cbn [rbind fst snd].
        unfold Q. rewrite parse_qrefs_print; [reflexivity | assumption | assumption |].
        pose proof (length_sep_by_qrefs qs). lia.
    - injection H as <-. destruct Hp as (Hq & Hr & Hi).
      change ((x <- parse_qref reserved (print_qref q ++ [TArrow] ++ print_qref (reg, idx));
               match snd x with
               | TArrow :: rest2 => y <- parse_decl reserved rest2; OK (Some (SMeasure (fst x) (fst y) (snd y)))
               | _ => Err EValueError
               end) = OK (Some (SMeasure q reg idx))).
      rewrite parse_qref_print by assumption. cbn [rbind snd fst app].
      rewrite (parse_decl_print (reg, idx) (conj Hr Hi)). reflexivity.
  Qed.

  (* ---------------------------------------------------------------- whole programs *)
  Theorem parse_print_stmts : forall stmts toks,
    Forall printable stmts -> print_stmts stmts = OK toks ->
    parse_qasm reserved (header ++ toks) = OK stmts.
  Proof.
    intros stmts toks Hp H. unfold print_stmts in H. apply rbind_ok in H. destruct H as (segs & Hsegs & H).
    injection H as <-.
    assert (Hns : Forall nosemi segs /\ parse_segments reserved segs = OK stmts).
    { revert segs Hsegs. induction Hp as [|s l Hs Hl IH]; intros segs Hsegs; simpl in Hsegs.
      - injection Hsegs as <-. split; [constructor | reflexivity].
      - apply rbind_ok in Hsegs. destruct Hsegs as (t & Ht & Hsegs).
        apply rbind_ok in Hsegs. destruct Hsegs as (ts & Hts & Hsegs). injection Hsegs as <-.
        destruct (IH ts Hts) as [Hn Hps]. split.
        + constructor; [eapply print_stmt_nosemi; eassumption | assumption].
        + cbn [parse_segments]. rewrite (parse_print_stmt s t Hs Ht). cbn [rbind]. rewrite Hps. reflexivity. }
    destruct Hns as [Hn Hps].
    unfold parse_qasm.
    change (header ++ flat_map (fun t => t ++ [TSemi]) segs)
      with (flat_map (fun t => t ++ [TSemi]) ([TId "OPENQASM"; TFlt bits_two] :: [TId "include"; TStr "qelib1.inc"] :: segs)).
    rewrite split_semi_all.
    - cbn [parse_segments parse_segment]. simpl String.eqb. cbn [rbind]. rewrite Hps. reflexivity.
    - constructor; [reflexivity|]. constructor; [reflexivity | assumption].
  Qed.
End TextProofs.

(* ================================================================== the writer's statements are printable *)
Section WriterText.
  Variable reserved : list string.
  Variable rows : list row.
  Hypothesis Hkw : forallb (fun k => mem_str k reserved) grammar_keywords = true.
  Hypothesis Hq : name_ok reserved "q" = true.
  Hypothesis Hlabels : forall r l, In r rows -> rlabel r = Some l -> name_ok reserved l = true.

  (* what the text layer needs of a circuit beyond what the statement-level theorem needs:
     register names that are identifiers and not reserved words, no negative qubit, no gate without qubits *)
  Record text_exportable (c : circuit) : Prop := {
    te_n : 0 <= cn c;
    te_regs : Forall (fun rq : string * list Z => name_ok reserved (fst rq) = true /\ snd rq <> []
                                                  /\ Forall (fun q => 0 <= q) (snd rq)) (measurement_tuples c);
    te_gates : Forall (fun g => gqubits g <> [] /\ Forall (fun q => 0 <= q) (gqubits g))
                      (filter (fun g => negb (is_M g)) (cqueue c))
  }.

  Lemma write_printable : forall c s, text_exportable c -> write rows c = OK s -> Forall (printable reserved) s.
  Proof.
    intros c s [Hn Hregs Hgates] H. unfold write in H.
    apply rbind_ok in H. destruct H as (cregs & Hc & H). apply rbind_ok in H. destruct H as (gs & Hg & H).
    injection H as <-.
    constructor; [split; assumption|].
    apply Forall_app. split; [|apply Forall_app; split].
    - revert cregs Hc. induction Hregs as [|[name qs] mt (Hname & Hne & _) Hmt IH]; intros cregs Hc; simpl in Hc.
      + injection Hc as <-. constructor.
      + apply rbind_ok in Hc. destruct Hc as (st & Hst & Hc). apply rbind_ok in Hc. destruct Hc as (rest & Hrest & Hc).
        injection Hc as <-. apply rbind_ok in Hst. destruct Hst as (b & _ & Hst). destruct b; [|discriminate].
        injection Hst as <-. constructor; [|apply IH; assumption].
        simpl in Hne, Hname. simpl. split; [exact Hname|]. destruct qs; [congruence | simpl; lia].
    - revert gs Hg. induction Hgates as [|g l (Hne & Hpos) Hl IH]; intros gs Hg; simpl in Hg.
      + injection Hg as <-. constructor.
      + apply rbind_ok in Hg. destruct Hg as (st & Hst & Hg). apply rbind_ok in Hg. destruct Hg as (rest & Hrest & Hg).
        injection Hg as <-. constructor; [|apply IH; assumption].
        unfold write_gate in Hst. destruct (gcb g); [discriminate|].
        destruct (find_row (gcls g) rows) as [r|] eqn:Er; [|discriminate].
        destruct (rlabel r) as [lab|] eqn:El; [|discriminate].
        apply rbind_ok in Hst. destruct Hst as (ps & _ & Hst). injection Hst as <-.
        simpl. split; [apply (Hlabels r lab (find_row_In _ _ _ Er) El)|]. split.
        * destruct (gqubits g); [congruence | discriminate].
        * clear -Hpos Hq. induction Hpos as [|q l Hq0 Hl IHl]; simpl; constructor; [split; assumption | assumption].
    - clear -Hregs Hq. induction Hregs as [|[name qs] mt (Hname & _ & Hpos) Hmt IH]; simpl; [constructor|].
      apply Forall_app. split; [|exact IH].
      simpl in Hname, Hpos. generalize 0%nat. clear -Hname Hpos Hq. induction Hpos as [|q l Hq0 Hl IHl]; intros i; simpl; constructor.
      + simpl. split; [split; assumption|]. split; [exact Hname | lia].
      + apply IHl.
  Qed.

  (* the text that print_qasm produces is parsed back to exactly the statements of the writer *)
  Theorem parse_print_qasm : forall c toks,
    text_exportable c -> print_qasm rows c = OK toks ->
    exists s, write rows c = OK s /\ parse_qasm reserved toks = OK s.
  Proof.
    intros c toks T H. unfold print_qasm in H.
    apply rbind_ok in H. destruct H as (s & Hs & H). apply rbind_ok in H. destruct H as (b & Hb & H).
    injection H as <-. exists s. split; [exact Hs|].
    apply (parse_print_stmts reserved Hkw s b); [|exact Hb].
    apply (write_printable c s T Hs).
  Qed.
End WriterText.
