(* C13/Trainable.v : Gate.raw on the repaired tree exports `trainable` iff it differs from the class default
   (Model.raw_t / craw_t).  Facts relating it to the pre-repair rule Model.raw, so that every theorem stated with
   `raw` / `craw` applies verbatim to gates / circuits whose flag has its default value. *)
From Coq Require Import String List ZArith Bool.
From QV Require Import C13.Model C13.Proofs.
Import ListNotations.
Local Open Scope string_scope.

Lemma raw_t_default : forall rows required g,
  trainable_extra rows required g = [] -> raw_t rows required g = raw required g.
Proof. intros rows required g H. unfold raw_t, raw. rewrite H, app_nil_r. reflexivity. Qed.

Lemma craw_t_default : forall rows required c,
  Forall (fun g => trainable_extra rows required g = []) (cqueue c) -> craw_t rows required c = craw required c.
Proof.
  intros rows required c H. unfold craw_t, craw. f_equal.
  induction H as [|g l Hg Hl IH]; simpl; [reflexivity|]. rewrite (raw_t_default _ _ _ Hg), IH. reflexivity.
Qed.

(* raw_t differs from raw only by the one appended key *)
Lemma raw_t_fields : forall rows required g,
  w_cls (raw_t rows required g) = w_cls (raw required g) /\ w_args (raw_t rows required g) = w_args (raw required g)
  /\ w_targets (raw_t rows required g) = w_targets (raw required g) /\ w_controls (raw_t rows required g) = w_controls (raw required g)
  /\ w_samples (raw_t rows required g) = w_samples (raw required g)
  /\ w_kw (raw_t rows required g) = (w_kw (raw required g) ++ trainable_extra rows required g)%list.
Proof. intros. repeat split; reflexivity. Qed.

(* the appended key is `trainable` with the gate's own value, and only when the value is not the class default *)
Lemma trainable_extra_spec : forall rows required g,
  trainable_extra rows required g = []
  \/ exists v, trainable_extra rows required g = [("trainable", v)] /\ lookup "trainable" (gkw g) = Some v
               /\ mem_str "trainable" required = false
               /\ exists r f, find_row (gcls g) rows = Some r /\ find_formal "trainable" (rformals r) = Some f
                              /\ (forall d, fdef f = Some d -> val_eqb v d = false).
Proof.
  intros rows required g. unfold trainable_extra.
  destruct (mem_str "trainable" required) eqn:Em; [left; reflexivity|].
  destruct (find_row (gcls g) rows) as [r|] eqn:Er; [|left; reflexivity].
  destruct (find_formal "trainable" (rformals r)) as [f|] eqn:Ef; [|left; reflexivity].
  destruct (lookup "trainable" (gkw g)) as [v|] eqn:El; [|left; reflexivity].
  destruct (fdef f) as [d|] eqn:Ed.
  - destruct (val_eqb v d) eqn:Ev; [left; reflexivity|].
    right. exists v. repeat split; try reflexivity. exists r, f. repeat split; try assumption.
    intros d' Hd'. congruence.
  - right. exists v. repeat split; try reflexivity. exists r, f. repeat split; try assumption. intros d' Hd'. congruence.
Qed.

(* the circuit theorem of Props.v, restated for the repaired exporter, for circuits whose gates keep the default flag *)
Theorem circuit_dict_roundtrip_t_main : forall rotation required rows bases n dm gs c,
  build rotation n dm gs = OK c ->
  Forall (fun g => trainable_extra rows required g = []) (cqueue c) ->
  Forall (fun g => basis_gates rotation g = []
                   /\ exists g', from_dict rows bases (raw_t rows required g) = OK g' /\ gsame g g') gs ->
  Forall (fun g => trainable_extra rows required g = []) gs ->
  exists c', cfrom_dict rows bases rotation (craw_t rows required c) = OK c' /\ circ_rel c c'.
Proof.
  intros rotation required rows bases n dm gs c Hb Hq Hgs Hd.
  rewrite (craw_t_default _ _ _ Hq).
  apply (circuit_dict_roundtrip_main rotation required rows bases n dm gs c Hb).
  clear Hb Hq. induction Hgs as [|g l (Hbz & g' & Hf & Hs) Hl IH]; [constructor|].
  inversion Hd; subst. constructor; [|apply IH; assumption].
  split; [exact Hbz|]. exists g'. rewrite <- (raw_t_default rows required g) by assumption. split; assumption.
Qed.

(* statement shape of the generated per-class theorems raw_roundtrip_<C>_nontrainable *)
Definition raw_rt_nt_ok (r : res gate) (g : gate) : Prop :=
  match r with
  | OK g' => raw_rt_ok (OK g') g /\ lookup "trainable" (gkw g) = Some (VA (ABool false))
             /\ lookup "trainable" (gkw g') = Some (VA (ABool false))
  | Err _ => False
  end.
Ltac raw_rt_nt_tac := raw_rt_tac.
