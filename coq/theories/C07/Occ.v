(* C07/Occ.v : occurrences are POSITIONS of the queue, not gate objects.

   In the model of C07/Model.v a node of the fusion graph is addressed by its index in the queue and
   the neighbour dictionaries hold such indices; nothing is keyed by the identity [gid] of a gate.
   This file states and proves that fact: relabelling the gates of a circuit by ANY function that
   keeps qubits and kind -- in particular one that gives several positions the same identity, which is
   what a circuit containing one gate object at several positions is -- commutes with to_fused, the
   fusion loop, from_fused and the light-cone sweep.  Hence the group structure never depends on which
   positions hold "the same" gate, every position is emitted exactly once, and all theorems of
   C07/Props.v (stated for all lists of letters, without any NoDup hypothesis on identities) apply to
   circuits with repeated objects.

   Also: the faithful model of what Circuit.light_cone does with a measurement whose basis is not Z
   (M.on_qubits builds a new gate whose fresh basis rotations Circuit.add inserts again), and its
   refutation.                                                                                         *)
From Coq Require Import List Bool Arith Lia Permutation.
From QV Require Import Base.Trace C07.Model C07.Proofs.
Import ListNotations.

Definition shape_preserving (h : gate -> gate) : Prop :=
  forall g, gqs (h g) = gqs g /\ gk (h g) = gk g.
Definition regid (f : nat -> nat) (g : gate) : gate := mkGate (f (gid g)) (gqs g) (gk g).
Lemma regid_shape f : shape_preserving (regid f).
Proof. intros g. split; reflexivity. Qed.

Definition node_map (h : gate -> gate) (nd : node) : node :=
  mkNode (nqs nd) (map h (ngates nd)) (nmarked nd) (nleft nd) (nright nd).
Definition st_map (h : gate -> gate) (st : state) : state := map (node_map h) st.
Definition item_map (h : gate -> gate) (it : item) : item :=
  match it with ISingle g => ISingle (h g) | IGroup qs gs => IGroup qs (map h gs) end.

Section Relabel.
  Variable h : gate -> gate.
  Hypothesis Hh : shape_preserving h.

  Lemma h_qs g : gqs (h g) = gqs g. Proof. apply Hh. Qed.
  Lemma h_k g : gk (h g) = gk g. Proof. apply Hh. Qed.
  Lemma h_ord g : is_ord (h g) = is_ord g. Proof. unfold is_ord. now rewrite h_k. Qed.
  Lemma h_node_qs n g : node_qs n (h g) = node_qs n g.
  Proof. unfold node_qs. now rewrite h_k, h_qs. Qed.

  Lemma getn_map st i : getn (st_map h st) i = node_map h (getn st i).
  Proof.
    unfold getn, st_map. change dnode with (node_map h dnode) at 1. apply map_nth.
  Qed.
  Lemma st_map_length st : length (st_map h st) = length st.
  Proof. apply map_length. Qed.

  Lemma mapi_from_commute (F : nat -> node -> node) :
    (forall j x, F j (node_map h x) = node_map h (F j x)) ->
    forall l i, mapi_from i F (map (node_map h) l) = map (node_map h) (mapi_from i F l).
  Proof.
    intros HF l. induction l as [|x l IH]; intros i; simpl; auto. now rewrite HF, IH.
  Qed.

  (* two index-functions that agree pointwise after relabelling *)
  Lemma mapi_from_commute2 (F G : nat -> node -> node) :
    (forall j x, F j (node_map h x) = node_map h (G j x)) ->
    forall l i, mapi_from i F (map (node_map h) l) = map (node_map h) (mapi_from i G l).
  Proof.
    intros HF l. induction l as [|x l IH]; intros i; simpl; auto. now rewrite HF, IH.
  Qed.

  Lemma add_node_commute n st last g :
    add_node n (st_map h st, last) (h g)
    = (st_map h (fst (add_node n (st, last) g)), snd (add_node n (st, last) g)).
  Proof.
    unfold add_node. cbn [fst snd]. rewrite st_map_length, h_node_qs, h_ord. f_equal.
    unfold st_map at 2. rewrite map_app. cbn [map]. f_equal.
    unfold mapi, st_map. apply mapi_from_commute. intros j x. reflexivity.
  Qed.

  Lemma to_fused_fold_commute n c : forall st last,
    fold_left (add_node n) (map h c) (st_map h st, last)
    = (st_map h (fst (fold_left (add_node n) c (st, last))), snd (fold_left (add_node n) c (st, last))).
  Proof.
    induction c as [|g c IH]; intros st last; cbn [map fold_left].
    - reflexivity.
    - rewrite add_node_commute. destruct (add_node n (st, last) g) as [st' last'] eqn:E. cbn [fst snd].
      apply IH.
  Qed.

  Lemma to_fused_commute n c : to_fused n (map h c) = st_map h (to_fused n c).
  Proof.
    unfold to_fused. change (@nil node) with (st_map h []) at 1. now rewrite to_fused_fold_commute.
  Qed.

  Lemma can_fuse_commute st a b k : can_fuse (st_map h st) a b k = can_fuse st a b k.
  Proof. unfold can_fuse. now rewrite !getn_map. Qed.

  Lemma merge_right_commute st l r : merge_right (st_map h st) l r = st_map h (merge_right st l r).
  Proof.
    unfold merge_right, mapi, st_map. apply mapi_from_commute2. intros j x.
    destruct (j =? l); [|destruct (j =? r)].
    - unfold mr_parent. fold (st_map h st). rewrite !getn_map. unfold node_map; cbn. now rewrite map_app.
    - fold (st_map h st). rewrite getn_map. reflexivity.
    - unfold mr_other. fold (st_map h st). rewrite !getn_map. reflexivity.
  Qed.

  Lemma merge_left_commute st l r : merge_left (st_map h st) l r = st_map h (merge_left st l r).
  Proof.
    unfold merge_left, mapi, st_map. apply mapi_from_commute2. intros j x.
    destruct (j =? r); [|destruct (j =? l)].
    - unfold ml_parent. fold (st_map h st). rewrite !getn_map. unfold node_map; cbn. now rewrite map_app.
    - fold (st_map h st). rewrite getn_map. reflexivity.
    - unfold ml_other. fold (st_map h st). rewrite !getn_map. reflexivity.
  Qed.

  Lemma fuse_pair_commute st l r : fuse_pair (st_map h st) l r = st_map h (fuse_pair st l r).
  Proof.
    unfold fuse_pair. rewrite !getn_map. cbn [node_map nright nleft nqs].
    destruct ((0 <? length (others (nright (getn st l)) r)) && (0 <? length (others (nleft (getn st r)) l))); auto.
    destruct (length (others (nleft (getn st r)) l) <? length (others (nright (getn st l)) r)).
    - destruct (between_ok _ _ r); auto. apply merge_right_commute.
    - destruct (between_ok _ _ l); auto. apply merge_left_commute.
  Qed.

  Lemma visit_q_commute k i st q : visit_q k i (st_map h st) q = st_map h (visit_q k i st q).
  Proof.
    unfold visit_q. rewrite getn_map. cbn [node_map nright].
    set (st1 := match lookup (nright (getn st i)) q with
                | Some nb => if can_fuse st i nb k then fuse_pair st i nb else st
                | None => st end).
    assert (E : match lookup (nright (getn st i)) q with
                | Some nb => if can_fuse (st_map h st) i nb k then fuse_pair (st_map h st) i nb else st_map h st
                | None => st_map h st end = st_map h st1).
    { unfold st1. destruct (lookup (nright (getn st i)) q); auto. rewrite can_fuse_commute.
      destruct (can_fuse st i n k); auto. apply fuse_pair_commute. }
    rewrite E, getn_map. cbn [node_map nleft].
    destruct (lookup (nleft (getn st1 i)) q); auto. rewrite can_fuse_commute.
    destruct (can_fuse st1 i n k); auto. apply fuse_pair_commute.
  Qed.

  Lemma visit_commute k st i : visit k (st_map h st) i = st_map h (visit k st i).
  Proof.
    unfold visit. rewrite getn_map. cbn [node_map nmarked nqs]. destruct (nmarked (getn st i)); auto.
    generalize (nqs (getn st i)) as qs. intros qs. revert st. induction qs as [|q qs IH]; intros st; cbn [fold_left]; auto.
    rewrite visit_q_commute. apply IH.
  Qed.

  Lemma fuse_loop_commute k st : fuse_loop k (st_map h st) = st_map h (fuse_loop k st).
  Proof.
    unfold fuse_loop. rewrite st_map_length. generalize (seq 0 (length st)) as is. intros is. revert st.
    induction is as [|i is IH]; intros st; cbn [fold_left]; auto. rewrite visit_commute. apply IH.
  Qed.

  Lemma node_items_commute nd : node_items (node_map h nd) = map (item_map h) (node_items nd).
  Proof.
    unfold node_items. cbn [node_map nmarked ngates nqs]. destruct (nmarked nd); cbn [negb].
    - destruct (ngates nd) as [|g gs]; cbn [map]; auto. rewrite h_ord. destruct (is_ord g); reflexivity.
    - destruct (ngates nd) as [|g [|g' gs]]; reflexivity.
  Qed.

  Lemma from_fused_commute st : from_fused (st_map h st) = map (item_map h) (from_fused st).
  Proof.
    unfold from_fused, st_map. induction st as [|nd st IH]; cbn [map flat_map]; auto.
    now rewrite node_items_commute, IH, map_app.
  Qed.

  Theorem fuse_model_commute n c k : fuse_model n (map h c) k = map (item_map h) (fuse_model n c k).
  Proof. unfold fuse_model. now rewrite to_fused_commute, fuse_loop_commute, from_fused_commute. Qed.

  Lemma flatten_commute its : flatten (map (item_map h) its) = map h (flatten its).
  Proof.
    unfold flatten. induction its as [|it its IH]; cbn [map flat_map]; auto.
    rewrite IH, map_app. f_equal. destruct it; reflexivity.
  Qed.

  (* light cone *)
  Lemma lc_step_commute cone kept g :
    lc_step (cone, map h kept) (h g) = (fst (lc_step (cone, kept) g), map h (snd (lc_step (cone, kept) g))).
  Proof. unfold lc_step. rewrite h_qs. destruct (disjointb (gqs g) cone); reflexivity. Qed.

  Lemma lc_fold_commute l : forall cone kept,
    fold_left lc_step (map h l) (cone, map h kept)
    = (fst (fold_left lc_step l (cone, kept)), map h (snd (fold_left lc_step l (cone, kept)))).
  Proof.
    induction l as [|g l IH]; intros cone kept; cbn [map fold_left]; auto.
    rewrite lc_step_commute. destruct (lc_step (cone, kept) g) as [c' k'] eqn:E. cbn [fst snd]. apply IH.
  Qed.

  Theorem lc_sweep_commute c S :
    lc_sweep (map h c) S = (fst (lc_sweep c S), map h (snd (lc_sweep c S))).
  Proof.
    unfold lc_sweep. rewrite <- map_rev. change (@nil gate) with (map h []) at 1. apply lc_fold_commute.
  Qed.
End Relabel.

(* every letter keeps its multiplicity *)
Definition gate_eq_dec : forall a b : gate, {a = b} + {a <> b}.
Proof.
  intros a b. destruct (gate_eqb a b) eqn:E.
  - left. now apply gate_eqb_eq.
  - right. intros ->. rewrite gate_eqb_refl in E. discriminate.
Defined.

(* ---------- what Circuit.light_cone does with measurements in a basis other than Z ----------
   Circuit.light_cone builds the new circuit with `circuit.add(gate.on_qubits(qubit_map) ...)`.  For a
   measurement M.on_qubits constructs a NEW gate, whose __init__ creates fresh basis-rotation gates, and
   Circuit.add(M) first adds every rotation of M.basis that is not yet in the queue (`base not in
   self.queue`: the fresh objects never are).  [rot g] = the fresh rotation letters of the measurement g
   (empty for the Z basis and for every other gate).                                                     *)
Definition lc_readd (rot : gate -> list gate) (kept : list gate) : list gate :=
  flat_map (fun g => rot g ++ [g]) kept.
(* the queue of the returned circuit, before re-indexing *)
Definition light_cone_queue (rot : gate -> list gate) (c : list gate) (S : list nat) : list gate :=
  lc_readd rot (snd (lc_sweep c S)).
