(* C07/ProofsFuse.v : correctness of the fusion model of C07/Model.v.
   Main results: fuse_equiv, fuse_keeps_measurements, fuse_width (restated in C07/Props.v). *)
From Coq Require Import List Bool Arith Lia Sorted Permutation.
From QV Require Import Base.Trace C07.Model C07.Proofs.
Import ListNotations.

(* ================================================================ dictionaries *)
Lemma lookup_mset m q v k : lookup (mset m q v) k = if q =? k then Some v else lookup m k.
Proof.
  induction m as [|[a w] m IH]; simpl.
  - reflexivity.
  - destruct (a =? q) eqn:E; simpl.
    + apply Nat.eqb_eq in E. subst a. destruct (q =? k); reflexivity.
    + rewrite IH. destruct (a =? k) eqn:E2; auto.
      apply Nat.eqb_eq in E2. subst a. rewrite Nat.eqb_sym, E. reflexivity.
Qed.

Lemma lookup_mremove m q k : lookup (mremove m q) k = if q =? k then None else lookup m k.
Proof.
  induction m as [|[a w] m IH]; simpl.
  - destruct (q =? k); reflexivity.
  - destruct (a =? q) eqn:E; simpl.
    + rewrite IH. apply Nat.eqb_eq in E. subst a. destruct (q =? k); reflexivity.
    + rewrite IH. destruct (a =? k) eqn:E2; auto.
      apply Nat.eqb_eq in E2. subst a. rewrite Nat.eqb_sym, E. reflexivity.
Qed.

Definition act_result (a : maction) (old : option nat) : option nat :=
  match a with Keep => old | Put v => Some v | Del => None end.

Lemma lookup_mapply m q a k :
  lookup (mapply m q a) k = if q =? k then act_result a (lookup m k) else lookup m k.
Proof.
  destruct a; simpl.
  - destruct (q =? k); reflexivity.
  - apply lookup_mset.
  - apply lookup_mremove.
Qed.

Lemma lookup_mupd m qs F k :
  lookup (mupd m qs F) k = if memb k qs then act_result (F k) (lookup m k) else lookup m k.
Proof.
  unfold mupd. revert m. induction qs as [|q qs IH]; intros m; simpl.
  - reflexivity.
  - rewrite IH. rewrite lookup_mapply. rewrite (Nat.eqb_sym k q).
    destruct (q =? k) eqn:E; simpl.
    + apply Nat.eqb_eq in E. subst q.
      destruct (memb k qs); auto. destruct (F k); reflexivity.
    + reflexivity.
Qed.

Lemma lookup_In_keys m k v : lookup m k = Some v -> In k (map fst m).
Proof.
  induction m as [|[a w] m IH]; simpl; intros H; [discriminate|].
  destruct (a =? k) eqn:E; auto. apply Nat.eqb_eq in E. auto.
Qed.

Lemma mvalues_spec m v : In v (mvalues m) <-> exists k, lookup m k = Some v.
Proof.
  unfold mvalues. rewrite in_flat_map. split.
  - intros [k [Hk Hv]]. exists k. destruct (lookup m k); simpl in Hv; [destruct Hv as [->|[]]; reflexivity | destruct Hv].
  - intros [k Hk]. exists k. split.
    + apply nodup_In. eapply lookup_In_keys; eauto.
    + rewrite Hk. left; auto.
Qed.

Lemma others_nil m r : others m r = [] <-> (forall k v, lookup m k = Some v -> v = r).
Proof.
  unfold others. split.
  - intros H k v Hk. destruct (Nat.eq_dec v r) as [|Hne]; auto. exfalso.
    assert (In v (nodup Nat.eq_dec (filter (fun v => negb (v =? r)) (mvalues m)))) as Hin.
    { apply nodup_In. apply filter_In. split.
      - apply mvalues_spec; eauto.
      - apply negb_true_iff. now apply Nat.eqb_neq. }
    rewrite H in Hin. inversion Hin.
  - intros H. destruct (nodup Nat.eq_dec _) as [|v l] eqn:E; auto. exfalso.
    assert (In v (v :: l)) as Hin by (left; auto). rewrite <- E in Hin.
    apply nodup_In in Hin. apply filter_In in Hin. destruct Hin as [Hv Hne].
    apply mvalues_spec in Hv. destruct Hv as [k Hk]. apply H in Hk. subst.
    rewrite Nat.eqb_refl in Hne. discriminate.
Qed.

Lemma between_ok_spec m shared c :
  between_ok m shared c = true -> shared <> [] /\ forall q, In q shared -> lookup m q = Some c.
Proof.
  unfold between_ok. destruct shared as [|q0 sh]; [discriminate|]. intros H. split; [discriminate|].
  intros q Hq. rewrite forallb_forall in H. specialize (H q Hq).
  unfold opt_is in H. destruct (lookup m q); [|discriminate]. apply Nat.eqb_eq in H. congruence.
Qed.

Lemma opt_is_true o v : opt_is o v = true <-> o = Some v.
Proof.
  unfold opt_is. destruct o; split; intros H; try discriminate.
  - apply Nat.eqb_eq in H. congruence.
  - inversion H. apply Nat.eqb_refl.
Qed.

(* ================================================================ mapi *)
Lemma mapi_from_length {X Y} (f : nat -> X -> Y) l i : length (mapi_from i f l) = length l.
Proof. revert i. induction l; intros; simpl; auto. Qed.

Lemma mapi_length {X Y} (f : nat -> X -> Y) l : length (mapi f l) = length l.
Proof. apply mapi_from_length. Qed.

Lemma mapi_from_nth {X Y} (f : nat -> X -> Y) l i j dx dy :
  j < length l -> nth j (mapi_from i f l) dy = f (i + j) (nth j l dx).
Proof.
  revert i j. induction l as [|x l IH]; intros i j H; simpl in *; [lia|].
  destruct j.
  - now rewrite Nat.add_0_r.
  - rewrite IH by lia. f_equal. lia.
Qed.

Lemma mapi_nth {X Y} (f : nat -> X -> Y) l j dx dy :
  j < length l -> nth j (mapi f l) dy = f j (nth j l dx).
Proof. intros H. unfold mapi. now rewrite (mapi_from_nth f l 0 j dx dy H). Qed.

Lemma map_nth_seq {X} (l : list X) d : map (fun i => nth i l d) (seq 0 (length l)) = l.
Proof.
  induction l as [|x l IH]; simpl; auto. f_equal.
  rewrite <- seq_shift, map_map. exact IH.
Qed.

Lemma flat_map_nth_seq {X Y} (f : X -> list Y) (l : list X) d :
  flat_map (fun i => f (nth i l d)) (seq 0 (length l)) = flat_map f l.
Proof.
  rewrite <- (map_nth_seq l d) at 2. rewrite flat_map_concat_map, flat_map_concat_map, map_map.
  reflexivity.
Qed.

(* ================================================================ abstract adjacency *)
(* [bef dir i j] : i comes before j when walking in direction dir (true = forward in time) *)
Definition bef (dir : bool) (i j : nat) : Prop := if dir then i < j else j < i.

Section AdjG.
  Variable dir : bool.
  Variable lv : nat -> Prop.                 (* node is alive (appears in the output)      *)
  Variable qs : nat -> nat -> Prop.          (* qs i q : node i acts on qubit q              *)
  Variable nx pv : nat -> nat -> option nat. (* neighbour dictionaries in direction dir / against it *)

  Definition onG (m q : nat) : Prop := lv m /\ qs m q.

  (* the dictionary [f] (walking in direction d) of every live node describes exactly the
     adjacency on each of its qubits; an entry pointing to a dead node means "no neighbour" *)
  Definition half (d : bool) (f : nat -> nat -> option nat) : Prop :=
    (forall i q j, lv i -> f i q = Some j ->
        qs i q /\ ((lv j /\ bef d i j /\ qs j q /\ forall m, bef d i m -> bef d m j -> ~ onG m q)
                   \/ (~ lv j /\ forall m, bef d i m -> ~ onG m q)))
    /\ (forall i q, lv i -> qs i q -> f i q = None -> forall m, bef d i m -> ~ onG m q).

  Definition AdjG : Prop := half dir nx /\ half (negb dir) pv.
End AdjG.

Lemma AdjG_flip dir lv qs nx pv : AdjG dir lv qs nx pv <-> AdjG (negb dir) lv qs pv nx.
Proof. unfold AdjG. rewrite negb_involutive. tauto. Qed.

Ltac ord := unfold bef in *; simpl in *; lia.

(* one merge: the child [c] (after the parent [p] in direction dir) is absorbed by the parent *)
Section Merge.
  Variable dir : bool.
  Variables (lv : nat -> Prop) (qs : nat -> nat -> Prop) (nx pv : nat -> nat -> option nat).
  Variables (lv' : nat -> Prop) (qs' : nat -> nat -> Prop) (nx' pv' : nat -> nat -> option nat).
  Variables (p c : nat) (del : bool).
  Hypothesis qs_dec : forall i q, qs i q \/ ~ qs i q.
  Hypothesis H0 : AdjG dir lv qs nx pv.
  Hypothesis Hp : lv p.
  Hypothesis Hc : lv c.
  Hypothesis Hpc : bef dir p c.
  Hypothesis Hbetween : forall q, qs p q -> qs c q -> nx p q = Some c.
  Hypothesis Hothers : forall q j, pv c q = Some j -> j = p.
  Hypothesis Hlv' : forall i, lv' i <-> lv i /\ i <> c.
  Hypothesis Hqs'p : forall q, qs' p q <-> qs p q \/ qs c q.
  Hypothesis Hqs'o : forall i q, i <> p -> (qs' i q <-> qs i q).
  Hypothesis Hnx'p_rest : forall q, qs c q -> ~ qs p q ->
      nx' p q = match nx c q with Some j => Some j | None => nx p q end.
  Hypothesis Hnx'p_shared : forall q, qs c q -> qs p q ->
      nx' p q = match nx c q with Some j => Some j | None => if del then None else nx p q end.
  Hypothesis Hnx'p_else : forall q, ~ qs c q -> nx' p q = nx p q.
  Hypothesis Hpv'p_rest : forall q, qs c q -> ~ qs p q ->
      pv' p q = match pv c q with Some j => Some j | None => pv p q end.
  Hypothesis Hpv'p_else : forall q, ~ (qs c q /\ ~ qs p q) -> pv' p q = pv p q.
  Hypothesis Hpv'o : forall i q, lv i -> i <> p -> i <> c ->
      (qs c q -> nx c q = Some i -> pv' i q = Some p)
      /\ (~ (qs c q /\ nx c q = Some i) -> pv' i q = pv i q).
  Hypothesis Hnx'o : forall i q, lv i -> i <> p -> i <> c ->
      (~ (qs c q /\ ~ qs p q /\ pv c q = Some i) -> nx' i q = nx i q).

  Let Hnx := proj1 H0.
  Let Hpv := proj2 H0.

  Lemma pc_ne : p <> c.
  Proof. intros E. subst. destruct dir; ord. Qed.

  (* nothing alive strictly between parent and child touches a qubit of the child *)
  Lemma claim_between q m : qs c q -> bef dir p m -> bef dir m c -> ~ onG lv qs m q.
  Proof.
    intros Hq H1 H2. destruct (qs_dec p q) as [Hpq|Hpq].
    - pose proof (Hbetween q Hpq Hq) as E.
      destruct (proj1 Hnx p q c Hp E) as [_ [[_ [_ [_ Hb]]]|[Hd _]]]; [|contradiction].
      apply Hb; auto.
    - destruct (pv c q) as [j|] eqn:E.
      + pose proof (Hothers q j E). subst j.
        destruct (proj1 Hpv c q p Hc E) as [_ [[_ [_ [Hq' _]]]|[Hd _]]]; contradiction.
      + apply (proj2 Hpv c q Hc Hq E). destruct dir; ord.
  Qed.

  Lemma pv_c_rest q : qs c q -> ~ qs p q -> pv c q = None.
  Proof.
    intros Hq Hpq. destruct (pv c q) as [j|] eqn:E; auto.
    pose proof (Hothers q j E). subst j.
    destruct (proj1 Hpv c q p Hc E) as [_ [[_ [_ [Hq' _]]]|[Hd _]]]; contradiction.
  Qed.

  Lemma nx_p_rest q : ~ qs p q -> nx p q = None.
  Proof.
    intros Hpq. destruct (nx p q) as [j|] eqn:E; auto.
    destruct (proj1 Hnx p q j Hp E) as [Hq' _]. contradiction.
  Qed.

  Lemma nothing_before_c_rest q m : qs c q -> ~ qs p q -> bef (negb dir) c m -> ~ onG lv qs m q.
  Proof.
    intros Hq Hpq Hm. apply (proj2 Hpv c q Hc Hq (pv_c_rest q Hq Hpq)). auto.
  Qed.

  (* clean description of the parent's new dictionaries *)
  Lemma nx'_p_c q : qs c q -> nx' p q = nx c q \/ (nx c q = None /\ nx' p q = Some c).
  Proof.
    intros Hq. destruct (qs_dec p q) as [Hpq|Hpq].
    - rewrite (Hnx'p_shared q Hq Hpq). destruct (nx c q) as [j|]; auto.
      destruct del; auto; right; split; auto.
    - rewrite (Hnx'p_rest q Hq Hpq). destruct (nx c q) as [j|]; auto.
      left. apply nx_p_rest; auto.
  Qed.

  Lemma pv'_p q : pv' p q = pv p q.
  Proof.
    destruct (qs_dec c q) as [Hq|Hq]; [destruct (qs_dec p q) as [Hpq|Hpq]|].
    - apply Hpv'p_else. tauto.
    - rewrite (Hpv'p_rest q Hq Hpq). now rewrite (pv_c_rest q Hq Hpq).
    - apply Hpv'p_else. tauto.
  Qed.

  Lemma nx'_o i q : lv i -> i <> p -> i <> c -> nx' i q = nx i q.
  Proof.
    intros Hi H1 H2. apply Hnx'o; auto. intros [Hq [Hpq E]]. apply H1. eapply Hothers; eauto.
  Qed.

  (* the new "on" relation *)
  Lemma on'_inv m q : onG lv' qs' m q -> (m <> c /\ onG lv qs m q) \/ (m = p /\ qs c q /\ ~ qs p q).
  Proof.
    intros [Hl Hq]. apply Hlv' in Hl. destruct Hl as [Hl Hmc].
    destruct (Nat.eq_dec m p) as [->|Hmp].
    - apply Hqs'p in Hq. destruct (qs_dec p q) as [Hpq|Hpq].
      + left. split; auto. split; auto.
      + right. destruct Hq; tauto.
    - left. split; auto. split; auto. apply (Hqs'o m q Hmp); auto.
  Qed.

  Lemma on_c q : qs c q -> onG lv qs c q.
  Proof. split; auto. Qed.

  (* symmetric links derived from the adjacency *)
  Lemma nx_to_c i q : lv i -> nx i q = Some c -> i = p.
  Proof.
    intros Hi E.
    destruct (proj1 Hnx i q c Hi E) as [Hqi [[_ [Hic [Hqc Hb]]]|[Hd _]]]; [|contradiction].
    destruct (pv c q) as [j|] eqn:Ej.
    - pose proof (Hothers q j Ej). subst j.
      destruct (proj1 Hpv c q p Hc Ej) as [_ [[_ [Hcp [Hqp Hb2]]]|[Hd _]]]; [|contradiction].
      destruct (Nat.eq_dec i p) as [|Hne]; auto. exfalso.
      assert (bef dir i p \/ bef dir p i) as [Hip|Hpi] by (destruct dir; ord).
      + apply (Hb p); auto. split; auto.
      + apply (Hb2 i); [destruct dir; ord | destruct dir; ord | split; auto].
    - exfalso. apply (proj2 Hpv c q Hc Hqc Ej i); [destruct dir; ord | split; auto].
  Qed.

  Lemma pv_from_c i q : lv i -> pv i q = Some c -> qs c q /\ nx c q = Some i.
  Proof.
    intros Hi E.
    destruct (proj1 Hpv i q c Hi E) as [Hqi [[_ [Hic [Hqc Hb]]]|[Hd _]]]; [|contradiction].
    split; auto.
    destruct (nx c q) as [j|] eqn:Ej.
    - destruct (proj1 Hnx c q j Hc Ej) as [_ [[Hlj [Hcj [Hqj Hb2]]]|[Hd Hb2]]].
      + destruct (Nat.eq_dec i j) as [->|Hne]; auto. exfalso.
        assert (bef dir i j \/ bef dir j i) as [Hij|Hji] by (destruct dir; ord).
        * apply (Hb2 i); [destruct dir; ord | auto | split; auto].
        * apply (Hb j); [destruct dir; ord | destruct dir; ord | split; auto].
      + exfalso. apply (Hb2 i); [destruct dir; ord | split; auto].
    - exfalso. apply (proj2 Hnx c q Hc Hqc Ej i); [destruct dir; ord | split; auto].
  Qed.

  Ltac ordd := destruct dir; unfold bef in *; simpl in *; lia.

  Lemma tri a b : a <> b -> bef dir a b \/ bef dir b a.
  Proof. intros. ordd. Qed.

  Lemma lv'_of i : lv i -> i <> c -> lv' i.
  Proof. intros. apply Hlv'. auto. Qed.
  Lemma not_lv' j : ~ lv j -> ~ lv' j.
  Proof. intros H H1. apply Hlv' in H1. tauto. Qed.
  Lemma not_lv'_c : ~ lv' c.
  Proof. intros H1. apply Hlv' in H1. tauto. Qed.
  Lemma qs'_of i q : qs i q -> qs' i q.
  Proof.
    intros H. destruct (Nat.eq_dec i p) as [->|Hne].
    - apply Hqs'p; auto.
    - apply Hqs'o; auto.
  Qed.

  (* a live node m (not the child) after the parent's side ... : generic contradiction helper *)
  Lemma no_on'_after_c_side q m :
    qs c q -> bef dir p m ->
    (forall m0, bef dir c m0 -> ~ onG lv qs m0 q) -> ~ onG lv' qs' m q.
  Proof.
    intros Hq Hpm Hb Hon. destruct (on'_inv m q Hon) as [[Hmc Hon']|[-> _]]; [|ordd].
    destruct (tri m c Hmc) as [H|H].
    - eapply claim_between; eauto.
    - eapply Hb; eauto.
  Qed.

  Lemma merge_nx_some i q j : lv' i -> nx' i q = Some j ->
    qs' i q /\ ((lv' j /\ bef dir i j /\ qs' j q /\ forall m, bef dir i m -> bef dir m j -> ~ onG lv' qs' m q)
               \/ (~ lv' j /\ forall m, bef dir i m -> ~ onG lv' qs' m q)).
  Proof.
    intros Hi' E. apply Hlv' in Hi'. destruct Hi' as [Hi Hic].
    destruct (Nat.eq_dec i p) as [->|Hip].
    - destruct (qs_dec c q) as [Hq|Hq].
      + split; [apply Hqs'p; auto|].
        destruct (nx'_p_c q Hq) as [E1|[E1 E2]].
        * rewrite E1 in E.
          destruct (proj1 Hnx c q j Hc E) as [_ [[Hlj [Hcj [Hqj Hb]]]|[Hdj Hb]]].
          -- left. split; [apply lv'_of; auto; ordd|]. split; [ordd|].
             split; [apply Hqs'o; auto; ordd|].
             intros m H1 H2 Hon. destruct (on'_inv m q Hon) as [[Hmc Hon']|[-> _]]; [|ordd].
             destruct (tri m c Hmc) as [H|H].
             ++ eapply claim_between; eauto.
             ++ eapply Hb; eauto.
          -- right. split; [apply not_lv'; auto|].
             intros m H1. apply no_on'_after_c_side; auto.
        * rewrite E2 in E. inversion E; subst j. right. split; [apply not_lv'_c|].
          intros m H1. apply no_on'_after_c_side; auto.
          intros m0 Hm0. apply (proj2 Hnx c q Hc Hq E1 m0 Hm0).
      + rewrite (Hnx'p_else q Hq) in E.
        destruct (proj1 Hnx p q j Hp E) as [Hqp [[Hlj [Hpj [Hqj Hb]]]|[Hdj Hb]]].
        * split; [apply Hqs'p; auto|]. left.
          assert (j <> c) by (intros ->; contradiction).
          split; [apply lv'_of; auto|]. split; auto. split; [apply qs'_of; auto|].
          intros m H1 H2 Hon. destruct (on'_inv m q Hon) as [[Hmc Hon']|[-> _]]; [|ordd].
          eapply Hb; eauto.
        * split; [apply Hqs'p; auto|]. right. split; [apply not_lv'; auto|].
          intros m H1 Hon. destruct (on'_inv m q Hon) as [[Hmc Hon']|[-> _]]; [|ordd].
          eapply Hb; eauto.
    - rewrite (nx'_o i q Hi Hip Hic) in E.
      destruct (proj1 Hnx i q j Hi E) as [Hqi [[Hlj [Hij [Hqj Hb]]]|[Hdj Hb]]].
      + assert (j <> c) as Hjc.
        { intros ->. apply Hip. eapply nx_to_c; eauto. }
        split; [apply qs'_of; auto|]. left.
        split; [apply lv'_of; auto|]. split; auto. split; [apply qs'_of; auto|].
        intros m H1 H2 Hon. destruct (on'_inv m q Hon) as [[Hmc Hon']|[-> [Hcq Hpq]]].
        * eapply Hb; eauto.
        * apply (nothing_before_c_rest q i Hcq Hpq); [ordd | split; auto].
      + split; [apply qs'_of; auto|]. right. split; [apply not_lv'; auto|].
        intros m H1 Hon. destruct (on'_inv m q Hon) as [[Hmc Hon']|[-> [Hcq Hpq]]].
        * eapply Hb; eauto.
        * apply (nothing_before_c_rest q i Hcq Hpq); [ordd | split; auto].
  Qed.

  Lemma merge_nx_none i q : lv' i -> qs' i q -> nx' i q = None ->
    forall m, bef dir i m -> ~ onG lv' qs' m q.
  Proof.
    intros Hi' Hq' E m Hm. apply Hlv' in Hi'. destruct Hi' as [Hi Hic].
    destruct (Nat.eq_dec i p) as [->|Hip].
    - destruct (qs_dec c q) as [Hq|Hq].
      + destruct (nx'_p_c q Hq) as [E1|[E1 E2]]; [|congruence].
        rewrite E in E1. symmetry in E1.
        apply no_on'_after_c_side; auto.
        intros m0 Hm0. apply (proj2 Hnx c q Hc Hq E1 m0 Hm0).
      + rewrite (Hnx'p_else q Hq) in E.
        assert (qs p q) as Hqp by (apply Hqs'p in Hq'; tauto).
        intros Hon. destruct (on'_inv m q Hon) as [[Hmc Hon']|[-> _]]; [|ordd].
        eapply (proj2 Hnx p q Hp Hqp E); eauto.
    - rewrite (nx'_o i q Hi Hip Hic) in E.
      assert (qs i q) as Hqi by (apply (Hqs'o i q Hip); auto).
      intros Hon. destruct (on'_inv m q Hon) as [[Hmc Hon']|[-> [Hcq Hpq]]].
      + eapply (proj2 Hnx i q Hi Hqi E); eauto.
      + apply (proj2 Hnx i q Hi Hqi E c); [ordd | split; auto].
  Qed.

  Lemma nx_c_dec i q : (qs c q /\ nx c q = Some i) \/ ~ (qs c q /\ nx c q = Some i).
  Proof.
    destruct (qs_dec c q) as [Hq|Hq]; [|tauto].
    destruct (nx c q) as [j|]; [|right; intros [_ H]; discriminate].
    destruct (Nat.eq_dec j i) as [->|Hne]; [left; auto|right; intros [_ H]; congruence].
  Qed.

  (* the parent's new qubits q (from the child, not shared): contradiction with a live node i
     on q that lies after the parent *)
  Lemma rest_conflict q i : qs c q -> ~ qs p q -> lv i -> qs i q -> i <> c -> bef dir p i ->
    (bef dir c i -> False) -> False.
  Proof.
    intros Hcq Hpq Hi Hqi Hic Hpi Hci.
    destruct (tri i c Hic) as [H|H]; auto.
    apply (claim_between q i Hcq Hpi H). split; auto.
  Qed.

  Lemma merge_pv_some i q j : lv' i -> pv' i q = Some j ->
    qs' i q /\ ((lv' j /\ bef (negb dir) i j /\ qs' j q
                 /\ forall m, bef (negb dir) i m -> bef (negb dir) m j -> ~ onG lv' qs' m q)
               \/ (~ lv' j /\ forall m, bef (negb dir) i m -> ~ onG lv' qs' m q)).
  Proof.
    intros Hi' E. apply Hlv' in Hi'. destruct Hi' as [Hi Hic].
    destruct (Nat.eq_dec i p) as [->|Hip].
    - rewrite pv'_p in E.
      destruct (proj1 Hpv p q j Hp E) as [Hqp [[Hlj [Hpj [Hqj Hb]]]|[Hdj Hb]]].
      + split; [apply Hqs'p; auto|]. left.
        split; [apply lv'_of; auto; ordd|]. split; auto. split; [apply qs'_of; auto|].
        intros m H1 H2 Hon. destruct (on'_inv m q Hon) as [[Hmc Hon']|[-> _]]; [|ordd].
        eapply Hb; eauto.
      + split; [apply Hqs'p; auto|]. right. split; [apply not_lv'; auto|].
        intros m H1 Hon. destruct (on'_inv m q Hon) as [[Hmc Hon']|[-> _]]; [|ordd].
        eapply Hb; eauto.
    - destruct (Hpv'o i q Hi Hip Hic) as [HA HB].
      destruct (nx_c_dec i q) as [[Hcq Ec]|Hno].
      + rewrite (HA Hcq Ec) in E. inversion E; subst j.
        destruct (proj1 Hnx c q i Hc Ec) as [_ [[_ [Hci [Hqi Hb]]]|[Hd _]]]; [|contradiction].
        split; [apply qs'_of; auto|]. left.
        split; [apply lv'_of; auto; apply pc_ne|]. split; [ordd|].
        split; [apply Hqs'p; auto|].
        intros m H1 H2 Hon. destruct (on'_inv m q Hon) as [[Hmc Hon']|[-> _]]; [|ordd].
        destruct (tri m c Hmc) as [H|H].
        * apply (claim_between q m Hcq); [ordd | exact H | exact Hon'].
        * apply (Hb m); [ordd | ordd | exact Hon'].
      + rewrite (HB Hno) in E.
        destruct (proj1 Hpv i q j Hi E) as [Hqi [[Hlj [Hij [Hqj Hb]]]|[Hdj Hb]]].
        * assert (j <> c) as Hjc.
          { intros ->. apply Hno. eapply pv_from_c; eauto. }
          split; [apply qs'_of; auto|]. left.
          split; [apply lv'_of; auto|]. split; auto. split; [apply qs'_of; auto|].
          intros m H1 H2 Hon. destruct (on'_inv m q Hon) as [[Hmc Hon']|[-> [Hcq Hpq]]].
          -- eapply Hb; eauto.
          -- apply (rest_conflict q i Hcq Hpq Hi Hqi Hic); [ordd|].
             intros Hci. apply (Hb c); [ordd | ordd | split; auto].
        * split; [apply qs'_of; auto|]. right. split; [apply not_lv'; auto|].
          intros m H1 Hon. destruct (on'_inv m q Hon) as [[Hmc Hon']|[-> [Hcq Hpq]]].
          -- eapply Hb; eauto.
          -- apply (rest_conflict q i Hcq Hpq Hi Hqi Hic); [ordd|].
             intros Hci. apply (Hb c); [ordd | split; auto].
  Qed.

  Lemma merge_pv_none i q : lv' i -> qs' i q -> pv' i q = None ->
    forall m, bef (negb dir) i m -> ~ onG lv' qs' m q.
  Proof.
    intros Hi' Hq' E m Hm. apply Hlv' in Hi'. destruct Hi' as [Hi Hic].
    destruct (Nat.eq_dec i p) as [->|Hip].
    - rewrite pv'_p in E. intros Hon.
      destruct (on'_inv m q Hon) as [[Hmc Hon']|[-> _]]; [|ordd].
      destruct (qs_dec p q) as [Hpq|Hpq].
      + eapply (proj2 Hpv p q Hp Hpq E); eauto.
      + assert (qs c q) as Hcq by (apply Hqs'p in Hq'; tauto).
        apply (nothing_before_c_rest q m Hcq Hpq); [ordd | auto].
    - destruct (Hpv'o i q Hi Hip Hic) as [HA HB].
      destruct (nx_c_dec i q) as [[Hcq Ec]|Hno]; [rewrite (HA Hcq Ec) in E; discriminate|].
      rewrite (HB Hno) in E.
      assert (qs i q) as Hqi by (apply (Hqs'o i q Hip); auto).
      intros Hon. destruct (on'_inv m q Hon) as [[Hmc Hon']|[-> [Hcq Hpq]]].
      + eapply (proj2 Hpv i q Hi Hqi E); eauto.
      + apply (rest_conflict q i Hcq Hpq Hi Hqi Hic); [ordd|].
        intros Hci. apply (proj2 Hpv i q Hi Hqi E c); [ordd | split; auto].
  Qed.

  Theorem merge_adj : AdjG dir lv' qs' nx' pv'.
  Proof.
    split; split.
    - apply merge_nx_some.
    - apply merge_nx_none.
    - apply merge_pv_some.
    - apply merge_pv_none.
  Qed.
End Merge.

(* ================================================================ concrete states *)
Definition absorbed (nd : node) : bool :=
  nmarked nd && match ngates nd with g :: _ => is_ord g | [] => true end.
Definition live (nd : node) : bool := negb (absorbed nd).
Definition lvP (st : state) (i : nat) : Prop := live (getn st i) = true.
Definition qsP (st : state) (i q : nat) : Prop := In q (nqs (getn st i)).
Definition rt (st : state) (i q : nat) : option nat := lookup (nright (getn st i)) q.
Definition lf (st : state) (i q : nat) : option nat := lookup (nleft (getn st i)) q.
Definition Adj (st : state) : Prop := AdjG true (lvP st) (qsP st) (rt st) (lf st).

Lemma getn_mapi f st i : i < length st -> getn (mapi f st) i = f i (getn st i).
Proof. intros H. unfold getn. apply mapi_nth; auto. Qed.

Lemma getn_out st i : length st <= i -> getn st i = dnode.
Proof. intros H. unfold getn. apply nth_overflow; auto. Qed.

Lemma lvP_range st i : lvP st i -> i < length st.
Proof.
  intros H. destruct (lt_dec i (length st)); auto. exfalso.
  unfold lvP in H. rewrite getn_out in H by lia. discriminate.
Qed.

Lemma unmarked_live nd : nmarked nd = false -> live nd = true.
Proof. unfold live, absorbed. intros ->. reflexivity. Qed.

Lemma unmarked_range st i : nmarked (getn st i) = false -> i < length st.
Proof. intros H. apply lvP_range. apply unmarked_live; auto. Qed.

Lemma qsP_dec st i q : qsP st i q \/ ~ qsP st i q.
Proof. unfold qsP. destruct (in_dec Nat.eq_dec q (nqs (getn st i))); auto. Qed.

Lemma memb_filter f q l : memb q (filter f l) = memb q l && f q.
Proof.
  destruct (memb q (filter f l)) eqn:E.
  - apply memb_In in E. apply filter_In in E. destruct E as [E1 E2].
    apply memb_In in E1. now rewrite E1, E2.
  - destruct (memb q l) eqn:E1; auto. destruct (f q) eqn:E2; auto. exfalso.
    apply memb_false in E. apply E. apply filter_In. split; auto. now apply memb_In.
Qed.

Lemma memb_sinter q a b : memb q (sinter a b) = memb q a && memb q b.
Proof. apply memb_filter. Qed.
Lemma memb_sdiff q a b : memb q (sdiff a b) = memb q a && negb (memb q b).
Proof. apply (memb_filter (fun x => negb (memb x b))). Qed.

Lemma In_memb q l : In q l -> memb q l = true.
Proof. apply memb_In. Qed.
Lemma notIn_memb q l : ~ In q l -> memb q l = false.
Proof. apply memb_false. Qed.

(* well-formed nodes *)
Definition wf_node (n : nat) (nd : node) : Prop :=
  ssorted (nqs nd) /\
  if nmarked nd then
    (exists g, ngates nd = [g] /\ is_ord g = false /\ incl (gsupp n g) (nqs nd))
    \/ (ngates nd <> [] /\ forall g, In g (ngates nd) -> is_ord g = true)
  else ngates nd <> [] /\ forall g, In g (ngates nd) -> is_ord g = true /\ incl (gqs g) (nqs nd).
Definition WF (n : nat) (st : state) : Prop := forall i, i < length st -> wf_node n (getn st i).

Definition nflat (nd : node) : list gate := flatten (node_items nd).

Lemma nflat_unmarked nd : nmarked nd = false -> nflat nd = ngates nd.
Proof.
  unfold nflat, node_items. intros ->. simpl.
  destruct (ngates nd) as [|g [|g' gs]]; simpl; auto. now rewrite app_nil_r.
Qed.

Lemma nflat_absorbed nd : live nd = false -> nflat nd = [].
Proof.
  unfold live, absorbed, nflat, node_items. intros H. apply negb_false_iff in H.
  apply andb_true_iff in H. destruct H as [-> H]. simpl.
  destruct (ngates nd) as [|g gs]; auto. rewrite H. reflexivity.
Qed.

Lemma wf_unmarked_absorb n nd : wf_node n nd -> nmarked nd = false ->
  live (mkNode (nqs nd) (ngates nd) true (nleft nd) (nright nd)) = false.
Proof.
  intros [_ H] Hm. rewrite Hm in H. destruct H as [Hne Hall].
  unfold live, absorbed. simpl. destruct (ngates nd) as [|g gs]; auto.
  destruct (Hall g) as [-> _]; simpl; auto.
Qed.

Lemma ord_gsupp n g : is_ord g = true -> gsupp n g = gqs g.
Proof. unfold is_ord, gsupp. destruct (gk g); auto; discriminate. Qed.

Lemma wf_nflat_supp n nd g : wf_node n nd -> In g (nflat nd) -> incl (gsupp n g) (nqs nd).
Proof.
  intros [_ H] Hg. destruct (nmarked nd) eqn:Hm.
  - destruct H as [[g0 [E [Ho Hs]]]|[Hne Hall]].
    + unfold nflat, node_items in Hg. rewrite Hm, E, Ho in Hg. simpl in Hg.
      destruct Hg as [<-|[]]. auto.
    + rewrite nflat_absorbed in Hg; [inversion Hg|].
      unfold live, absorbed. rewrite Hm. destruct (ngates nd) as [|g1 gs]; auto.
      simpl. rewrite (Hall g1); simpl; auto.
  - rewrite nflat_unmarked in Hg by auto. destruct H as [_ Hall].
    destruct (Hall g Hg) as [Ho Hs]. rewrite ord_gsupp; auto.
Qed.

(* ---------------------------------------------------------------- flat word of a state *)
Definition flat (st : state) : list gate :=
  flat_map (fun i => nflat (getn st i)) (seq 0 (length st)).

Lemma flat_from_fused st : flatten (from_fused st) = flat st.
Proof.
  unfold flat, from_fused, flatten, getn.
  rewrite (flat_map_nth_seq nflat st dnode).
  unfold nflat, flatten. induction st as [|nd st IH]; simpl; auto.
  rewrite flat_map_app. now rewrite IH.
Qed.

Lemma seq_split3 N l r : l < r -> r < N ->
  seq 0 N = seq 0 l ++ l :: seq (S l) (r - S l) ++ r :: seq (S r) (N - S r).
Proof.
  intros H1 H2.
  replace N with (l + S ((r - S l) + S (N - S r))) at 1 by lia.
  rewrite seq_app. simpl. f_equal. f_equal.
  rewrite seq_app. simpl. f_equal.
  replace (S (l + (r - S l))) with r by lia. reflexivity.
Qed.

Lemma flat_map_ext_in' {X Y} (f g : X -> list Y) l :
  (forall x, In x l -> f x = g x) -> flat_map f l = flat_map g l.
Proof.
  induction l as [|x l IH]; intros H; simpl; auto.
  rewrite H by (left; auto). rewrite IH; auto. intros; apply H; right; auto.
Qed.

Section FlatMove.
  Context {A : Type} (indep : A -> A -> bool).
  Hypothesis indep_sym : forall a b, indep a b = indep b a.
  Variables (f f' : nat -> list A) (N l r : nat).
  Hypothesis Hlr : l < r.
  Hypothesis HrN : r < N.

  Lemma flat_split (g : nat -> list A) :
    flat_map g (seq 0 N) =
    flat_map g (seq 0 l) ++ g l ++ flat_map g (seq (S l) (r - S l)) ++ g r ++ flat_map g (seq (S r) (N - S r)).
  Proof.
    rewrite (seq_split3 N l r Hlr HrN). rewrite flat_map_app. simpl. rewrite flat_map_app. simpl.
    reflexivity.
  Qed.

  Hypothesis Hother : forall i, i <> l -> i <> r -> f' i = f i.

  Lemma flat_map_other a b : (forall i, In i (seq a b) -> i <> l /\ i <> r) ->
    flat_map f' (seq a b) = flat_map f (seq a b).
  Proof.
    intros H. apply flat_map_ext_in'. intros i Hi. destruct (H i Hi). apply Hother; auto.
  Qed.

  Lemma flat_others :
    flat_map f' (seq 0 l) = flat_map f (seq 0 l)
    /\ flat_map f' (seq (S l) (r - S l)) = flat_map f (seq (S l) (r - S l))
    /\ flat_map f' (seq (S r) (N - S r)) = flat_map f (seq (S r) (N - S r)).
  Proof.
    repeat split; apply flat_map_other; intros i Hi; apply in_seq in Hi; lia.
  Qed.

  (* the later block moves back to the earlier position (child r appended to parent l) *)
  Lemma flat_move_back :
    f' l = f l ++ f r -> f' r = [] ->
    (forall m, l < m -> m < r -> indep_blocks indep (f m) (f r)) ->
    teq indep (flat_map f' (seq 0 N)) (flat_map f (seq 0 N)).
  Proof.
    intros El Er Hind. rewrite (flat_split f'), (flat_split f).
    destruct flat_others as [-> [-> ->]]. rewrite El, Er. simpl.
    apply teq_app_head. rewrite <- app_assoc. apply teq_app_head.
    rewrite !app_assoc. apply teq_app_tail.
    apply teq_blocks_swap; auto.
    intros x y Hx Hy. rewrite indep_sym. apply in_flat_map in Hy. destruct Hy as [m [Hm Hy]].
    apply in_seq in Hm. apply (Hind m); auto; lia.
  Qed.

  (* the earlier block moves forward to the later position (child l prepended to parent r) *)
  Lemma flat_move_fwd :
    f' r = f l ++ f r -> f' l = [] ->
    (forall m, l < m -> m < r -> indep_blocks indep (f l) (f m)) ->
    teq indep (flat_map f' (seq 0 N)) (flat_map f (seq 0 N)).
  Proof.
    intros Er El Hind. rewrite (flat_split f'), (flat_split f).
    destruct flat_others as [-> [-> ->]]. rewrite El, Er. simpl.
    apply teq_app_head. rewrite <- !app_assoc. rewrite !app_assoc.
    apply teq_app_tail. apply teq_app_tail.
    apply teq_blocks_swap; auto.
    intros x y Hx Hy. rewrite indep_sym. apply in_flat_map in Hx. destruct Hx as [m [Hm Hx]].
    apply in_seq in Hm. apply (Hind m); auto; lia.
  Qed.

  (* letters selected by [p] do not move at all if the moved block contains none of them *)
  Variable p : A -> bool.
  Lemma filter_flat_map (g : nat -> list A) l0 : filter p (flat_map g l0) = flat_map (fun i => filter p (g i)) l0.
  Proof.
    induction l0 as [|x l0 IH]; simpl; auto. rewrite filter_app. now rewrite IH.
  Qed.
End FlatMove.

(* ================================================================ the two merges preserve the adjacency *)
Ltac mb := repeat match goal with
  | H : In ?q ?l |- context[memb ?q ?l] => rewrite (In_memb q l H)
  | H : ~ In ?q ?l |- context[memb ?q ?l] => rewrite (notIn_memb q l H)
  end.

Lemma live_other_r st l r i nd : live (mr_other st l r i nd) = live nd.
Proof. reflexivity. Qed.
Lemma live_other_l st l r i nd : live (ml_other st l r i nd) = live nd.
Proof. reflexivity. Qed.

Section MergeRight.
  Variables (n : nat) (st : state) (l r : nat).
  Hypothesis Hadj : Adj st.
  Hypothesis Hwf : WF n st.
  Hypothesis Hlr : l < r.
  Hypothesis Hml : nmarked (getn st l) = false.
  Hypothesis Hmr : nmarked (getn st r) = false.
  Hypothesis Hoth : others (nleft (getn st r)) l = [].
  Hypothesis Hbtw :
    between_ok (nright (getn st l)) (sinter (nqs (getn st l)) (nqs (getn st r))) r = true.

  Lemma mr_r_range : r < length st.
  Proof. apply unmarked_range; auto. Qed.
  Let Hr := mr_r_range.

  Lemma mr_len : length (merge_right st l r) = length st.
  Proof. apply mapi_length. Qed.
  Lemma mr_get_l : getn (merge_right st l r) l = mr_parent st l r.
  Proof. unfold merge_right. rewrite getn_mapi by lia. now rewrite Nat.eqb_refl. Qed.
  Lemma mr_get_r : getn (merge_right st l r) r = absorb (getn st r).
  Proof.
    unfold merge_right. rewrite getn_mapi by lia. rewrite Nat.eqb_refl.
    destruct (Nat.eqb_spec r l); [lia|auto].
  Qed.
  Lemma mr_get_o i : i <> l -> i <> r -> i < length st ->
    getn (merge_right st l r) i = mr_other st l r i (getn st i).
  Proof.
    intros H1 H2 H3. unfold merge_right. rewrite getn_mapi by lia.
    destruct (Nat.eqb_spec i l); [lia|]. destruct (Nat.eqb_spec i r); [lia|auto].
  Qed.
  Lemma mr_get_out i : length st <= i -> getn (merge_right st l r) i = getn st i.
  Proof. intros H. rewrite !getn_out; auto. rewrite mr_len; auto. Qed.

  Lemma mr_lv i : lvP (merge_right st l r) i <-> lvP st i /\ i <> r.
  Proof.
    unfold lvP. destruct (Nat.eq_dec i l) as [->|Hil].
    - rewrite mr_get_l. unfold mr_parent, live, absorbed; cbn [nmarked]. rewrite Hml. simpl.
      split; [intros _; split; [reflexivity|lia] | auto].
    - destruct (Nat.eq_dec i r) as [->|Hir].
      + rewrite mr_get_r. unfold absorb. rewrite (wf_unmarked_absorb n _ (Hwf r Hr) Hmr).
        split; [discriminate | intros [_ H]; congruence].
      + destruct (lt_dec i (length st)).
        * rewrite mr_get_o by auto. rewrite live_other_r. tauto.
        * rewrite mr_get_out by lia. tauto.
  Qed.

  Lemma mr_qs_o i q : i <> l -> (qsP (merge_right st l r) i q <-> qsP st i q).
  Proof.
    intros Hil. unfold qsP. destruct (Nat.eq_dec i r) as [->|Hir].
    - rewrite mr_get_r. simpl. tauto.
    - destruct (lt_dec i (length st)).
      + rewrite mr_get_o by auto. simpl. tauto.
      + rewrite mr_get_out by lia. tauto.
  Qed.

  Lemma mr_adj : Adj (merge_right st l r).
  Proof.
    unfold Adj.
    apply merge_adj with (p := l) (c := r) (del := true) (lv := lvP st) (qs := qsP st)
                         (nx := rt st) (pv := lf st).
    - apply qsP_dec.
    - exact Hadj.
    - apply unmarked_live; auto.
    - apply unmarked_live; auto.
    - simpl. lia.
    - intros q H1 H2. destruct (between_ok_spec _ _ _ Hbtw) as [_ H]. apply H.
      apply sinter_In; auto.
    - intros q j E. rewrite others_nil in Hoth. eapply Hoth; eauto.
    - apply mr_lv.
    - intros q. unfold qsP. rewrite mr_get_l. unfold mr_parent; cbn [nqs]. apply sunion_In.
    - apply mr_qs_o.
    - intros q H1 H2. unfold rt, qsP in *. rewrite mr_get_l. unfold mr_parent; cbn [nright].
      rewrite !lookup_mupd, ?memb_sdiff, ?memb_sinter. mb. simpl.
      destruct (lookup (nright (getn st r)) q); reflexivity.
    - intros q H1 H2. unfold rt, qsP in *. rewrite mr_get_l. unfold mr_parent; cbn [nright].
      rewrite !lookup_mupd, ?memb_sdiff, ?memb_sinter. mb. simpl.
      destruct (lookup (nright (getn st r)) q); reflexivity.
    - intros q H1. unfold rt, qsP in *. rewrite mr_get_l. unfold mr_parent; cbn [nright].
      rewrite !lookup_mupd, ?memb_sdiff, ?memb_sinter. mb. simpl.
      rewrite andb_false_r. reflexivity.
    - intros q H1 H2. unfold lf, qsP in *. rewrite mr_get_l. unfold mr_parent; cbn [nleft].
      rewrite !lookup_mupd, ?memb_sdiff, ?memb_sinter. mb. simpl.
      destruct (lookup (nleft (getn st r)) q); reflexivity.
    - intros q H1. unfold lf, qsP in *. rewrite mr_get_l. unfold mr_parent; cbn [nleft].
      rewrite !lookup_mupd, ?memb_sdiff, ?memb_sinter.
      destruct (in_dec Nat.eq_dec q (nqs (getn st r))) as [Hq|Hq];
        destruct (in_dec Nat.eq_dec q (nqs (getn st l))) as [Hq2|Hq2]; mb; simpl; auto.
      tauto.
    - intros i q Hi Hil Hir. pose proof (lvP_range _ _ Hi) as Hrg.
      unfold lf, rt, qsP in *. rewrite mr_get_o by auto. unfold mr_other; cbn [nleft].
      rewrite lookup_mupd. split.
      + intros H1 H2. mb. rewrite H2. simpl. rewrite Nat.eqb_refl. reflexivity.
      + intros H. destruct (memb q (nqs (getn st r))) eqn:E; auto.
        apply memb_In in E.
        destruct (opt_is (lookup (nright (getn st r)) q) i) eqn:E2; auto.
        apply opt_is_true in E2. tauto.
    - intros i q Hi Hil Hir H. pose proof (lvP_range _ _ Hi) as Hrg.
      unfold lf, rt, qsP in *. rewrite mr_get_o by auto. unfold mr_other; cbn [nright].
      rewrite lookup_mupd, memb_sdiff, memb_sinter.
      destruct (in_dec Nat.eq_dec q (nqs (getn st r))) as [Hq|Hq]; mb; simpl; auto.
      destruct (in_dec Nat.eq_dec q (nqs (getn st l))) as [Hq2|Hq2]; mb; simpl; auto.
      destruct (opt_is (lookup (nleft (getn st r)) q) i) eqn:E2; auto.
      apply opt_is_true in E2. tauto.
  Qed.
End MergeRight.

Section MergeLeft.
  Variables (n : nat) (st : state) (l r : nat).
  Hypothesis Hadj : Adj st.
  Hypothesis Hwf : WF n st.
  Hypothesis Hlr : l < r.
  Hypothesis Hml : nmarked (getn st l) = false.
  Hypothesis Hmr : nmarked (getn st r) = false.
  Hypothesis Hoth : others (nright (getn st l)) r = [].
  Hypothesis Hbtw :
    between_ok (nleft (getn st r)) (sinter (nqs (getn st l)) (nqs (getn st r))) l = true.

  Lemma ml_r_range : r < length st.
  Proof. apply unmarked_range; auto. Qed.
  Let Hr := ml_r_range.

  Lemma ml_len : length (merge_left st l r) = length st.
  Proof. apply mapi_length. Qed.
  Lemma ml_get_r : getn (merge_left st l r) r = ml_parent st l r.
  Proof. unfold merge_left. rewrite getn_mapi by lia. now rewrite Nat.eqb_refl. Qed.
  Lemma ml_get_l : getn (merge_left st l r) l = absorb (getn st l).
  Proof.
    unfold merge_left. rewrite getn_mapi by lia. rewrite Nat.eqb_refl.
    destruct (Nat.eqb_spec l r); [lia|auto].
  Qed.
  Lemma ml_get_o i : i <> l -> i <> r -> i < length st ->
    getn (merge_left st l r) i = ml_other st l r i (getn st i).
  Proof.
    intros H1 H2 H3. unfold merge_left. rewrite getn_mapi by lia.
    destruct (Nat.eqb_spec i r); [lia|]. destruct (Nat.eqb_spec i l); [lia|auto].
  Qed.
  Lemma ml_get_out i : length st <= i -> getn (merge_left st l r) i = getn st i.
  Proof. intros H. rewrite !getn_out; auto. rewrite ml_len; auto. Qed.

  Lemma ml_lv i : lvP (merge_left st l r) i <-> lvP st i /\ i <> l.
  Proof.
    unfold lvP. destruct (Nat.eq_dec i r) as [->|Hir].
    - rewrite ml_get_r. unfold ml_parent, live, absorbed; cbn [nmarked]. rewrite Hmr. simpl.
      split; [intros _; split; [reflexivity|lia] | auto].
    - destruct (Nat.eq_dec i l) as [->|Hil].
      + rewrite ml_get_l. unfold absorb.
        rewrite (wf_unmarked_absorb n _ (Hwf l ltac:(lia)) Hml).
        split; [discriminate | intros [_ H]; congruence].
      + destruct (lt_dec i (length st)).
        * rewrite ml_get_o by auto. rewrite live_other_l. tauto.
        * rewrite ml_get_out by lia. tauto.
  Qed.

  Lemma ml_qs_o i q : i <> r -> (qsP (merge_left st l r) i q <-> qsP st i q).
  Proof.
    intros Hir. unfold qsP. destruct (Nat.eq_dec i l) as [->|Hil].
    - rewrite ml_get_l. simpl. tauto.
    - destruct (lt_dec i (length st)).
      + rewrite ml_get_o by auto. simpl. tauto.
      + rewrite ml_get_out by lia. tauto.
  Qed.

  Lemma ml_adj : Adj (merge_left st l r).
  Proof.
    unfold Adj. apply AdjG_flip. simpl.
    apply merge_adj with (p := r) (c := l) (del := false) (lv := lvP st) (qs := qsP st)
                         (nx := lf st) (pv := rt st).
    - apply qsP_dec.
    - apply (AdjG_flip true). exact Hadj.
    - apply unmarked_live; auto.
    - apply unmarked_live; auto.
    - simpl. lia.
    - intros q H1 H2. destruct (between_ok_spec _ _ _ Hbtw) as [_ H]. apply H.
      apply sinter_In; auto.
    - intros q j E. rewrite others_nil in Hoth. eapply Hoth; eauto.
    - apply ml_lv.
    - intros q. unfold qsP. rewrite ml_get_r. unfold ml_parent; cbn [nqs]. apply sunion_In.
    - apply ml_qs_o.
    - intros q H1 H2. unfold lf, qsP in *. rewrite ml_get_r. unfold ml_parent; cbn [nleft].
      rewrite !lookup_mupd, ?memb_sdiff, ?memb_sinter. mb. simpl.
      destruct (lookup (nleft (getn st l)) q); reflexivity.
    - intros q H1 H2. unfold lf, qsP in *. rewrite ml_get_r. unfold ml_parent; cbn [nleft].
      rewrite !lookup_mupd, ?memb_sdiff, ?memb_sinter. mb. simpl.
      destruct (lookup (nleft (getn st l)) q); reflexivity.
    - intros q H1. unfold lf, qsP in *. rewrite ml_get_r. unfold ml_parent; cbn [nleft].
      rewrite !lookup_mupd, ?memb_sdiff, ?memb_sinter. mb. simpl. reflexivity.
    - intros q H1 H2. unfold rt, qsP in *. rewrite ml_get_r. unfold ml_parent; cbn [nright].
      rewrite !lookup_mupd, ?memb_sdiff, ?memb_sinter. mb. simpl.
      destruct (lookup (nright (getn st l)) q); reflexivity.
    - intros q H1. unfold rt, qsP in *. rewrite ml_get_r. unfold ml_parent; cbn [nright].
      rewrite !lookup_mupd, ?memb_sdiff, ?memb_sinter.
      destruct (in_dec Nat.eq_dec q (nqs (getn st l))) as [Hq|Hq];
        destruct (in_dec Nat.eq_dec q (nqs (getn st r))) as [Hq2|Hq2]; mb; simpl; auto.
      tauto.
    - intros i q Hi Hir Hil. pose proof (lvP_range _ _ Hi) as Hrg.
      unfold lf, rt, qsP in *. rewrite ml_get_o by auto. unfold ml_other; cbn [nright].
      rewrite lookup_mupd. split.
      + intros H1 H2. mb. rewrite H2. simpl. rewrite Nat.eqb_refl. reflexivity.
      + intros H. destruct (memb q (nqs (getn st l))) eqn:E; auto.
        apply memb_In in E.
        destruct (opt_is (lookup (nleft (getn st l)) q) i) eqn:E2; auto.
        apply opt_is_true in E2. tauto.
    - intros i q Hi Hir Hil H. pose proof (lvP_range _ _ Hi) as Hrg.
      unfold lf, rt, qsP in *. rewrite ml_get_o by auto. unfold ml_other; cbn [nleft].
      rewrite lookup_mupd, memb_sdiff, memb_sinter.
      destruct (in_dec Nat.eq_dec q (nqs (getn st l))) as [Hq|Hq]; mb; simpl; auto.
      destruct (in_dec Nat.eq_dec q (nqs (getn st r))) as [Hq2|Hq2]; mb; simpl; auto.
      destruct (opt_is (lookup (nright (getn st l)) q) i) eqn:E2; auto.
      apply opt_is_true in E2. tauto.
  Qed.
End MergeLeft.
