(* C07/ProofsFuse.v : correctness of the fusion model of C07/Model.v.
   Main results: fuse_equiv, fuse_keeps_measurements, fuse_width (restated in C07/Props.v). *)
From Coq Require Import List Bool Arith Lia Sorted Permutation.
From QV Require Import Base.Trace C07.Model C07.Proofs.
Import ListNotations.

(* ================================================================ dictionaries *)
Lemma lookup_mset m q v k : lookup (mset m q v) k = if q =? k then Some v else lookup m k.
Proof.
  induction m as [|[a w] m IH]; simpl.
  - reflexivity.
  - destruct (a =? q) eqn:E; simpl.
    + apply Nat.eqb_eq in E. subst a. destruct (q =? k); reflexivity.
    + rewrite IH. destruct (a =? k) eqn:E2; auto.
      apply Nat.eqb_eq in E2. subst a. rewrite Nat.eqb_sym, E. reflexivity.
Qed.

Lemma lookup_mremove m q k : lookup (mremove m q) k = if q =? k then None else lookup m k.
Proof.
  induction m as [|[a w] m IH]; simpl.
  - destruct (q =? k); reflexivity.
  - destruct (a =? q) eqn:E; simpl.
    + rewrite IH. apply Nat.eqb_eq in E. subst a. destruct (q =? k); reflexivity.
    + rewrite IH. destruct (a =? k) eqn:E2; auto.
      apply Nat.eqb_eq in E2. subst a. rewrite Nat.eqb_sym, E. reflexivity.
Qed.

Definition act_result (a : maction) (old : option nat) : option nat :=
  match a with Keep => old | Put v => Some v | Del => None end.

Lemma lookup_mapply m q a k :
  lookup (mapply m q a) k = if q =? k then act_result a (lookup m k) else lookup m k.
Proof.
  destruct a; simpl.
  - destruct (q =? k); reflexivity.
  - apply lookup_mset.
  - apply lookup_mremove.
Qed.

Lemma lookup_mupd m qs F k :
  lookup (mupd m qs F) k = if memb k qs then act_result (F k) (lookup m k) else lookup m k.
Proof.
  unfold mupd. revert m. induction qs as [|q qs IH]; intros m; simpl.
  - reflexivity.
  - rewrite IH. rewrite lookup_mapply. rewrite (Nat.eqb_sym k q).
    destruct (q =? k) eqn:E; simpl.
    + apply Nat.eqb_eq in E. subst q.
      destruct (memb k qs); auto. destruct (F k); reflexivity.
    + reflexivity.
Qed.

Lemma lookup_In_keys m k v : lookup m k = Some v -> In k (map fst m).
Proof.
  induction m as [|[a w] m IH]; simpl; intros H; [discriminate|].
  destruct (a =? k) eqn:E; auto. apply Nat.eqb_eq in E. auto.
Qed.

Lemma mvalues_spec m v : In v (mvalues m) <-> exists k, lookup m k = Some v.
Proof.
  unfold mvalues. rewrite in_flat_map. split.
  - intros [k [Hk Hv]]. exists k. destruct (lookup m k); simpl in Hv; [destruct Hv as [->|[]]; reflexivity | destruct Hv].
  - intros [k Hk]. exists k. split.
    + apply nodup_In. eapply lookup_In_keys; eauto.
    + rewrite Hk. left; auto.
Qed.

Lemma others_nil m r : others m r = [] <-> (forall k v, lookup m k = Some v -> v = r).
Proof.
  unfold others. split.
  - intros H k v Hk. destruct (Nat.eq_dec v r) as [|Hne]; auto. exfalso.
    assert (In v (nodup Nat.eq_dec (filter (fun v => negb (v =? r)) (mvalues m)))) as Hin.
    { apply nodup_In. apply filter_In. split.
      - apply mvalues_spec; eauto.
      - apply negb_true_iff. now apply Nat.eqb_neq. }
    rewrite H in Hin. inversion Hin.
  - intros H. destruct (nodup Nat.eq_dec _) as [|v l] eqn:E; auto. exfalso.
    assert (In v (v :: l)) as Hin by (left; auto). rewrite <- E in Hin.
    apply nodup_In in Hin. apply filter_In in Hin. destruct Hin as [Hv Hne].
    apply mvalues_spec in Hv. destruct Hv as [k Hk]. apply H in Hk. subst.
    rewrite Nat.eqb_refl in Hne. discriminate.
Qed.

Lemma between_ok_spec m shared c :
  between_ok m shared c = true -> shared <> [] /\ forall q, In q shared -> lookup m q = Some c.
Proof.
  unfold between_ok. destruct shared as [|q0 sh]; [discriminate|]. intros H. split; [discriminate|].
  intros q Hq. rewrite forallb_forall in H. specialize (H q Hq).
  unfold opt_is in H. destruct (lookup m q); [|discriminate]. apply Nat.eqb_eq in H. congruence.
Qed.

Lemma opt_is_true o v : opt_is o v = true <-> o = Some v.
Proof.
  unfold opt_is. destruct o; split; intros H; try discriminate.
  - apply Nat.eqb_eq in H. congruence.
  - inversion H. apply Nat.eqb_refl.
Qed.

(* ================================================================ mapi *)
Lemma mapi_from_length {X Y} (f : nat -> X -> Y) l i : length (mapi_from i f l) = length l.
Proof. revert i. induction l; intros; simpl; auto. Qed.

Lemma mapi_length {X Y} (f : nat -> X -> Y) l : length (mapi f l) = length l.
Proof. apply mapi_from_length. Qed.

Lemma mapi_from_nth {X Y} (f : nat -> X -> Y) l i j dx dy :
  j < length l -> nth j (mapi_from i f l) dy = f (i + j) (nth j l dx).
Proof.
  revert i j. induction l as [|x l IH]; intros i j H; simpl in *; [lia|].
  destruct j.
  - now rewrite Nat.add_0_r.
  - rewrite IH by lia. f_equal. lia.
Qed.

Lemma mapi_nth {X Y} (f : nat -> X -> Y) l j dx dy :
  j < length l -> nth j (mapi f l) dy = f j (nth j l dx).
Proof. intros H. unfold mapi. now rewrite (mapi_from_nth f l 0 j dx dy H). Qed.

Lemma map_nth_seq {X} (l : list X) d : map (fun i => nth i l d) (seq 0 (length l)) = l.
Proof.
  induction l as [|x l IH]; simpl; auto. f_equal.
  rewrite <- seq_shift, map_map. exact IH.
Qed.

Lemma flat_map_nth_seq {X Y} (f : X -> list Y) (l : list X) d :
  flat_map (fun i => f (nth i l d)) (seq 0 (length l)) = flat_map f l.
Proof.
  rewrite <- (map_nth_seq l d) at 2. rewrite flat_map_concat_map, flat_map_concat_map, map_map.
  reflexivity.
Qed.

(* ================================================================ abstract adjacency *)
(* [bef dir i j] : i comes before j when walking in direction dir (true = forward in time) *)
Definition bef (dir : bool) (i j : nat) : Prop := if dir then i < j else j < i.

Section AdjG.
  Variable dir : bool.
  Variable lv : nat -> Prop.                 (* node is alive (appears in the output)      *)
  Variable qs : nat -> nat -> Prop.          (* qs i q : node i acts on qubit q              *)
  Variable nx pv : nat -> nat -> option nat. (* neighbour dictionaries in direction dir / against it *)

  Definition onG (m q : nat) : Prop := lv m /\ qs m q.

  (* the dictionary [f] (walking in direction d) of every live node describes exactly the
     adjacency on each of its qubits; an entry pointing to a dead node means "no neighbour" *)
  Definition half (d : bool) (f : nat -> nat -> option nat) : Prop :=
    (forall i q j, lv i -> f i q = Some j ->
        qs i q /\ ((lv j /\ bef d i j /\ qs j q /\ forall m, bef d i m -> bef d m j -> ~ onG m q)
                   \/ (~ lv j /\ forall m, bef d i m -> ~ onG m q)))
    /\ (forall i q, lv i -> qs i q -> f i q = None -> forall m, bef d i m -> ~ onG m q).

  Definition AdjG : Prop := half dir nx /\ half (negb dir) pv.
End AdjG.

Lemma AdjG_flip dir lv qs nx pv : AdjG dir lv qs nx pv <-> AdjG (negb dir) lv qs pv nx.
Proof. unfold AdjG. rewrite negb_involutive. tauto. Qed.

Ltac ord := unfold bef in *; simpl in *; lia.

(* one merge: the child [c] (after the parent [p] in direction dir) is absorbed by the parent *)
Section Merge.
  Variable dir : bool.
  Variables (lv : nat -> Prop) (qs : nat -> nat -> Prop) (nx pv : nat -> nat -> option nat).
  Variables (lv' : nat -> Prop) (qs' : nat -> nat -> Prop) (nx' pv' : nat -> nat -> option nat).
  Variables (p c : nat) (del : bool).
  Hypothesis qs_dec : forall i q, qs i q \/ ~ qs i q.
  Hypothesis H0 : AdjG dir lv qs nx pv.
  Hypothesis Hp : lv p.
  Hypothesis Hc : lv c.
  Hypothesis Hpc : bef dir p c.
  Hypothesis Hbetween : forall q, qs p q -> qs c q -> nx p q = Some c.
  Hypothesis Hothers : forall q j, pv c q = Some j -> j = p.
  Hypothesis Hlv' : forall i, lv' i <-> lv i /\ i <> c.
  Hypothesis Hqs'p : forall q, qs' p q <-> qs p q \/ qs c q.
  Hypothesis Hqs'o : forall i q, i <> p -> (qs' i q <-> qs i q).
  Hypothesis Hnx'p_rest : forall q, qs c q -> ~ qs p q ->
      nx' p q = match nx c q with Some j => Some j | None => nx p q end.
  Hypothesis Hnx'p_shared : forall q, qs c q -> qs p q ->
      nx' p q = match nx c q with Some j => Some j | None => if del then None else nx p q end.
  Hypothesis Hnx'p_else : forall q, ~ qs c q -> nx' p q = nx p q.
  Hypothesis Hpv'p_rest : forall q, qs c q -> ~ qs p q ->
      pv' p q = match pv c q with Some j => Some j | None => pv p q end.
  Hypothesis Hpv'p_else : forall q, ~ (qs c q /\ ~ qs p q) -> pv' p q = pv p q.
  Hypothesis Hpv'o : forall i q, lv i -> i <> p -> i <> c ->
      (qs c q -> nx c q = Some i -> pv' i q = Some p)
      /\ (~ (qs c q /\ nx c q = Some i) -> pv' i q = pv i q).
  Hypothesis Hnx'o : forall i q, lv i -> i <> p -> i <> c ->
      (~ (qs c q /\ ~ qs p q /\ pv c q = Some i) -> nx' i q = nx i q).

  Let Hnx := proj1 H0.
  Let Hpv := proj2 H0.

  Lemma pc_ne : p <> c.
  Proof. intros E. subst. destruct dir; ord. Qed.

  (* nothing alive strictly between parent and child touches a qubit of the child *)
  Lemma claim_between q m : qs c q -> bef dir p m -> bef dir m c -> ~ onG lv qs m q.
  Proof.
    intros Hq H1 H2. destruct (qs_dec p q) as [Hpq|Hpq].
    - pose proof (Hbetween q Hpq Hq) as E.
      destruct (proj1 Hnx p q c Hp E) as [_ [[_ [_ [_ Hb]]]|[Hd _]]]; [|contradiction].
      apply Hb; auto.
    - destruct (pv c q) as [j|] eqn:E.
      + pose proof (Hothers q j E). subst j.
        destruct (proj1 Hpv c q p Hc E) as [_ [[_ [_ [Hq' _]]]|[Hd _]]]; contradiction.
      + apply (proj2 Hpv c q Hc Hq E). destruct dir; ord.
  Qed.

  Lemma pv_c_rest q : qs c q -> ~ qs p q -> pv c q = None.
  Proof.
    intros Hq Hpq. destruct (pv c q) as [j|] eqn:E; auto.
    pose proof (Hothers q j E). subst j.
    destruct (proj1 Hpv c q p Hc E) as [_ [[_ [_ [Hq' _]]]|[Hd _]]]; contradiction.
  Qed.

  Lemma nx_p_rest q : ~ qs p q -> nx p q = None.
  Proof.
    intros Hpq. destruct (nx p q) as [j|] eqn:E; auto.
    destruct (proj1 Hnx p q j Hp E) as [Hq' _]. contradiction.
  Qed.

  Lemma nothing_before_c_rest q m : qs c q -> ~ qs p q -> bef (negb dir) c m -> ~ onG lv qs m q.
  Proof.
    intros Hq Hpq Hm. apply (proj2 Hpv c q Hc Hq (pv_c_rest q Hq Hpq)). auto.
  Qed.

  (* clean description of the parent's new dictionaries *)
  Lemma nx'_p_c q : qs c q -> nx' p q = nx c q \/ (nx c q = None /\ nx' p q = Some c).
  Proof.
    intros Hq. destruct (qs_dec p q) as [Hpq|Hpq].
    - rewrite (Hnx'p_shared q Hq Hpq). destruct (nx c q) as [j|]; auto.
      destruct del; auto; right; split; auto.
    - rewrite (Hnx'p_rest q Hq Hpq). destruct (nx c q) as [j|]; auto.
      left. apply nx_p_rest; auto.
  Qed.

  Lemma pv'_p q : pv' p q = pv p q.
  Proof.
    destruct (qs_dec c q) as [Hq|Hq]; [destruct (qs_dec p q) as [Hpq|Hpq]|].
    - apply Hpv'p_else. tauto.
    - rewrite (Hpv'p_rest q Hq Hpq). now rewrite (pv_c_rest q Hq Hpq).
    - apply Hpv'p_else. tauto.
  Qed.

  Lemma nx'_o i q : lv i -> i <> p -> i <> c -> nx' i q = nx i q.
  Proof.
    intros Hi H1 H2. apply Hnx'o; auto. intros [Hq [Hpq E]]. apply H1. eapply Hothers; eauto.
  Qed.

  (* the new "on" relation *)
  Lemma on'_inv m q : onG lv' qs' m q -> (m <> c /\ onG lv qs m q) \/ (m = p /\ qs c q /\ ~ qs p q).
  Proof.
    intros [Hl Hq]. apply Hlv' in Hl. destruct Hl as [Hl Hmc].
    destruct (Nat.eq_dec m p) as [->|Hmp].
    - apply Hqs'p in Hq. destruct (qs_dec p q) as [Hpq|Hpq].
      + left. split; auto. split; auto.
      + right. destruct Hq; tauto.
    - left. split; auto. split; auto. apply (Hqs'o m q Hmp); auto.
  Qed.

  Lemma on_c q : qs c q -> onG lv qs c q.
  Proof. split; auto. Qed.

  (* symmetric links derived from the adjacency *)
  Lemma nx_to_c i q : lv i -> nx i q = Some c -> i = p.
  Proof.
    intros Hi E.
    destruct (proj1 Hnx i q c Hi E) as [Hqi [[_ [Hic [Hqc Hb]]]|[Hd _]]]; [|contradiction].
    destruct (pv c q) as [j|] eqn:Ej.
    - pose proof (Hothers q j Ej). subst j.
      destruct (proj1 Hpv c q p Hc Ej) as [_ [[_ [Hcp [Hqp Hb2]]]|[Hd _]]]; [|contradiction].
      destruct (Nat.eq_dec i p) as [|Hne]; auto. exfalso.
      assert (bef dir i p \/ bef dir p i) as [Hip|Hpi] by (destruct dir; ord).
      + apply (Hb p); auto. split; auto.
      + apply (Hb2 i); [destruct dir; ord | destruct dir; ord | split; auto].
    - exfalso. apply (proj2 Hpv c q Hc Hqc Ej i); [destruct dir; ord | split; auto].
  Qed.

  Lemma pv_from_c i q : lv i -> pv i q = Some c -> qs c q /\ nx c q = Some i.
  Proof.
    intros Hi E.
    destruct (proj1 Hpv i q c Hi E) as [Hqi [[_ [Hic [Hqc Hb]]]|[Hd _]]]; [|contradiction].
    split; auto.
    destruct (nx c q) as [j|] eqn:Ej.
    - destruct (proj1 Hnx c q j Hc Ej) as [_ [[Hlj [Hcj [Hqj Hb2]]]|[Hd Hb2]]].
      + destruct (Nat.eq_dec i j) as [->|Hne]; auto. exfalso.
        assert (bef dir i j \/ bef dir j i) as [Hij|Hji] by (destruct dir; ord).
        * apply (Hb2 i); [destruct dir; ord | auto | split; auto].
        * apply (Hb j); [destruct dir; ord | destruct dir; ord | split; auto].
      + exfalso. apply (Hb2 i); [destruct dir; ord | split; auto].
    - exfalso. apply (proj2 Hnx c q Hc Hqc Ej i); [destruct dir; ord | split; auto].
  Qed.

  Ltac ordd := destruct dir; unfold bef in *; simpl in *; lia.

  Lemma tri a b : a <> b -> bef dir a b \/ bef dir b a.
  Proof. intros. ordd. Qed.

  Lemma lv'_of i : lv i -> i <> c -> lv' i.
  Proof. intros. apply Hlv'. auto. Qed.
  Lemma not_lv' j : ~ lv j -> ~ lv' j.
  Proof. intros H H1. apply Hlv' in H1. tauto. Qed.
  Lemma not_lv'_c : ~ lv' c.
  Proof. intros H1. apply Hlv' in H1. tauto. Qed.
  Lemma qs'_of i q : qs i q -> qs' i q.
  Proof.
    intros H. destruct (Nat.eq_dec i p) as [->|Hne].
    - apply Hqs'p; auto.
    - apply Hqs'o; auto.
  Qed.

  (* a live node m (not the child) after the parent's side ... : generic contradiction helper *)
  Lemma no_on'_after_c_side q m :
    qs c q -> bef dir p m ->
    (forall m0, bef dir c m0 -> ~ onG lv qs m0 q) -> ~ onG lv' qs' m q.
  Proof.
    intros Hq Hpm Hb Hon. destruct (on'_inv m q Hon) as [[Hmc Hon']|[-> _]]; [|ordd].
    destruct (tri m c Hmc) as [H|H].
    - eapply claim_between; eauto.
    - eapply Hb; eauto.
  Qed.

  Lemma merge_nx_some i q j : lv' i -> nx' i q = Some j ->
    qs' i q /\ ((lv' j /\ bef dir i j /\ qs' j q /\ forall m, bef dir i m -> bef dir m j -> ~ onG lv' qs' m q)
               \/ (~ lv' j /\ forall m, bef dir i m -> ~ onG lv' qs' m q)).
  Proof.
    intros Hi' E. apply Hlv' in Hi'. destruct Hi' as [Hi Hic].
    destruct (Nat.eq_dec i p) as [->|Hip].
    - destruct (qs_dec c q) as [Hq|Hq].
      + split; [apply Hqs'p; auto|].
        destruct (nx'_p_c q Hq) as [E1|[E1 E2]].
        * rewrite E1 in E.
          destruct (proj1 Hnx c q j Hc E) as [_ [[Hlj [Hcj [Hqj Hb]]]|[Hdj Hb]]].
          -- left. split; [apply lv'_of; auto; ordd|]. split; [ordd|].
             split; [apply Hqs'o; auto; ordd|].
             intros m H1 H2 Hon. destruct (on'_inv m q Hon) as [[Hmc Hon']|[-> _]]; [|ordd].
             destruct (tri m c Hmc) as [H|H].
             ++ eapply claim_between; eauto.
             ++ eapply Hb; eauto.
          -- right. split; [apply not_lv'; auto|].
             intros m H1. apply no_on'_after_c_side; auto.
        * rewrite E2 in E. inversion E; subst j. right. split; [apply not_lv'_c|].
          intros m H1. apply no_on'_after_c_side; auto.
          intros m0 Hm0. apply (proj2 Hnx c q Hc Hq E1 m0 Hm0).
      + rewrite (Hnx'p_else q Hq) in E.
        destruct (proj1 Hnx p q j Hp E) as [Hqp [[Hlj [Hpj [Hqj Hb]]]|[Hdj Hb]]].
        * split; [apply Hqs'p; auto|]. left.
          assert (j <> c) by (intros ->; contradiction).
          split; [apply lv'_of; auto|]. split; auto. split; [apply qs'_of; auto|].
          intros m H1 H2 Hon. destruct (on'_inv m q Hon) as [[Hmc Hon']|[-> _]]; [|ordd].
          eapply Hb; eauto.
        * split; [apply Hqs'p; auto|]. right. split; [apply not_lv'; auto|].
          intros m H1 Hon. destruct (on'_inv m q Hon) as [[Hmc Hon']|[-> _]]; [|ordd].
          eapply Hb; eauto.
    - rewrite (nx'_o i q Hi Hip Hic) in E.
      destruct (proj1 Hnx i q j Hi E) as [Hqi [[Hlj [Hij [Hqj Hb]]]|[Hdj Hb]]].
      + assert (j <> c) as Hjc.
        { intros ->. apply Hip. eapply nx_to_c; eauto. }
        split; [apply qs'_of; auto|]. left.
        split; [apply lv'_of; auto|]. split; auto. split; [apply qs'_of; auto|].
        intros m H1 H2 Hon. destruct (on'_inv m q Hon) as [[Hmc Hon']|[-> [Hcq Hpq]]].
        * eapply Hb; eauto.
        * apply (nothing_before_c_rest q i Hcq Hpq); [ordd | split; auto].
      + split; [apply qs'_of; auto|]. right. split; [apply not_lv'; auto|].
        intros m H1 Hon. destruct (on'_inv m q Hon) as [[Hmc Hon']|[-> [Hcq Hpq]]].
        * eapply Hb; eauto.
        * apply (nothing_before_c_rest q i Hcq Hpq); [ordd | split; auto].
  Qed.

  Lemma merge_nx_none i q : lv' i -> qs' i q -> nx' i q = None ->
    forall m, bef dir i m -> ~ onG lv' qs' m q.
  Proof.
    intros Hi' Hq' E m Hm. apply Hlv' in Hi'. destruct Hi' as [Hi Hic].
    destruct (Nat.eq_dec i p) as [->|Hip].
    - destruct (qs_dec c q) as [Hq|Hq].
      + destruct (nx'_p_c q Hq) as [E1|[E1 E2]]; [|congruence].
        rewrite E in E1. symmetry in E1.
        apply no_on'_after_c_side; auto.
        intros m0 Hm0. apply (proj2 Hnx c q Hc Hq E1 m0 Hm0).
      + rewrite (Hnx'p_else q Hq) in E.
        assert (qs p q) as Hqp by (apply Hqs'p in Hq'; tauto).
        intros Hon. destruct (on'_inv m q Hon) as [[Hmc Hon']|[-> _]]; [|ordd].
        eapply (proj2 Hnx p q Hp Hqp E); eauto.
    - rewrite (nx'_o i q Hi Hip Hic) in E.
      assert (qs i q) as Hqi by (apply (Hqs'o i q Hip); auto).
      intros Hon. destruct (on'_inv m q Hon) as [[Hmc Hon']|[-> [Hcq Hpq]]].
      + eapply (proj2 Hnx i q Hi Hqi E); eauto.
      + apply (proj2 Hnx i q Hi Hqi E c); [ordd | split; auto].
  Qed.

  Lemma nx_c_dec i q : (qs c q /\ nx c q = Some i) \/ ~ (qs c q /\ nx c q = Some i).
  Proof.
    destruct (qs_dec c q) as [Hq|Hq]; [|tauto].
    destruct (nx c q) as [j|]; [|right; intros [_ H]; discriminate].
    destruct (Nat.eq_dec j i) as [->|Hne]; [left; auto|right; intros [_ H]; congruence].
  Qed.

  (* the parent's new qubits q (from the child, not shared): contradiction with a live node i
     on q that lies after the parent *)
  Lemma rest_conflict q i : qs c q -> ~ qs p q -> lv i -> qs i q -> i <> c -> bef dir p i ->
    (bef dir c i -> False) -> False.
  Proof.
    intros Hcq Hpq Hi Hqi Hic Hpi Hci.
    destruct (tri i c Hic) as [H|H]; auto.
    apply (claim_between q i Hcq Hpi H). split; auto.
  Qed.

  Lemma merge_pv_some i q j : lv' i -> pv' i q = Some j ->
    qs' i q /\ ((lv' j /\ bef (negb dir) i j /\ qs' j q
                 /\ forall m, bef (negb dir) i m -> bef (negb dir) m j -> ~ onG lv' qs' m q)
               \/ (~ lv' j /\ forall m, bef (negb dir) i m -> ~ onG lv' qs' m q)).
  Proof.
    intros Hi' E. apply Hlv' in Hi'. destruct Hi' as [Hi Hic].
    destruct (Nat.eq_dec i p) as [->|Hip].
    - rewrite pv'_p in E.
      destruct (proj1 Hpv p q j Hp E) as [Hqp [[Hlj [Hpj [Hqj Hb]]]|[Hdj Hb]]].
      + split; [apply Hqs'p; auto|]. left.
        split; [apply lv'_of; auto; ordd|]. split; auto. split; [apply qs'_of; auto|].
        intros m H1 H2 Hon. destruct (on'_inv m q Hon) as [[Hmc Hon']|[-> _]]; [|ordd].
        eapply Hb; eauto.
      + split; [apply Hqs'p; auto|]. right. split; [apply not_lv'; auto|].
        intros m H1 Hon. destruct (on'_inv m q Hon) as [[Hmc Hon']|[-> _]]; [|ordd].
        eapply Hb; eauto.
    - destruct (Hpv'o i q Hi Hip Hic) as [HA HB].
      destruct (nx_c_dec i q) as [[Hcq Ec]|Hno].
      + rewrite (HA Hcq Ec) in E. inversion E; subst j.
        destruct (proj1 Hnx c q i Hc Ec) as [_ [[_ [Hci [Hqi Hb]]]|[Hd _]]]; [|contradiction].
        split; [apply qs'_of; auto|]. left.
        split; [apply lv'_of; auto; apply pc_ne|]. split; [ordd|].
        split; [apply Hqs'p; auto|].
        intros m H1 H2 Hon. destruct (on'_inv m q Hon) as [[Hmc Hon']|[-> _]]; [|ordd].
        destruct (tri m c Hmc) as [H|H].
        * apply (claim_between q m Hcq); [ordd | exact H | exact Hon'].
        * apply (Hb m); [ordd | ordd | exact Hon'].
      + rewrite (HB Hno) in E.
        destruct (proj1 Hpv i q j Hi E) as [Hqi [[Hlj [Hij [Hqj Hb]]]|[Hdj Hb]]].
        * assert (j <> c) as Hjc.
          { intros ->. apply Hno. eapply pv_from_c; eauto. }
          split; [apply qs'_of; auto|]. left.
          split; [apply lv'_of; auto|]. split; auto. split; [apply qs'_of; auto|].
          intros m H1 H2 Hon. destruct (on'_inv m q Hon) as [[Hmc Hon']|[-> [Hcq Hpq]]].
          -- eapply Hb; eauto.
          -- apply (rest_conflict q i Hcq Hpq Hi Hqi Hic); [ordd|].
             intros Hci. apply (Hb c); [ordd | ordd | split; auto].
        * split; [apply qs'_of; auto|]. right. split; [apply not_lv'; auto|].
          intros m H1 Hon. destruct (on'_inv m q Hon) as [[Hmc Hon']|[-> [Hcq Hpq]]].
          -- eapply Hb; eauto.
          -- apply (rest_conflict q i Hcq Hpq Hi Hqi Hic); [ordd|].
             intros Hci. apply (Hb c); [ordd | split; auto].
  Qed.

  Lemma merge_pv_none i q : lv' i -> qs' i q -> pv' i q = None ->
    forall m, bef (negb dir) i m -> ~ onG lv' qs' m q.
  Proof.
    intros Hi' Hq' E m Hm. apply Hlv' in Hi'. destruct Hi' as [Hi Hic].
    destruct (Nat.eq_dec i p) as [->|Hip].
    - rewrite pv'_p in E. intros Hon.
      destruct (on'_inv m q Hon) as [[Hmc Hon']|[-> _]]; [|ordd].
      destruct (qs_dec p q) as [Hpq|Hpq].
      + eapply (proj2 Hpv p q Hp Hpq E); eauto.
      + assert (qs c q) as Hcq by (apply Hqs'p in Hq'; tauto).
        apply (nothing_before_c_rest q m Hcq Hpq); [ordd | auto].
    - destruct (Hpv'o i q Hi Hip Hic) as [HA HB].
      destruct (nx_c_dec i q) as [[Hcq Ec]|Hno]; [rewrite (HA Hcq Ec) in E; discriminate|].
      rewrite (HB Hno) in E.
      assert (qs i q) as Hqi by (apply (Hqs'o i q Hip); auto).
      intros Hon. destruct (on'_inv m q Hon) as [[Hmc Hon']|[-> [Hcq Hpq]]].
      + eapply (proj2 Hpv i q Hi Hqi E); eauto.
      + apply (rest_conflict q i Hcq Hpq Hi Hqi Hic); [ordd|].
        intros Hci. apply (proj2 Hpv i q Hi Hqi E c); [ordd | split; auto].
  Qed.

  Theorem merge_adj : AdjG dir lv' qs' nx' pv'.
  Proof.
    split; split.
    - apply merge_nx_some.
    - apply merge_nx_none.
    - apply merge_pv_some.
    - apply merge_pv_none.
  Qed.
End Merge.

(* ================================================================ concrete states *)
Definition absorbed (nd : node) : bool :=
  nmarked nd && match ngates nd with g :: _ => is_ord g | [] => true end.
Definition live (nd : node) : bool := negb (absorbed nd).
Definition lvP (st : state) (i : nat) : Prop := live (getn st i) = true.
Definition qsP (st : state) (i q : nat) : Prop := In q (nqs (getn st i)).
Definition rt (st : state) (i q : nat) : option nat := lookup (nright (getn st i)) q.
Definition lf (st : state) (i q : nat) : option nat := lookup (nleft (getn st i)) q.
Definition Adj (st : state) : Prop := AdjG true (lvP st) (qsP st) (rt st) (lf st).

Lemma getn_mapi f st i : i < length st -> getn (mapi f st) i = f i (getn st i).
Proof. intros H. unfold getn. apply mapi_nth; auto. Qed.

Lemma getn_out st i : length st <= i -> getn st i = dnode.
Proof. intros H. unfold getn. apply nth_overflow; auto. Qed.

Lemma lvP_range st i : lvP st i -> i < length st.
Proof.
  intros H. destruct (lt_dec i (length st)); auto. exfalso.
  unfold lvP in H. rewrite getn_out in H by lia. discriminate.
Qed.

Lemma unmarked_live nd : nmarked nd = false -> live nd = true.
Proof. unfold live, absorbed. intros ->. reflexivity. Qed.

Lemma unmarked_range st i : nmarked (getn st i) = false -> i < length st.
Proof. intros H. apply lvP_range. apply unmarked_live; auto. Qed.

Lemma qsP_dec st i q : qsP st i q \/ ~ qsP st i q.
Proof. unfold qsP. destruct (in_dec Nat.eq_dec q (nqs (getn st i))); auto. Qed.

Lemma memb_filter f q l : memb q (filter f l) = memb q l && f q.
Proof.
  destruct (memb q (filter f l)) eqn:E.
  - apply memb_In in E. apply filter_In in E. destruct E as [E1 E2].
    apply memb_In in E1. now rewrite E1, E2.
  - destruct (memb q l) eqn:E1; auto. destruct (f q) eqn:E2; auto. exfalso.
    apply memb_false in E. apply E. apply filter_In. split; auto. now apply memb_In.
Qed.

Lemma memb_sinter q a b : memb q (sinter a b) = memb q a && memb q b.
Proof. apply memb_filter. Qed.
Lemma memb_sdiff q a b : memb q (sdiff a b) = memb q a && negb (memb q b).
Proof. apply (memb_filter (fun x => negb (memb x b))). Qed.

Lemma In_memb q l : In q l -> memb q l = true.
Proof. apply memb_In. Qed.
Lemma notIn_memb q l : ~ In q l -> memb q l = false.
Proof. apply memb_false. Qed.

(* well-formed nodes *)
Definition wf_node (n : nat) (nd : node) : Prop :=
  ssorted (nqs nd) /\
  if nmarked nd then
    (exists g, ngates nd = [g] /\ is_ord g = false /\ incl (gsupp n g) (nqs nd))
    \/ (ngates nd <> [] /\ forall g, In g (ngates nd) -> is_ord g = true)
  else ngates nd <> [] /\ forall g, In g (ngates nd) -> is_ord g = true /\ incl (gqs g) (nqs nd).
Definition WF (n : nat) (st : state) : Prop := forall i, i < length st -> wf_node n (getn st i).

Definition nflat (nd : node) : list gate := flatten (node_items nd).

Lemma nflat_unmarked nd : nmarked nd = false -> nflat nd = ngates nd.
Proof.
  unfold nflat, node_items. intros ->. simpl.
  destruct (ngates nd) as [|g [|g' gs]]; simpl; auto. now rewrite app_nil_r.
Qed.

Lemma nflat_absorbed nd : live nd = false -> nflat nd = [].
Proof.
  unfold live, absorbed, nflat, node_items. intros H. apply negb_false_iff in H.
  apply andb_true_iff in H. destruct H as [-> H]. simpl.
  destruct (ngates nd) as [|g gs]; auto. rewrite H. reflexivity.
Qed.

Lemma wf_unmarked_absorb n nd : wf_node n nd -> nmarked nd = false ->
  live (mkNode (nqs nd) (ngates nd) true (nleft nd) (nright nd)) = false.
Proof.
  intros [_ H] Hm. rewrite Hm in H. destruct H as [Hne Hall].
  unfold live, absorbed. simpl. destruct (ngates nd) as [|g gs]; auto.
  destruct (Hall g) as [-> _]; simpl; auto.
Qed.

Lemma ord_gsupp n g : is_ord g = true -> gsupp n g = gqs g.
Proof. unfold is_ord, gsupp. destruct (gk g); auto; discriminate. Qed.

Lemma wf_nflat_supp n nd g : wf_node n nd -> In g (nflat nd) -> incl (gsupp n g) (nqs nd).
Proof.
  intros [_ H] Hg. destruct (nmarked nd) eqn:Hm.
  - destruct H as [[g0 [E [Ho Hs]]]|[Hne Hall]].
    + unfold nflat, node_items in Hg. rewrite Hm, E, Ho in Hg. simpl in Hg.
      destruct Hg as [<-|[]]. auto.
    + rewrite nflat_absorbed in Hg; [inversion Hg|].
      unfold live, absorbed. rewrite Hm. destruct (ngates nd) as [|g1 gs]; auto.
      simpl. rewrite (Hall g1); simpl; auto.
  - rewrite nflat_unmarked in Hg by auto. destruct H as [_ Hall].
    destruct (Hall g Hg) as [Ho Hs]. rewrite ord_gsupp; auto.
Qed.

(* ---------------------------------------------------------------- flat word of a state *)
Definition flat (st : state) : list gate :=
  flat_map (fun i => nflat (getn st i)) (seq 0 (length st)).

Lemma flat_from_fused st : flatten (from_fused st) = flat st.
Proof.
  unfold flat, from_fused, flatten, getn.
  rewrite (flat_map_nth_seq nflat st dnode).
  unfold nflat, flatten. induction st as [|nd st IH]; simpl; auto.
  rewrite flat_map_app. now rewrite IH.
Qed.

Lemma seq_split3 N l r : l < r -> r < N ->
  seq 0 N = seq 0 l ++ l :: seq (S l) (r - S l) ++ r :: seq (S r) (N - S r).
Proof.
  intros H1 H2.
  replace N with (l + S ((r - S l) + S (N - S r))) at 1 by lia.
  rewrite seq_app. simpl. f_equal. f_equal.
  rewrite seq_app. simpl. f_equal.
  replace (S (l + (r - S l))) with r by lia. reflexivity.
Qed.

Lemma flat_map_ext_in' {X Y} (f g : X -> list Y) l :
  (forall x, In x l -> f x = g x) -> flat_map f l = flat_map g l.
Proof.
  induction l as [|x l IH]; intros H; simpl; auto.
  rewrite H by (left; auto). rewrite IH; auto. intros; apply H; right; auto.
Qed.

Section FlatMove.
  Context {A : Type} (indep : A -> A -> bool).
  Hypothesis indep_sym : forall a b, indep a b = indep b a.
  Variables (f f' : nat -> list A) (N l r : nat).
  Hypothesis Hlr : l < r.
  Hypothesis HrN : r < N.

  Lemma flat_split (g : nat -> list A) :
    flat_map g (seq 0 N) =
    flat_map g (seq 0 l) ++ g l ++ flat_map g (seq (S l) (r - S l)) ++ g r ++ flat_map g (seq (S r) (N - S r)).
  Proof.
    rewrite (seq_split3 N l r Hlr HrN). rewrite flat_map_app. simpl. rewrite flat_map_app. simpl.
    reflexivity.
  Qed.

  Hypothesis Hother : forall i, i <> l -> i <> r -> f' i = f i.

  Lemma flat_map_other a b : (forall i, In i (seq a b) -> i <> l /\ i <> r) ->
    flat_map f' (seq a b) = flat_map f (seq a b).
  Proof.
    intros H. apply flat_map_ext_in'. intros i Hi. destruct (H i Hi). apply Hother; auto.
  Qed.

  Lemma flat_others :
    flat_map f' (seq 0 l) = flat_map f (seq 0 l)
    /\ flat_map f' (seq (S l) (r - S l)) = flat_map f (seq (S l) (r - S l))
    /\ flat_map f' (seq (S r) (N - S r)) = flat_map f (seq (S r) (N - S r)).
  Proof.
    repeat split; apply flat_map_other; intros i Hi; apply in_seq in Hi; lia.
  Qed.

  (* the later block moves back to the earlier position (child r appended to parent l) *)
  Lemma flat_move_back :
    f' l = f l ++ f r -> f' r = [] ->
    (forall m, l < m -> m < r -> indep_blocks indep (f m) (f r)) ->
    teq indep (flat_map f' (seq 0 N)) (flat_map f (seq 0 N)).
  Proof.
    intros El Er Hind. rewrite (flat_split f'), (flat_split f).
    destruct flat_others as [-> [-> ->]]. rewrite El, Er. simpl.
    apply teq_app_head. rewrite <- app_assoc. apply teq_app_head.
    rewrite !app_assoc. apply teq_app_tail.
    apply teq_blocks_swap; auto.
    intros x y Hx Hy. rewrite indep_sym. apply in_flat_map in Hy. destruct Hy as [m [Hm Hy]].
    apply in_seq in Hm. apply (Hind m); auto; lia.
  Qed.

  (* the earlier block moves forward to the later position (child l prepended to parent r) *)
  Lemma flat_move_fwd :
    f' r = f l ++ f r -> f' l = [] ->
    (forall m, l < m -> m < r -> indep_blocks indep (f l) (f m)) ->
    teq indep (flat_map f' (seq 0 N)) (flat_map f (seq 0 N)).
  Proof.
    intros Er El Hind. rewrite (flat_split f'), (flat_split f).
    destruct flat_others as [-> [-> ->]]. rewrite El, Er. simpl.
    apply teq_app_head. rewrite <- !app_assoc. rewrite !app_assoc.
    apply teq_app_tail. apply teq_app_tail.
    apply teq_blocks_swap; auto.
    intros x y Hx Hy. rewrite indep_sym. apply in_flat_map in Hx. destruct Hx as [m [Hm Hx]].
    apply in_seq in Hm. apply (Hind m); auto; lia.
  Qed.

  (* letters selected by [p] do not move at all if the moved block contains none of them *)
  Variable p : A -> bool.
  Lemma filter_flat_map (g : nat -> list A) l0 : filter p (flat_map g l0) = flat_map (fun i => filter p (g i)) l0.
  Proof.
    induction l0 as [|x l0 IH]; simpl; auto. rewrite filter_app. now rewrite IH.
  Qed.
End FlatMove.

(* ================================================================ the two merges preserve the adjacency *)
Ltac mb := repeat match goal with
  | H : In ?q ?l |- context[memb ?q ?l] => rewrite (In_memb q l H)
  | H : ~ In ?q ?l |- context[memb ?q ?l] => rewrite (notIn_memb q l H)
  end.

Lemma live_other_r st l r i nd : live (mr_other st l r i nd) = live nd.
Proof. reflexivity. Qed.
Lemma live_other_l st l r i nd : live (ml_other st l r i nd) = live nd.
Proof. reflexivity. Qed.

Section MergeRight.
  Variables (n : nat) (st : state) (l r : nat).
  Hypothesis Hadj : Adj st.
  Hypothesis Hwf : WF n st.
  Hypothesis Hlr : l < r.
  Hypothesis Hml : nmarked (getn st l) = false.
  Hypothesis Hmr : nmarked (getn st r) = false.
  Hypothesis Hoth : others (nleft (getn st r)) l = [].
  Hypothesis Hbtw :
    between_ok (nright (getn st l)) (sinter (nqs (getn st l)) (nqs (getn st r))) r = true.

  Lemma mr_r_range : r < length st.
  Proof. apply unmarked_range; auto. Qed.
  Let Hr := mr_r_range.

  Lemma mr_len : length (merge_right st l r) = length st.
  Proof. apply mapi_length. Qed.
  Lemma mr_get_l : getn (merge_right st l r) l = mr_parent st l r.
  Proof. unfold merge_right. rewrite getn_mapi by lia. now rewrite Nat.eqb_refl. Qed.
  Lemma mr_get_r : getn (merge_right st l r) r = absorb (getn st r).
  Proof.
    unfold merge_right. rewrite getn_mapi by lia. rewrite Nat.eqb_refl.
    destruct (Nat.eqb_spec r l); [lia|auto].
  Qed.
  Lemma mr_get_o i : i <> l -> i <> r -> i < length st ->
    getn (merge_right st l r) i = mr_other st l r i (getn st i).
  Proof.
    intros H1 H2 H3. unfold merge_right. rewrite getn_mapi by lia.
    destruct (Nat.eqb_spec i l); [lia|]. destruct (Nat.eqb_spec i r); [lia|auto].
  Qed.
  Lemma mr_get_out i : length st <= i -> getn (merge_right st l r) i = getn st i.
  Proof. intros H. rewrite !getn_out; auto. rewrite mr_len; auto. Qed.

  Lemma mr_lv i : lvP (merge_right st l r) i <-> lvP st i /\ i <> r.
  Proof.
    unfold lvP. destruct (Nat.eq_dec i l) as [->|Hil].
    - rewrite mr_get_l. unfold mr_parent, live, absorbed; cbn [nmarked]. rewrite Hml. simpl.
      split; [intros _; split; [reflexivity|lia] | auto].
    - destruct (Nat.eq_dec i r) as [->|Hir].
      + rewrite mr_get_r. unfold absorb. rewrite (wf_unmarked_absorb n _ (Hwf r Hr) Hmr).
        split; [discriminate | intros [_ H]; congruence].
      + destruct (lt_dec i (length st)).
        * rewrite mr_get_o by auto. rewrite live_other_r. tauto.
        * rewrite mr_get_out by lia. tauto.
  Qed.

  Lemma mr_qs_o i q : i <> l -> (qsP (merge_right st l r) i q <-> qsP st i q).
  Proof.
    intros Hil. unfold qsP. destruct (Nat.eq_dec i r) as [->|Hir].
    - rewrite mr_get_r. simpl. tauto.
    - destruct (lt_dec i (length st)).
      + rewrite mr_get_o by auto. simpl. tauto.
      + rewrite mr_get_out by lia. tauto.
  Qed.

  Lemma mr_adj : Adj (merge_right st l r).
  Proof.
    unfold Adj.
    apply merge_adj with (p := l) (c := r) (del := true) (lv := lvP st) (qs := qsP st)
                         (nx := rt st) (pv := lf st).
    - apply qsP_dec.
    - exact Hadj.
    - apply unmarked_live; auto.
    - apply unmarked_live; auto.
    - simpl. lia.
    - intros q H1 H2. destruct (between_ok_spec _ _ _ Hbtw) as [_ H]. apply H.
      apply sinter_In; auto.
    - intros q j E. rewrite others_nil in Hoth. eapply Hoth; eauto.
    - apply mr_lv.
    - intros q. unfold qsP. rewrite mr_get_l. unfold mr_parent; cbn [nqs]. apply sunion_In.
    - apply mr_qs_o.
    - intros q H1 H2. unfold rt, qsP in *. rewrite mr_get_l. unfold mr_parent; cbn [nright].
      rewrite !lookup_mupd, ?memb_sdiff, ?memb_sinter. mb. simpl.
      destruct (lookup (nright (getn st r)) q); reflexivity.
    - intros q H1 H2. unfold rt, qsP in *. rewrite mr_get_l. unfold mr_parent; cbn [nright].
      rewrite !lookup_mupd, ?memb_sdiff, ?memb_sinter. mb. simpl.
      destruct (lookup (nright (getn st r)) q); reflexivity.
    - intros q H1. unfold rt, qsP in *. rewrite mr_get_l. unfold mr_parent; cbn [nright].
      rewrite !lookup_mupd, ?memb_sdiff, ?memb_sinter. mb. simpl.
      rewrite andb_false_r. reflexivity.
    - intros q H1 H2. unfold lf, qsP in *. rewrite mr_get_l. unfold mr_parent; cbn [nleft].
      rewrite !lookup_mupd, ?memb_sdiff, ?memb_sinter. mb. simpl.
      destruct (lookup (nleft (getn st r)) q); reflexivity.
    - intros q H1. unfold lf, qsP in *. rewrite mr_get_l. unfold mr_parent; cbn [nleft].
      rewrite !lookup_mupd, ?memb_sdiff, ?memb_sinter.
      destruct (in_dec Nat.eq_dec q (nqs (getn st r))) as [Hq|Hq];
        destruct (in_dec Nat.eq_dec q (nqs (getn st l))) as [Hq2|Hq2]; mb; simpl; auto.
      tauto.
    - intros i q Hi Hil Hir. pose proof (lvP_range _ _ Hi) as Hrg.
      unfold lf, rt, qsP in *. rewrite mr_get_o by auto. unfold mr_other; cbn [nleft].
      rewrite lookup_mupd. split.
      + intros H1 H2. mb. rewrite H2. simpl. rewrite Nat.eqb_refl. reflexivity.
      + intros H. destruct (memb q (nqs (getn st r))) eqn:E; auto.
        apply memb_In in E.
        destruct (opt_is (lookup (nright (getn st r)) q) i) eqn:E2; auto.
        apply opt_is_true in E2. tauto.
    - intros i q Hi Hil Hir H. pose proof (lvP_range _ _ Hi) as Hrg.
      unfold lf, rt, qsP in *. rewrite mr_get_o by auto. unfold mr_other; cbn [nright].
      rewrite lookup_mupd, memb_sdiff, memb_sinter.
      destruct (in_dec Nat.eq_dec q (nqs (getn st r))) as [Hq|Hq]; mb; simpl; auto.
      destruct (in_dec Nat.eq_dec q (nqs (getn st l))) as [Hq2|Hq2]; mb; simpl; auto.
      destruct (opt_is (lookup (nleft (getn st r)) q) i) eqn:E2; auto.
      apply opt_is_true in E2. tauto.
  Qed.
End MergeRight.

Section MergeLeft.
  Variables (n : nat) (st : state) (l r : nat).
  Hypothesis Hadj : Adj st.
  Hypothesis Hwf : WF n st.
  Hypothesis Hlr : l < r.
  Hypothesis Hml : nmarked (getn st l) = false.
  Hypothesis Hmr : nmarked (getn st r) = false.
  Hypothesis Hoth : others (nright (getn st l)) r = [].
  Hypothesis Hbtw :
    between_ok (nleft (getn st r)) (sinter (nqs (getn st l)) (nqs (getn st r))) l = true.

  Lemma ml_r_range : r < length st.
  Proof. apply unmarked_range; auto. Qed.
  Let Hr := ml_r_range.

  Lemma ml_len : length (merge_left st l r) = length st.
  Proof. apply mapi_length. Qed.
  Lemma ml_get_r : getn (merge_left st l r) r = ml_parent st l r.
  Proof. unfold merge_left. rewrite getn_mapi by lia. now rewrite Nat.eqb_refl. Qed.
  Lemma ml_get_l : getn (merge_left st l r) l = absorb (getn st l).
  Proof.
    unfold merge_left. rewrite getn_mapi by lia. rewrite Nat.eqb_refl.
    destruct (Nat.eqb_spec l r); [lia|auto].
  Qed.
  Lemma ml_get_o i : i <> l -> i <> r -> i < length st ->
    getn (merge_left st l r) i = ml_other st l r i (getn st i).
  Proof.
    intros H1 H2 H3. unfold merge_left. rewrite getn_mapi by lia.
    destruct (Nat.eqb_spec i r); [lia|]. destruct (Nat.eqb_spec i l); [lia|auto].
  Qed.
  Lemma ml_get_out i : length st <= i -> getn (merge_left st l r) i = getn st i.
  Proof. intros H. rewrite !getn_out; auto. rewrite ml_len; auto. Qed.

  Lemma ml_lv i : lvP (merge_left st l r) i <-> lvP st i /\ i <> l.
  Proof.
    unfold lvP. destruct (Nat.eq_dec i r) as [->|Hir].
    - rewrite ml_get_r. unfold ml_parent, live, absorbed; cbn [nmarked]. rewrite Hmr. simpl.
      split; [intros _; split; [reflexivity|lia] | auto].
    - destruct (Nat.eq_dec i l) as [->|Hil].
      + rewrite ml_get_l. unfold absorb.
        rewrite (wf_unmarked_absorb n _ (Hwf l ltac:(lia)) Hml).
        split; [discriminate | intros [_ H]; congruence].
      + destruct (lt_dec i (length st)).
        * rewrite ml_get_o by auto. rewrite live_other_l. tauto.
        * rewrite ml_get_out by lia. tauto.
  Qed.

  Lemma ml_qs_o i q : i <> r -> (qsP (merge_left st l r) i q <-> qsP st i q).
  Proof.
    intros Hir. unfold qsP. destruct (Nat.eq_dec i l) as [->|Hil].
    - rewrite ml_get_l. simpl. tauto.
    - destruct (lt_dec i (length st)).
      + rewrite ml_get_o by auto. simpl. tauto.
      + rewrite ml_get_out by lia. tauto.
  Qed.

  Lemma ml_adj : Adj (merge_left st l r).
  Proof.
    unfold Adj. apply AdjG_flip. simpl.
    apply merge_adj with (p := r) (c := l) (del := false) (lv := lvP st) (qs := qsP st)
                         (nx := lf st) (pv := rt st).
    - apply qsP_dec.
    - apply (AdjG_flip true). exact Hadj.
    - apply unmarked_live; auto.
    - apply unmarked_live; auto.
    - simpl. lia.
    - intros q H1 H2. destruct (between_ok_spec _ _ _ Hbtw) as [_ H]. apply H.
      apply sinter_In; auto.
    - intros q j E. rewrite others_nil in Hoth. eapply Hoth; eauto.
    - apply ml_lv.
    - intros q. unfold qsP. rewrite ml_get_r. unfold ml_parent; cbn [nqs]. apply sunion_In.
    - apply ml_qs_o.
    - intros q H1 H2. unfold lf, qsP in *. rewrite ml_get_r. unfold ml_parent; cbn [nleft].
      rewrite !lookup_mupd, ?memb_sdiff, ?memb_sinter. mb. simpl.
      destruct (lookup (nleft (getn st l)) q); reflexivity.
    - intros q H1 H2. unfold lf, qsP in *. rewrite ml_get_r. unfold ml_parent; cbn [nleft].
      rewrite !lookup_mupd, ?memb_sdiff, ?memb_sinter. mb. simpl.
      destruct (lookup (nleft (getn st l)) q); reflexivity.
    - intros q H1. unfold lf, qsP in *. rewrite ml_get_r. unfold ml_parent; cbn [nleft].
      rewrite !lookup_mupd, ?memb_sdiff, ?memb_sinter. mb. simpl. reflexivity.
    - intros q H1 H2. unfold rt, qsP in *. rewrite ml_get_r. unfold ml_parent; cbn [nright].
      rewrite !lookup_mupd, ?memb_sdiff, ?memb_sinter. mb. simpl.
      destruct (lookup (nright (getn st l)) q); reflexivity.
    - intros q H1. unfold rt, qsP in *. rewrite ml_get_r. unfold ml_parent; cbn [nright].
      rewrite !lookup_mupd, ?memb_sdiff, ?memb_sinter.
      destruct (in_dec Nat.eq_dec q (nqs (getn st l))) as [Hq|Hq];
        destruct (in_dec Nat.eq_dec q (nqs (getn st r))) as [Hq2|Hq2]; mb; simpl; auto.
      tauto.
    - intros i q Hi Hir Hil. pose proof (lvP_range _ _ Hi) as Hrg.
      unfold lf, rt, qsP in *. rewrite ml_get_o by auto. unfold ml_other; cbn [nright].
      rewrite lookup_mupd. split.
      + intros H1 H2. mb. rewrite H2. simpl. rewrite Nat.eqb_refl. reflexivity.
      + intros H. destruct (memb q (nqs (getn st l))) eqn:E; auto.
        apply memb_In in E.
        destruct (opt_is (lookup (nleft (getn st l)) q) i) eqn:E2; auto.
        apply opt_is_true in E2. tauto.
    - intros i q Hi Hir Hil H. pose proof (lvP_range _ _ Hi) as Hrg.
      unfold lf, rt, qsP in *. rewrite ml_get_o by auto. unfold ml_other; cbn [nleft].
      rewrite lookup_mupd, memb_sdiff, memb_sinter.
      destruct (in_dec Nat.eq_dec q (nqs (getn st l))) as [Hq|Hq]; mb; simpl; auto.
      destruct (in_dec Nat.eq_dec q (nqs (getn st r))) as [Hq2|Hq2]; mb; simpl; auto.
      destruct (opt_is (lookup (nright (getn st l)) q) i) eqn:E2; auto.
      apply opt_is_true in E2. tauto.
  Qed.
End MergeLeft.

(* ================================================================ the invariant of the fusion loop *)
Definition nonord (g : gate) : bool := negb (is_ord g).

Record Inv (n k : nat) (c : list gate) (st : state) : Prop := mkInv {
  inv_adj : Adj st;
  inv_wf : WF n st;
  inv_flat : gteqn n (flat st) c;
  inv_nonord : filter nonord (flat st) = filter nonord c;
  inv_width : forall i, nmarked (getn st i) = false -> 2 <= length (ngates (getn st i)) ->
              length (nqs (getn st i)) <= k }.

Lemma wf_node_ext n a b : nqs a = nqs b -> ngates a = ngates b -> nmarked a = nmarked b ->
  wf_node n a -> wf_node n b.
Proof. unfold wf_node. intros -> -> ->. auto. Qed.

Lemma nflat_live_nonempty nd x : In x (nflat nd) -> live nd = true.
Proof.
  intros H. destruct (live nd) eqn:E; auto. rewrite nflat_absorbed in H by auto. inversion H.
Qed.

Lemma blocks_indep n st m r : WF n st -> m < length st -> r < length st ->
  (forall q, In q (nqs (getn st r)) -> ~ onG (lvP st) (qsP st) m q) ->
  indep_blocks (gindepn n) (nflat (getn st m)) (nflat (getn st r)).
Proof.
  intros Hwf Hm Hr H x y Hx Hy. unfold gindepn, sindep. apply disjointb_spec.
  intros q Hqx Hqy.
  apply (wf_nflat_supp n _ _ (Hwf m Hm) Hx) in Hqx.
  apply (wf_nflat_supp n _ _ (Hwf r Hr) Hy) in Hqy.
  apply (H q Hqy). split; auto. unfold lvP. eapply nflat_live_nonempty; eauto.
Qed.

Lemma filter_nonord_ord l : (forall g, In g l -> is_ord g = true) -> filter nonord l = [].
Proof.
  induction l as [|g l IH]; intros H; simpl; auto.
  unfold nonord at 1. rewrite (H g) by (left; auto). simpl. apply IH. intros; apply H; right; auto.
Qed.

Lemma wf_unmarked_ord n nd : wf_node n nd -> nmarked nd = false ->
  forall g, In g (ngates nd) -> is_ord g = true.
Proof. intros [_ H] Hm g Hg. rewrite Hm in H. destruct H as [_ H]. apply H; auto. Qed.

Section MergeRightInv.
  Variables (n k : nat) (c : list gate) (st : state) (l r : nat).
  Hypothesis HI : Inv n k c st.
  Hypothesis Hlr : l < r.
  Hypothesis Hml : nmarked (getn st l) = false.
  Hypothesis Hmr : nmarked (getn st r) = false.
  Hypothesis Hoth : others (nleft (getn st r)) l = [].
  Hypothesis Hbtw :
    between_ok (nright (getn st l)) (sinter (nqs (getn st l)) (nqs (getn st r))) r = true.
  Hypothesis Hk : length (sunion (nqs (getn st l)) (nqs (getn st r))) <= k.

  Let Hadj := inv_adj _ _ _ _ HI.
  Let Hwf := inv_wf _ _ _ _ HI.
  Let Hr : r < length st := unmarked_range st r Hmr.

  Lemma mr_wf : WF n (merge_right st l r).
  Proof.
    intros i Hi. rewrite mr_len in Hi.
    destruct (Nat.eq_dec i l) as [->|Hil]; [|destruct (Nat.eq_dec i r) as [->|Hir]].
    - rewrite (mr_get_l st l r Hlr Hmr). unfold mr_parent, wf_node; cbn [nqs ngates nmarked].
      destruct (Hwf l Hi) as [Hs HL]. destruct (Hwf r Hr) as [_ HR].
      rewrite Hml in *. rewrite Hmr in HR.
      split; [apply sunion_sorted; auto|]. destruct HL as [HL1 HL2]. destruct HR as [HR1 HR2].
      split.
      + intros E. apply app_eq_nil in E. tauto.
      + intros g Hg. apply in_app_or in Hg. destruct Hg as [Hg|Hg].
        * destruct (HL2 g Hg). split; auto. intros x Hx. apply sunion_In. left; auto.
        * destruct (HR2 g Hg). split; auto. intros x Hx. apply sunion_In. right; auto.
    - rewrite (mr_get_r st l r Hlr Hmr). unfold absorb, wf_node; cbn [nqs ngates nmarked].
      destruct (Hwf r Hr) as [Hs HR]. rewrite Hmr in HR. destruct HR as [HR1 HR2].
      split; auto. right. split; auto. intros g Hg. apply HR2; auto.
    - rewrite (mr_get_o st l r Hlr Hmr) by auto.
      eapply wf_node_ext; [| | |apply (Hwf i Hi)]; reflexivity.
  Qed.

  Lemma mr_nflat_other i : i <> l -> i <> r ->
    nflat (getn (merge_right st l r) i) = nflat (getn st i).
  Proof.
    intros Hil Hir. destruct (lt_dec i (length st)).
    - rewrite (mr_get_o st l r Hlr Hmr) by auto. reflexivity.
    - rewrite (mr_get_out st l r) by lia. reflexivity.
  Qed.

  Lemma mr_nflat_l : nflat (getn (merge_right st l r) l) = nflat (getn st l) ++ nflat (getn st r).
  Proof.
    rewrite (mr_get_l st l r Hlr Hmr). rewrite !nflat_unmarked; auto.
  Qed.

  Lemma mr_nflat_r : nflat (getn (merge_right st l r) r) = [].
  Proof.
    rewrite (mr_get_r st l r Hlr Hmr). apply nflat_absorbed. unfold absorb.
    apply (wf_unmarked_absorb n _ (Hwf r Hr) Hmr).
  Qed.

  Lemma mr_between m : l < m -> m < r ->
    forall q, In q (nqs (getn st r)) -> ~ onG (lvP st) (qsP st) m q.
  Proof.
    intros H1 H2 q Hq.
    apply (claim_between true (lvP st) (qsP st) (rt st) (lf st) l r (qsP_dec st) Hadj); auto.
    - apply unmarked_live; auto.
    - apply unmarked_live; auto.
    - intros q0 Ha Hb. destruct (between_ok_spec _ _ _ Hbtw) as [_ H]. apply H.
      apply sinter_In; auto.
    - intros q0 j E. rewrite others_nil in Hoth. eapply Hoth; eauto.
  Qed.

  Lemma mr_flat : gteqn n (flat (merge_right st l r)) (flat st).
  Proof.
    unfold flat. rewrite mr_len.
    apply (flat_move_back (gindepn n) (sindep_sym (gsupp n))
             (fun i => nflat (getn st i)) (fun i => nflat (getn (merge_right st l r) i))
             (length st) l r Hlr Hr).
    - apply mr_nflat_other.
    - apply mr_nflat_l.
    - apply mr_nflat_r.
    - intros m H1 H2. apply blocks_indep; auto; try lia. apply mr_between; auto.
  Qed.

  Lemma mr_nonord : filter nonord (flat (merge_right st l r)) = filter nonord (flat st).
  Proof.
    unfold flat. rewrite mr_len. rewrite !filter_flat_map. apply flat_map_ext_in'.
    intros i _. destruct (Nat.eq_dec i l) as [->|Hil]; [|destruct (Nat.eq_dec i r) as [->|Hir]].
    - rewrite mr_nflat_l, filter_app.
      rewrite (filter_nonord_ord (nflat (getn st r))); [apply app_nil_r|].
      rewrite nflat_unmarked by auto. apply (wf_unmarked_ord n _ (Hwf r Hr) Hmr).
    - rewrite mr_nflat_r. simpl. symmetry. apply filter_nonord_ord.
      rewrite nflat_unmarked by auto. apply (wf_unmarked_ord n _ (Hwf r Hr) Hmr).
    - rewrite mr_nflat_other; auto.
  Qed.

  Lemma mr_inv : Inv n k c (merge_right st l r).
  Proof.
    constructor.
    - apply (mr_adj n); auto.
    - apply mr_wf.
    - eapply teq_trans; [apply mr_flat | apply (inv_flat _ _ _ _ HI)].
    - rewrite mr_nonord. apply (inv_nonord _ _ _ _ HI).
    - intros i Hm Hg.
      destruct (Nat.eq_dec i l) as [->|Hil]; [|destruct (Nat.eq_dec i r) as [->|Hir]].
      + rewrite (mr_get_l st l r Hlr Hmr). exact Hk.
      + rewrite (mr_get_r st l r Hlr Hmr) in Hm. discriminate.
      + destruct (lt_dec i (length st)).
        * rewrite (mr_get_o st l r Hlr Hmr) in * by auto. apply (inv_width _ _ _ _ HI i); auto.
        * rewrite (mr_get_out st l r) in * by lia. apply (inv_width _ _ _ _ HI i); auto.
  Qed.
End MergeRightInv.

Section MergeLeftInv.
  Variables (n k : nat) (c : list gate) (st : state) (l r : nat).
  Hypothesis HI : Inv n k c st.
  Hypothesis Hlr : l < r.
  Hypothesis Hml : nmarked (getn st l) = false.
  Hypothesis Hmr : nmarked (getn st r) = false.
  Hypothesis Hoth : others (nright (getn st l)) r = [].
  Hypothesis Hbtw :
    between_ok (nleft (getn st r)) (sinter (nqs (getn st l)) (nqs (getn st r))) l = true.
  Hypothesis Hk : length (sunion (nqs (getn st r)) (nqs (getn st l))) <= k.

  Let Hadj := inv_adj _ _ _ _ HI.
  Let Hwf := inv_wf _ _ _ _ HI.
  Let Hr : r < length st := unmarked_range st r Hmr.
  Let Hl : l < length st := Nat.lt_trans _ _ _ Hlr Hr.

  Lemma ml_wf : WF n (merge_left st l r).
  Proof.
    intros i Hi. rewrite ml_len in Hi.
    destruct (Nat.eq_dec i r) as [->|Hir]; [|destruct (Nat.eq_dec i l) as [->|Hil]].
    - rewrite (ml_get_r st l r Hlr Hmr). unfold ml_parent, wf_node; cbn [nqs ngates nmarked].
      destruct (Hwf l Hl) as [_ HL]. destruct (Hwf r Hr) as [Hs HR].
      rewrite Hmr in *. rewrite Hml in HL.
      split; [apply sunion_sorted; auto|]. destruct HL as [HL1 HL2]. destruct HR as [HR1 HR2].
      split.
      + intros E. apply app_eq_nil in E. tauto.
      + intros g Hg. apply in_app_or in Hg. destruct Hg as [Hg|Hg].
        * destruct (HL2 g Hg). split; auto. intros x Hx. apply sunion_In. right; auto.
        * destruct (HR2 g Hg). split; auto. intros x Hx. apply sunion_In. left; auto.
    - rewrite (ml_get_l st l r Hlr Hmr). unfold absorb, wf_node; cbn [nqs ngates nmarked].
      destruct (Hwf l Hl) as [Hs HL]. rewrite Hml in HL. destruct HL as [HL1 HL2].
      split; auto. right. split; auto. intros g Hg. apply HL2; auto.
    - rewrite (ml_get_o st l r Hlr Hmr) by auto.
      eapply wf_node_ext; [| | |apply (Hwf i Hi)]; reflexivity.
  Qed.

  Lemma ml_nflat_other i : i <> l -> i <> r ->
    nflat (getn (merge_left st l r) i) = nflat (getn st i).
  Proof.
    intros Hil Hir. destruct (lt_dec i (length st)).
    - rewrite (ml_get_o st l r Hlr Hmr) by auto. reflexivity.
    - rewrite (ml_get_out st l r) by lia. reflexivity.
  Qed.

  Lemma ml_nflat_r : nflat (getn (merge_left st l r) r) = nflat (getn st l) ++ nflat (getn st r).
  Proof.
    rewrite (ml_get_r st l r Hlr Hmr). rewrite !nflat_unmarked; auto.
  Qed.

  Lemma ml_nflat_l : nflat (getn (merge_left st l r) l) = [].
  Proof.
    rewrite (ml_get_l st l r Hlr Hmr). apply nflat_absorbed. unfold absorb.
    apply (wf_unmarked_absorb n _ (Hwf l Hl) Hml).
  Qed.

  Lemma ml_between m : l < m -> m < r ->
    forall q, In q (nqs (getn st l)) -> ~ onG (lvP st) (qsP st) m q.
  Proof.
    intros H1 H2 q Hq.
    apply (claim_between false (lvP st) (qsP st) (lf st) (rt st) r l (qsP_dec st)); auto.
    - apply (AdjG_flip true). exact Hadj.
    - apply unmarked_live; auto.
    - apply unmarked_live; auto.
    - intros q0 Ha Hb. destruct (between_ok_spec _ _ _ Hbtw) as [_ H]. apply H.
      apply sinter_In; auto.
    - intros q0 j E. rewrite others_nil in Hoth. eapply Hoth; eauto.
  Qed.

  Lemma ml_flat : gteqn n (flat (merge_left st l r)) (flat st).
  Proof.
    unfold flat. rewrite ml_len.
    apply (flat_move_fwd (gindepn n) (sindep_sym (gsupp n))
             (fun i => nflat (getn st i)) (fun i => nflat (getn (merge_left st l r) i))
             (length st) l r Hlr Hr).
    - apply ml_nflat_other.
    - apply ml_nflat_r.
    - apply ml_nflat_l.
    - intros m H1 H2. apply indep_blocks_sym; [apply sindep_sym|].
      apply blocks_indep; auto; try lia. apply ml_between; auto.
  Qed.

  Lemma ml_nonord : filter nonord (flat (merge_left st l r)) = filter nonord (flat st).
  Proof.
    unfold flat. rewrite ml_len. rewrite !filter_flat_map. apply flat_map_ext_in'.
    intros i _. destruct (Nat.eq_dec i r) as [->|Hir]; [|destruct (Nat.eq_dec i l) as [->|Hil]].
    - rewrite ml_nflat_r, filter_app.
      rewrite (filter_nonord_ord (nflat (getn st l))); [reflexivity|].
      rewrite nflat_unmarked by auto. apply (wf_unmarked_ord n _ (Hwf l Hl) Hml).
    - rewrite ml_nflat_l. simpl. symmetry. apply filter_nonord_ord.
      rewrite nflat_unmarked by auto. apply (wf_unmarked_ord n _ (Hwf l Hl) Hml).
    - rewrite ml_nflat_other; auto.
  Qed.

  Lemma ml_inv : Inv n k c (merge_left st l r).
  Proof.
    constructor.
    - apply (ml_adj n); auto.
    - apply ml_wf.
    - eapply teq_trans; [apply ml_flat | apply (inv_flat _ _ _ _ HI)].
    - rewrite ml_nonord. apply (inv_nonord _ _ _ _ HI).
    - intros i Hm Hg.
      destruct (Nat.eq_dec i r) as [->|Hir]; [|destruct (Nat.eq_dec i l) as [->|Hil]].
      + rewrite (ml_get_r st l r Hlr Hmr). exact Hk.
      + rewrite (ml_get_l st l r Hlr Hmr) in Hm. discriminate.
      + destruct (lt_dec i (length st)).
        * rewrite (ml_get_o st l r Hlr Hmr) in * by auto. apply (inv_width _ _ _ _ HI i); auto.
        * rewrite (ml_get_out st l r) in * by lia. apply (inv_width _ _ _ _ HI i); auto.
  Qed.
End MergeLeftInv.

(* ================================================================ fuse_pair, the loops *)
Lemma ssorted_ext a b : ssorted a -> ssorted b -> (forall x, In x a <-> In x b) -> a = b.
Proof.
  intros Ha. revert b. induction Ha as [|x a Hs IH Hf]; intros b Hb H.
  - destruct b as [|y b]; auto. exfalso. apply (H y). left; auto.
  - destruct Hb as [|y b Hsb Hfb].
    + exfalso. apply (H x). left; auto.
    + rewrite Forall_forall in Hf, Hfb.
      assert (x = y) as ->.
      { destruct (proj1 (H x) (or_introl eq_refl)) as [E|E]; auto.
        destruct (proj2 (H y) (or_introl eq_refl)) as [E2|E2]; auto.
        apply Hfb in E. apply Hf in E2. lia. }
      f_equal. apply IH; auto. intros z. split; intros Hz.
      * destruct (proj1 (H z) (or_intror Hz)) as [E|E]; auto. subst. apply Hf in Hz. lia.
      * destruct (proj2 (H z) (or_intror Hz)) as [E|E]; auto. subst. apply Hfb in Hz. lia.
Qed.

Lemma sunion_comm_sorted a b : ssorted a -> ssorted b -> sunion a b = sunion b a.
Proof.
  intros Ha Hb. apply ssorted_ext; try (apply sunion_sorted; auto).
  intros x. rewrite !sunion_In. tauto.
Qed.

Lemma fuse_pair_inv n k c st l r :
  Inv n k c st -> l < r ->
  nmarked (getn st l) = false -> nmarked (getn st r) = false ->
  length (sunion (nqs (getn st l)) (nqs (getn st r))) <= k ->
  Inv n k c (fuse_pair st l r).
Proof.
  intros HI Hlr Hml Hmr Hk. unfold fuse_pair.
  destruct ((0 <? length (others (nright (getn st l)) r)) && (0 <? length (others (nleft (getn st r)) l))) eqn:E0; auto.
  destruct (length (others (nleft (getn st r)) l) <? length (others (nright (getn st l)) r)) eqn:E1.
  - destruct (between_ok _ _ r) eqn:E2; auto.
    apply mr_inv; auto.
    apply Nat.ltb_lt in E1. apply andb_false_iff in E0.
    destruct (others (nleft (getn st r)) l) as [|x xs]; auto. exfalso.
    destruct E0 as [E0|E0]; apply Nat.ltb_ge in E0; simpl in *; lia.
  - destruct (between_ok _ _ l) eqn:E2; auto.
    apply ml_inv; auto.
    + apply Nat.ltb_ge in E1. apply andb_false_iff in E0.
      destruct (others (nright (getn st l)) r) as [|x xs]; auto. exfalso.
      destruct E0 as [E0|E0]; apply Nat.ltb_ge in E0; simpl in *; lia.
    + pose proof (unmarked_range _ _ Hmr) as Hr.
      rewrite sunion_comm_sorted; auto.
      * apply (inv_wf _ _ _ _ HI r Hr).
      * apply (inv_wf _ _ _ _ HI l). lia.
Qed.

Lemma can_fuse_spec st a b k : can_fuse st a b k = true ->
  nmarked (getn st a) = false /\ nmarked (getn st b) = false
  /\ length (sunion (nqs (getn st a)) (nqs (getn st b))) <= k.
Proof.
  unfold can_fuse. intros H. apply andb_true_iff in H. destruct H as [H H3].
  apply andb_true_iff in H. destruct H as [H1 H2].
  apply negb_true_iff in H1, H2. apply Nat.leb_le in H3. auto.
Qed.

Lemma visit_q_inv n k c i st q : Inv n k c st -> Inv n k c (visit_q k i st q).
Proof.
  intros HI. unfold visit_q.
  set (st1 := match lookup (nright (getn st i)) q with
              | Some nb => if can_fuse st i nb k then fuse_pair st i nb else st
              | None => st end).
  assert (Inv n k c st1) as HI1.
  { subst st1. destruct (lookup (nright (getn st i)) q) as [nb|] eqn:E; auto.
    destruct (can_fuse st i nb k) eqn:Ec; auto.
    destruct (can_fuse_spec _ _ _ _ Ec) as [Hmi [Hmn Hk]].
    apply fuse_pair_inv; auto.
    destruct (proj1 (proj1 (inv_adj _ _ _ _ HI)) i q nb (unmarked_live _ Hmi) E)
      as [_ [[_ [Hlt _]]|[Hd _]]].
    - exact Hlt.
    - exfalso. apply Hd. apply unmarked_live; auto. }
  clearbody st1.
  destruct (lookup (nleft (getn st1 i)) q) as [nb|] eqn:E; auto.
  destruct (can_fuse st1 i nb k) eqn:Ec; auto.
  destruct (can_fuse_spec _ _ _ _ Ec) as [Hmi [Hmn Hk]].
  apply fuse_pair_inv; auto.
  - destruct (proj1 (proj2 (inv_adj _ _ _ _ HI1)) i q nb (unmarked_live _ Hmi) E)
      as [_ [[_ [Hlt _]]|[Hd _]]].
    + exact Hlt.
    + exfalso. apply Hd. apply unmarked_live; auto.
  - pose proof (unmarked_range _ _ Hmi) as Hi. pose proof (unmarked_range _ _ Hmn) as Hn.
    rewrite sunion_comm_sorted; auto.
    + apply (inv_wf _ _ _ _ HI1 nb Hn).
    + apply (inv_wf _ _ _ _ HI1 i Hi).
Qed.

Lemma fold_left_inv {X Y} (P : X -> Prop) (f : X -> Y -> X) l x :
  (forall x y, P x -> P (f x y)) -> P x -> P (fold_left f l x).
Proof. intros H. revert x. induction l; simpl; auto. Qed.

Lemma visit_inv n k c st i : Inv n k c st -> Inv n k c (visit k st i).
Proof.
  intros HI. unfold visit. destruct (nmarked (getn st i)); auto.
  apply fold_left_inv; auto. intros; apply visit_q_inv; auto.
Qed.

Lemma fuse_loop_inv n k c st : Inv n k c st -> Inv n k c (fuse_loop k st).
Proof.
  intros HI. unfold fuse_loop. apply fold_left_inv; auto. intros; apply visit_inv; auto.
Qed.

(* ================================================================ to_fused establishes the invariant *)
Definition fresh (nd : node) : Prop := exists g, ngates nd = [g] /\ nmarked nd = negb (is_ord g).

Lemma fresh_live nd : fresh nd -> live nd = true.
Proof.
  intros [g [E1 E2]]. unfold live, absorbed. rewrite E1, E2. destruct (is_ord g); reflexivity.
Qed.

Lemma fresh_nflat nd : fresh nd -> nflat nd = ngates nd.
Proof.
  intros [g [E1 E2]]. unfold nflat, node_items. rewrite E1, E2.
  destruct (is_ord g) eqn:E; simpl; auto.
Qed.

Lemma ssorted_seq a n : ssorted (seq a n).
Proof.
  revert a. induction n as [|n IH]; intros a; simpl; constructor.
  - apply IH.
  - apply Forall_forall. intros x Hx. apply in_seq in Hx. lia.
Qed.

Definition on (st : state) := onG (lvP st) (qsP st).

(* what the dictionary last_gate says *)
Definition last_ok (st : state) (last : nmap) : Prop :=
  forall q, match lookup last q with
            | Some j => j < length st /\ qsP st j q /\ (forall m, j < m -> ~ on st m q)
            | None => forall m, ~ on st m q
            end.

Record Pre (n : nat) (c0 : list gate) (st : state) (last : nmap) : Prop := mkPre {
  pre_adj : Adj st;
  pre_wf : WF n st;
  pre_fresh : forall j, j < length st -> fresh (getn st j);
  pre_range : forall j q j2, rt st j q = Some j2 \/ lf st j q = Some j2 -> j2 < length st;
  pre_last : last_ok st last;
  pre_flat : flat st = c0 }.

Section AddNode.
  Variables (n : nat) (c0 : list gate) (st : state) (last : nmap) (g : gate).
  Hypothesis HP : Pre n c0 st last.
  Let i := length st.
  Let qs := node_qs n g.
  Let nd := mkNode qs [g] (negb (is_ord g)) (mupd [] qs (fun q => put_or (lookup last q) Keep)) [].
  Let upd (j : nat) (x : node) :=
    mkNode (nqs x) (ngates x) (nmarked x) (nleft x)
      (mupd (nright x) qs (fun q => if opt_is (lookup last q) j then Put i else Keep)).
  Let st2 := fst (add_node n (st, last) g).
  Let last2 := snd (add_node n (st, last) g).

  Let Hadj := pre_adj _ _ _ _ HP.
  Let Hfresh := pre_fresh _ _ _ _ HP.
  Let Hrange := pre_range _ _ _ _ HP.
  Let Hlast := pre_last _ _ _ _ HP.

  Lemma an_st2 : st2 = mapi upd st ++ [nd].
  Proof. reflexivity. Qed.
  Lemma an_last2 : last2 = mupd last qs (fun _ => Put i).
  Proof. reflexivity. Qed.
  Lemma an_len : length st2 = S i.
  Proof. rewrite an_st2, app_length, mapi_length. simpl. lia. Qed.
  Lemma an_get_old j : j < i -> getn st2 j = upd j (getn st j).
  Proof.
    intros H. rewrite an_st2. unfold getn. rewrite app_nth1 by (rewrite mapi_length; auto).
    apply mapi_nth; auto.
  Qed.
  Lemma an_get_new : getn st2 i = nd.
  Proof.
    rewrite an_st2. unfold getn. rewrite app_nth2 by (rewrite mapi_length; auto).
    rewrite mapi_length. replace (i - length st) with 0 by (unfold i; lia). reflexivity.
  Qed.
  Lemma an_get_out j : i < j -> getn st2 j = dnode.
  Proof. intros H. apply getn_out. rewrite an_len. lia. Qed.

  Lemma lv_old j : lvP st j <-> j < i.
  Proof.
    split; [apply lvP_range|]. intros H. apply fresh_live. apply Hfresh; auto.
  Qed.
  Lemma an_lv j : lvP st2 j <-> j <= i.
  Proof.
    unfold lvP. destruct (lt_eq_lt_dec j i) as [[H| -> ]|H].
    - rewrite an_get_old by auto. change (live (upd j (getn st j))) with (live (getn st j)).
      rewrite (fresh_live _ (Hfresh j H)). split; [lia|auto].
    - rewrite an_get_new. split; [lia|intros _].
      unfold nd, live, absorbed; simpl. destruct (is_ord g); reflexivity.
    - rewrite an_get_out by auto. simpl. split; [discriminate|lia].
  Qed.
  Lemma an_qs j q : qsP st2 j q <-> (j < i /\ qsP st j q) \/ (j = i /\ In q qs).
  Proof.
    unfold qsP. destruct (lt_eq_lt_dec j i) as [[H| -> ]|H].
    - rewrite an_get_old by auto. simpl. split; [auto|intros [[_ ?]|[? _]]; [auto|lia]].
    - rewrite an_get_new. simpl. split; [auto|intros [[? _]|[_ ?]]; [lia|auto]].
    - rewrite an_get_out by auto. simpl. split; [tauto|intros [[? _]|[? _]]; lia].
  Qed.
  Lemma an_on m q : on st2 m q <-> on st m q \/ (m = i /\ In q qs).
  Proof.
    unfold on, onG. rewrite an_lv, an_qs, lv_old. split.
    - intros [H1 [[H2 H3]|[H2 H3]]]; auto.
    - intros [[H1 H2]|[H1 H2]]; [split; [lia|left; auto] | split; [lia|right; auto]].
  Qed.
  Lemma on_old_lt m q : on st m q -> m < i.
  Proof. intros [H _]. apply lv_old; auto. Qed.

  Lemma an_rt_old j q : j < i ->
    rt st2 j q = if memb q qs && opt_is (lookup last q) j then Some i else rt st j q.
  Proof.
    intros H. unfold rt. rewrite an_get_old by auto. unfold upd; cbn [nright].
    rewrite lookup_mupd. destruct (memb q qs); simpl; auto.
    destruct (opt_is (lookup last q) j); reflexivity.
  Qed.
  Lemma an_rt_new q : rt st2 i q = None.
  Proof. unfold rt. rewrite an_get_new. reflexivity. Qed.
  Lemma an_lf_old j q : j < i -> lf st2 j q = lf st j q.
  Proof. intros H. unfold lf. rewrite an_get_old by auto. reflexivity. Qed.
  Lemma an_lf_new q : lf st2 i q = if memb q qs then lookup last q else None.
  Proof.
    unfold lf. rewrite an_get_new. unfold nd; cbn [nleft]. rewrite lookup_mupd.
    destruct (memb q qs); auto. simpl. destruct (lookup last q); reflexivity.
  Qed.

  (* the last-gate dictionary pins down the last node on a qubit *)
  Lemma last_unique j q : j < i -> qsP st j q -> (forall m, j < m -> ~ on st m q) ->
    lookup last q = Some j.
  Proof.
    intros Hj Hq Hn. pose proof (Hlast q) as HL.
    assert (on st j q) as Hon by (split; [apply lv_old; auto|auto]).
    destruct (lookup last q) as [j'|].
    - destruct HL as [Hj' [Hq' Hn']]. f_equal.
      destruct (lt_eq_lt_dec j j') as [[H|H]|H]; auto.
      + exfalso. apply (Hn j' H). split; auto. apply lv_old; auto.
      + exfalso. apply (Hn' j H). auto.
    - exfalso. apply (HL j). auto.
  Qed.

  Lemma an_adj : Adj st2.
  Proof.
    destruct Hadj as [[HrS HrN] [HlS HlN]]. simpl in HlS, HlN.
    split; split; simpl.
    - (* right, Some *)
      intros j q j2 Hj E. apply an_lv in Hj.
      destruct (Nat.eq_dec j i) as [->|Hji]; [rewrite an_rt_new in E; discriminate|].
      assert (j < i) as Hlt by lia. rewrite an_rt_old in E by auto.
      destruct (memb q qs && opt_is (lookup last q) j) eqn:Eb.
      + inversion E; subst j2. apply andb_true_iff in Eb. destruct Eb as [Eq El].
        apply memb_In in Eq. apply opt_is_true in El.
        pose proof (Hlast q) as HL. rewrite El in HL. destruct HL as [_ [Hq Hn]].
        split; [apply an_qs; auto|]. left.
        split; [apply an_lv; lia|]. split; auto. split; [apply an_qs; auto|].
        intros m H1 H2 Hon. apply an_on in Hon. destruct Hon as [Hon|[-> _]]; [|lia].
        apply (Hn m); auto.
      + destruct (HrS j q j2 (proj2 (lv_old j) Hlt) E) as [Hq [[Hl2 [Hlt2 [Hq2 Hb]]]|[Hd _]]].
        * split; [apply an_qs; auto|]. left. apply lv_old in Hl2.
          split; [apply an_lv; lia|]. split; auto. split; [apply an_qs; auto|].
          intros m H1 H2 Hon. apply an_on in Hon. destruct Hon as [Hon|[-> _]]; [|lia].
          apply (Hb m); auto.
        * exfalso. apply Hd. apply lv_old. apply (Hrange j q j2). auto.
    - (* right, None *)
      intros j q Hj Hq E m Hm Hon. apply an_lv in Hj. apply an_on in Hon.
      destruct (Nat.eq_dec j i) as [->|Hji].
      + destruct Hon as [Hon|[-> _]]; [apply on_old_lt in Hon|]; lia.
      + assert (j < i) as Hlt by lia. rewrite an_rt_old in E by auto.
        destruct (memb q qs && opt_is (lookup last q) j) eqn:Eb; [discriminate|].
        apply an_qs in Hq. destruct Hq as [[_ Hq]|[? _]]; [|lia].
        pose proof (HrN j q (proj2 (lv_old j) Hlt) Hq E) as Hn.
        destruct Hon as [Hon|[-> Hin]]; [apply (Hn m); auto|].
        rewrite (last_unique j q Hlt Hq Hn) in Eb.
        rewrite (In_memb _ _ Hin) in Eb. simpl in Eb. rewrite Nat.eqb_refl in Eb. discriminate.
    - (* left, Some *)
      intros j q j2 Hj E. apply an_lv in Hj.
      destruct (Nat.eq_dec j i) as [->|Hji].
      + rewrite an_lf_new in E. destruct (memb q qs) eqn:Eq; [|discriminate].
        apply memb_In in Eq. pose proof (Hlast q) as HL. rewrite E in HL.
        destruct HL as [Hj2 [Hq2 Hn]].
        split; [apply an_qs; auto|]. left.
        split; [apply an_lv; lia|]. split; auto. split; [apply an_qs; auto|].
        intros m H1 H2 Hon. apply an_on in Hon. destruct Hon as [Hon|[-> _]]; [|lia].
        apply (Hn m); auto.
      + assert (j < i) as Hlt by lia. rewrite an_lf_old in E by auto.
        destruct (HlS j q j2 (proj2 (lv_old j) Hlt) E) as [Hq [[Hl2 [Hlt2 [Hq2 Hb]]]|[Hd _]]].
        * split; [apply an_qs; auto|]. left. apply lv_old in Hl2.
          split; [apply an_lv; lia|]. split; auto. split; [apply an_qs; auto|].
          intros m H1 H2 Hon. apply an_on in Hon. destruct Hon as [Hon|[-> _]]; [|lia].
          apply (Hb m); auto.
        * exfalso. apply Hd. apply lv_old. apply (Hrange j q j2). auto.
    - (* left, None *)
      intros j q Hj Hq E m Hm Hon. apply an_lv in Hj. apply an_on in Hon.
      destruct (Nat.eq_dec j i) as [->|Hji].
      + rewrite an_lf_new in E. apply an_qs in Hq. destruct Hq as [[? _]|[_ Hq]]; [lia|].
        rewrite (In_memb _ _ Hq) in E. pose proof (Hlast q) as HL. rewrite E in HL.
        destruct Hon as [Hon|[-> _]]; [apply (HL m); auto|lia].
      + assert (j < i) as Hlt by lia. rewrite an_lf_old in E by auto.
        apply an_qs in Hq. destruct Hq as [[_ Hq]|[? _]]; [|lia].
        destruct Hon as [Hon|[-> _]]; [|lia].
        apply (HlN j q (proj2 (lv_old j) Hlt) Hq E m); auto.
  Qed.

  Lemma an_wf : WF n st2.
  Proof.
    intros j Hj. rewrite an_len in Hj. destruct (Nat.eq_dec j i) as [->|Hji].
    - rewrite an_get_new. unfold nd, wf_node; cbn [nqs ngates nmarked]. split.
      + unfold qs, node_qs. destruct (gk g); try apply sort_set_sorted. apply ssorted_seq.
      + destruct (is_ord g) eqn:Eo; simpl.
        * split; [discriminate|]. intros g0 [<-|[]]. split; auto.
          unfold qs, node_qs. unfold is_ord in Eo. destruct (gk g); try discriminate.
          intros x Hx. apply sort_set_In; auto.
        * left. exists g. split; auto. split; auto.
          unfold qs, node_qs, gsupp. unfold is_ord in Eo. destruct (gk g); try discriminate.
          -- intros x Hx. apply sort_set_In; auto.
          -- apply incl_refl.
    - rewrite an_get_old by lia.
      eapply wf_node_ext; [| | |apply (pre_wf _ _ _ _ HP j); unfold i in *; lia]; reflexivity.
  Qed.

  Lemma an_fresh j : j < length st2 -> fresh (getn st2 j).
  Proof.
    intros Hj. rewrite an_len in Hj. destruct (Nat.eq_dec j i) as [->|Hji].
    - rewrite an_get_new. exists g. auto.
    - rewrite an_get_old by lia. destruct (Hfresh j) as [g0 [E1 E2]]; [unfold i in *; lia|].
      exists g0. auto.
  Qed.

  Lemma an_range j q j2 : rt st2 j q = Some j2 \/ lf st2 j q = Some j2 -> j2 < length st2.
  Proof.
    rewrite an_len. destruct (lt_eq_lt_dec j i) as [[H| -> ]|H].
    - rewrite an_rt_old, an_lf_old by auto.
      destruct (memb q qs && opt_is (lookup last q) j).
      + intros [E|E]; [inversion E; lia|]. pose proof (Hrange j q j2 (or_intror E)). unfold i; lia.
      + intros E. pose proof (Hrange j q j2 E). unfold i; lia.
    - rewrite an_rt_new, an_lf_new. intros [E|E]; [discriminate|].
      destruct (memb q qs); [|discriminate]. pose proof (Hlast q) as HL. rewrite E in HL.
      destruct HL. unfold i; lia.
    - unfold rt, lf. rewrite an_get_out by auto. simpl. intros [E|E]; discriminate.
  Qed.

  Lemma an_last_ok : last_ok st2 last2.
  Proof.
    intros q. rewrite an_last2, lookup_mupd. destruct (memb q qs) eqn:Eq; simpl.
    - apply memb_In in Eq. rewrite an_len. split; [lia|]. split; [apply an_qs; auto|].
      intros m Hm Hon. apply an_on in Hon. destruct Hon as [Hon|[-> _]]; [|lia].
      apply on_old_lt in Hon. lia.
    - apply memb_false in Eq. pose proof (Hlast q) as HL. destruct (lookup last q) as [j|].
      + destruct HL as [Hj [Hq Hn]]. rewrite an_len. split; [unfold i; lia|].
        split; [apply an_qs; auto|].
        intros m Hm Hon. apply an_on in Hon. destruct Hon as [Hon|[_ Hin]]; [|auto].
        apply (Hn m); auto.
      + intros m Hon. apply an_on in Hon. destruct Hon as [Hon|[_ Hin]]; [|auto].
        apply (HL m); auto.
  Qed.

  Lemma an_flat : flat st2 = c0 ++ [g].
  Proof.
    unfold flat. rewrite an_len. change (S i) with (1 + i). rewrite Nat.add_comm.
    rewrite seq_app, flat_map_app. simpl. rewrite an_get_new, app_nil_r. f_equal.
    - rewrite <- (pre_flat _ _ _ _ HP). unfold flat. apply flat_map_ext_in'.
      intros j Hj. apply in_seq in Hj. rewrite an_get_old by (unfold i; lia). reflexivity.
    - rewrite fresh_nflat; [reflexivity|]. exists g. auto.
  Qed.

  Lemma an_pre : Pre n (c0 ++ [g]) st2 last2.
  Proof.
    constructor.
    - apply an_adj.
    - apply an_wf.
    - apply an_fresh.
    - apply an_range.
    - apply an_last_ok.
    - apply an_flat.
  Qed.
End AddNode.

Lemma pre_init n : Pre n [] [] [].
Proof.
  assert (forall i, ~ lvP [] i) as Hd.
  { intros i H. unfold lvP in H. rewrite getn_out in H by (simpl; lia). discriminate. }
  constructor.
  - split; split; intros i q; try intros j; intros H; exfalso; eapply Hd; eauto.
  - intros i Hi. simpl in Hi. lia.
  - intros j Hj. simpl in Hj. lia.
  - intros j q j2. unfold rt, lf. rewrite getn_out by (simpl; lia). simpl.
    intros [E|E]; discriminate.
  - intros q. simpl. intros m [H _]. eapply Hd; eauto.
  - reflexivity.
Qed.

Lemma to_fused_fold n c : forall c0 st last, Pre n c0 st last ->
  Pre n (c0 ++ c) (fst (fold_left (add_node n) c (st, last)))
                  (snd (fold_left (add_node n) c (st, last))).
Proof.
  induction c as [|g c IH]; intros c0 st last HP; cbn [fold_left].
  - rewrite app_nil_r. exact HP.
  - pose proof (an_pre n c0 st last g HP) as H.
    rewrite (surjective_pairing (add_node n (st, last) g)).
    replace (c0 ++ g :: c) with ((c0 ++ [g]) ++ c) by (rewrite <- app_assoc; reflexivity).
    apply IH. exact H.
Qed.

Theorem to_fused_inv n k c : Inv n k c (to_fused n c).
Proof.
  assert (Pre n c (to_fused n c) (snd (fold_left (add_node n) c ([], [])))) as HP
    by exact (to_fused_fold n c [] [] [] (pre_init n)).
  destruct HP as [Ha Hw Hf Hr Hl Hfl].
  constructor; auto.
  - rewrite Hfl. apply teq_refl.
  - rewrite Hfl. reflexivity.
  - intros i Hm Hg. exfalso. pose proof (unmarked_range _ _ Hm) as Hi.
    destruct (Hf i Hi) as [g [E _]]. rewrite E in Hg. simpl in Hg. lia.
Qed.

Theorem fuse_final_inv n k c : Inv n k c (fuse_loop k (to_fused n c)).
Proof. apply fuse_loop_inv. apply to_fused_inv. Qed.

(* ================================================================ the main results *)
Theorem fuse_equiv_proof n c k : gteqn n (flatten (fuse_model n c k)) c.
Proof.
  unfold fuse_model. rewrite flat_from_fused. apply (inv_flat _ _ _ _ (fuse_final_inv n k c)).
Qed.

Theorem fuse_nonord_proof n c k :
  filter nonord (flatten (fuse_model n c k)) = filter nonord c.
Proof.
  unfold fuse_model. rewrite flat_from_fused. apply (inv_nonord _ _ _ _ (fuse_final_inv n k c)).
Qed.

Lemma In_getn (st : state) nd : In nd st -> exists i, i < length st /\ getn st i = nd.
Proof. intros H. destruct (In_nth _ _ dnode H) as [i [Hi E]]. exists i. auto. Qed.

Theorem fuse_groups_proof n c k qs gs :
  In (IGroup qs gs) (fuse_model n c k) ->
  (forall g, In g gs -> is_ord g = true /\ incl (gqs g) qs)
  /\ length qs <= k /\ NoDup qs /\ 2 <= length gs.
Proof.
  unfold fuse_model, from_fused. intros H. apply in_flat_map in H.
  destruct H as [nd [Hnd Hit]]. destruct (In_getn _ _ Hnd) as [i [Hi E]].
  pose proof (fuse_final_inv n k c) as HI. set (st := fuse_loop k (to_fused n c)) in *.
  pose proof (inv_wf _ _ _ _ HI i Hi) as Hw. rewrite E in Hw.
  unfold node_items in Hit. destruct (nmarked nd) eqn:Hm; simpl in Hit.
  - destruct (ngates nd) as [|g0 gs0]; [inversion Hit|].
    destruct (is_ord g0); [inversion Hit|]. destruct Hit as [Hit|[]]. discriminate.
  - destruct Hw as [Hs Hw]. rewrite Hm in Hw. destruct Hw as [Hne Hall].
    assert (2 <= length (ngates nd) /\ qs = nqs nd /\ gs = ngates nd) as [Hlen [-> ->]].
    { destruct (ngates nd) as [|g0 [|g1 gs1]].
      - congruence.
      - destruct Hit as [Hit|[]]. discriminate.
      - destruct Hit as [Hit|[]]. inversion Hit. simpl. repeat split; auto. lia. }
    repeat split; auto.
    + apply Hall; auto.
    + apply Hall; auto.
    + pose proof (inv_width _ _ _ _ HI i) as Hwd. rewrite E in Hwd. apply Hwd; auto.
    + apply ssorted_NoDup; auto.
Qed.

(* a measurement / special gate of the input appears as itself (not inside a group) *)
Theorem fuse_single_proof n c k g :
  In g c -> is_ord g = false -> In (ISingle g) (fuse_model n c k).
Proof.
  intros Hg Ho.
  assert (In g (flatten (fuse_model n c k))) as Hin.
  { apply (teq_in _ _ _ g
             (teq_sym _ (sindep_sym (gsupp n)) _ _ (fuse_equiv_proof n c k))). exact Hg. }
  unfold flatten in Hin. apply in_flat_map in Hin. destruct Hin as [it [Hit Hgi]].
  destruct it as [g0|qs gs]; simpl in Hgi.
  - destruct Hgi as [->|[]]. exact Hit.
  - destruct (fuse_groups_proof n c k qs gs Hit) as [Hall _].
    destruct (Hall g Hgi) as [Ho' _]. congruence.
Qed.

(* ================================================================ the guard `between_gates == {child}` is redundant *)
Section Between.
  Variable dir : bool.
  Variables (lv : nat -> Prop) (qs : nat -> nat -> Prop) (nx pv : nat -> nat -> option nat).
  Variables (p c : nat).
  Hypothesis H0 : AdjG dir lv qs nx pv.
  Hypothesis Hp : lv p.
  Hypothesis Hc : lv c.
  Hypothesis Hpc : bef dir p c.
  Hypothesis Hothers : forall q j, pv c q = Some j -> j = p.

  Ltac ordb := destruct dir; unfold bef in *; simpl in *; lia.

  Lemma between_forced q : qs p q -> qs c q -> nx p q = Some c.
  Proof.
    intros Hqp Hqc. destruct H0 as [Hnx Hpv].
    assert (forall m, bef dir p m -> bef dir m c -> ~ onG lv qs m q) as Hb2.
    { destruct (pv c q) as [j|] eqn:E.
      - pose proof (Hothers q j E). subst j.
        destruct (proj1 Hpv c q p Hc E) as [_ [[_ [_ [_ Hb]]]|[Hd _]]]; [|contradiction].
        intros m H1 H2. apply Hb; ordb.
      - exfalso. apply (proj2 Hpv c q Hc Hqc E p); [ordb | split; auto]. }
    destruct (nx p q) as [j|] eqn:E.
    - destruct (proj1 Hnx p q j Hp E) as [_ [[Hlj [Hpj [Hqj Hb]]]|[Hd Hb]]].
      + destruct (Nat.eq_dec j c) as [->|Hne]; auto. exfalso.
        assert (bef dir j c \/ bef dir c j) as [H|H] by ordb.
        * apply (Hb2 j); auto. split; auto.
        * apply (Hb c); auto. split; auto.
      + exfalso. apply (Hb c); auto. split; auto.
    - exfalso. apply (proj2 Hnx p q Hp Hqp E c); auto. split; auto.
  Qed.
End Between.

Lemma between_ok_intro m shared c :
  shared <> [] -> (forall q, In q shared -> lookup m q = Some c) -> between_ok m shared c = true.
Proof.
  intros Hne H. unfold between_ok. destruct shared as [|q0 sh]; [congruence|].
  apply forallb_forall. intros q Hq. apply opt_is_true. apply H; auto.
Qed.

(* FusedGate.fuse is only called by Circuit.fuse on a gate and its neighbour on some qubit q
   (after can_fuse); then, in whichever branch the abort test selects, the `between_gates`
   test of that branch is true: the guard never rejects anything. *)
Theorem between_guard_redundant_proof n k c0 st l r q :
  Inv n k c0 st ->
  nmarked (getn st l) = false -> nmarked (getn st r) = false ->
  rt st l q = Some r \/ lf st r q = Some l ->
  let shared := sinter (nqs (getn st l)) (nqs (getn st r)) in
  l < r
  /\ (others (nleft (getn st r)) l = [] -> between_ok (nright (getn st l)) shared r = true)
  /\ (others (nright (getn st l)) r = [] -> between_ok (nleft (getn st r)) shared l = true).
Proof.
  intros HI Hml Hmr Hnb shared. pose proof (inv_adj _ _ _ _ HI) as Hadj.
  pose proof (unmarked_live _ Hml) as Hl. pose proof (unmarked_live _ Hmr) as Hr.
  assert (l < r /\ In q shared) as [Hlr Hq].
  { destruct Hnb as [E|E].
    - destruct (proj1 (proj1 Hadj) l q r Hl E) as [Hq1 [[_ [Hlt [Hq2 _]]]|[Hd _]]]; [|contradiction].
      split; [exact Hlt|]. apply sinter_In; auto.
    - destruct (proj1 (proj2 Hadj) r q l Hr E) as [Hq1 [[_ [Hlt [Hq2 _]]]|[Hd _]]]; [|contradiction].
      split; [exact Hlt|]. apply sinter_In; auto. }
  split; auto. split; intros Hoth; rewrite others_nil in Hoth.
  - apply between_ok_intro; [intros E; rewrite E in Hq; inversion Hq|].
    intros q' Hq'. apply sinter_In in Hq'. destruct Hq' as [H1 H2].
    apply (between_forced true (lvP st) (qsP st) (rt st) (lf st) l r Hadj Hl Hr Hlr); auto;
      try (intros q0 j E; eapply Hoth; eauto).
  - apply between_ok_intro; [intros E; rewrite E in Hq; inversion Hq|].
    intros q' Hq'. apply sinter_In in Hq'. destruct Hq' as [H1 H2].
    apply (between_forced false (lvP st) (qsP st) (lf st) (rt st) r l); auto;
      try (intros q0 j E; eapply Hoth; eauto).
    apply (AdjG_flip true). exact Hadj.
Qed.

(* ================================================================ qubit sets stay sorted and in range *)
(* every qubit of every node is below [b] (no precondition: holds along the whole algorithm) *)
Definition QR (b : nat) (st : state) : Prop := forall i q, In q (nqs (getn st i)) -> q < b.

Lemma getn_mapi_any f st i :
  getn (mapi f st) i = if i <? length st then f i (getn st i) else dnode.
Proof.
  destruct (Nat.ltb_spec i (length st)).
  - apply getn_mapi; auto.
  - apply getn_out. rewrite mapi_length. auto.
Qed.

Lemma QR_merge_right b st l r : QR b st -> QR b (merge_right st l r).
Proof.
  intros H i q. unfold merge_right. rewrite getn_mapi_any.
  destruct (i <? length st); [|simpl; tauto].
  destruct (i =? l); [|destruct (i =? r)]; simpl.
  - intros Hq. apply sunion_In in Hq. destruct Hq; eapply H; eauto.
  - apply H.
  - apply H.
Qed.

Lemma QR_merge_left b st l r : QR b st -> QR b (merge_left st l r).
Proof.
  intros H i q. unfold merge_left. rewrite getn_mapi_any.
  destruct (i <? length st); [|simpl; tauto].
  destruct (i =? r); [|destruct (i =? l)]; simpl.
  - intros Hq. apply sunion_In in Hq. destruct Hq; eapply H; eauto.
  - apply H.
  - apply H.
Qed.

Lemma QR_fuse_pair b st l r : QR b st -> QR b (fuse_pair st l r).
Proof.
  intros H. unfold fuse_pair.
  destruct (_ && _); auto. destruct (_ <? _).
  - destruct (between_ok _ _ _); auto. apply QR_merge_right; auto.
  - destruct (between_ok _ _ _); auto. apply QR_merge_left; auto.
Qed.

Lemma QR_fuse_loop b k st : QR b st -> QR b (fuse_loop k st).
Proof.
  intros H. unfold fuse_loop. apply fold_left_inv; auto. clear st H. intros st i H.
  unfold visit. destruct (nmarked _); auto. apply fold_left_inv; auto. clear H.
  intros st' q H. unfold visit_q.
  assert (QR b (match lookup (nright (getn st' i)) q with
                | Some nb => if can_fuse st' i nb k then fuse_pair st' i nb else st'
                | None => st' end)) as H1.
  { destruct (lookup _ q); auto. destruct (can_fuse _ _ _ _); auto. apply QR_fuse_pair; auto. }
  destruct (lookup (nleft _) q); auto. destruct (can_fuse _ _ _ _); auto. apply QR_fuse_pair; auto.
Qed.

Lemma QR_to_fused n b c : n <= b -> (forall g q, In g c -> In q (gqs g) -> q < b) -> QR b (to_fused n c).
Proof.
  intros Hnb Hc. unfold to_fused.
  assert (forall st last, QR b st -> QR b (fst (fold_left (add_node n) c (st, last)))) as H.
  { revert Hc. induction c as [|g c IH]; intros Hc st last Hst; cbn [fold_left]; auto.
    rewrite (surjective_pairing (add_node n (st, last) g)). apply IH.
    - intros; eapply Hc; eauto. right; auto.
    - unfold add_node. cbn [fst]. intros i q. unfold getn.
      destruct (lt_dec i (length st)) as [Hi|Hi].
      + rewrite app_nth1 by (rewrite mapi_length; auto).
        rewrite (mapi_nth _ st i dnode dnode Hi). cbn [nqs]. apply Hst.
      + rewrite app_nth2 by (rewrite mapi_length; lia). rewrite mapi_length.
        destruct (i - length st) as [|j]; simpl.
        * unfold node_qs. destruct (gk g); intros Hq.
          -- apply (proj1 (sort_set_In _ _)) in Hq. apply (Hc g q); [left; auto|auto].
          -- apply (proj1 (sort_set_In _ _)) in Hq. apply (Hc g q); [left; auto|auto].
          -- apply in_seq in Hq. lia.
        * destruct j; simpl; tauto. }
  apply H. intros i q. unfold getn. destruct i; simpl; tauto.
Qed.

Theorem fuse_groups_sorted_range n c k qs gs :
  (forall g q, In g c -> In q (gqs g) -> q < n) ->
  In (IGroup qs gs) (fuse_model n c k) -> ssorted qs /\ (forall q, In q qs -> q < n).
Proof.
  intros Hc H. unfold fuse_model, from_fused in H. apply in_flat_map in H.
  destruct H as [nd [Hnd Hit]]. destruct (In_getn _ _ Hnd) as [i [Hi E]].
  pose proof (fuse_final_inv n k c) as HI.
  pose proof (QR_fuse_loop n k _ (QR_to_fused n n c (le_n n) Hc)) as HQ.
  pose proof (inv_wf _ _ _ _ HI i Hi) as [Hs _]. rewrite E in Hs.
  assert (qs = nqs nd) as ->.
  { unfold node_items in Hit. destruct (nmarked nd); simpl in Hit.
    - destruct (ngates nd) as [|g0 gs0]; [inversion Hit|].
      destruct (is_ord g0); [inversion Hit|]. destruct Hit as [Hit|[]]. discriminate.
    - destruct (ngates nd) as [|g0 [|g1 gs1]]; destruct Hit as [Hit|[]]; try discriminate; congruence. }
  split; auto. intros q Hq. apply (HQ i q). rewrite E. exact Hq.
Qed.
