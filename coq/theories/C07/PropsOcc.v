(* C07/PropsOcc.v : occurrences of a gate in a circuit are POSITIONS of the queue, not gate objects
   (proofs in C07/Occ.v).  A circuit that contains one gate object at several positions is a list of
   letters in which several positions carry the same identity; every theorem of C07/Props.v is stated
   for all lists of letters (no NoDup hypothesis on identities) and so covers such circuits.  Here:
   the model never looks at identities, every occurrence is emitted exactly once, and the position
   letters used by harness/c07_occ.py determine the fused circuit of the real letters.              *)
From Coq Require Import List Bool Arith Lia Permutation.
From QV Require Import Base.Trace C07.Model C07.Proofs C07.ProofsFuse C07.Occ.
Import ListNotations.

(* relabelling the gates by any function that keeps qubits and kind (injective or not) commutes with
   fusion: same groups at the same positions, members relabelled *)
Theorem fuse_occurrences_are_positions :
  forall (h : gate -> gate), shape_preserving h ->
  forall (n : nat) (c : list gate) (max_qubits : nat),
    fuse_model n (map h c) max_qubits = map (item_map h) (fuse_model n c max_qubits).
Proof. exact fuse_model_commute. Qed.
Print Assumptions fuse_occurrences_are_positions.

(* the position letters of a circuit: identity := index in the queue *)
Definition positions (c : list gate) : list gate := mapi (fun i g => mkGate i (gqs g) (gk g)) c.

Lemma positions_relabel_from (d : gate) : forall c pre,
  map (regid (fun i => gid (nth i (pre ++ c) d)))
      (mapi_from (length pre) (fun i g => mkGate i (gqs g) (gk g)) c) = c.
Proof.
  induction c as [|g c IH]; intros pre; cbn [mapi_from map]; auto. f_equal.
  - unfold regid. cbn [gid gqs gk]. rewrite nth_middle. destruct g; reflexivity.
  - specialize (IH (pre ++ [g])). rewrite <- app_assoc in IH. cbn [app] in IH.
    rewrite app_length in IH. cbn [length] in IH. replace (length pre + 1) with (S (length pre)) in IH by lia.
    exact IH.
Qed.

(* the fused circuit of ANY circuit is the fused circuit of its position letters with the identities
   put back: which positions hold the same object is irrelevant for what is grouped with what *)
Theorem fuse_of_position_letters :
  forall (n : nat) (c : list gate) (max_qubits : nat) (d : gate),
    fuse_model n c max_qubits
    = map (item_map (regid (fun i => gid (nth i c d)))) (fuse_model n (positions c) max_qubits).
Proof.
  intros n c k d. rewrite <- (fuse_model_commute _ (regid_shape _)).
  f_equal. symmetry. exact (positions_relabel_from d c []).
Qed.
Print Assumptions fuse_of_position_letters.

(* every letter occurs in the fused circuit exactly as often as in the circuit (no occurrence of a
   repeated gate is dropped or doubled), whatever its kind *)
Theorem fuse_keeps_every_occurrence :
  forall (n : nat) (c : list gate) (max_qubits : nat) (g : gate),
    count_occ gate_eq_dec (flatten (fuse_model n c max_qubits)) g = count_occ gate_eq_dec c g.
Proof.
  intros n c k g. apply Permutation_count_occ. apply (teq_perm (gindepn n)). apply fuse_equiv_proof.
Qed.
Print Assumptions fuse_keeps_every_occurrence.

(* non-vacuity / the missed change: one pre-fused block (special letter 7) at three positions and one
   rotation (letter 5) at two positions: all occurrences are emitted *)
Example fuse_repeated_example :
  let blk := mkGate 7 [0;1] KSpec in
  let rx := mkGate 5 [0] KOrd in
  let c := [mkGate 0 [0] KOrd; blk; mkGate 1 [1;2] KOrd; rx; rx; blk; mkGate 2 [2;0] KOrd; blk; mkGate 3 [2] KOrd] in
  map item_sig (fuse_model 3 c 2)
  = [(false, [], [0]); (false, [], [7]); (false, [], [1]); (true, [0], [5;5]); (false, [], [7]);
     (false, [], [2]); (false, [], [7]); (false, [], [3])]
  /\ count_occ gate_eq_dec (flatten (fuse_model 3 c 2)) blk = 3.
Proof. vm_compute. split; reflexivity. Qed.

(* light cone: the sweep looks at qubits only *)
Theorem light_cone_occurrences_are_positions :
  forall (h : gate -> gate), shape_preserving h ->
  forall (c : list gate) (S : list nat),
    lc_sweep (map h c) S = (fst (lc_sweep c S), map h (snd (lc_sweep c S))).
Proof. exact lc_sweep_commute. Qed.
Print Assumptions light_cone_occurrences_are_positions.

Example light_cone_repeated_example :
  let g := mkGate 4 [1;2] KOrd in
  light_cone_model [g; mkGate 0 [0] KOrd; g; mkGate 1 [2;3] KOrd; g] [3]
  = (3, [1;2;3], [(4, Some [0;1]); (4, Some [0;1]); (1, Some [1;2])]).
Proof. vm_compute. reflexivity. Qed.

(* ---- measurements in a basis other than Z under light_cone ----
   [light_cone_queue rot c S] (C07/Occ.v) is the queue the real Circuit.light_cone builds, before
   re-indexing: the kept gates, each measurement preceded by the fresh rotation gates [rot g] that
   M.on_qubits / Circuit.add bring in.  If no kept gate brings rotations it is the kept list of
   light_cone_ok; *)
Theorem light_cone_queue_is_kept :
  forall rot c S, (forall g, In g (snd (lc_sweep c S)) -> rot g = []) ->
    light_cone_queue rot c S = snd (lc_sweep c S).
Proof.
  intros rot c S H. unfold light_cone_queue, lc_readd. induction (snd (lc_sweep c S)) as [|g l IH]; auto.
  cbn [flat_map]. rewrite (H g (or_introl eq_refl)). cbn [app]. f_equal. apply IH. intros x Hx. apply H. now right.
Qed.
Print Assumptions light_cone_queue_is_kept.

(* ... but with a measurement in the X or Y basis it is NOT (a commutation of) the kept gates: the
   rotation, already among the kept gates, is applied a second time.  Defect of the real code
   (known finding light_cone:basis-readded). *)
Theorem light_cone_queue_is_kept_refuted :
  exists (rot : gate -> list gate) (c : list gate) (S : list nat),
    (forall g, gk g <> KMeas -> rot g = [])
    /\ ~ gteq (light_cone_queue rot c S) (snd (lc_sweep c S)).
Proof.
  exists (fun g => match gk g with KMeas => [mkGate 2 (gqs g) KOrd] | _ => [] end),
         [mkGate 0 [0] KOrd; mkGate 1 [0] KMeas], [0].
  split.
  - intros g Hg. destruct (gk g); congruence.
  - intros H. apply (teq_length gindep) in H. vm_compute in H. discriminate.
Qed.
Print Assumptions light_cone_queue_is_kept_refuted.
