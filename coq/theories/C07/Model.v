(* C07/Model.v : executable models (no proofs here) of
     - qibo.models.circuit._Queue.to_fused / from_fused, Circuit.fuse
     - qibo.gates.special.FusedGate.can_fuse / fuse / append / prepend
     - qibo.models.circuit.Circuit.light_cone
   over the abstract alphabet of Base/Trace.v : a gate is (identity, gate.qubits, kind) with
   kind = ordinary | measurement M | special (CallbackGate, FusedGate given as input).

   Representation.  The fused queue is a list of nodes (the FusedGate objects, addressed by
   their position in the queue, which never changes); a node has the sorted qubit set
   (= target_qubits = sorted(qubit_set), kept in sync by the Python code), the member gates,
   `marked`, and the two neighbour dictionaries qubit -> node as association lists.
   The neighbour re-wiring loops of FusedGate.fuse are written in "gather" form: every node
   computes its own new dictionaries from its old ones and from the (unchanged) dictionaries
   of the absorbed child.  This equals the sequential Python loops because all writes of one
   loop iteration go to key q only, the loops run over distinct q, and the child's own
   dictionaries are never written (a node is never its own neighbour).  The model is tied to
   the real code by the structural correspondence run of harness/c07.py, which also compares
   the complete final node state (qubit sets, members, marks, both dictionaries).            *)
From Coq Require Import List Bool Arith Lia.
From QV Require Import Base.Trace.
Import ListNotations.

(* ---------- sorted duplicate-free lists of naturals as sets ---------- *)
Fixpoint sinsert (x : nat) (l : list nat) : list nat :=
  match l with
  | [] => [x]
  | y :: l' => if x <? y then x :: l else if x =? y then l else y :: sinsert x l'
  end.
Definition sunion (a b : list nat) : list nat := fold_left (fun acc x => sinsert x acc) b a.
Definition sort_set (l : list nat) : list nat := sunion [] l.
Definition sinter (a b : list nat) : list nat := filter (fun x => memb x b) a.
Definition sdiff (a b : list nat) : list nat := filter (fun x => negb (memb x b)) a.

(* ---------- dictionaries qubit -> node index ---------- *)
Definition nmap := list (nat * nat).
Fixpoint lookup (m : nmap) (q : nat) : option nat :=
  match m with
  | [] => None
  | (k, v) :: m' => if k =? q then Some v else lookup m' q
  end.
Fixpoint mset (m : nmap) (q v : nat) : nmap :=
  match m with
  | [] => [(q, v)]
  | (k, w) :: m' => if k =? q then (k, v) :: m' else (k, w) :: mset m' q v
  end.
Fixpoint mremove (m : nmap) (q : nat) : nmap :=
  match m with
  | [] => []
  | (k, w) :: m' => if k =? q then mremove m' q else (k, w) :: mremove m' q
  end.
(* dict.values(), through the keys so that it is defined by [lookup] alone *)
Definition mvalues (m : nmap) : list nat :=
  flat_map (fun k => match lookup m k with Some v => [v] | None => [] end)
           (nodup Nat.eq_dec (map fst m)).
(* set(m.values()) - {r} *)
Definition others (m : nmap) (r : nat) : list nat :=
  nodup Nat.eq_dec (filter (fun v => negb (v =? r)) (mvalues m)).

Inductive maction := Keep | Put (v : nat) | Del.
Definition mapply (m : nmap) (q : nat) (a : maction) : nmap :=
  match a with Keep => m | Put v => mset m q v | Del => mremove m q end.
(* for q in qs: apply (F q) at key q *)
Definition mupd (m : nmap) (qs : list nat) (F : nat -> maction) : nmap :=
  fold_left (fun m q => mapply m q (F q)) qs m.
Definition opt_is (o : option nat) (v : nat) : bool :=
  match o with Some w => w =? v | None => false end.
Definition put_or (o : option nat) (d : maction) : maction :=
  match o with Some j => Put j | None => d end.

(* ---------- nodes and states ---------- *)
Record node := mkNode {
  nqs : list nat; ngates : list gate; nmarked : bool; nleft : nmap; nright : nmap }.
Definition dnode : node := mkNode [] [] true [] [].
Definition state := list node.
Definition getn (st : state) (i : nat) : node := nth i st dnode.

Fixpoint mapi_from {X Y} (i : nat) (f : nat -> X -> Y) (l : list X) : list Y :=
  match l with [] => [] | x :: l' => f i x :: mapi_from (S i) f l' end.
Definition mapi {X Y} (f : nat -> X -> Y) (l : list X) : list Y := mapi_from 0 f l.

Definition is_ord (g : gate) : bool := match gk g with KOrd => true | _ => false end.

(* ---------- _Queue.to_fused ---------- *)
(* FusedGate.from_gate + the SpecialGate override of to_fused *)
Definition node_qs (n : nat) (g : gate) : list nat :=
  match gk g with KSpec => seq 0 n | _ => sort_set (gqs g) end.

(* one iteration of `for gate in self` ; [last] is the dictionary last_gate *)
Definition add_node (n : nat) (acc : state * nmap) (g : gate) : state * nmap :=
  let '(st, last) := acc in
  let i := length st in
  let qs := node_qs n g in
  let nd := mkNode qs [g] (negb (is_ord g))
              (mupd [] qs (fun q => put_or (lookup last q) Keep)) [] in
  let st' := mapi (fun j x =>
               mkNode (nqs x) (ngates x) (nmarked x) (nleft x)
                 (mupd (nright x) qs (fun q => if opt_is (lookup last q) j then Put i else Keep))) st in
  (st' ++ [nd], mupd last qs (fun _ => Put i)).

Definition to_fused (n : nat) (c : list gate) : state :=
  fst (fold_left (add_node n) c ([], [])).

(* ---------- FusedGate.can_fuse / fuse ---------- *)
Definition can_fuse (st : state) (a b : nat) (k : nat) : bool :=
  negb (nmarked (getn st a)) && negb (nmarked (getn st b))
  && (length (sunion (nqs (getn st a)) (nqs (getn st b))) <=? k).

(* {m.get(q) for q in shared} == {c} *)
Definition between_ok (m : nmap) (shared : list nat) (c : nat) : bool :=
  match shared with [] => false | _ => forallb (fun q => opt_is (lookup m q) c) shared end.

(* parent = l (the earlier gate), child = r is appended to it.
   shared = self.qubit_set & gate.qubit_set ; rest = child.qubit_set - shared *)
Definition mr_parent (st : state) (l r : nat) : node :=
  let L := getn st l in
  let R := getn st r in
  let shared := sinter (nqs L) (nqs R) in
  let rest := sdiff (nqs R) shared in
  mkNode (sunion (nqs L) (nqs R)) (ngates L ++ ngates R) (nmarked L)
      (mupd (nleft L) rest (fun q => put_or (lookup (nleft R) q) Keep))
      (mupd (mupd (nright L) shared (fun q => put_or (lookup (nright R) q) Del))
            rest (fun q => put_or (lookup (nright R) q) Keep)).
Definition absorb (nd : node) : node := mkNode (nqs nd) (ngates nd) true (nleft nd) (nright nd).
Definition mr_other (st : state) (l r : nat) (j : nat) (nd : node) : node :=
  let L := getn st l in
  let R := getn st r in
  let shared := sinter (nqs L) (nqs R) in
  let rest := sdiff (nqs R) shared in
  mkNode (nqs nd) (ngates nd) (nmarked nd)
    (mupd (nleft nd) (nqs R) (fun q => if opt_is (lookup (nright R) q) j then Put l else Keep))
    (mupd (nright nd) rest (fun q => if opt_is (lookup (nleft R) q) j then Put l else Keep)).
Definition merge_right (st : state) (l r : nat) : state :=
  mapi (fun j nd => if j =? l then mr_parent st l r else if j =? r then absorb (getn st r)
                    else mr_other st l r j nd) st.

(* parent = r (the later gate), child = l is prepended to it ; rest = child.qubit_set - shared *)
Definition ml_parent (st : state) (l r : nat) : node :=
  let L := getn st l in
  let R := getn st r in
  let shared := sinter (nqs L) (nqs R) in
  let rest := sdiff (nqs L) shared in
  mkNode (sunion (nqs R) (nqs L)) (ngates L ++ ngates R) (nmarked R)
      (mupd (mupd (nleft R) shared (fun q => put_or (lookup (nleft L) q) Keep))
            rest (fun q => put_or (lookup (nleft L) q) Keep))
      (mupd (nright R) rest (fun q => put_or (lookup (nright L) q) Keep)).
Definition ml_other (st : state) (l r : nat) (j : nat) (nd : node) : node :=
  let L := getn st l in
  let R := getn st r in
  let shared := sinter (nqs L) (nqs R) in
  let rest := sdiff (nqs L) shared in
  mkNode (nqs nd) (ngates nd) (nmarked nd)
    (mupd (nleft nd) rest (fun q => if opt_is (lookup (nright L) q) j then Put r else Keep))
    (mupd (nright nd) (nqs L) (fun q => if opt_is (lookup (nleft L) q) j then Put r else Keep)).
Definition merge_left (st : state) (l r : nat) : state :=
  mapi (fun j nd => if j =? r then ml_parent st l r else if j =? l then absorb (getn st l)
                    else ml_other st l r j nd) st.

(* FusedGate.fuse with self = node l, gate = node r *)
Definition fuse_pair (st : state) (l r : nat) : state :=
  let L := getn st l in
  let R := getn st r in
  let lg := length (others (nright L) r) in
  let rg := length (others (nleft R) l) in
  if (0 <? lg) && (0 <? rg) then st else
  let shared := sinter (nqs L) (nqs R) in
  if rg <? lg then
    if between_ok (nright L) shared r then merge_right st l r else st
  else
    if between_ok (nleft R) shared l then merge_left st l r else st.

(* ---------- Circuit.fuse ---------- *)
(* body of `for q in gate.qubits` for the node i *)
Definition visit_q (k i : nat) (st : state) (q : nat) : state :=
  let st1 := match lookup (nright (getn st i)) q with
             | Some nb => if can_fuse st i nb k then fuse_pair st i nb else st
             | None => st
             end in
  match lookup (nleft (getn st1 i)) q with
  | Some nb => if can_fuse st1 i nb k then fuse_pair st1 nb i else st1
  | None => st1
  end.

(* body of `for gate in queue` ; gate.qubits is evaluated once when the inner loop starts *)
Definition visit (k : nat) (st : state) (i : nat) : state :=
  if nmarked (getn st i) then st else fold_left (visit_q k i) (nqs (getn st i)) st.

Definition fuse_loop (k : nat) (st : state) : state :=
  fold_left (visit k) (seq 0 (length st)) st.

(* ---------- _Queue.from_fused ---------- *)
Inductive item := ISingle (g : gate) | IGroup (qs : list nat) (gs : list gate).

Definition node_items (nd : node) : list item :=
  if negb (nmarked nd) then
    match ngates nd with
    | [g] => [ISingle g]
    | gs => [IGroup (nqs nd) gs]
    end
  else
    match ngates nd with
    | g :: _ => if is_ord g then [] else [ISingle g]
    | [] => []   (* gate.gates[0] would raise IndexError; nodes always have a member *)
    end.
Definition from_fused (st : state) : list item := flat_map node_items st.

Definition fuse_model (n : nat) (c : list gate) (k : nat) : list item :=
  from_fused (fuse_loop k (to_fused n c)).

Definition item_gates (it : item) : list gate :=
  match it with ISingle g => [g] | IGroup _ gs => gs end.
Definition flatten (its : list item) : list gate := flat_map item_gates its.

(* ---------- Circuit.light_cone ---------- *)
(* one iteration of `for gate in reversed(self.queue)` ; state = (qubits, list_of_gates)
   ([kept] is consed at the front, which is the final `reversed(list_of_gates)`) *)
Definition lc_step (acc : list nat * list gate) (g : gate) : list nat * list gate :=
  let '(cone, kept) := acc in
  if disjointb (gqs g) cone then acc else (sunion cone (gqs g), g :: kept).
Definition lc_sweep (c : list gate) (S : list nat) : list nat * list gate :=
  fold_left lc_step (rev c) (sort_set S, []).
(* the gates that are not kept, in circuit order (not computed by the Python code; used to
   state the theorem) *)
Fixpoint lc_dropped (c : list gate) (S : list nat) : list gate :=
  match c with
  | [] => []
  | g :: c' => if disjointb (gqs g) (fst (lc_sweep c' S)) then g :: lc_dropped c' S
               else lc_dropped c' S
  end.
(* qubit_map = {q: i for i, q in enumerate(sorted(qubits))} *)
Fixpoint index_of (q : nat) (l : list nat) : option nat :=
  match l with
  | [] => None
  | x :: l' => if x =? q then Some 0 else option_map S (index_of q l')
  end.
Definition lc_map (cone : list nat) (q : nat) : option nat := index_of q cone.
(* gate.on_qubits(qubit_map).qubits ; None = a qubit is not in the map (cannot happen for
   kept gates, proved) *)
Fixpoint map_qubits (cone : list nat) (qs : list nat) : option (list nat) :=
  match qs with
  | [] => Some []
  | q :: qs' => match lc_map cone q, map_qubits cone qs' with
                | Some i, Some r => Some (i :: r)
                | _, _ => None
                end
  end.
(* the returned circuit: number of qubits, gates with their new qubits *)
Definition light_cone_model (c : list gate) (S : list nat)
  : nat * list nat * list (nat * option (list nat)) :=
  let '(cone, kept) := lc_sweep c S in
  (length cone, cone, map (fun g => (gid g, map_qubits cone (gqs g))) kept).

(* ---------- helpers for the correspondence run (comparison inside Coq) ---------- *)
Definition nat_list_eqb := natlist_eqb.
Fixpoint list_eqb {X} (e : X -> X -> bool) (a b : list X) : bool :=
  match a, b with
  | [], [] => true
  | x :: a', y :: b' => e x y && list_eqb e a' b'
  | _, _ => false
  end.
(* signature of an output item: (is_group, qubit set, member ids) *)
Definition sigT : Type := bool * list nat * list nat.
Definition nodesigT : Type := list nat * list nat * bool * list (option nat) * list (option nat).
Definition item_sig (it : item) : sigT :=
  match it with
  | ISingle g => (false, [], [gid g])
  | IGroup qs gs => (true, qs, map gid gs)
  end.
Definition sig_eqb (a b : sigT) : bool :=
  let '(g1, q1, m1) := a in let '(g2, q2, m2) := b in
  Bool.eqb g1 g2 && natlist_eqb q1 q2 && natlist_eqb m1 m2.
Definition gate_of (c : list gate) (i : nat) : gate := nth i c (mkGate i [] KSpec).
Definition sig_gates (c : list gate) (s : sigT) : list gate :=
  map (gate_of c) (snd s).
(* dictionaries compared as functions on the qubits 0..n-1 *)
Definition map_sig (n : nat) (m : nmap) : list (option nat) := map (lookup m) (seq 0 n).
Definition opt_eqb (a b : option nat) : bool :=
  match a, b with Some x, Some y => x =? y | None, None => true | _, _ => false end.
(* full node signature: (qubits, member ids, marked, left, right) *)
Definition node_sig (n : nat) (nd : node) : nodesigT :=
  (nqs nd, map gid (ngates nd), nmarked nd, map_sig n (nleft nd), map_sig n (nright nd)).
Definition node_sig_eqb (a b : nodesigT) : bool :=
  let '(q1, g1, m1, l1, r1) := a in let '(q2, g2, m2, l2, r2) := b in
  natlist_eqb q1 q2 && natlist_eqb g1 g2 && Bool.eqb m1 m2 && list_eqb opt_eqb l1 l2 && list_eqb opt_eqb r1 r2.

(* light cone: comparison of outputs and the per-instance certificate *)
Definition optlist_eqb (a b : option (list nat)) : bool :=
  match a, b with Some x, Some y => natlist_eqb x y | None, None => true | _, _ => false end.
Definition lc_out_eqb (a b : nat * list nat * list (nat * option (list nat))) : bool :=
  let '(n1, c1, k1) := a in let '(n2, c2, k2) := b in
  (n1 =? n2) && natlist_eqb c1 c2
  && list_eqb (fun x y => (fst x =? fst y) && optlist_eqb (snd x) (snd y)) k1 k2.
(* [kept_ids] = identities of the gates of the returned circuit, in order; [cone] = keys of the
   returned qubit map.  true  ->  c ~ kept ++ dropped, every dropped gate is disjoint from S,
   every kept gate lies inside the cone, S inside the cone (soundness: Proofs.lc_cert_sound) *)
Definition lc_cert_b (c : list gate) (S cone kept_ids : list nat) : bool :=
  let kept := map (gate_of c) kept_ids in
  let dropped := filter (fun g => negb (memb (gid g) kept_ids)) c in
  gtrace_equiv_b c (kept ++ dropped)
  && forallb (fun g => disjointb (gqs g) S) dropped
  && forallb (fun g => subsetb (gqs g) cone) kept
  && subsetb S cone.

(* ---------- a FusedGate given as INPUT ----------
   A FusedGate in the input circuit (e.g. the output of an earlier fuse) is a SpecialGate: it is
   the letter (identity, its qubits, KSpec).  to_fused keeps it as ONE opaque member of a marked
   node spanning all qubits (FusedGate.from_gate: `if isinstance(gate, cls): fgate.gates.append(gate)`),
   so it is covered by the model above like a callback gate.
   light_cone: SpecialGate.on_qubits raises NotImplementedError, i.e. the call is refused exactly
   when a special gate with a non-empty qubit list is kept: *)
Definition lc_refuses (c : list gate) (S : list nat) : bool :=
  existsb (fun g => match gk g, gqs g with KSpec, _ :: _ => true | _, _ => false end)
          (snd (lc_sweep c S)).

(* Behaviour BEFORE the repair of FusedGate.from_gate (kept for the record): from_gate called
   append(gate), which EXTENDS the member list with gate.gates for a FusedGate, so the node held
   the (ordinary) members and from_fused dropped it. *)
Definition prefix_node_of_fused_input (n : nat) (members : list gate) : node :=
  mkNode (seq 0 n) members true [] [].
