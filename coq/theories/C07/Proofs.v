(* C07/Proofs.v : lemmas about C07/Model.v (sets, dictionaries, light cone).
   The fusion proofs are in C07/ProofsFuse.v. *)
From Coq Require Import List Bool Arith Lia Sorted Permutation.
From QV Require Import Base.Trace C07.Model.
Import ListNotations.

(* ---------------------------------------------------------------- sorted sets *)
Lemma sinsert_In x a l : In x (sinsert a l) <-> x = a \/ In x l.
Proof.
  induction l as [|y l IH]; simpl.
  - intuition.
  - destruct (a <? y) eqn:E1; simpl.
    + intuition.
    + destruct (a =? y) eqn:E2; simpl.
      * apply Nat.eqb_eq in E2. subst. intuition.
      * rewrite IH. intuition.
Qed.

Lemma sunion_In x a b : In x (sunion a b) <-> In x a \/ In x b.
Proof.
  unfold sunion. revert a. induction b as [|y b IH]; intros a; simpl.
  - intuition.
  - rewrite IH, sinsert_In. intuition.
Qed.

Lemma sort_set_In x l : In x (sort_set l) <-> In x l.
Proof. unfold sort_set. rewrite sunion_In. simpl. intuition. Qed.

Lemma sinter_In x a b : In x (sinter a b) <-> In x a /\ In x b.
Proof. unfold sinter. rewrite filter_In, memb_In. tauto. Qed.

Lemma sdiff_In x a b : In x (sdiff a b) <-> In x a /\ ~ In x b.
Proof.
  unfold sdiff. rewrite filter_In, negb_true_iff, memb_false. tauto.
Qed.

Definition ssorted (l : list nat) : Prop := StronglySorted lt l.

Lemma sinsert_sorted a l : ssorted l -> ssorted (sinsert a l).
Proof.
  unfold ssorted. induction l as [|y l IH]; intros H; simpl.
  - repeat constructor.
  - inversion H as [|? ? Hs Hf]; subst.
    destruct (a <? y) eqn:E1.
    + apply Nat.ltb_lt in E1. constructor; auto. constructor; auto.
      eapply Forall_impl; [|exact Hf]. intros; lia.
    + destruct (a =? y) eqn:E2; auto.
      apply Nat.ltb_ge in E1. apply Nat.eqb_neq in E2.
      constructor; auto. apply Forall_forall. intros z Hz.
      apply sinsert_In in Hz. destruct Hz as [->|Hz]; [lia|].
      rewrite Forall_forall in Hf. auto.
Qed.

Lemma sunion_sorted a b : ssorted a -> ssorted (sunion a b).
Proof.
  unfold sunion. revert a. induction b as [|y b IH]; intros a H; simpl; auto.
  apply IH. apply sinsert_sorted; auto.
Qed.

Lemma sort_set_sorted l : ssorted (sort_set l).
Proof. apply sunion_sorted. constructor. Qed.

Lemma ssorted_NoDup l : ssorted l -> NoDup l.
Proof.
  induction 1 as [|a l Hs IH Hf]; constructor; auto.
  intros Hin. rewrite Forall_forall in Hf. apply Hf in Hin. lia.
Qed.

(* ---------------------------------------------------------------- light cone *)
Lemma lc_sweep_cons g c S : lc_sweep (g :: c) S = lc_step (lc_sweep c S) g.
Proof.
  unfold lc_sweep. simpl. rewrite fold_left_app. reflexivity.
Qed.

Lemma lc_sweep_nil S : lc_sweep [] S = (sort_set S, []).
Proof. reflexivity. Qed.

Definition lc_cone c S := fst (lc_sweep c S).
Definition lc_kept c S := snd (lc_sweep c S).

Lemma lc_cone_cons g c S :
  lc_cone (g :: c) S =
  if disjointb (gqs g) (lc_cone c S) then lc_cone c S else sunion (lc_cone c S) (gqs g).
Proof.
  unfold lc_cone. rewrite lc_sweep_cons. unfold lc_step.
  destruct (lc_sweep c S) as [cone kept]; simpl. destruct (disjointb (gqs g) cone); reflexivity.
Qed.

Lemma lc_kept_cons g c S :
  lc_kept (g :: c) S =
  if disjointb (gqs g) (lc_cone c S) then lc_kept c S else g :: lc_kept c S.
Proof.
  unfold lc_kept, lc_cone. rewrite lc_sweep_cons. unfold lc_step.
  destruct (lc_sweep c S) as [cone kept]; simpl. destruct (disjointb (gqs g) cone); reflexivity.
Qed.

Lemma lc_dropped_cons g c S :
  lc_dropped (g :: c) S =
  if disjointb (gqs g) (lc_cone c S) then g :: lc_dropped c S else lc_dropped c S.
Proof. reflexivity. Qed.

Lemma lc_cone_sorted c S : ssorted (lc_cone c S).
Proof.
  induction c as [|g c IH].
  - apply sort_set_sorted.
  - rewrite lc_cone_cons. destruct (disjointb _ _); auto. apply sunion_sorted; auto.
Qed.

Lemma lc_cone_S c S : incl S (lc_cone c S).
Proof.
  induction c as [|g c IH]; intros x Hx.
  - apply sort_set_In; auto.
  - rewrite lc_cone_cons. destruct (disjointb _ _); auto. apply sunion_In. left; auto.
Qed.

(* the cone only grows while sweeping backwards *)
Lemma lc_cone_mono g c S : incl (lc_cone c S) (lc_cone (g :: c) S).
Proof.
  intros x Hx. rewrite lc_cone_cons. destruct (disjointb _ _); auto. apply sunion_In; auto.
Qed.

Lemma lc_kept_in_cone c S : forall g, In g (lc_kept c S) -> incl (gqs g) (lc_cone c S).
Proof.
  induction c as [|g0 c IH]; intros g Hg.
  - inversion Hg.
  - rewrite lc_kept_cons in Hg. intros x Hx.
    rewrite lc_cone_cons. destruct (disjointb (gqs g0) (lc_cone c S)) eqn:E.
    + apply IH in Hg. auto.
    + destruct Hg as [<-|Hg].
      * apply sunion_In; auto.
      * apply sunion_In. left. apply IH in Hg; auto.
Qed.

Lemma lc_dropped_off_S c S : forall g, In g (lc_dropped c S) -> disjointb (gqs g) S = true.
Proof.
  induction c as [|g0 c IH]; intros g Hg.
  - inversion Hg.
  - rewrite lc_dropped_cons in Hg. destruct (disjointb (gqs g0) (lc_cone c S)) eqn:E; auto.
    destruct Hg as [<-|Hg]; auto.
    eapply disjointb_incl; [apply incl_refl | apply (lc_cone_S c S) | exact E].
Qed.

Lemma lc_kept_sub c S : forall g, In g (lc_kept c S) -> In g c.
Proof.
  induction c as [|g0 c IH]; intros g Hg.
  - inversion Hg.
  - rewrite lc_kept_cons in Hg. destruct (disjointb _ _); simpl in *; intuition.
Qed.

Theorem lc_equiv c S : gteq c (lc_kept c S ++ lc_dropped c S).
Proof.
  induction c as [|g c IH].
  - constructor.
  - rewrite lc_kept_cons, lc_dropped_cons.
    destruct (disjointb (gqs g) (lc_cone c S)) eqn:E.
    + eapply teq_trans; [constructor; exact IH|].
      apply teq_sym; [apply sindep_sym|].
      apply teq_pull_front; [apply sindep_sym|].
      intros x Hx. unfold gindep, sindep.
      eapply disjointb_incl; [apply incl_refl | apply lc_kept_in_cone; exact Hx | exact E].
    + simpl. constructor. exact IH.
Qed.

(* every gate is either kept or dropped, order inside each class is the circuit order *)
Lemma lc_partition c S : Permutation c (lc_kept c S ++ lc_dropped c S).
Proof. apply (teq_perm _ _ _ (lc_equiv c S)). Qed.

(* ---------------------------------------------------------------- the re-indexing map *)
Lemma index_of_Some q l i : index_of q l = Some i -> i < length l /\ nth i l 0 = q.
Proof.
  revert i. induction l as [|x l IH]; intros i H; simpl in H.
  - discriminate.
  - destruct (x =? q) eqn:E.
    + inversion H; subst. apply Nat.eqb_eq in E. simpl. split; [lia|auto].
    + destruct (index_of q l) as [j|]; simpl in H; [|discriminate].
      inversion H; subst. destruct (IH j eq_refl). simpl. split; [lia|auto].
Qed.

Lemma index_of_In q l : In q l -> exists i, index_of q l = Some i.
Proof.
  induction l as [|x l IH]; intros H; simpl.
  - inversion H.
  - destruct (x =? q) eqn:E; eauto.
    destruct H as [->|H]; [rewrite Nat.eqb_refl in E; discriminate|].
    destruct (IH H) as [i ->]. simpl. eauto.
Qed.

Lemma index_of_None q l : index_of q l = None -> ~ In q l.
Proof.
  intros H Hin. destruct (index_of_In _ _ Hin) as [i Hi]. congruence.
Qed.

Lemma index_of_mono l : ssorted l -> forall q1 q2 i1 i2,
  index_of q1 l = Some i1 -> index_of q2 l = Some i2 -> q1 < q2 -> i1 < i2.
Proof.
  induction 1 as [|a l Hs IH Hf]; intros q1 q2 i1 i2 H1 H2 Hlt; simpl in *.
  - discriminate.
  - destruct (a =? q1) eqn:E1, (a =? q2) eqn:E2.
    + apply Nat.eqb_eq in E1, E2. lia.
    + inversion H1; subst. destruct (index_of q2 l); simpl in H2; [|discriminate].
      inversion H2; lia.
    + apply Nat.eqb_eq in E2. subst a.
      destruct (index_of q1 l) as [j|] eqn:Ej; simpl in H1; [|discriminate].
      apply index_of_Some in Ej. destruct Ej as [Hj Hn].
      rewrite Forall_forall in Hf. assert (In q1 l) by (rewrite <- Hn; apply nth_In; auto).
      apply Hf in H. lia.
    + destruct (index_of q1 l) as [j1|] eqn:Ej1; simpl in H1; [|discriminate].
      destruct (index_of q2 l) as [j2|] eqn:Ej2; simpl in H2; [|discriminate].
      inversion H1; inversion H2; subst. apply -> Nat.succ_lt_mono. eapply IH; eauto.
Qed.

Lemma map_qubits_Some cone qs : incl qs cone -> exists r, map_qubits cone qs = Some r /\ length r = length qs.
Proof.
  induction qs as [|q qs IH]; intros H; simpl.
  - exists []; auto.
  - destruct (index_of_In q cone) as [i Hi]; [apply H; left; auto|].
    destruct IH as [r [Hr Hl]]; [intros x Hx; apply H; right; auto|].
    unfold lc_map. rewrite Hi, Hr. exists (i :: r). simpl; auto.
Qed.

(* ---------------------------------------------------------------- the certificate used by the harness *)
Lemma forallb_In {X} (f : X -> bool) l : forallb f l = true -> forall x, In x l -> f x = true.
Proof. rewrite forallb_forall. auto. Qed.

Lemma lc_cert_sound c S cone kept_ids :
  lc_cert_b c S cone kept_ids = true ->
  let kept := map (gate_of c) kept_ids in
  let dropped := filter (fun g => negb (memb (gid g) kept_ids)) c in
  gteq c (kept ++ dropped)
  /\ (forall g, In g dropped -> disjointb (gqs g) S = true)
  /\ (forall g, In g kept -> incl (gqs g) cone)
  /\ incl S cone.
Proof.
  unfold lc_cert_b. intros H.
  apply andb_true_iff in H. destruct H as [H H4].
  apply andb_true_iff in H. destruct H as [H H3].
  apply andb_true_iff in H. destruct H as [H1 H2].
  repeat split.
  - apply gtrace_equiv_b_sound; auto.
  - apply forallb_In; auto.
  - intros g Hg. apply subsetb_spec. revert g Hg. apply forallb_In; auto.
  - apply subsetb_spec; auto.
Qed.

(* ---------------------------------------------------------------- consequence for observations on S *)
Section LightConeSem.
  Context {St Obs : Type}.
  Variable act : gate -> St -> St.
  Variable obs : St -> Obs.           (* e.g. the reduced state on the qubits S *)
  Variable S : list nat.
  (* gates with disjoint supports commute *)
  Hypothesis act_comm : forall a b s, gindep a b = true -> act a (act b s) = act b (act a s).
  (* an operation that does not touch S does not change the observation on S
     (for quantum states: Tr_{S^c}[(1 (x) D) rho (1 (x) D)^+] = Tr_{S^c} rho for trace-preserving D) *)
  Hypothesis obs_outside : forall g s, disjointb (gqs g) S = true -> obs (act g s) = obs s.

  Lemma obs_dropped l s : (forall g, In g l -> disjointb (gqs g) S = true) -> obs (trun act l s) = obs s.
  Proof.
    revert s. induction l as [|g l IH]; intros s H; simpl; auto.
    rewrite IH; [apply obs_outside; apply H; left; auto|]. intros; apply H; right; auto.
  Qed.

  Lemma light_cone_obs c s : obs (trun act c s) = obs (trun act (lc_kept c S) s).
  Proof.
    rewrite (run_respects gindep (sindep_sym gqs) act act_comm _ _ (lc_equiv c S)).
    rewrite trun_app. apply obs_dropped. apply lc_dropped_off_S.
  Qed.
End LightConeSem.
