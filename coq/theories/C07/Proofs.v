From Coq Require Import List Bool Arith Lia.
From QV Require Import Base.Trace C07.Model.
Import ListNotations.
