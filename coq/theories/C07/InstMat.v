(* C07/InstMat.v : the trace-level theorems of C07 instantiated with the concrete matrix semantics
   of C01/Spec.v (gate_op = Base/Mat.embed / cembed, circ_op = ordered product, sandwich = U rho U^+,
   Base/SemPtrace.reduced = partial trace), over any commutative semiring, using the matrix facts
   proved in Base/Sem*.v by builder-c01c02:
     gate_op_disjoint_commute  (gates with disjoint qubit supports commute)
     ptrace_ignores_outside    (an isometry outside `keep` does not change the reduced matrix).
   [mg] assigns to every abstract letter (identity, qubits, kind) of Base/Trace.v the matrix gate
   (C01/Model.gate) it stands for; a letter is valid if that gate is well formed for n qubits and
   acts only on the letter's support.  No commutation or partial-trace premise is left.        *)
From Coq Require Import List Bool Arith Lia Permutation.
From QV Require Import Base.Mat C01.Model C01.Spec C01.Lib C01.ProofsMat C01.ProofsRun C01.ProofsDM
  C01.ProofsRunDM C01.ProofsQueue C01.ProofsSV C01.ProofsCtrl Base.Sem Base.SemPtrace Base.SemProps.
From Coq Require Import Sorted.
From QV Require Import C01.ProofsFused.
From QV Require Import Base.Trace C07.Model C07.Proofs C07.ProofsFuse.
Import ListNotations.

Lemma fold_left_map' {X Y Z} (f : Z -> Y -> Z) (g : X -> Y) l a :
  fold_left f (map g l) a = fold_left (fun a x => f a (g x)) l a.
Proof. revert a. induction l as [|x l IH]; intros a; simpl; auto. Qed.

Section InstMat.
  Context {T : Type} (K : ops T) (cj : T -> T).
  Hypothesis HK : semiring K.
  Variable n : nat.
  Variable mg : Trace.gate -> C01.Model.gate (T:=T).

  (* validity of a letter relative to a support function (gsupp n for fusion, gqs for light cone) *)
  Definition mvalid (supp : Trace.gate -> list nat) (g : Trace.gate) : Prop :=
    gate_wf n (mg g) /\ forall q, In q (gate_qubits (mg g)) -> In q (supp g).

  Lemma mvalid_disjoint supp a b : mvalid supp a -> mvalid supp b -> sindep supp a b = true ->
    disjoint (gate_qubits (mg a)) (gate_qubits (mg b)).
  Proof.
    intros [_ Ha] [_ Hb] Hi q Hqa Hqb. unfold sindep in Hi. rewrite disjointb_spec in Hi.
    apply (Hi q); auto.
  Qed.

  Lemma midentity_wf : wf_mat n (midentity K n).
  Proof. rewrite midentity_tab2. apply tab2_wf. Qed.

  (* ---------------------------------------------------------------- unitaries / state vectors *)
  Definition uact (g : Trace.gate) (U : mat T) : mat T := mmul K (gate_op K n (mg g)) U.

  Lemma circ_op_trun l : circ_op K n (map mg l) = trun uact l (midentity K n).
  Proof. unfold circ_op, trun. apply fold_left_map'. Qed.

  Lemma uact_wf a s : wf_mat n s -> wf_mat n (uact a s).
  Proof. intros Hs. apply (mmul_wf K HK); auto. apply gate_op_wf. Qed.

  Lemma uact_comm supp a b s : mvalid supp a -> mvalid supp b -> wf_mat n s ->
    sindep supp a b = true -> uact a (uact b s) = uact b (uact a s).
  Proof.
    intros Ha Hb Hs Hi. unfold uact.
    rewrite <- !(mmul_assoc K HK n) by (auto using (gate_op_wf K)).
    f_equal. apply (gate_op_disjoint_commute T K HK); [apply Ha|apply Hb|].
    eapply mvalid_disjoint; eauto.
  Qed.

  Theorem circ_op_respects supp l1 l2 :
    teq (sindep supp) l1 l2 -> Forall (mvalid supp) l1 ->
    circ_op K n (map mg l1) = circ_op K n (map mg l2).
  Proof.
    intros Ht Hv. rewrite !circ_op_trun.
    apply (run_respects_on (sindep supp) (sindep_sym supp) uact (mvalid supp) (wf_mat n)); auto.
    - intros a s _ Hs. apply uact_wf; auto.
    - intros a b s Ha Hb Hs Hi. apply (uact_comm supp); auto.
    - apply midentity_wf.
  Qed.

  Theorem fuse_equiv_matrices_proof c k :
    Forall (mvalid (gsupp n)) c ->
    circ_op K n (map mg (flatten (fuse_model n c k))) = circ_op K n (map mg c).
  Proof.
    intros Hv. pose proof (fuse_equiv_proof n c k) as Ht.
    apply (circ_op_respects (gsupp n)); auto.
    eapply Permutation_Forall; [|exact Hv]. apply Permutation_sym. apply (teq_perm _ _ _ Ht).
  Qed.

  (* ---------------------------------------------------------------- the fused queue as C01 executes it *)
  (* the output of fuse as a C01 queue: a group becomes FusedGate(target_qubits, members), which C01
     executes through its model of the backend's matrix_fused (product of the members' matrices,
     each embedded into the group's qubits, later members on the left, starting from eye) *)
  Definition to_qitems (its : list item) : list (qitem (T:=T)) :=
    map (fun it => match it with
                   | ISingle g => QGate (mg g)
                   | IGroup qs gs => QFused qs (map mg gs)
                   end) its.

  Lemma flatten_to_qitems its : ProofsQueue.flatten (to_qitems its) = map mg (Model.flatten its).
  Proof.
    unfold ProofsQueue.flatten, Model.flatten, to_qitems.
    induction its as [|it its IH]; simpl; auto. rewrite map_app, IH. destruct it; reflexivity.
  Qed.

  Lemma ssorted_incr_from lo l : ssorted l -> (forall x, In x l -> lo <= x) -> incr_from lo l.
  Proof.
    unfold ssorted. intros H. revert lo. induction H as [|a l Hs IH Hf]; intros lo Hlo; simpl; auto.
    split; [apply Hlo; left; auto|]. apply IH. intros x Hx. rewrite Forall_forall in Hf.
    apply Hf in Hx. lia.
  Qed.

  (* what is asked of every letter of the circuit: its matrix gate is well formed, acts inside the
     letter's support, its matrix has the size the backend's reshape demands, qubits in range *)
  Definition mgood (g : Trace.gate) : Prop :=
    mvalid (gsupp n) g /\ gate_shape_ok (mg g) /\ (forall q, In q (gqs g) -> q < n).

  Lemma fused_items_ok c k : Forall mgood c -> Forall (item_ok n) (to_qitems (fuse_model n c k)).
  Proof.
    intros Hc. rewrite Forall_forall in Hc.
    assert (forall g, In g (Model.flatten (fuse_model n c k)) -> In g c) as Hin.
    { intros g. apply (teq_in _ _ _ g (fuse_equiv_proof n c k)). }
    apply Forall_forall. intros qi Hqi. unfold to_qitems in Hqi. apply in_map_iff in Hqi.
    destruct Hqi as [it [<- Hit]]. destruct it as [g|qs gs]; simpl.
    - assert (In g c) as Hg by (apply Hin; unfold Model.flatten; apply in_flat_map; exists (ISingle g); simpl; auto).
      destruct (Hc g Hg) as [[Hw _] [Hs _]]. auto.
    - destruct (fuse_groups_proof n c k qs gs Hit) as [Hall _].
      destruct (fuse_groups_sorted_range n c k qs gs) as [Hsort Hrange]; auto.
      { intros g q Hg Hq. destruct (Hc g Hg) as [_ [_ Hr]]. auto. }
      split; [apply ssorted_incr_from; auto; intros; lia|]. split; auto.
      apply Forall_forall. intros mgate Hm. apply in_map_iff in Hm. destruct Hm as [g [<- Hg]].
      assert (In g c) as Hgc by (apply Hin; unfold Model.flatten; apply in_flat_map; exists (IGroup qs gs); simpl; auto).
      destruct (Hc g Hgc) as [[Hw Hsup] [Hs _]]. destruct (Hall g Hg) as [Ho Hincl].
      split; auto. split; auto. intros q Hq. apply Hincl. apply Hsup in Hq.
      rewrite ord_gsupp in Hq; auto.
  Qed.

  (* executing the fused queue the way the backend does (matrix_fused per group) gives the state
     vector of the original circuit *)
  Theorem fused_execution_proof c k v : Forall mgood c -> length v = 2 ^ n ->
    execute_queue K n (to_qitems (fuse_model n c k)) v = execute K n (map mg c) v.
  Proof.
    intros Hc Hv.
    assert (Forall (mvalid (gsupp n)) c) as Hval.
    { eapply Forall_impl; [|exact Hc]. intros g Hg. apply Hg. }
    assert (Forall (gate_wf n) (map mg c)) as Hwf.
    { apply Forall_forall. intros x Hx. apply in_map_iff in Hx. destruct Hx as [g [<- Hg]].
      rewrite Forall_forall in Hval. apply (Hval g Hg). }
    rewrite (execute_queue_flatten K HK) by (auto using fused_items_ok).
    rewrite flatten_to_qitems.
    rewrite (execute_eq K HK n (map mg c) v Hwf Hv).
    rewrite <- (fuse_equiv_matrices_proof c k Hval).
    apply (execute_eq K HK); auto.
    apply Forall_forall. intros x Hx. apply in_map_iff in Hx. destruct Hx as [g [<- Hg]].
    rewrite Forall_forall in Hval. apply (Hval g).
    apply (teq_in _ _ _ g (fuse_equiv_proof n c k)). exact Hg.
  Qed.

  (* the matrix of every fused group, embedded on the group's qubits, is the ordered product of
     its members' operators (C01.fused_gate_ok) *)
  Theorem fused_group_matrix_proof c k qs gs : Forall mgood c -> In (IGroup qs gs) (fuse_model n c k) ->
    embed K n qs (matrix_fused K qs (map mg gs)) = circ_op K n (map mg gs).
  Proof.
    intros Hc Hit. pose proof (fused_items_ok c k Hc) as Hok. rewrite Forall_forall in Hok.
    specialize (Hok (QFused qs (map mg gs))). simpl in Hok.
    destruct Hok as [H1 [H2 H3]].
    { unfold to_qitems. apply in_map_iff. exists (IGroup qs gs). auto. }
    apply (embed_matrix_fused K HK); auto.
  Qed.

  (* ---------------------------------------------------------------- density matrices, light cone *)
  Hypothesis HC : conj_ok K cj.

  Definition dact (g : Trace.gate) (rho : mat T) : mat T := sandwich K cj n (gate_op K n (mg g)) rho.

  Lemma dact_wf a s : wf_mat n s -> wf_mat n (dact a s).
  Proof. intros Hs. apply (sandwich_wf K cj HK); auto. apply gate_op_wf. Qed.

  Lemma dact_comm supp a b s : mvalid supp a -> mvalid supp b -> wf_mat n s ->
    sindep supp a b = true -> dact a (dact b s) = dact b (dact a s).
  Proof.
    intros Ha Hb Hs Hi. unfold dact.
    rewrite <- !(sandwich_mmul K cj HK HC n) by (auto using (gate_op_wf K)).
    f_equal. apply (gate_op_disjoint_commute T K HK); [apply Ha|apply Hb|].
    eapply mvalid_disjoint; eauto.
  Qed.

  (* the operator of the letter is an isometry U (U^+ U = 1) embedded on qubits of the gate *)
  Definition embeds_unitary (g : Trace.gate) : Prop :=
    exists qs U, gate_op K n (mg g) = embed K n qs U /\ NoDup qs /\ (forall q, In q qs -> q < n)
      /\ (forall q, In q qs -> In q (gate_qubits (mg g)))
      /\ wf_mat (length qs) U /\ mmul K (madj K cj (length qs) U) U = eye K (2 ^ length qs).

  (* every gate that is not in `controlled_by` form (C01: ctrl = false; its matrix M is the full
     matrix on gate.qubits = sorted controls ++ targets) is of this kind when M is unitary *)
  Lemma plain_gate_embeds_unitary g cs ts M :
    mg g = (false, cs, ts, M) -> gate_wf n (mg g) ->
    wf_mat (length (isort cs ++ ts)) M ->
    mmul K (madj K cj (length (isort cs ++ ts)) M) M = eye K (2 ^ length (isort cs ++ ts)) ->
    embeds_unitary g.
  Proof.
    intros E Hw HM HU. exists (isort cs ++ ts), M. rewrite E in *. simpl.
    destruct Hw as [Hc [Ht [Hlt Hd]]]. repeat split; auto.
    - apply NoDup_app_intro; [apply (incr_from_NoDup 0), isort_incr; assumption|assumption|].
      intros x Hx Hx'. apply (proj1 (isort_In _ _)) in Hx. exact (Hd x Hx' Hx).
    - intros q Hq. apply Hlt. rewrite in_app_iff in *. rewrite isort_In in Hq. exact Hq.
    - intros q Hq. rewrite in_app_iff in *. rewrite isort_In in Hq. exact Hq.
    - apply HM.
    - apply HM.
  Qed.

  Lemma reduced_dropped S l rho :
    (forall q, In q S -> q < n) -> wf_mat n rho ->
    (forall g, In g l -> mvalid gqs g /\ embeds_unitary g /\ disjointb (gqs g) S = true) ->
    reduced K n S (trun dact l rho) = reduced K n S rho.
  Proof.
    intros HS. revert rho. induction l as [|g l IH]; intros rho Hr H; simpl; auto.
    rewrite IH; [|apply dact_wf; auto|intros; apply H; right; auto].
    destruct (H g (or_introl eq_refl)) as [[Hw Hsup] [[qs [U [E [Hn [Hlt [Hin [HU Hun]]]]]]] Hd]].
    unfold dact. rewrite E.
    apply (ptrace_ignores_outside T K cj HK HC); auto.
    intros q Hq Hk. rewrite disjointb_spec in Hd. apply (Hd q); auto.
  Qed.

  Theorem light_cone_reduced_matrices_proof c S rho :
    Forall (mvalid gqs) c ->
    (forall g, In g (lc_dropped c S) -> embeds_unitary g) ->
    (forall q, In q S -> q < n) -> wf_mat n rho ->
    reduced K n S (trun dact c rho) = reduced K n S (trun dact (lc_kept c S) rho).
  Proof.
    intros Hv Hu HS Hr.
    rewrite (run_respects_on gindep (sindep_sym gqs) dact (mvalid gqs) (wf_mat n)
               (fun a s _ Hs => dact_wf a s Hs)
               (fun a b s Ha Hb Hs Hi => dact_comm gqs a b s Ha Hb Hs Hi)
               _ _ (lc_equiv c S) Hv rho Hr).
    rewrite trun_app.
    assert (Forall (mvalid gqs) (lc_kept c S ++ lc_dropped c S)) as Hv2.
    { eapply Permutation_Forall; [apply lc_partition|exact Hv]. }
    apply Forall_app in Hv2. destruct Hv2 as [Hk Hd]. rewrite Forall_forall in Hd.
    apply reduced_dropped; auto.
    - apply (trun_P dact (mvalid gqs) (wf_mat n) (fun a s _ Hs => dact_wf a s Hs)); auto.
    - intros g Hg. split; [apply Hd; auto|]. split; [apply Hu; auto|].
      apply (lc_dropped_off_S c S g Hg).
  Qed.

  (* ---------------------------------------------------------------- the re-indexed light-cone circuit *)
  (* Circuit.light_cone returns gate.on_qubits(qubit_map) with qubit_map[q] = position of q in
     sorted(cone); on C01 gates that is ProofsQueue.relabel cone (index_of = that position). *)
  Lemma lc_cone_range c S q : In q (lc_cone c S) -> In q S \/ exists g, In g c /\ In q (gqs g).
  Proof.
    induction c as [|g c IH]; intros Hq.
    - left. unfold lc_cone in Hq. rewrite lc_sweep_nil in Hq. simpl in Hq. now apply sort_set_In.
    - rewrite lc_cone_cons in Hq. destruct (disjointb (gqs g) (lc_cone c S)).
      + destruct (IH Hq) as [H|[g0 [H1 H2]]]; auto. right. exists g0. split; [right|]; auto.
      + apply sunion_In in Hq. destruct Hq as [Hq|Hq].
        * destruct (IH Hq) as [H|[g0 [H1 H2]]]; auto. right. exists g0. split; [right|]; auto.
        * right. exists g. split; [left|]; auto.
  Qed.

  Lemma model_index_of_is_position q l : In q l -> Model.index_of q l = Some (C01.Model.index_of q l).
  Proof.
    induction l as [|x l IH]; intros H; [inversion H|]. simpl.
    destruct (x =? q) eqn:E; auto. destruct H as [->|H]; [rewrite Nat.eqb_refl in E; discriminate|].
    rewrite (IH H). reflexivity.
  Qed.

  Lemma circ_op_embedded fq gs :
    incr_from 0 fq -> (forall q, In q fq -> q < n) ->
    (forall g, In g gs -> forall q, In q (gate_qubits g) -> In q fq) ->
    circ_op K n gs = embed K n fq (circ_op K (length fq) (map (relabel fq) gs)).
  Proof.
    intros Hfq Hq Hsub. pose proof (incr_from_NoDup 0 fq Hfq) as Hn.
    unfold circ_op. rewrite <- (embed_eye K n fq Hn Hq), (eye_midentity K (length fq)).
    assert (W : wf_mat (length fq) (midentity K (length fq))) by (rewrite midentity_tab2; apply tab2_wf).
    revert W. generalize (midentity K (length fq)).
    induction gs as [|g gs IH]; intros A HA; [reflexivity|]. simpl.
    rewrite <- (embed_gate_op K n fq g Hfq Hq) by (apply Hsub; left; auto).
    rewrite <- (ProofsQueue.embed_mmul K HK) by (auto using (gate_op_wf K)).
    apply IH.
    - intros g0 Hg0. apply Hsub. right; auto.
    - apply (mmul_wf K HK); auto using (gate_op_wf K).
  Qed.

  (* operator of the kept gates on n qubits = operator of the RE-INDEXED light-cone circuit (on
     |cone| qubits, qubit_map = position in sorted cone) embedded on the cone qubits *)
  Theorem kept_op_is_embedded_cone_circuit_proof c S :
    Forall (mvalid gqs) c -> (forall q, In q S -> q < n) ->
    (forall g q, In g c -> In q (gqs g) -> q < n) ->
    circ_op K n (map mg (lc_kept c S))
    = embed K n (lc_cone c S)
        (circ_op K (length (lc_cone c S)) (map (fun g => relabel (lc_cone c S) (mg g)) (lc_kept c S))).
  Proof.
    intros Hv HS Hc.
    rewrite <- (map_map mg (relabel (lc_cone c S)) (lc_kept c S)).
    apply circ_op_embedded.
    - apply ssorted_incr_from; [apply lc_cone_sorted|intros; lia].
    - intros q Hq. destruct (lc_cone_range c S q Hq) as [H|[g [H1 H2]]]; eauto.
    - intros g0 Hg0 q Hq. apply in_map_iff in Hg0. destruct Hg0 as [g [<- Hg]].
      apply (lc_kept_in_cone c S g Hg). rewrite Forall_forall in Hv.
      apply (Hv g (lc_kept_sub c S g Hg)). exact Hq.
  Qed.
End InstMat.

(* ================================================================ partial trace and operators on the kept qubits *)
Section PtraceKept.
  Context {T : Type} (K : ops T) (cj : T -> T).
  Hypothesis HK : semiring K.
  Hypothesis HC : conj_ok K cj.
  Local Notation tsum := (tsum K).
  Local Notation zero := (zero K).

  Lemma mul_zero_r c : mul K c zero = zero.
  Proof. rewrite (sr_mul_comm K HK). apply (sr_mul_0_l K HK). Qed.

  Lemma if_mul (b : bool) c y : (if b then mul K c y else zero) = mul K c (if b then y else zero).
  Proof. destruct b; auto. now rewrite mul_zero_r. Qed.

  Lemma upd_upd_same qs s s' x : upd qs s' (upd qs s x) = upd qs s' x.
  Proof.
    apply bool_list_ext; [now rewrite !upd_length|]. intros i Hi. rewrite !upd_length in Hi.
    rewrite !nth_upd by (rewrite ?upd_length; assumption).
    destruct (C01.Model.memb i qs); reflexivity.
  Qed.

  (* sum over the strings that read a on fq of F(string with s written on fq)
     = sum of F over the strings that read s on fq *)
  Lemma restrict_shift n fq (F : list bool -> T) a s :
    NoDup fq -> (forall q, In q fq -> q < n) -> length a = length fq -> length s = length fq ->
    tsum (map (fun x => if beqb (sel fq x) a then F (upd fq s x) else zero) (allbits n))
    = tsum (map (fun y => if beqb (sel fq y) s then F y else zero) (allbits n)).
  Proof.
    intros Hn Hq Ha Hs.
    transitivity (tsum (map (fun x => tsum (map (fun t =>
        (fun x t => if beqb (sel fq x) a then (if beqb s t then F (upd fq t x) else zero) else zero) x t)
        (allbits (length fq)))) (allbits n))).
    - apply tsum_map_ext. intros x _. cbv beta. destruct (beqb (sel fq x) a).
      + symmetry. apply (tsum_delta K HK (length fq) (fun t => F (upd fq t x)) s Hs).
      + symmetry. apply (tsum_zero K HK).
    - rewrite (bits_swap_sum K HK n fq _ Hn Hq). cbv beta.
      apply tsum_map_ext. intros x Hx. apply allbits_In in Hx.
      rewrite (tsum_map_ext K _ (fun t => if beqb a t then (if beqb (sel fq x) s then F x else zero) else zero)).
      + apply (tsum_delta K HK (length fq) (fun _ => if beqb (sel fq x) s then F x else zero) a Ha).
      + intros t Ht. apply allbits_In in Ht.
        rewrite sel_upd_same by (auto; intros q Hq'; rewrite Hx; auto).
        rewrite upd_upd_sel. rewrite (beqb_sym t a), (beqb_sym s (sel fq x)). reflexivity.
  Qed.

  (* Tr_rest[(V (x) 1) rho (V (x) 1)^+] = V Tr_rest[rho] V^+ : an operator embedded on exactly the kept
     qubits commutes with the partial trace over the others (no unitarity needed) *)
  Theorem reduced_embed_kept n fq V rho :
    NoDup fq -> (forall q, In q fq -> q < n) -> wf_mat (length fq) V -> wf_mat n rho ->
    reduced K n fq (sandwich K cj n (embed K n fq V) rho)
    = sandwich K cj (length fq) V (reduced K n fq rho).
  Proof.
    intros Hn Hq HV Hr.
    rewrite (wf_tab2 K n rho Hr). generalize (mentry K rho). intros g.
    change (embed K n fq V) with (cembed K n [] fq V).
    rewrite (sandwich_cembed K cj HK HC) by assumption.
    replace (sandwich K cj (length fq) V (reduced K n fq (tab2 n g)))
      with (sandwich K cj (length fq) (tab2 (length fq) (mentry K V)) (reduced K n fq (tab2 n g)))
      by (now rewrite <- (wf_tab2 K (length fq) V HV)).
    unfold reduced. rewrite (sandwich_tab2 K cj HK). apply tab2_ext. intros a a' Ha Ha'.
    set (G := fun s s' x => g (upd fq s x) (upd fq s' x)).
    set (B := fun x => beqb (sel fq x) a).
    (* left side *)
    transitivity (tsum (map (fun s => mul K (mentry K V a s)
        (tsum (map (fun s' => mul K (tsum (map (fun x => if B x then G s s' x else zero) (allbits n)))
                                   (cj (mentry K V a' s'))) (allbits (length fq))))) (allbits (length fq)))).
    - rewrite (tsum_map_ext K _ (fun x => tsum (map (fun s =>
          (fun x s => if B x then mul K (mentry K V a s)
                         (tsum (map (fun s' => mul K (cj (mentry K V a' s')) (G s s' x)) (allbits (length fq))))
                      else zero) x s) (allbits (length fq))))).
      2:{ intros x Hx. apply allbits_In in Hx. cbv beta. unfold B.
          destruct (beqb (sel fq x) a) eqn:E; [|symmetry; apply (tsum_zero K HK)].
          apply beqb_eq in E.
          rewrite (mentry_tab2 K) by (now rewrite ?upd_length).
          unfold dm_action, dm_inner. cbn [sel map all1 forallb]. cbv beta.
          apply tsum_map_ext. intros s Hs. apply allbits_In in Hs. unfold mentry. rewrite E. f_equal.
          apply tsum_map_ext. intros s' Hs'. apply allbits_In in Hs'.
          rewrite sel_upd_same by (auto; intros q Hq'; rewrite Hx; auto).
          unfold G. now rewrite upd_upd_same. }
      rewrite (tsum_swap K HK). cbv beta.
      apply tsum_map_ext. intros s _.
      rewrite (tsum_map_ext K _ (fun x => mul K (mentry K V a s)
          (if B x then tsum (map (fun s' => mul K (cj (mentry K V a' s')) (G s s' x)) (allbits (length fq))) else zero)))
        by (intros x _; apply if_mul).
      rewrite (tsum_scale_l K HK). f_equal.
      rewrite (tsum_map_ext K _ (fun x => tsum (map (fun s' =>
          (fun x s' => if B x then mul K (cj (mentry K V a' s')) (G s s' x) else zero) x s') (allbits (length fq))))).
      2:{ intros x _. cbv beta. destruct (B x); [reflexivity|symmetry; apply (tsum_zero K HK)]. }
      rewrite (tsum_swap K HK). cbv beta.
      apply tsum_map_ext. intros s' _.
      rewrite (tsum_map_ext K _ (fun x => mul K (cj (mentry K V a' s')) (if B x then G s s' x else zero)))
        by (intros x _; apply if_mul).
      rewrite (tsum_scale_l K HK). apply (sr_mul_comm K HK).
    - (* right side *)
      apply tsum_map_ext. intros s Hs. apply allbits_In in Hs. f_equal.
      apply tsum_map_ext. intros s' Hs'. apply allbits_In in Hs'. f_equal.
      unfold B, G.
      rewrite (tsum_map_ext K _ (fun x => if beqb (sel fq x) a
                                          then (fun y => g y (upd fq s' y)) (upd fq s x) else zero))
        by (intros x _; cbv beta; now rewrite upd_upd_same).
      rewrite (restrict_shift n fq (fun y => g y (upd fq s' y)) a s Hn Hq Ha Hs).
      apply tsum_map_ext. intros y Hy. apply allbits_In in Hy.
      rewrite (mentry_tab2 K) by (now rewrite ?upd_length). reflexivity.
  Qed.

  (* partial traces compose: tracing down to fq and then, inside fq, down to S (given by positions in
     fq) is tracing down to S; S in any order, fq increasing *)
  Lemma sel_sel fq S y : (forall q, In q S -> In q fq) ->
    sel (map (fun q => C01.Model.index_of q fq) S) (sel fq y) = sel S y.
  Proof.
    intros HS. unfold sel at 1 3. rewrite map_map. apply map_ext_in. intros q Hq.
    rewrite nth_sel by (apply index_of_lt; auto). now rewrite nth_index_of by auto.
  Qed.

  Lemma upd_upd_sub n fq S a' y : incr_from 0 fq -> (forall q, In q fq -> q < n) ->
    (forall q, In q S -> In q fq) -> length y = n ->
    upd fq (upd (map (fun q => C01.Model.index_of q fq) S) a' (sel fq y)) y = upd S a' y.
  Proof.
    intros Hfq Hq HS Hy.
    apply bool_list_ext; [now rewrite !upd_length|]. intros i Hi. rewrite upd_length in Hi.
    rewrite (nth_upd S a' y i Hi), (nth_upd fq _ y i Hi).
    destruct (C01.Model.memb i fq) eqn:Mi.
    - apply C01.Lib.memb_In in Mi.
      rewrite nth_upd by (rewrite sel_length; apply index_of_lt; auto).
      rewrite (memb_map_phi fq i S Mi HS), (index_of_map_phi fq i S Mi HS).
      destruct (C01.Model.memb i S); [reflexivity|].
      rewrite nth_sel by (apply index_of_lt; auto). now rewrite nth_index_of by auto.
    - apply C01.Lib.memb_false in Mi.
      destruct (C01.Model.memb i S) eqn:Ms; [|reflexivity].
      apply C01.Lib.memb_In in Ms. exfalso. auto.
  Qed.

  Theorem reduced_reduced n fq S rho :
    incr_from 0 fq -> (forall q, In q fq -> q < n) -> (forall q, In q S -> In q fq) -> wf_mat n rho ->
    reduced K (length fq) (map (fun q => C01.Model.index_of q fq) S) (reduced K n fq rho)
    = reduced K n S rho.
  Proof.
    intros Hfq Hq HS Hr.
    rewrite (wf_tab2 K n rho Hr). generalize (mentry K rho). intros g.
    unfold reduced at 1 3. rewrite map_length. apply tab2_ext. intros a a' Ha Ha'.
    set (S' := map (fun q => C01.Model.index_of q fq) S).
    rewrite (tsum_map_ext K _ (fun b => tsum (map (fun y =>
        (fun b y => if beqb (sel fq y) b
                    then (if beqb (sel S' b) a then g y (upd fq (upd S' a' b) y) else zero)
                    else zero) b y) (allbits n)))).
    2:{ intros b Hb. apply allbits_In in Hb. cbv beta.
        destruct (beqb (sel S' b) a).
        - unfold reduced. rewrite (mentry_tab2 K) by (now rewrite ?upd_length).
          apply tsum_map_ext. intros y Hy. apply allbits_In in Hy.
          destruct (beqb (sel fq y) b); [|reflexivity].
          rewrite (mentry_tab2 K) by (now rewrite ?upd_length). reflexivity.
        - symmetry. rewrite (tsum_map_ext K _ (fun _ => zero)); [apply (tsum_zero K HK)|].
          intros y _. destruct (beqb (sel fq y) b); reflexivity. }
    rewrite (tsum_swap K HK). cbv beta.
    apply tsum_map_ext. intros y Hy. apply allbits_In in Hy.
    rewrite (tsum_delta K HK (length fq)
               (fun b => if beqb (sel S' b) a then g y (upd fq (upd S' a' b) y) else zero)
               (sel fq y) (sel_length fq y)).
    unfold S'. rewrite (sel_sel fq S y HS).
    destruct (beqb (sel S y) a); [|reflexivity].
    rewrite (mentry_tab2 K) by (now rewrite ?upd_length).
    now rewrite (upd_upd_sub n fq S a' y Hfq Hq HS Hy).
  Qed.
End PtraceKept.

(* ================================================================ the light-cone circuit as returned (re-indexed) *)
Section LightConeReindexed.
  Context {T : Type} (K : ops T) (cj : T -> T).
  Hypothesis HK : semiring K.
  Hypothesis HC : conj_ok K cj.
  Variable n : nat.
  Variable mg : Trace.gate -> C01.Model.gate (T:=T).

  Lemma trun_dact_circ l : forall U rho, wf_mat n U -> wf_mat n rho ->
    trun (dact K cj n mg) l (sandwich K cj n U rho)
    = sandwich K cj n (fold_left (fun U g => mmul K (gate_op K n g) U) (map mg l) U) rho.
  Proof.
    induction l as [|g l IH]; intros U rho HU Hr; [reflexivity|]. simpl. unfold dact at 2.
    rewrite <- (sandwich_mmul K cj HK HC n) by (auto using (gate_op_wf K)).
    apply IH; auto. apply (mmul_wf K HK); auto using (gate_op_wf K).
  Qed.

  Lemma trun_dact_circ_op l rho : wf_mat n rho ->
    trun (dact K cj n mg) l rho = sandwich K cj n (circ_op K n (map mg l)) rho.
  Proof.
    intros Hr. unfold circ_op. rewrite <- trun_dact_circ; auto using (midentity_wf K).
    now rewrite (sandwich_identity K cj HK HC).
  Qed.

  (* cone = sorted final qubit set, kept' = the gates of the circuit Circuit.light_cone returns
     (every kept gate re-indexed by qubit_map[q] = position of q in sorted(cone)), S' = the
     requested qubits re-indexed the same way (any order, as given).  The reduced state on S' of
     the returned |cone|-qubit circuit, started from the reduced initial state on the cone,
     equals the reduced state on S of the full n-qubit circuit. *)
  Theorem light_cone_reindexed_proof c S rho :
    Forall (mvalid n mg gqs) c ->
    (forall g, In g (lc_dropped c S) -> embeds_unitary K cj n mg g) ->
    (forall q, In q S -> q < n) -> (forall g q, In g c -> In q (gqs g) -> q < n) -> wf_mat n rho ->
    let cone := lc_cone c S in
    let kept' := map (fun g => relabel cone (mg g)) (lc_kept c S) in
    let S' := map (fun q => C01.Model.index_of q cone) S in
    reduced K n S (trun (dact K cj n mg) c rho)
    = reduced K (length cone) S' (sandwich K cj (length cone) (circ_op K (length cone) kept') (reduced K n cone rho)).
  Proof.
    intros Hv Hu HS Hc Hr cone kept' S'.
    assert (Hcone : incr_from 0 cone) by (apply ssorted_incr_from; [apply lc_cone_sorted|intros; lia]).
    assert (Hrange : forall q, In q cone -> q < n).
    { intros q Hq. destruct (lc_cone_range c S q Hq) as [H|[g [H1 H2]]]; eauto. }
    rewrite (light_cone_reduced_matrices_proof K cj HK n mg HC c S rho Hv Hu HS Hr).
    rewrite trun_dact_circ_op by assumption.
    rewrite (kept_op_is_embedded_cone_circuit_proof K HK n mg c S Hv HS Hc).
    fold cone. fold kept'.
    assert (HV : wf_mat (length cone) (circ_op K (length cone) kept')) by apply (circ_op_wf K HK).
    rewrite <- (reduced_embed_kept K cj HK HC n cone _ rho (incr_from_NoDup 0 cone Hcone) Hrange HV Hr).
    unfold S'. rewrite (reduced_reduced K HK n cone S); auto.
    - intros q Hq. apply (lc_cone_S c S q Hq).
    - apply (sandwich_wf K cj HK); auto. apply (embed_wf K).
  Qed.
End LightConeReindexed.

(* ================================================================ dropped gates in controlled_by form *)
(* Base/SemCtrl.v: cembed n cs ts M = embed n (cs ++ ts) (ctrl_mat |cs| M) with ctrl_mat |cs| M =
   diag(1, ..., 1, M), an isometry whenever M is.  Hence a gate in controlled_by form (C01: ctrl = true,
   operator cembed) with an isometric matrix is an embedded isometry on controls ++ targets, and the
   light-cone theorems above hold with the premise on the dropped gates reduced to "the gate's own
   matrix is an isometry", whatever the form of the gate. *)
From QV Require Import Base.SemCtrl.

Section LightConeCtrl.
  Context {T : Type} (K : ops T) (cj : T -> T).
  Hypothesis HK : semiring K.
  Hypothesis HC : conj_ok K cj.
  Variable n : nat.
  Variable mg : Trace.gate -> C01.Model.gate (T:=T).

  Lemma ctrl_gate_embeds_unitary g cs ts M :
    mg g = (true, cs, ts, M) -> gate_wf n (mg g) ->
    wf_mat (length ts) M -> mmul K (madj K cj (length ts) M) M = eye K (2 ^ length ts) ->
    embeds_unitary K cj n mg g.
  Proof.
    intros E Hw HM HU. rewrite E in Hw. destruct Hw as [Hc [Ht [Hlt Hd]]].
    assert (Hn : NoDup (cs ++ ts)).
    { apply NoDup_app_intro; auto. intros x Hx Hx'. exact (Hd x Hx' Hx). }
    destruct (cembed_is_embedded_isometry K HK cj (cj_zero K cj HC) (cj_one K cj HC) n cs ts M Hn Hlt HM HU)
      as [Eq [W I]].
    exists (cs ++ ts), (ctrl_mat K (length cs) M). rewrite E. simpl.
    split; [exact Eq|]. split; [exact Hn|]. split; [exact Hlt|]. split; [auto|]. split; [exact W|exact I].
  Qed.

  (* the gate's own matrix (2^|targets| for controlled_by form, 2^|qubits| otherwise) is well shaped and
     an isometry; same predicate as C05/InstMat.gate_unitary *)
  Definition gate_isometry (g : C01.Model.gate (T:=T)) : Prop :=
    let '(ctrl, cs, ts, M) := g in
    let k := if ctrl then length ts else length (cs ++ ts) in
    wf_mat k M /\ mmul K (madj K cj k M) M = eye K (2 ^ k).

  Lemma isometry_gate_embeds_unitary g : gate_wf n (mg g) -> gate_isometry (mg g) -> embeds_unitary K cj n mg g.
  Proof.
    intros Hw Hi. destruct (mg g) as [[[ctrl cs] ts] M] eqn:E. destruct ctrl; destruct Hi as [HM HU].
    - apply (ctrl_gate_embeds_unitary g cs ts M); auto. now rewrite E.
    - assert (L : length (isort cs ++ ts) = length (cs ++ ts)) by (now rewrite !app_length, isort_length).
      apply (plain_gate_embeds_unitary K cj n mg g cs ts M); rewrite ?L; auto. now rewrite E.
  Qed.

  Lemma lc_dropped_sub c S g : In g (lc_dropped c S) -> In g c.
  Proof.
    intros Hg. eapply Permutation_in; [apply Permutation_sym, (lc_partition c S)|].
    apply in_app_iff. now right.
  Qed.

  Lemma dropped_isometries_embed c S :
    Forall (mvalid n mg gqs) c -> (forall g, In g (lc_dropped c S) -> gate_isometry (mg g)) ->
    forall g, In g (lc_dropped c S) -> embeds_unitary K cj n mg g.
  Proof.
    intros Hv Hu g Hg. apply isometry_gate_embeds_unitary; auto.
    rewrite Forall_forall in Hv. destruct (Hv g (lc_dropped_sub c S g Hg)) as [Hw _]. exact Hw.
  Qed.

  Theorem light_cone_reduced_ctrl_proof c S rho :
    Forall (mvalid n mg gqs) c ->
    (forall g, In g (lc_dropped c S) -> gate_isometry (mg g)) ->
    (forall q, In q S -> q < n) -> wf_mat n rho ->
    reduced K n S (trun (dact K cj n mg) c rho) = reduced K n S (trun (dact K cj n mg) (lc_kept c S) rho).
  Proof.
    intros Hv Hu. apply (light_cone_reduced_matrices_proof K cj HK n mg HC c S rho Hv).
    now apply dropped_isometries_embed.
  Qed.

  Theorem light_cone_reindexed_ctrl_proof c S rho :
    Forall (mvalid n mg gqs) c ->
    (forall g, In g (lc_dropped c S) -> gate_isometry (mg g)) ->
    (forall q, In q S -> q < n) -> (forall g q, In g c -> In q (gqs g) -> q < n) -> wf_mat n rho ->
    let cone := lc_cone c S in
    let kept' := map (fun g => relabel cone (mg g)) (lc_kept c S) in
    let S' := map (fun q => C01.Model.index_of q cone) S in
    reduced K n S (trun (dact K cj n mg) c rho)
    = reduced K (length cone) S' (sandwich K cj (length cone) (circ_op K (length cone) kept') (reduced K n cone rho)).
  Proof.
    intros Hv Hu. apply (light_cone_reindexed_proof K cj HK HC n mg c S rho Hv).
    now apply dropped_isometries_embed.
  Qed.
End LightConeCtrl.
