(* C07/InstMat.v : the trace-level theorems of C07 instantiated with the concrete matrix semantics
   of C01/Spec.v (gate_op = Base/Mat.embed / cembed, circ_op = ordered product, sandwich = U rho U^+,
   Base/SemPtrace.reduced = partial trace), over any commutative semiring, using the matrix facts
   proved in Base/Sem*.v by builder-c01c02:
     gate_op_disjoint_commute  (gates with disjoint qubit supports commute)
     ptrace_ignores_outside    (an isometry outside `keep` does not change the reduced matrix).
   [mg] assigns to every abstract letter (identity, qubits, kind) of Base/Trace.v the matrix gate
   (C01/Model.gate) it stands for; a letter is valid if that gate is well formed for n qubits and
   acts only on the letter's support.  No commutation or partial-trace premise is left.        *)
From Coq Require Import List Bool Arith Lia Permutation.
From QV Require Import Base.Mat C01.Model C01.Spec C01.Lib C01.ProofsMat C01.ProofsRun C01.ProofsDM
  C01.ProofsRunDM C01.ProofsQueue C01.ProofsSV C01.ProofsCtrl Base.Sem Base.SemPtrace Base.SemProps.
From QV Require Import Base.Trace C07.Model C07.Proofs C07.ProofsFuse.
Import ListNotations.

Lemma fold_left_map' {X Y Z} (f : Z -> Y -> Z) (g : X -> Y) l a :
  fold_left f (map g l) a = fold_left (fun a x => f a (g x)) l a.
Proof. revert a. induction l as [|x l IH]; intros a; simpl; auto. Qed.

Section InstMat.
  Context {T : Type} (K : ops T) (cj : T -> T).
  Hypothesis HK : semiring K.
  Variable n : nat.
  Variable mg : Trace.gate -> C01.Model.gate (T:=T).

  (* validity of a letter relative to a support function (gsupp n for fusion, gqs for light cone) *)
  Definition mvalid (supp : Trace.gate -> list nat) (g : Trace.gate) : Prop :=
    gate_wf n (mg g) /\ forall q, In q (gate_qubits (mg g)) -> In q (supp g).

  Lemma mvalid_disjoint supp a b : mvalid supp a -> mvalid supp b -> sindep supp a b = true ->
    disjoint (gate_qubits (mg a)) (gate_qubits (mg b)).
  Proof.
    intros [_ Ha] [_ Hb] Hi q Hqa Hqb. unfold sindep in Hi. rewrite disjointb_spec in Hi.
    apply (Hi q); auto.
  Qed.

  Lemma midentity_wf : wf_mat n (midentity K n).
  Proof. rewrite midentity_tab2. apply tab2_wf. Qed.

  (* ---------------------------------------------------------------- unitaries / state vectors *)
  Definition uact (g : Trace.gate) (U : mat T) : mat T := mmul K (gate_op K n (mg g)) U.

  Lemma circ_op_trun l : circ_op K n (map mg l) = trun uact l (midentity K n).
  Proof. unfold circ_op, trun. apply fold_left_map'. Qed.

  Lemma uact_wf a s : wf_mat n s -> wf_mat n (uact a s).
  Proof. intros Hs. apply (mmul_wf K HK); auto. apply gate_op_wf. Qed.

  Lemma uact_comm supp a b s : mvalid supp a -> mvalid supp b -> wf_mat n s ->
    sindep supp a b = true -> uact a (uact b s) = uact b (uact a s).
  Proof.
    intros Ha Hb Hs Hi. unfold uact.
    rewrite <- !(mmul_assoc K HK n) by (auto using (gate_op_wf K)).
    f_equal. apply (gate_op_disjoint_commute T K HK); [apply Ha|apply Hb|].
    eapply mvalid_disjoint; eauto.
  Qed.

  Theorem circ_op_respects supp l1 l2 :
    teq (sindep supp) l1 l2 -> Forall (mvalid supp) l1 ->
    circ_op K n (map mg l1) = circ_op K n (map mg l2).
  Proof.
    intros Ht Hv. rewrite !circ_op_trun.
    apply (run_respects_on (sindep supp) (sindep_sym supp) uact (mvalid supp) (wf_mat n)); auto.
    - intros a s _ Hs. apply uact_wf; auto.
    - intros a b s Ha Hb Hs Hi. apply (uact_comm supp); auto.
    - apply midentity_wf.
  Qed.

  Theorem fuse_equiv_matrices_proof c k :
    Forall (mvalid (gsupp n)) c ->
    circ_op K n (map mg (flatten (fuse_model n c k))) = circ_op K n (map mg c).
  Proof.
    intros Hv. pose proof (fuse_equiv_proof n c k) as Ht.
    apply (circ_op_respects (gsupp n)); auto.
    eapply Permutation_Forall; [|exact Hv]. apply Permutation_sym. apply (teq_perm _ _ _ Ht).
  Qed.

  (* ---------------------------------------------------------------- density matrices, light cone *)
  Hypothesis HC : conj_ok K cj.

  Definition dact (g : Trace.gate) (rho : mat T) : mat T := sandwich K cj n (gate_op K n (mg g)) rho.

  Lemma dact_wf a s : wf_mat n s -> wf_mat n (dact a s).
  Proof. intros Hs. apply (sandwich_wf K cj HK); auto. apply gate_op_wf. Qed.

  Lemma dact_comm supp a b s : mvalid supp a -> mvalid supp b -> wf_mat n s ->
    sindep supp a b = true -> dact a (dact b s) = dact b (dact a s).
  Proof.
    intros Ha Hb Hs Hi. unfold dact.
    rewrite <- !(sandwich_mmul K cj HK HC n) by (auto using (gate_op_wf K)).
    f_equal. apply (gate_op_disjoint_commute T K HK); [apply Ha|apply Hb|].
    eapply mvalid_disjoint; eauto.
  Qed.

  (* the operator of the letter is an isometry U (U^+ U = 1) embedded on qubits of the gate *)
  Definition embeds_unitary (g : Trace.gate) : Prop :=
    exists qs U, gate_op K n (mg g) = embed K n qs U /\ NoDup qs /\ (forall q, In q qs -> q < n)
      /\ (forall q, In q qs -> In q (gate_qubits (mg g)))
      /\ wf_mat (length qs) U /\ mmul K (madj K cj (length qs) U) U = eye K (2 ^ length qs).

  (* every gate that is not in `controlled_by` form (C01: ctrl = false; its matrix M is the full
     matrix on gate.qubits = sorted controls ++ targets) is of this kind when M is unitary *)
  Lemma plain_gate_embeds_unitary g cs ts M :
    mg g = (false, cs, ts, M) -> gate_wf n (mg g) ->
    wf_mat (length (isort cs ++ ts)) M ->
    mmul K (madj K cj (length (isort cs ++ ts)) M) M = eye K (2 ^ length (isort cs ++ ts)) ->
    embeds_unitary g.
  Proof.
    intros E Hw HM HU. exists (isort cs ++ ts), M. rewrite E in *. simpl.
    destruct Hw as [Hc [Ht [Hlt Hd]]]. repeat split; auto.
    - apply NoDup_app_intro; [apply (incr_from_NoDup 0), isort_incr; assumption|assumption|].
      intros x Hx Hx'. apply (proj1 (isort_In _ _)) in Hx. exact (Hd x Hx' Hx).
    - intros q Hq. apply Hlt. rewrite in_app_iff in *. rewrite isort_In in Hq. exact Hq.
    - intros q Hq. rewrite in_app_iff in *. rewrite isort_In in Hq. exact Hq.
    - apply HM.
    - apply HM.
  Qed.

  Lemma reduced_dropped S l rho :
    (forall q, In q S -> q < n) -> wf_mat n rho ->
    (forall g, In g l -> mvalid gqs g /\ embeds_unitary g /\ disjointb (gqs g) S = true) ->
    reduced K n S (trun dact l rho) = reduced K n S rho.
  Proof.
    intros HS. revert rho. induction l as [|g l IH]; intros rho Hr H; simpl; auto.
    rewrite IH; [|apply dact_wf; auto|intros; apply H; right; auto].
    destruct (H g (or_introl eq_refl)) as [[Hw Hsup] [[qs [U [E [Hn [Hlt [Hin [HU Hun]]]]]]] Hd]].
    unfold dact. rewrite E.
    apply (ptrace_ignores_outside T K cj HK HC); auto.
    intros q Hq Hk. rewrite disjointb_spec in Hd. apply (Hd q); auto.
  Qed.

  Theorem light_cone_reduced_matrices_proof c S rho :
    Forall (mvalid gqs) c ->
    (forall g, In g (lc_dropped c S) -> embeds_unitary g) ->
    (forall q, In q S -> q < n) -> wf_mat n rho ->
    reduced K n S (trun dact c rho) = reduced K n S (trun dact (lc_kept c S) rho).
  Proof.
    intros Hv Hu HS Hr.
    rewrite (run_respects_on gindep (sindep_sym gqs) dact (mvalid gqs) (wf_mat n)
               (fun a s _ Hs => dact_wf a s Hs)
               (fun a b s Ha Hb Hs Hi => dact_comm gqs a b s Ha Hb Hs Hi)
               _ _ (lc_equiv c S) Hv rho Hr).
    rewrite trun_app.
    assert (Forall (mvalid gqs) (lc_kept c S ++ lc_dropped c S)) as Hv2.
    { eapply Permutation_Forall; [apply lc_partition|exact Hv]. }
    apply Forall_app in Hv2. destruct Hv2 as [Hk Hd]. rewrite Forall_forall in Hd.
    apply reduced_dropped; auto.
    - apply (trun_P dact (mvalid gqs) (wf_mat n) (fun a s _ Hs => dact_wf a s Hs)); auto.
    - intros g Hg. split; [apply Hd; auto|]. split; [apply Hu; auto|].
      apply (lc_dropped_off_S c S g Hg).
  Qed.
End InstMat.
