(* C07/Props.v : the statements proved for property C07 (fusion and light cone preserve meaning).
   Every theorem is about the executable model of C07/Model.v, for ALL circuits over the abstract
   alphabet (identity, qubits, kind), all numbers of qubits and all fusion widths.
   [gteqn n] is trace equivalence where gates with disjoint supports commute and a special gate
   (callback) has all n qubits as support; [gteq] uses the plain qubit lists.            *)
From Coq Require Import List Bool Arith Lia ZArith.
From QV Require Import Base.Mat Base.Zi C01.Model C01.Spec C01.Lib C01.ProofsCtrl C01.ProofsMat C01.ProofsRun C01.ProofsDM
  C01.ProofsFused C01.ProofsQueue C01.Examples Base.Sem Base.SemPtrace Base.SemExamples.
From QV Require Import Base.Trace C07.Model C07.Proofs C07.ProofsFuse C07.InstMat.
Import ListNotations.

(* ---- Base/Trace ---- *)
Theorem trace_checker_sound n c1 c2 : gtrace_equivn_b n c1 c2 = true -> gteqn n c1 c2.
Proof. exact (gtrace_equivn_b_sound n c1 c2). Qed.
Print Assumptions trace_checker_sound.

(* the checker is also complete: [false] proves that the two words are NOT equivalent *)
Theorem trace_checker_decides n c1 c2 : gtrace_equivn_b n c1 c2 = true <-> gteqn n c1 c2.
Proof. exact (gtrace_equivn_b_iff n c1 c2). Qed.
Print Assumptions trace_checker_decides.

(* equivalent words have equal products in EVERY monoid interpretation in which independent
   letters commute (unitaries, channels, measurements, callbacks as opaque letters) *)
Theorem trace_sem_respects :
  forall (A : Type) (indep : A -> A -> bool) (M : Type) (op : M -> M -> M) (e : M),
    (forall x y z, op x (op y z) = op (op x y) z) ->
    forall f : A -> M,
    (forall a b, indep a b = true -> op (f a) (f b) = op (f b) (f a)) ->
    forall l1 l2, teq indep l1 l2 -> tprod op e f l1 = tprod op e f l2.
Proof. intros A indep M op e Ha f Hc l1 l2. exact (sem_respects indep op e Ha f Hc l1 l2). Qed.
Print Assumptions trace_sem_respects.

(* ---- fusion ---- *)
Theorem fuse_equiv : forall (n : nat) (c : list gate) (max_qubits : nat),
  gteqn n (flatten (fuse_model n c max_qubits)) c.
Proof. exact fuse_equiv_proof. Qed.
Print Assumptions fuse_equiv.

(* hence the fused circuit maps every initial state to the same final state, for every
   interpretation of the gates as state transformers in which disjoint gates commute *)
Theorem fuse_same_final_state :
  forall (St : Type) (act : gate -> St -> St) (n : nat),
    (forall a b s, gindepn n a b = true -> act a (act b s) = act b (act a s)) ->
    forall c max_qubits s, trun act (flatten (fuse_model n c max_qubits)) s = trun act c s.
Proof.
  intros St act n Hc c k s.
  exact (run_respects (gindepn n) (sindep_sym (gsupp n)) act Hc _ _ (fuse_equiv n c k) s).
Qed.
Print Assumptions fuse_same_final_state.

Example fuse_example :
  map item_sig (fuse_model 3 [mkGate 0 [0] KOrd; mkGate 1 [0;1] KOrd; mkGate 2 [1;2] KOrd;
                               mkGate 3 [1] KMeas; mkGate 4 [0;1] KOrd; mkGate 5 [2] KOrd] 2)
  = [(true, [0;1], [0;1]); (true, [1;2], [2;5]); (false, [], [3]); (false, [], [4])].
Proof. vm_compute. reflexivity. Qed.

(* measurements and special gates are never absorbed, never reordered among themselves, and
   the members of a fused group are ordinary gates *)
Theorem fuse_keeps_measurements : forall (n : nat) (c : list gate) (max_qubits : nat),
  filter nonord (flatten (fuse_model n c max_qubits)) = filter nonord c
  /\ (forall g, In g c -> is_ord g = false -> In (ISingle g) (fuse_model n c max_qubits))
  /\ (forall qs gs g, In (IGroup qs gs) (fuse_model n c max_qubits) -> In g gs -> is_ord g = true).
Proof.
  intros n c k. split; [apply fuse_nonord_proof|]. split.
  - intros g. apply fuse_single_proof.
  - intros qs gs g H Hg. destruct (fuse_groups_proof n c k qs gs H) as [Hall _]. apply Hall; auto.
Qed.
Print Assumptions fuse_keeps_measurements.

(* Fusion never moves a gate across another one that shares a qubit with it -- whatever the two
   letters are (unitaries, measurements incl. collapsing ones, noise channels, callback gates = all
   qubits): the two keep their relative order (and multiplicities) in the fused circuit.
   Holds for every circuit, width and pair; no hypothesis on the kinds. *)
Theorem fuse_never_crosses_shared_qubit : forall (n : nat) (c : list gate) (max_qubits : nat) (a b : gate),
  gindepn n a b = false ->
  filter (fun x => gate_eqb x a || gate_eqb x b) (flatten (fuse_model n c max_qubits))
  = filter (fun x => gate_eqb x a || gate_eqb x b) c.
Proof.
  intros n c k a b Hab.
  apply (teq_filter_dep (gindepn n) (fun x => gate_eqb x a || gate_eqb x b)); [|apply fuse_equiv].
  intros x y Hx Hy Hi. apply orb_true_iff in Hx. apply orb_true_iff in Hy.
  destruct Hx as [Hx|Hx]; apply gate_eqb_eq in Hx; destruct Hy as [Hy|Hy]; apply gate_eqb_eq in Hy;
    subst; auto; exfalso.
  - congruence.
  - unfold gindepn in *. rewrite sindep_sym in Hi. congruence.
Qed.
Print Assumptions fuse_never_crosses_shared_qubit.

(* every fused group acts on at most max_qubits (distinct) qubits, contains its members' qubits,
   and has at least two members *)
Theorem fuse_width : forall (n : nat) (c : list gate) (max_qubits : nat) qs gs,
  In (IGroup qs gs) (fuse_model n c max_qubits) ->
  length qs <= max_qubits /\ NoDup qs /\ 2 <= length gs /\ (forall g, In g gs -> incl (gqs g) qs).
Proof.
  intros n c k qs gs H. destruct (fuse_groups_proof n c k qs gs H) as [Hall [Hk [Hnd Hl]]].
  repeat split; auto. intros g Hg. apply Hall; auto.
Qed.
Print Assumptions fuse_width.

(* A FusedGate of the INPUT circuit is the special letter (id, qubits, KSpec): it is kept as its
   own item, never absorbed, never reordered with respect to anything (its support is all n
   qubits in gteqn), so re-fusing a fused circuit is covered by fuse_equiv. *)
Theorem fuse_keeps_fused_inputs : forall (n : nat) (c : list gate) (max_qubits : nat) (g : gate),
  In g c -> gk g = KSpec ->
  In (ISingle g) (fuse_model n c max_qubits)
  /\ (forall h q, In q (gsupp n h) -> q < n -> gindepn n g h = false).
Proof.
  intros n c k g Hg Hk. split.
  - apply fuse_single_proof; auto. unfold is_ord. now rewrite Hk.
  - intros h q Hq Hlt. unfold gindepn, sindep. apply disjointb_false. exists q. split; auto.
    unfold gsupp. rewrite Hk. apply in_seq. lia.
Qed.
Print Assumptions fuse_keeps_fused_inputs.

(* The guard `between_gates == {child}` of FusedGate.fuse never rejects: in every state reachable by
   the fusion loop ([Inv] holds there: ProofsFuse.fuse_loop_inv, to_fused_inv), for a gate l and
   its neighbour r on some qubit q (the only way Circuit.fuse calls fuse), whichever branch the
   abort test selects has its between-test true.  (So deleting the guard is an equivalent
   mutant; the harness indeed cannot and need not detect it.) *)
Theorem between_guard_redundant : forall n k c0 st l r q,
  Inv n k c0 st ->
  nmarked (getn st l) = false -> nmarked (getn st r) = false ->
  rt st l q = Some r \/ lf st r q = Some l ->
  let shared := sinter (nqs (getn st l)) (nqs (getn st r)) in
  l < r
  /\ (others (nleft (getn st r)) l = [] -> between_ok (nright (getn st l)) shared r = true)
  /\ (others (nright (getn st l)) r = [] -> between_ok (nleft (getn st r)) shared l = true).
Proof. exact between_guard_redundant_proof. Qed.
Print Assumptions between_guard_redundant.

Theorem fusion_states_satisfy_Inv : forall n k c, Inv n k c (to_fused n c) /\
  (forall st i q, Inv n k c st -> Inv n k c (visit_q k i st q)).
Proof. intros n k c. split; [apply to_fused_inv | intros; apply visit_q_inv; auto]. Qed.
Print Assumptions fusion_states_satisfy_Inv.

(* For the record: BEFORE the repair of FusedGate.from_gate the node built for an input FusedGate
   held its (ordinary) members and was dropped by from_fused -- the defect found by this check. *)
Lemma prefix_fused_input_was_dropped :
  exists (n : nat) (members : list gate),
    members <> [] /\ (forall g, In g members -> is_ord g = true)
    /\ from_fused [prefix_node_of_fused_input n members] = [].
Proof.
  exists 2, [mkGate 0 [0] KOrd; mkGate 1 [0;1] KOrd]. split; [discriminate|]. split.
  - intros g [<-|[<-|[]]]; reflexivity.
  - reflexivity.
Qed.

(* ---- light cone ---- *)
(* kept = the gates of the light-cone circuit (before re-indexing), cone = the final qubit set *)
Theorem light_cone_ok : forall (c : list gate) (S : list nat),
  let cone := fst (lc_sweep c S) in
  let kept := snd (lc_sweep c S) in
  let dropped := lc_dropped c S in
  gteq c (kept ++ dropped)
  /\ (forall g, In g dropped -> disjointb (gqs g) S = true)
  /\ (forall g, In g kept -> incl (gqs g) cone)
  /\ incl S cone.
Proof.
  intros c S. repeat split.
  - apply lc_equiv.
  - apply lc_dropped_off_S.
  - apply lc_kept_in_cone.
  - apply lc_cone_S.
Qed.
Print Assumptions light_cone_ok.

Example light_cone_example :
  light_cone_model [mkGate 0 [0;1] KOrd; mkGate 1 [2] KOrd; mkGate 2 [3;1] KOrd; mkGate 3 [3] KOrd] [1]
  = (3, [0;1;3], [(0, Some [0;1]); (2, Some [2;1])]).
Proof. vm_compute. reflexivity. Qed.

(* the re-indexing map q |-> position of q in sorted(cone) is defined on the cone, lands in
   [0, |cone|), is strictly increasing (hence injective), and maps every kept gate *)
Theorem light_cone_reindex : forall (c : list gate) (S : list nat),
  let cone := fst (lc_sweep c S) in
  (forall q, In q cone -> exists i, lc_map cone q = Some i /\ i < length cone /\ nth i cone 0 = q)
  /\ (forall q1 q2 i1 i2, lc_map cone q1 = Some i1 -> lc_map cone q2 = Some i2 -> q1 < q2 -> i1 < i2)
  /\ (forall q1 q2 i, lc_map cone q1 = Some i -> lc_map cone q2 = Some i -> q1 = q2)
  /\ (forall g, In g (snd (lc_sweep c S)) ->
        exists r, map_qubits cone (gqs g) = Some r /\ length r = length (gqs g)).
Proof.
  intros c S. repeat split.
  - intros q Hq. destruct (index_of_In q _ Hq) as [i Hi]. exists i. split; auto.
    apply index_of_Some; auto.
  - apply index_of_mono. apply (lc_cone_sorted c S).
  - intros q1 q2 i H1 H2. apply index_of_Some in H1, H2. destruct H1, H2. congruence.
  - intros g Hg. apply map_qubits_Some. apply (lc_kept_in_cone c S g Hg).
Qed.
Print Assumptions light_cone_reindex.

(* consequence for the reduced state: for every interpretation of gates as state transformers
   in which disjoint gates commute, and every observation [obs] (= reduced state on S) that is
   not changed by a gate acting outside S, the full circuit and the kept gates give the same
   observation.  The premise [obs_outside] is the partial-trace identity
   Tr_{S^c}[(1 (x) D) rho (1 (x) D)^+] = Tr_{S^c} rho ; it is NOT proved here (it is a fact about
   matrices, and holds only for trace-preserving operations D). *)
Theorem light_cone_reduced_state :
  forall (St Obs : Type) (act : gate -> St -> St) (obs : St -> Obs) (S : list nat),
    (forall a b s, gindep a b = true -> act a (act b s) = act b (act a s)) ->
    (forall g s, disjointb (gqs g) S = true -> obs (act g s) = obs s) ->
    forall c s, obs (trun act c s) = obs (trun act (snd (lc_sweep c S)) s).
Proof. intros St Obs act obs S H1 H2 c s. exact (light_cone_obs act obs S H1 H2 c s). Qed.
Print Assumptions light_cone_reduced_state.

(* meaning of the per-instance certificate evaluated by the harness on implementation outputs *)
Theorem light_cone_certificate_sound : forall c S cone kept_ids,
  lc_cert_b c S cone kept_ids = true ->
  let kept := map (gate_of c) kept_ids in
  let dropped := filter (fun g => negb (memb (gid g) kept_ids)) c in
  gteq c (kept ++ dropped)
  /\ (forall g, In g dropped -> disjointb (gqs g) S = true)
  /\ (forall g, In g kept -> incl (gqs g) cone)
  /\ incl S cone.
Proof. exact lc_cert_sound. Qed.
Print Assumptions light_cone_certificate_sound.

(* ================================================================ matrix semantics (C07/InstMat.v) *)
(* [mg] gives every abstract letter its matrix gate (C01/Model.gate); [mvalid K n mg supp g] = that
   gate is well formed on n qubits (duplicate-free, in range, targets not among controls) and acts
   only on qubits of supp g.  circ_op = ordered product of the gate operators (C01/Spec.v).
   No commutation premise: it is Base/SemProps.gate_op_disjoint_commute. *)
Theorem fuse_equiv_matrices :
  forall (T : Type) (K : ops T), semiring K ->
  forall (n : nat) (mg : Trace.gate -> C01.Model.gate (T:=T)) (c : list Trace.gate) (max_qubits : nat),
    Forall (mvalid n mg (gsupp n)) c ->
    circ_op K n (map mg (flatten (fuse_model n c max_qubits))) = circ_op K n (map mg c).
Proof. intros T K HK n mg c k. exact (fuse_equiv_matrices_proof K HK n mg c k). Qed.
Print Assumptions fuse_equiv_matrices.

(* hence equal final state vectors for every initial state *)
Theorem fuse_equiv_states :
  forall (T : Type) (K : ops T), semiring K ->
  forall (n : nat) (mg : Trace.gate -> C01.Model.gate (T:=T)) (c : list Trace.gate) (max_qubits : nat) (psi : vec T),
    Forall (mvalid n mg (gsupp n)) c ->
    mvmul K (circ_op K n (map mg (flatten (fuse_model n c max_qubits)))) psi = mvmul K (circ_op K n (map mg c)) psi.
Proof. intros T K HK n mg c k psi H. now rewrite (fuse_equiv_matrices T K HK n mg c k H). Qed.
Print Assumptions fuse_equiv_states.

Definition ex_mg (g : Trace.gate) : C01.Model.gate (T:=Zi) :=
  (false, [], gqs g, match gid g with 1 => sU | 2 => sA | _ => sB end).
Definition ex_fuse_c : list Trace.gate :=
  [mkGate 0 [0;1] KOrd; mkGate 1 [2] KOrd; mkGate 2 [0] KOrd; mkGate 3 [1;2] KOrd].
Example fuse_equiv_matrices_hyps :
  Forall (mvalid 3 ex_mg (gsupp 3)) ex_fuse_c
  /\ (exists qs gs, In (IGroup qs gs) (fuse_model 3 ex_fuse_c 2))
  /\ circ_op Ziops 3 (map ex_mg (flatten (fuse_model 3 ex_fuse_c 2))) = circ_op Ziops 3 (map ex_mg ex_fuse_c)
  /\ map gid (flatten (fuse_model 3 ex_fuse_c 2)) <> map gid ex_fuse_c.
Proof.
  split; [|split; [|split]].
  - unfold ex_fuse_c, mvalid, gate_wf, ex_mg. fin.
  - vm_compute. eexists _, _. left. reflexivity.
  - vm_compute. reflexivity.
  - vm_compute. discriminate.
Qed.

(* The fused queue as the backend executes it.  [to_qitems] turns the output of fuse into a C01 queue
   (a group = FusedGate(target_qubits, members)); C01.execute_queue applies to each FusedGate the
   matrix of C01's model of NumpyBackend.matrix_fused (eye, then for each member in order
   "member matrix, with controls as block_diag, kron identity, transposed onto its qubits" times the
   accumulated matrix).  [mgood]: the letter's matrix gate is well formed, acts inside the letter's
   support, has the matrix size the reshape demands, and the letter's qubits are < n. *)
Theorem fused_execution_equals_original :
  forall (T : Type) (K : ops T), semiring K ->
  forall (n : nat) (mg : Trace.gate -> C01.Model.gate (T:=T)) (c : list Trace.gate) (max_qubits : nat) (v : vec T),
    Forall (mgood n mg) c -> length v = 2 ^ n ->
    execute_queue K n (to_qitems mg (fuse_model n c max_qubits)) v = execute K n (map mg c) v.
Proof. intros T K HK n mg c k v. exact (fused_execution_proof K HK n mg c k v). Qed.
Print Assumptions fused_execution_equals_original.

(* FusedGate.matrix of every group produced by fuse = ordered product of its members' operators
   (instance of C01.fused_gate_ok: the hypotheses of that theorem hold for every group) *)
Theorem fused_group_matrix :
  forall (T : Type) (K : ops T), semiring K ->
  forall (n : nat) (mg : Trace.gate -> C01.Model.gate (T:=T)) (c : list Trace.gate) (max_qubits : nat) qs gs,
    Forall (mgood n mg) c -> In (IGroup qs gs) (fuse_model n c max_qubits) ->
    embed K n qs (matrix_fused K qs (map mg gs)) = circ_op K n (map mg gs).
Proof. intros T K HK n mg c k qs gs. exact (fused_group_matrix_proof K HK n mg c k qs gs). Qed.
Print Assumptions fused_group_matrix.

Example fused_execution_hyps :
  Forall (mgood 3 ex_mg) ex_fuse_c
  /\ execute_queue Ziops 3 (to_qitems ex_mg (fuse_model 3 ex_fuse_c 2)) (map (fun i => (Z.of_nat i, 1%Z)) (seq 0 8))
      = execute Ziops 3 (map ex_mg ex_fuse_c) (map (fun i => (Z.of_nat i, 1%Z)) (seq 0 8)).
Proof.
  split.
  - unfold ex_fuse_c, mgood, mvalid, gate_wf, gate_shape_ok, shape, ex_mg. fin.
  - vm_compute. reflexivity.
Qed.

(* Light cone, reduced density matrix on S (Base/SemPtrace.reduced = partial trace over the other
   qubits), density matrices evolving by U rho U^+ (C01/Spec.sandwich).  No partial-trace premise:
   it is Base/SemProps.ptrace_ignores_outside.  What is required of the DROPPED gates: their
   operator is embed n qs U for an isometry U (embeds_unitary); every gate that is not in
   controlled_by form with a unitary matrix qualifies (InstMat.plain_gate_embeds_unitary).
   NOT covered (stated in the evidence): dropped gates in controlled_by form (operator cembed;
   needs cembed n cs ts M = embed n (cs++ts) (controlled M)), and the last step of
   Circuit.light_cone, running the re-indexed kept gates on |cone| qubits instead of n. *)
Theorem light_cone_reduced_state_matrices :
  forall (T : Type) (K : ops T) (cj : T -> T), semiring K -> conj_ok K cj ->
  forall (n : nat) (mg : Trace.gate -> C01.Model.gate (T:=T)) (c : list Trace.gate) (S : list nat) (rho : mat T),
    Forall (mvalid n mg gqs) c ->
    (forall g, In g (lc_dropped c S) -> embeds_unitary K cj n mg g) ->
    (forall q, In q S -> q < n) -> wf_mat n rho ->
    reduced K n S (trun (dact K cj n mg) c rho) = reduced K n S (trun (dact K cj n mg) (snd (lc_sweep c S)) rho).
Proof.
  intros T K cj HK HC n mg c S rho. exact (light_cone_reduced_matrices_proof K cj HK n mg HC c S rho).
Qed.
Print Assumptions light_cone_reduced_state_matrices.

Theorem plain_unitary_gates_qualify :
  forall (T : Type) (K : ops T) (cj : T -> T) (n : nat) (mg : Trace.gate -> C01.Model.gate (T:=T)) g cs ts M,
    mg g = (false, cs, ts, M) -> gate_wf n (mg g) ->
    wf_mat (length (isort cs ++ ts)) M ->
    mmul K (madj K cj (length (isort cs ++ ts)) M) M = eye K (2 ^ length (isort cs ++ ts)) ->
    embeds_unitary K cj n mg g.
Proof. intros T K cj n mg g cs ts M. exact (plain_gate_embeds_unitary K cj n mg g cs ts M). Qed.
Print Assumptions plain_unitary_gates_qualify.

Definition ex_lc_c : list Trace.gate := [mkGate 0 [0;1] KOrd; mkGate 1 [2] KOrd; mkGate 2 [0] KOrd].
Example light_cone_reduced_state_matrices_hyps :
  Forall (mvalid 3 ex_mg gqs) ex_lc_c
  /\ lc_dropped ex_lc_c [0] = [mkGate 1 [2] KOrd]
  /\ (forall g, In g (lc_dropped ex_lc_c [0]) -> embeds_unitary Ziops zi_conj 3 ex_mg g)
  /\ wf_mat 3 sRho
  /\ reduced Ziops 3 [0] (trun (dact Ziops zi_conj 3 ex_mg) ex_lc_c sRho)
      = reduced Ziops 3 [0] (trun (dact Ziops zi_conj 3 ex_mg) (snd (lc_sweep ex_lc_c [0])) sRho)
  /\ trun (dact Ziops zi_conj 3 ex_mg) ex_lc_c sRho
      <> trun (dact Ziops zi_conj 3 ex_mg) (snd (lc_sweep ex_lc_c [0])) sRho.
Proof.
  split; [|split; [|split; [|split; [|split]]]].
  - unfold ex_lc_c, mvalid, gate_wf, ex_mg. fin.
  - reflexivity.
  - intros g Hg. change (lc_dropped ex_lc_c [0]) with [mkGate 1 [2] KOrd] in Hg.
    destruct Hg as [<-|[]].
    apply (plain_gate_embeds_unitary Ziops zi_conj 3 ex_mg _ [] [2] sU); [reflexivity| | |].
    + unfold gate_wf, ex_mg. fin.
    + vm_compute. repeat constructor.
    + vm_compute. reflexivity.
  - unfold sRho. apply tab2_wf.
  - vm_compute. reflexivity.
  - vm_compute. discriminate.
Qed.

(* ================================================================ the light-cone circuit AS RETURNED (re-indexed) *)
(* two facts of linear algebra about Base/SemPtrace.reduced, for all matrices over a commutative semiring:
   an operator embedded on exactly the kept qubits commutes with the partial trace over the rest, and
   partial traces compose (inner set given by positions inside the outer, any order) *)
Theorem ptrace_of_embedded_on_kept :
  forall (T : Type) (K : ops T) (cj : T -> T), semiring K -> conj_ok K cj ->
  forall n fq (V rho : mat T), NoDup fq -> (forall q, In q fq -> q < n) -> wf_mat (length fq) V -> wf_mat n rho ->
    reduced K n fq (sandwich K cj n (embed K n fq V) rho) = sandwich K cj (length fq) V (reduced K n fq rho).
Proof. intros T K cj HK HC. exact (reduced_embed_kept K cj HK HC). Qed.
Print Assumptions ptrace_of_embedded_on_kept.

Theorem ptrace_compose :
  forall (T : Type) (K : ops T), semiring K ->
  forall n fq S (rho : mat T), incr_from 0 fq -> (forall q, In q fq -> q < n) -> (forall q, In q S -> In q fq) ->
    wf_mat n rho ->
    reduced K (length fq) (map (fun q => C01.Model.index_of q fq) S) (reduced K n fq rho) = reduced K n S rho.
Proof. intros T K HK. exact (reduced_reduced K HK). Qed.
Print Assumptions ptrace_compose.

(* the qubit map of the model (compared exactly with the dictionary the real light_cone returns, on
   every harness case) is the position in the sorted cone used by C01's relabel *)
Theorem light_cone_qubit_map_is_position : forall c S q,
  In q (fst (lc_sweep c S)) ->
  lc_map (fst (lc_sweep c S)) q = Some (C01.Model.index_of q (fst (lc_sweep c S))).
Proof. intros c S q. apply model_index_of_is_position. Qed.
Print Assumptions light_cone_qubit_map_is_position.

(* operator of the kept gates on n qubits = operator of the returned circuit embedded on the cone *)
Theorem kept_op_is_embedded_cone_circuit :
  forall (T : Type) (K : ops T), semiring K ->
  forall (n : nat) (mg : Trace.gate -> C01.Model.gate (T:=T)) (c : list Trace.gate) (S : list nat),
    Forall (mvalid n mg gqs) c -> (forall q, In q S -> q < n) -> (forall g q, In g c -> In q (gqs g) -> q < n) ->
    let cone := fst (lc_sweep c S) in
    circ_op K n (map mg (snd (lc_sweep c S)))
    = embed K n cone (circ_op K (length cone) (map (fun g => relabel cone (mg g)) (snd (lc_sweep c S)))).
Proof. intros T K HK n mg c S. exact (kept_op_is_embedded_cone_circuit_proof K HK n mg c S). Qed.
Print Assumptions kept_op_is_embedded_cone_circuit.

(* THE statement of the property for light_cone: cone = sorted final qubit set; kept' = gates of the
   returned circuit = kept gates re-indexed by qubit_map (position in sorted cone); S' = requested
   qubits, in the order given, re-indexed.  For every circuit of well-formed matrix gates whose dropped
   gates are embedded isometries, every S (any order, duplicates allowed) and EVERY n-qubit matrix rho:
   reduced state on S of the full run = reduced state on S' of the returned |cone|-qubit circuit run on
   the reduced initial state Tr_{not cone} rho. *)
Theorem light_cone_reindexed_reduced_state :
  forall (T : Type) (K : ops T) (cj : T -> T), semiring K -> conj_ok K cj ->
  forall (n : nat) (mg : Trace.gate -> C01.Model.gate (T:=T)) (c : list Trace.gate) (S : list nat) (rho : mat T),
    Forall (mvalid n mg gqs) c ->
    (forall g, In g (lc_dropped c S) -> embeds_unitary K cj n mg g) ->
    (forall q, In q S -> q < n) -> (forall g q, In g c -> In q (gqs g) -> q < n) -> wf_mat n rho ->
    let cone := fst (lc_sweep c S) in
    let kept' := map (fun g => relabel cone (mg g)) (snd (lc_sweep c S)) in
    let S' := map (fun q => C01.Model.index_of q cone) S in
    reduced K n S (trun (dact K cj n mg) c rho)
    = reduced K (length cone) S' (sandwich K cj (length cone) (circ_op K (length cone) kept') (reduced K n cone rho)).
Proof. intros T K cj HK HC n mg c S rho. exact (light_cone_reindexed_proof K cj HK HC n mg c S rho). Qed.
Print Assumptions light_cone_reindexed_reduced_state.

Example light_cone_reindexed_hyps :
  (forall g q, In g ex_lc_c -> In q (gqs g) -> q < 3)
  /\ fst (lc_sweep ex_lc_c [0]) = [0; 1]
  /\ reduced Ziops 3 [0] (trun (dact Ziops zi_conj 3 ex_mg) ex_lc_c sRho)
      = reduced Ziops 2 [0] (sandwich Ziops zi_conj 2
          (circ_op Ziops 2 (map (fun g => relabel [0; 1] (ex_mg g)) (snd (lc_sweep ex_lc_c [0]))))
          (reduced Ziops 3 [0; 1] sRho)).
Proof.
  split; [|split].
  - unfold ex_lc_c. fin.
  - reflexivity.
  - vm_compute. reflexivity.
Qed.

(* ================================================================ dropped gates in controlled_by form *)
(* Base/SemCtrl.cembed_is_embed_ctrl: cembed n cs ts M = embed n (cs ++ ts) (diag(1, ..., 1, M)), and
   diag(1, ..., 1, M) is an isometry when M is.  So a gate in controlled_by form (C01: flag true, operator
   cembed n controls targets M, M of size 2^|targets|) with M^+ M = 1 also qualifies as a dropped gate. *)
From QV Require Import Base.SemCtrl.

Theorem controlled_unitary_gates_qualify :
  forall (T : Type) (K : ops T) (cj : T -> T), semiring K -> conj_ok K cj ->
  forall (n : nat) (mg : Trace.gate -> C01.Model.gate (T:=T)) g cs ts M,
    mg g = (true, cs, ts, M) -> gate_wf n (mg g) ->
    wf_mat (length ts) M -> mmul K (madj K cj (length ts) M) M = eye K (2 ^ length ts) ->
    embeds_unitary K cj n mg g.
Proof. intros T K cj HK HC n mg g cs ts M. exact (ctrl_gate_embeds_unitary K cj HK HC n mg g cs ts M). Qed.
Print Assumptions controlled_unitary_gates_qualify.

(* every well-formed gate, plain or controlled_by, whose own matrix is an isometry *)
Theorem unitary_gates_qualify :
  forall (T : Type) (K : ops T) (cj : T -> T), semiring K -> conj_ok K cj ->
  forall (n : nat) (mg : Trace.gate -> C01.Model.gate (T:=T)) g,
    gate_wf n (mg g) -> gate_isometry K cj (mg g) -> embeds_unitary K cj n mg g.
Proof. intros T K cj HK HC n mg g. exact (isometry_gate_embeds_unitary K cj HK HC n mg g). Qed.
Print Assumptions unitary_gates_qualify.

(* the light-cone theorems with the premise on the dropped gates stated on the gates themselves
   (gate_isometry: the gate's matrix is well shaped and M^+ M = 1), for gates of EITHER form *)
Theorem light_cone_reduced_state_matrices_ctrl :
  forall (T : Type) (K : ops T) (cj : T -> T), semiring K -> conj_ok K cj ->
  forall (n : nat) (mg : Trace.gate -> C01.Model.gate (T:=T)) (c : list Trace.gate) (S : list nat) (rho : mat T),
    Forall (mvalid n mg gqs) c ->
    (forall g, In g (lc_dropped c S) -> gate_isometry K cj (mg g)) ->
    (forall q, In q S -> q < n) -> wf_mat n rho ->
    reduced K n S (trun (dact K cj n mg) c rho) = reduced K n S (trun (dact K cj n mg) (snd (lc_sweep c S)) rho).
Proof. intros T K cj HK HC n mg c S rho. exact (light_cone_reduced_ctrl_proof K cj HK HC n mg c S rho). Qed.
Print Assumptions light_cone_reduced_state_matrices_ctrl.

Theorem light_cone_reindexed_reduced_state_ctrl :
  forall (T : Type) (K : ops T) (cj : T -> T), semiring K -> conj_ok K cj ->
  forall (n : nat) (mg : Trace.gate -> C01.Model.gate (T:=T)) (c : list Trace.gate) (S : list nat) (rho : mat T),
    Forall (mvalid n mg gqs) c ->
    (forall g, In g (lc_dropped c S) -> gate_isometry K cj (mg g)) ->
    (forall q, In q S -> q < n) -> (forall g q, In g c -> In q (gqs g) -> q < n) -> wf_mat n rho ->
    let cone := fst (lc_sweep c S) in
    let kept' := map (fun g => relabel cone (mg g)) (snd (lc_sweep c S)) in
    let S' := map (fun q => C01.Model.index_of q cone) S in
    reduced K n S (trun (dact K cj n mg) c rho)
    = reduced K (length cone) S' (sandwich K cj (length cone) (circ_op K (length cone) kept') (reduced K n cone rho)).
Proof. intros T K cj HK HC n mg c S rho. exact (light_cone_reindexed_ctrl_proof K cj HK HC n mg c S rho). Qed.
Print Assumptions light_cone_reindexed_reduced_state_ctrl.

(* 3 qubits, S = [0]: gate 1 is sU on target 1 controlled_by qubit 2 (control above the target, so
   controls ++ targets = [2; 1] is not ascending), gate 3 is the plain unitary sU on qubit 2; both are
   dropped; gates 0 and 2 (sA, not unitary, on qubit 0) are kept *)
Definition ex_mg_ctrl (g : Trace.gate) : C01.Model.gate (T:=Zi) :=
  match gid g with
  | 1 => (true, [2], [1], sU)
  | 3 => (false, [], [2], sU)
  | _ => (false, [], gqs g, sA)
  end.
Definition ex_lc_ctrl : list Trace.gate :=
  [mkGate 0 [0] KOrd; mkGate 1 [2; 1] KOrd; mkGate 2 [0] KOrd; mkGate 3 [2] KOrd].
Example light_cone_ctrl_hyps :
  Forall (mvalid 3 ex_mg_ctrl gqs) ex_lc_ctrl
  /\ lc_dropped ex_lc_ctrl [0] = [mkGate 1 [2; 1] KOrd; mkGate 3 [2] KOrd]
  /\ (forall g, In g (lc_dropped ex_lc_ctrl [0]) -> gate_isometry Ziops zi_conj (ex_mg_ctrl g))
  /\ (forall g q, In g ex_lc_ctrl -> In q (gqs g) -> q < 3)
  /\ gate_op Ziops 3 (ex_mg_ctrl (mkGate 1 [2; 1] KOrd)) = cembed Ziops 3 [2] [1] sU
  /\ fst (lc_sweep ex_lc_ctrl [0]) = [0]
  /\ reduced Ziops 3 [0] (trun (dact Ziops zi_conj 3 ex_mg_ctrl) ex_lc_ctrl sRho)
      = reduced Ziops 3 [0] (trun (dact Ziops zi_conj 3 ex_mg_ctrl) (snd (lc_sweep ex_lc_ctrl [0])) sRho)
  /\ reduced Ziops 3 [0] (trun (dact Ziops zi_conj 3 ex_mg_ctrl) ex_lc_ctrl sRho)
      = reduced Ziops 1 [0] (sandwich Ziops zi_conj 1
          (circ_op Ziops 1 (map (fun g => relabel [0] (ex_mg_ctrl g)) (snd (lc_sweep ex_lc_ctrl [0]))))
          (reduced Ziops 3 [0] sRho))
  /\ trun (dact Ziops zi_conj 3 ex_mg_ctrl) ex_lc_ctrl sRho
      <> trun (dact Ziops zi_conj 3 ex_mg_ctrl) (snd (lc_sweep ex_lc_ctrl [0])) sRho
  (* the controlled gate alone already changes the state, and changes the reduced state on its own qubits *)
  /\ dact Ziops zi_conj 3 ex_mg_ctrl (mkGate 1 [2; 1] KOrd) sRho <> sRho
  /\ reduced Ziops 3 [1] (dact Ziops zi_conj 3 ex_mg_ctrl (mkGate 1 [2; 1] KOrd) sRho) <> reduced Ziops 3 [1] sRho.
Proof.
  split; [|split; [|split; [|split; [|split; [|split; [|split; [|split; [|split; [|split]]]]]]]]].
  - unfold ex_lc_ctrl, mvalid, gate_wf, ex_mg_ctrl. fin.
  - reflexivity.
  - intros g Hg. change (lc_dropped ex_lc_ctrl [0]) with [mkGate 1 [2; 1] KOrd; mkGate 3 [2] KOrd] in Hg.
    destruct Hg as [<-|[<-|[]]]; (split; [vm_compute; repeat constructor|vm_compute; reflexivity]).
  - unfold ex_lc_ctrl. fin.
  - reflexivity.
  - reflexivity.
  - vm_compute. reflexivity.
  - vm_compute. reflexivity.
  - vm_compute. discriminate.
  - vm_compute. discriminate.
  - vm_compute. discriminate.
Qed.
