From Coq Require Import List Bool Arith Lia.
From QV Require Import Base.Trace C07.Model C07.Proofs.
Import ListNotations.
Theorem trace_checker_sound n c1 c2 : gtrace_equivn_b n c1 c2 = true -> gteqn n c1 c2.
Proof. exact (gtrace_equivn_b_sound n c1 c2). Qed.
Print Assumptions trace_checker_sound.
